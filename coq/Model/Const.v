(* Const.v — constant polynomial arrays (what numpoly.polynomial(ndarray) builds) and the numeric
   division wrappers with their constancy guards (C11).  No proofs. *)
From mathcomp Require Import all_ssreflect all_algebra.
From NP Require Import Base Poly Query.
Set Implicit Arguments. Unset Strict Implicit. Unset Printing Implicit Defensive.
Import GRing.Theory.
Local Open Scope ring_scope.

(* which operands a numeric division function requires to be constant (read from the source) *)
Record divguard := DivGuard { g_dividend_const : bool; g_divisor_const : bool }.

Section Const.
Variable R : comRingType.

Definition pconst (s : seq nat) (v : seq R) : parr R := Parr [:: 0%N] s [:: [:: 0%N]] [:: v].

(* floor_divide / true_divide / remainder / divmod: align, refuse non-constants, then apply the
   numpy function to every coefficient column against the divisor's numeric values *)
Definition pnumdiv (g : divguard) (o : opts) (f : R -> R -> R) (a b : parr R) : res (parr R) :=
  rbind (align_polys o [:: a; b]) (fun ps =>
    match ps with
    | [:: a'; b'] =>
        if (g_divisor_const g && ~~ isconstant b') || (g_dividend_const g && ~~ isconstant a')
        then Err FeatureNotSupported
        else match tonumpy b' with
             | Ok (_, vb) => clean o (Parr (names a') (shape a') (rows a') [seq zipw f c vb | c <- cols a'])
             | Err e => Err e
             end
    | _ => Err OtherError
    end).

End Const.
