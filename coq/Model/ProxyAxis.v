(* ProxyAxis.v — argmin / argmax / amin / amax WITH an axis (argmin.py, argmax.py, amin.py, amax.py; C19, C11).  No proofs.

   numpy.argmin(proxy, axis) works lane by lane: a lane is the list of flat positions that differ only in the
   coordinate of the reduced axis, in increasing coordinate.  The model takes the lanes as data (for EVERY list of
   lanes, whatever the shape and the axis):
     argmin : per lane, the place (within the lane) of the smallest rank;
     argmax : per lane, the place of the largest rank of the reversed-array ranks reversed back (argmax.py);
     amin / amax : the element at argsort(ranks)[min/max of the lane's ranks], i.e. the flat position holding it. *)
From mathcomp Require Import all_ssreflect all_algebra.
From NP Require Import Base Poly Order Compare Proxy.
Set Implicit Arguments. Unset Strict Implicit. Unset Printing Implicit Defensive.
Import GRing.Theory Num.Theory.

Definition lane_vals (P : seq nat) (lane : seq nat) : seq nat := [seq nth 0%N P i | i <- lane].
Definition mins (vs : seq nat) : nat := foldr minn (head 0%N vs) vs.
Definition lane_argmin (P lane : seq nat) : nat := index (mins (lane_vals P lane)) (lane_vals P lane).
Definition lane_argmax (P lane : seq nat) : nat := index (maxs (lane_vals P lane)) (lane_vals P lane).

Section ProxyAxis.
Variable R : realDomainType.
Notation parr := (parr R).

Definition rproxy (g r : bool) (p : parr) : seq nat := rev (sortable_proxy g r (prev p)).
Definition pargmin_axis (g r : bool) (p : parr) (lanes : seq (seq nat)) : seq nat :=
  [seq lane_argmin (sortable_proxy g r p) l | l <- lanes].
Definition pargmax_axis (g r : bool) (p : parr) (lanes : seq (seq nat)) : seq nat :=
  [seq lane_argmax (rproxy g r p) l | l <- lanes].
Definition pamin_axis (g r : bool) (p : parr) (lanes : seq (seq nat)) : seq nat :=
  let P := sortable_proxy g r p in [seq index (mins (lane_vals P l)) P | l <- lanes].
Definition pamax_axis (g r : bool) (p : parr) (lanes : seq (seq nat)) : seq nat :=
  let P := sortable_proxy g r p in [seq index (maxs (lane_vals P l)) P | l <- lanes].
End ProxyAxis.
