(* Deriv.v — derivative, gradient, hessian (C06).  No proofs. *)
From mathcomp Require Import all_ssreflect all_algebra.
From NP Require Import Base Poly.
Set Implicit Arguments. Unset Strict Implicit. Unset Printing Implicit Defensive.
Import GRing.Theory.
Local Open Scope ring_scope.

Section Deriv.
Variable R : comRingType.
Notation parr := (parr R).

(* one differentiation step of derivative.py, for the exponent column idx:
   coefficients are scaled by the exponent, the exponent is decremented (uint32: 0 wraps to
   2^32-1; such terms have coefficient 0 and a non-zero exponent, so the rebuild with
   retain_coefficients=False drops them — modelled by not generating them), the polynomial is
   rebuilt under the global retain_names flag with the reference's names and re-aligned with it *)
Definition dterm (idx : nat) (t : term R) : term R :=
  (set_nth 0%N t.1 idx (nth 0%N t.1 idx).-1, [seq (nth 0%N t.1 idx)%:R * c | c <- t.2]).

Definition dterms (idx : nat) (p : parr) : seq (term R) :=
  let ts := [seq dterm idx t | t <- terms p & nth 0%N t.1 idx != 0%N] in
  if ts is [::] then [:: (nseq (size (names p)) 0%N, zeros R (psize p))] else ts.

Definition deriv_step (o : opts) (st : parr * parr) (idx : nat) : res (parr * parr) :=
  let: (p, pref) := st in
  if ~~ (idx < size (names p))%N then Err OtherError else
  let ts := dterms idx p in
  rbind (from_attributes false (o_retn o) (names pref) (shape p) (unzip1 ts) (unzip2 ts)) (fun q =>
  rbind (align_polys o [:: q; pref]) (fun qs =>
    match qs with [:: q'; pref'] => Ok (q', pref') | _ => Err OtherError end)).

(* variables designated by name (indeterminate index) *)
Fixpoint derivative_names (o : opts) (st : parr * parr) (vs : seq nat) : res parr :=
  match vs with
  | [::] => Ok st.1
  | v :: vs' =>
      if v \notin names st.1 then Err ValueError else
      rbind (deriv_step o st (index v (names st.1))) (fun st' => derivative_names o st' vs')
  end.

Definition derivative (o : opts) (p : parr) (vs : seq nat) : res parr := derivative_names o (p, p) vs.

(* numpoly.concatenate of 1-slices along a new first axis: align exponents, join columns, clean *)
Definition pstack0 (o : opts) (ps : seq parr) : res parr :=
  match ps with
  | [::] => Err ValueError
  | p0 :: _ =>
      if ~~ all (fun p => shape p == shape p0) ps then Err ValueError else
      let qs := align_expons ps in
      let q0 := head p0 qs in
      clean o (Parr (names q0) (size ps :: shape p0) (rows q0)
                 [seq flatten [seq nth [::] (cols q) k | q <- qs] | k <- iota 0 (size (rows q0))])
  end.

Definition gradient (o : opts) (p : parr) : res parr :=
  rbind (rseq [seq derivative o p [:: v] | v <- names p]) (pstack0 o).

Definition hessian (o : opts) (p : parr) : res parr :=
  rbind (gradient o p) (fun g =>
  (* grad, _ = align_indeterminants(gradient(poly), poly.indeterminants) *)
  let g' := head g (align_indets [:: g; Parr (names p) [::] [::] [::]]) in
  rbind (rseq [seq derivative o g' [:: v] | v <- names p]) (pstack0 o)).

End Deriv.
