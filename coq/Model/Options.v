(* Options.v — numpoly/option.py as a state machine over nested user programs.
   The behaviour is parametrised by the facts [ocode] that the translator extracts from the
   current source, so that a changed source yields a changed (still executable) model. *)
From mathcomp Require Import all_ssreflect.
Set Implicit Arguments. Unset Strict Implicit. Unset Printing Implicit Defensive.

(* keys and values are tokens: key k < number of shipped options is valid *)
Definition kwargs := seq (nat * nat).
Definition store := seq (nat * nat).          (* association list in dict order *)

Record ocode := OCode {
  c_init_copies   : bool;   (* _NUMPOLY_OPTIONS = DEFAULTS.copy()  (not the same object) *)
  c_get_copies    : bool;   (* get_options() returns a copy of the store *)
  c_getdef_copies : bool;   (* get_options(defaults=True) returns a copy of the defaults *)
  c_validate_first: bool;   (* set_options checks every key before updating anything *)
  c_validates     : bool;   (* set_options rejects keys that are not in the store at all *)
  c_snapshot      : nat;    (* how global_options takes its snapshot: 0 none, 1 get_options(), 2 explicit copy *)
  c_finally       : bool;   (* the restore runs in a finally clause *)
  c_restores      : bool    (* global_options restores the snapshot at all *)
}.
Definition good_code := OCode true true true true true 1 true true.

Record ostate := OState { st : store; df : store }.

Fixpoint lookup (s : store) (k : nat) : option nat :=
  match s with
  | [::] => None
  | (k', v) :: s' => if k' == k then Some v else lookup s' k
  end.

(* dict item assignment: replace in place, or append a new key *)
Fixpoint upd (s : store) (k v : nat) : store :=
  match s with
  | [::] => [:: (k, v)]
  | (k', v') :: s' => if k' == k then (k, v) :: s' else (k', v') :: upd s' k v
  end.

Definition update (s : store) (kw : kwargs) : store := foldl (fun s kv => upd s kv.1 kv.2) s kw.
Definition has_key (s : store) (k : nat) : bool := k \in unzip1 s.
Definition all_valid (s : store) (kw : kwargs) : bool := all (fun kv => has_key s kv.1) kw.

(* writing the store, with the aliasing that a non-copying initialisation would cause *)
Definition put (c : ocode) (x : ostate) (s : store) : ostate :=
  if c_init_copies c then OState s (df x) else OState s s.
Definition put_df (c : ocode) (x : ostate) (d : store) : ostate :=
  if c_init_copies c then OState (st x) d else OState d d.

(* set_options: returns the new state and whether KeyError was raised *)
Fixpoint set_interleaved (s : store) (kw : kwargs) : store * bool :=
  match kw with
  | [::] => (s, false)
  | (k, v) :: kw' => if has_key s k then set_interleaved (upd s k v) kw' else (s, true)
  end.

Definition set_options (c : ocode) (x : ostate) (kw : kwargs) : ostate * bool :=
  if ~~ c_validates c then (put c x (update (st x) kw), false) else
  if c_validate_first c then
    if all_valid (st x) kw then (put c x (update (st x) kw), false) else (x, true)
  else let: (s, e) := set_interleaved (st x) kw in (put c x s, e).

(* user programs *)
Inductive prog :=
  | PSet of kwargs                 (* set_options( **kw), KeyError caught by the caller *)
  | PGetMut of nat & nat           (* d = get_options(); d[k] = v *)
  | PDefMut of nat & nat           (* d = get_options(defaults=True); d[k] = v *)
  | PBlock of kwargs & seq prog    (* with global_options( **kw): body   (KeyError on entry caught) *)
  | PRaise                         (* raise inside the current block *)
  | PTry of seq prog.              (* try: body except: pass *)

(* observation after each step: outcome tag, store, defaults *)
Inductive otag := TOk | TKeyError | TRaised.
Definition oobs := (otag * store * store)%type.
Record oresult := ORes { r_state : ostate; r_raised : bool; r_trace : seq oobs }.

Definition snap (t : otag) (x : ostate) : oobs := (t, st x, df x).

(* sequencing: stop at the first statement that raises *)
Definition seq_step (ex : prog -> ostate -> oresult) (acc : oresult) (p : prog) : oresult :=
  if r_raised acc then acc
  else let r := ex p (r_state acc) in ORes (r_state r) (r_raised r) (r_trace acc ++ r_trace r).

(* is the snapshot taken by global_options detached from the live store?
   kind 0: no usable snapshot, 1: options = get_options(), 2: an explicit copy *)
Definition snapshot_detached (c : ocode) : bool :=
  match c_snapshot c with 1 => c_get_copies c | 2 => true | _ => false end.

Section Exec.
Variable c : ocode.

Fixpoint exec (p : prog) (x : ostate) : oresult :=
  match p with
  | PSet kw =>
      let: (x', e) := set_options c x kw in
      ORes x' false [:: snap (if e then TKeyError else TOk) x']
  | PGetMut k v =>
      let x' := if c_get_copies c then x else put c x (upd (st x) k v) in
      ORes x' false [:: snap TOk x']
  | PDefMut k v =>
      let x' := if c_getdef_copies c then x else put_df c x (upd (df x) k v) in
      ORes x' false [:: snap TOk x']
  | PRaise => ORes x true [:: snap TRaised x]
  | PTry body =>
      let r := foldl (seq_step exec) (ORes x false [::]) body in
      ORes (r_state r) false (r_trace r ++ [:: snap TOk (r_state r)])
  | PBlock kw body =>
      (* options = get_options(); set_options( **kwargs); try: yield finally: set_options( **options) *)
      let: (x1, e) := set_options c x kw in
      if e then ORes x1 false [:: snap TKeyError x1] else
      let r := foldl (seq_step exec) (ORes x1 false [:: snap TOk x1]) body in
      let x2 := r_state r in
      let snapshot := if snapshot_detached c then st x else st x2 in
      let x3 := if c_restores c && (c_finally c || ~~ r_raised r)
                then (set_options c x2 snapshot).1 else x2 in
      ORes x3 (r_raised r) (r_trace r ++ [:: snap (if r_raised r then TRaised else TOk) x3])
  end.

Definition exec_seq (ps : seq prog) (x : ostate) : oresult :=
  foldl (seq_step exec) (ORes x false [::]) ps.

End Exec.

(* the top-level harness catches whatever propagates *)
Definition run (c : ocode) (defaults : store) (ps : seq prog) : seq oobs :=
  r_trace (exec_seq c ps (OState defaults defaults)).

(* traces with the outcome tag as a number, comparable with ==  (0 ok, 1 KeyError, 2 raised) *)
Definition tagn (t : otag) : nat := match t with TOk => 0 | TKeyError => 1 | TRaised => 2 end.
Definition run_enc (c : ocode) (defaults : store) (ps : seq prog) : seq (nat * store * store) :=
  [seq (tagn o.1.1, o.1.2, o.2) | o <- run c defaults ps].
