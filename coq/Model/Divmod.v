(* Divmod.v — polynomial long division (poly_divmod, get_division_candidate) (C05).

   The loop of divmod.py works on aligned arrays; what it does depends only on the polynomial that
   every element denotes, so the model keeps, per element, sparse term lists (monomial = exponent
   vector over the common, index-sorted names; duplicates add up) for the running quotient, the
   running dividend and the divisor:

     candidate   the divisor monomials are visited from the largest down in numpy.lexsort order of
                 the exponent columns (last indeterminate most significant); for a monomial e2 the
                 elements whose divisor's LEADING term is e2 are included; among them the largest
                 dividend monomial e1 (same order) that e2 divides and that has a non-zero
                 coefficient in an included element is chosen;
     step        for every included element i with coefficient c1 != 0 at e1:
                 k = c1 / (coefficient of e2 in divisor i);  quotient_i += k x^(e1-e2);
                 dividend_i -= k x^(e1-e2) * divisor_i;
     loop        until no candidate is left; the running dividend is the remainder.

   No proofs here. *)
From mathcomp Require Import all_ssreflect all_algebra.
From NP Require Import Base.
Set Implicit Arguments. Unset Strict Implicit. Unset Printing Implicit Defensive.
Import GRing.Theory.
Local Open Scope ring_scope.

Definition mono := seq nat.

(* numpy.lexsort(exponents.T): the last column is the primary key *)
Fixpoint lexlt (a b : seq nat) : bool :=
  match a, b with
  | x :: a', y :: b' => (x < y)%N || ((x == y) && lexlt a' b')
  | [::], _ :: _ => true
  | _, _ => false
  end.
Definition mlt (a b : mono) : bool := lexlt (rev a) (rev b).

Fixpoint mdivides (a b : mono) : bool :=
  match a, b with
  | x :: a', y :: b' => (x <= y)%N && mdivides a' b'
  | [::], [::] => true
  | _, _ => false
  end.
Definition msub (a b : mono) : mono := [seq (nth 0 a k - nth 0 b k)%N | k <- iota 0 (maxn (size a) (size b))].
Definition madd (a b : mono) : mono := [seq (nth 0 a k + nth 0 b k)%N | k <- iota 0 (maxn (size a) (size b))].

Definition mmax (l : seq mono) : option mono :=
  foldr (fun m acc => match acc with None => Some m | Some x => if mlt x m then Some m else Some x end) None l.

Section Div.
Variable F : fieldType.
Definition spoly := seq (mono * F).

Definition coef_at (p : spoly) (m : mono) : F :=
  foldr (fun t acc => if t.1 == m then t.2 + acc else acc) 0 p.
Definition support (p : spoly) : seq mono := [seq m <- undup (unzip1 p) | coef_at p m != 0].
Definition norm (p : spoly) : spoly := [seq (m, coef_at p m) | m <- support p].
Definition lead (g : spoly) : option mono := mmax (support g).

Definition sscale (k : F) (d : mono) (g : spoly) : spoly := [seq (madd t.1 d, k * t.2) | t <- g].

Record elem := Elem { e_q : spoly; e_d : spoly; e_g : spoly }.

(* candidate: Some (e1, e2) or None *)
Definition sort_desc (l : seq mono) : seq mono := rev (sort (fun a b => ~~ mlt b a) (undup l)).

Definition pick_e1 (e2 : mono) (es : seq elem) : option mono :=
  mmax [seq m <- flatten [seq support (e_d e) | e <- es & lead (e_g e) == Some e2] | mdivides e2 m].

Fixpoint first_some A B (f : A -> option B) (l : seq A) : option (A * B) :=
  match l with
  | [::] => None
  | x :: l' => if f x is Some y then Some (x, y) else first_some f l'
  end.

Definition candidate (es : seq elem) : option (mono * mono) :=
  let leads := sort_desc (pmap (fun e => lead (e_g e)) es) in
  first_some (fun e2 => pick_e1 e2 es) leads.

Definition step_elem (e2 e1 : mono) (e : elem) : elem :=
  if (lead (e_g e) == Some e2) && (coef_at (e_d e) e1 != 0) then
    let k := coef_at (e_d e) e1 / coef_at (e_g e) e2 in
    let d := msub e1 e2 in
    Elem (norm ((d, k) :: e_q e)) (norm (e_d e ++ sscale (- k) d (e_g e))) (e_g e)
  else e.

Fixpoint run (fuel : nat) (es : seq elem) : res (seq elem) :=
  match fuel with
  | 0%N => Err OutOfFuel
  | fuel'.+1 =>
      match candidate es with
      | None => Ok es
      | Some (e2, e1) => run fuel' [seq step_elem e2 e1 e | e <- es]
      end
  end.

Definition start (fs gs : seq spoly) : seq elem := [seq Elem [::] (norm fg.1) (norm fg.2) | fg <- zip fs gs].

Definition divmod (fuel : nat) (fs gs : seq spoly) : res (seq (spoly * spoly)) :=
  rmap (map (fun e => (e_q e, e_d e))) (run fuel (start fs gs)).

(* number of iterations actually used (for the evidence / trace comparison) *)
Fixpoint steps (fuel : nat) (es : seq elem) : nat :=
  match fuel with
  | 0%N => 0
  | fuel'.+1 => match candidate es with None => 0 | Some (e2, e1) => (steps fuel' [seq step_elem e2 e1 e | e <- es]).+1 end
  end.

End Div.
