(* Eval.v — calling a polynomial array: argument binding, numeric evaluation, substitution (C02).
   No proofs. *)
From mathcomp Require Import all_ssreflect all_algebra.
From NP Require Import Base Poly Query.
Set Implicit Arguments. Unset Strict Implicit. Unset Printing Implicit Defensive.
Import GRing.Theory.
Local Open Scope ring_scope.

Section Eval.
Variable R : comRingType.
Notation parr := (parr R).

(* an argument: a numeric array (shape, flat values) or a polynomial array *)
Inductive carg := ANum of seq nat & seq R | APoly of parr.

(* ---- call.py: binding of positional / keyword arguments ---------------------------------- *)
(* args: positional, None placeholders allowed; kwargs: (indeterminate index, argument).
   Result: one optional argument per name of the polynomial (None: not supplied). *)
Definition bind (ns : seq nat) (args : seq (option carg)) (kwargs : seq (nat * carg))
  : res (seq (option carg)) :=
  (* for arg, name in zip(args, names): if name in kwargs: raise TypeError *)
  if has (fun an => an.2 \in unzip1 kwargs) (zip args ns) then Err TypeError else
  (* extra_args = [key for key in parameters if key not in names] *)
  if has (fun k => k \notin ns) (unzip1 kwargs) then Err TypeError else
  Ok [seq (let pos := nth None args (index v ns) in
           if pos is Some a then Some a
           else (* the last keyword binding wins, as dict.update *)
             ohead [seq kv.2 | kv <- rev kwargs & kv.1 == v])
     | v <- ns].

Definition arg_shape (a : carg) : seq nat := match a with ANum s _ => s | APoly p => shape p end.

(* ---- all indeterminates numeric: a plain array ------------------------------------------------ *)
Definition num_at (s : seq nat) (a : carg) (j : nat) : R :=
  match a with ANum sa xs => nth 0 xs (bidx sa s j) | APoly _ => 0 end.

Definition call_numeric (p : parr) (bound : seq carg) : res (seq nat * seq R) :=
  match bshapes [seq arg_shape a | a <- bound] with
  | None => Err ValueError
  | Some s =>
      let m := prodn s in
      Ok (shape p ++ s,
          (* mathcomp's \sum / \prod are sealed and do not compute: folds instead *)
          flatten [seq [seq foldr +%R 0
                             [seq nth 0 t.2 i * foldr *%R 1 [seq num_at s ea.2 j ^+ ea.1 | ea <- zip t.1 bound]
                             | t <- terms p]
                       | j <- iota 0 m]
                  | i <- iota 0 (psize p)])
  end.

(* ---- general case: substitution with the C01 operations ---------------------------------------- *)
Definition as_poly (v : nat) (a : option carg) : parr :=
  match a with
  | None => Parr [:: v] [::] [:: [:: 1%N]] [:: [:: 1]]          (* the indeterminate itself *)
  | Some (ANum s xs) => Parr [:: 0%N] s [:: [:: 0%N]] [:: xs]    (* numpoly.polynomial(number) *)
  | Some (APoly q) => q
  end.

(* numpoly.outer(coefficient, term): every coefficient times every element of the term *)
Definition pouter (o : opts) (sc : seq nat) (c : seq R) (t : parr) : res parr :=
  clean o (Parr (names t) (sc ++ shape t) (rows t)
             [seq flatten [seq [seq ci * x | x <- col] | ci <- c] | col <- cols t]).

Definition ones_poly (s : seq nat) : parr := Parr [:: 0%N] s [:: [:: 0%N]] [:: nseq (prodn s) 1].

Definition term_poly (o : opts) (s : seq nat) (row : seq nat) (params : seq parr) : res parr :=
  foldl (fun acc ep => rbind acc (fun a => rbind (ppow o ep.2 ep.1) (fun pw => pmul o a pw)))
        (Ok (ones_poly s)) (zip row params).

Definition call_poly (o : opts) (p : parr) (bound : seq (option carg)) : res parr :=
  let params := [seq as_poly va.1 va.2 | va <- zip (names p) bound] in
  match bshapes [seq shape q | q <- params] with
  | None => Err ValueError
  | Some s =>
      rbind
        (foldl (fun acc t =>
                  rbind acc (fun out =>
                  rbind (term_poly o s t.1 params) (fun tp =>
                  rbind (pouter o (shape p) t.2 tp) (fun tmp =>
                  match out with
                  | None => Ok (Some tmp)
                  | Some x => rmap some (padd o x tmp)
                  end))))
               (Ok None) (terms p))
        (fun out =>
           match out with
           | None => Err OtherError
           | Some r =>
               (* out, _ = align_indeterminants(out, poly.indeterminants) *)
               Ok (head r (align_indets [:: r; Parr (names p) [::] [::] [::]]))
           end)
  end.

End Eval.
