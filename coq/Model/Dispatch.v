(* Dispatch.v — ndpoly.__array_ufunc__ / __array_function__ as decision procedures over the
   registries.  Every numpy callable (function or ufunc) is an index into one universe list. *)
From mathcomp Require Import all_ssreflect.
Set Implicit Arguments. Unset Strict Implicit. Unset Printing Implicit Defensive.

Inductive verdict := Forward of nat | NotSupported | RaisesKeyError.

Definition verdict_eqb (a b : verdict) : bool :=
  match a, b with
  | Forward x, Forward y => x == y
  | NotSupported, NotSupported | RaisesKeyError, RaisesKeyError => true
  | _, _ => false
  end.

(* control flow facts read from baseclass.py *)
Record dcode := DCode {
  d_reduce_guarded : bool;       (* an unmapped ufunc.reduce is rejected, not looked up blindly *)
  d_accumulate_guarded : bool;
  d_other_methods_rejected : bool;   (* methods other than __call__/reduce/accumulate raise *)
  d_ufunc_membership : bool;     (* `if ufunc not in UFUNC_COLLECTION: raise FeatureNotSupported` *)
  d_function_membership : bool   (* `if func not in FUNCTION_COLLECTION: raise FeatureNotSupported` *)
}.
Definition good_dcode := DCode true true true true true.

Fixpoint lookup (t : seq (nat * nat)) (k : nat) : option nat :=
  match t with [::] => None | (k', v) :: t' => if k' == k then Some v else lookup t' k end.

(* methods: 0 __call__, 1 reduce, 2 accumulate, 3 outer, 4 at, 5 reduceat *)
Definition array_ufunc (c : dcode) (ufuncs reduce accumulate : seq (nat * nat)) (u method : nat) : verdict :=
  let mapped guarded table :=
    match lookup table u with
    | Some f => inl f
    | None => inr (if guarded then NotSupported else RaisesKeyError)
    end in
  let tgt :=
    match method with
    | 0 => inl u
    | 1 => mapped (d_reduce_guarded c) reduce
    | 2 => mapped (d_accumulate_guarded c) accumulate
    | _ => if d_other_methods_rejected c then inr NotSupported else inl u
    end in
  match tgt with
  | inr v => v
  | inl f =>
      match lookup ufuncs f with
      | Some t => Forward t
      | None => if d_ufunc_membership c then NotSupported else RaisesKeyError
      end
  end.

Definition array_function (c : dcode) (functions : seq (nat * nat)) (f : nat) : verdict :=
  match lookup functions f with
  | Some t => Forward t
  | None => if d_function_membership c then NotSupported else RaisesKeyError
  end.
