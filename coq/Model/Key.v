(* Key.v — the storage-key codec of ndpoly (exponent <-> code point of a structured-array field
   name), the byte formatter of the compiled multiply kernel, and a key-indexed scalar polynomial
   model over binary naturals (exponents up to 10^6 never appear in unary).  Stdlib style. *)
From Coq Require Import NArith ZArith List Bool.
Import ListNotations.
Open Scope N_scope.

Definition two32 : N := 4294967296.

(* (exponents + KEY_OFFSET) in uint32 arithmetic; keys.view(uint32) - KEY_OFFSET likewise *)
Definition encode (off e : N) : N := (e + off) mod two32.
Definition decode (off c : N) : N := (c + (two32 - off mod two32)) mod two32.

(* code points numpy accepts inside a field name: not NUL (would be stripped), at most 0x10FFFF; whether a
   UTF-16 surrogate (0xD800..0xDFFF) is accepted depends on the numpy build - [sur] is what the harness
   measures on numpy itself (numpy.dtype([(chr(0xD800), "i8")])), not on numpoly *)
Definition valid_cp (sur : bool) (c : N) : bool :=
  (0 <? c) && ((c <? 55296) || (sur && (c <? 57344)) || ((57344 <=? c) && (c <=? 1114111))).

Definition representable (sur : bool) (off e : N) : bool := (e + off <? two32) && valid_cp sur (e + off).

Definition encode_row (off : N) (r : list N) : list N := map (encode off) r.
Definition decode_row (off : N) (k : list N) : list N := map (decode off) k.

(* ---- cmultiply.pyx: sprintf(key + len, "%c", e1 + e2 + offset) then key.decode('utf-8') ---- *)
Definition fmt_byte (x : N) : N := x mod 256.

Fixpoint add_rows (r1 r2 : list N) : list N :=
  match r1, r2 with
  | a :: r1', b :: r2' => (a + b) :: add_rows r1' r2'
  | _, _ => []
  end.

Definition ckey_bytes (off : N) (r1 r2 : list N) : list N :=
  map (fun s => fmt_byte (s + off)) (add_rows r1 r2).

(* UTF-8 decoding, restricted to what is needed: a byte below 128 is its own code point;
   any other byte makes the real decoder raise or merge bytes — reported as None *)
Fixpoint ascii_decode (bs : list N) : option (list N) :=
  match bs with
  | [] => Some []
  | b :: bs' => if b <? 128 then option_map (cons b) (ascii_decode bs') else None
  end.

(* the product key as the library computes it: [fast] says whether the compiled kernel is used
   for this pair of rows (multiply.py decides) *)
Definition product_key (off : N) (fast : bool) (r1 r2 : list N) : option (list N) :=
  if fast then ascii_decode (ckey_bytes off r1 r2)
  else Some (encode_row off (add_rows r1 r2)).

(* multiply.py's guard for the compiled kernel (after the repair): every exponent sum plus the
   offset must stay below 128 *)
Definition all_small (off : N) (r1 r2 : list N) : bool :=
  forallb (fun s => s + off <? 128) (add_rows r1 r2).

(* ---- scalar polynomials stored by key ------------------------------------------------ *)
Definition kpoly := list (list N * Z).        (* key (code points) |-> coefficient, insertion order *)
Definition rpoly := list (list N * Z).        (* exponent row |-> coefficient *)

Fixpoint list_eqb (a b : list N) : bool :=
  match a, b with
  | [], [] => true
  | x :: a', y :: b' => (x =? y) && list_eqb a' b'
  | _, _ => false
  end.

(* set-or-accumulate *)
Fixpoint kinsert (k : list N) (c : Z) (p : kpoly) : kpoly :=
  match p with
  | [] => [(k, c)]
  | (k', c') :: p' => if list_eqb k' k then (k', (c' + c)%Z) :: p' else (k', c') :: kinsert k c p'
  end.

Definition store (off : N) (p : rpoly) : kpoly :=
  fold_left (fun acc t => kinsert (encode_row off (fst t)) (snd t) acc) p [].
Definition load (off : N) (p : kpoly) : rpoly := map (fun t => (decode_row off (fst t), snd t)) p.

(* exact product of two term lists, merged by exponent row *)
Definition rmul_terms (p q : rpoly) : rpoly :=
  flat_map (fun t1 => map (fun t2 => (add_rows (fst t1) (fst t2), (snd t1 * snd t2)%Z)) q) p.
Definition rmerge (p : rpoly) : rpoly :=
  fold_left (fun acc t => kinsert (fst t) (snd t) acc) p [].

(* the product as stored by the library: keys computed per pair *)
Definition kmul (off : N) (fast : list N -> list N -> bool) (p q : rpoly) : option kpoly :=
  fold_left (fun acc t =>
      match acc with
      | None => None
      | Some a =>
          match product_key off (fast (fst (fst t)) (snd (fst t))) (fst (fst t)) (snd (fst t)) with
          | None => None
          | Some k => Some (kinsert k (snd t) a)
          end
      end)
    (flat_map (fun t1 => map (fun t2 => ((fst t1, fst t2), (snd t1 * snd t2)%Z)) q) p)
    (Some []).

(* multiply.py's guard: largest exponent of each operand, summed, plus the offset, below a bound *)
Definition maxall (p : rpoly) : N := fold_right (fun t m => fold_right N.max m (fst t)) 0 p.
Definition max_guard (off bound : N) (p q : rpoly) : list N -> list N -> bool :=
  fun _ _ => maxall p + maxall q + off <? bound.

(* canonical order of a term list, for comparison with the implementation's term set *)
Fixpoint row_leb (a b : list N) : bool :=
  match a, b with
  | [], _ => true
  | _ :: _, [] => false
  | x :: a', y :: b' => (x <? y) || ((x =? y) && row_leb a' b')
  end.
Fixpoint rinsert (t : list N * Z) (p : rpoly) : rpoly :=
  match p with
  | [] => [t]
  | u :: p' => if row_leb (fst t) (fst u) then t :: u :: p' else u :: rinsert t p'
  end.
Definition rsort (p : rpoly) : rpoly :=
  fold_right rinsert [] (filter (fun t => negb (Z.eqb (snd t) 0)) p).
