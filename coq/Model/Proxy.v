(* Proxy.v — sortable_proxy.py (C19).  No proofs.

   proxy = tile(-1); for idx in glexsort(exponents): indices = (largest == exponents[idx]);
     values = argsort(coefficients[idx][indices], stable); proxy[indices] = argsort(values) + max(proxy) + 1
   return argsort(argsort(proxy.ravel()))

   The model stores proxy + 1 in naturals.  argsort(argsort(x, stable)) is the rank with ties broken by
   position; the final double argsort uses numpy's default sort, whose treatment of ties is unspecified: the model
   breaks them by position as well, and the theorems say for which pairs of elements that matters (only two
   elements whose leading exponent is not a stored exponent, i.e. two zero polynomials without a constant row). *)
From mathcomp Require Import all_ssreflect all_algebra.
From NP Require Import Base Poly Order Compare.
Set Implicit Arguments. Unset Strict Implicit. Unset Printing Implicit Defensive.
Import GRing.Theory Num.Theory.
Local Open Scope ring_scope.

Section Proxy.
Variable R : realDomainType.
Notation parr := (parr R).

Definition srank (xs : seq R) (j : nat) : nat :=
  count (fun j' => (nth 0 xs j' < nth 0 xs j) || ((nth 0 xs j' == nth 0 xs j) && (j' < j)%N)) (iota 0 (size xs)).

Definition nrank (P : seq nat) (i : nat) : nat :=
  count (fun i' => (nth 0%N P i' < nth 0%N P i)%N || ((nth 0%N P i' == nth 0%N P i) && (i' < i)%N)) (iota 0 (size P)).

Definition proxy_step (p : parr) (largest : seq (seq nat)) (P : seq nat) (idx : nat) : seq nat :=
  let ind := [seq i <- iota 0 (size P) | nth [::] largest i == nth [::] (rows p) idx] in
  let vals := [seq cell (cols p) idx i | i <- ind] in
  let M := maxs P in
  [seq (if i \in ind then srank vals (index i ind) + M + 1 else nth 0 P i)%N | i <- iota 0 (size P)].

Definition proxy_raw (g r : bool) (p : parr) : seq nat :=
  foldl (proxy_step p (lead_exponent g r p)) (nseq (psize p) 0%N) (glexsort g r (rows p)).

Definition sortable_proxy (g r : bool) (p : parr) : seq nat :=
  let P := proxy_raw g r p in [seq nrank P i | i <- iota 0 (psize p)].

(* ---- argmin / argmax / amin / amax without axis (argmin.py, argmax.py, amin.py, amax.py) ----
   argmin: numpy.argmin of the ranks; argmax: the ranks of the REVERSED array, reversed back (so that among equal
   maxima the first occurrence has the highest rank), then numpy.argmax; amin / amax: the element at
   argsort(ranks)[min(ranks)] resp. [max(ranks)], i.e. the element of rank 0 resp. size-1 *)
Definition prev (p : parr) : parr := Parr (names p) [:: psize p] (rows p) [seq rev c | c <- cols p].
Definition pargmin (g r : bool) (p : parr) : nat := index 0%N (sortable_proxy g r p).
Definition pargmax (g r : bool) (p : parr) : nat :=
  ((psize p).-1 - index (psize p).-1 (sortable_proxy g r (prev p)))%N.
Definition pamin_pos (g r : bool) (p : parr) : nat := index 0%N (sortable_proxy g r p).
Definition pamax_pos (g r : bool) (p : parr) : nat := index (psize p).-1 (sortable_proxy g r p).

End Proxy.
