(* Proxy.v — sortable_proxy.py (C19).  No proofs.

   proxy = tile(-1); for idx in glexsort(exponents): indices = (largest == exponents[idx]);
     values = argsort(coefficients[idx][indices], stable); proxy[indices] = argsort(values) + max(proxy) + 1
   return argsort(argsort(proxy.ravel()))

   The model stores proxy + 1 in naturals.  argsort(argsort(x, stable)) is the rank with ties broken by
   position; the final double argsort uses numpy's default sort, whose treatment of ties is unspecified: the model
   breaks them by position as well, and the theorems say for which pairs of elements that matters (only two
   elements whose leading exponent is not a stored exponent, i.e. two zero polynomials without a constant row). *)
From mathcomp Require Import all_ssreflect all_algebra.
From NP Require Import Base Poly Order Compare.
Set Implicit Arguments. Unset Strict Implicit. Unset Printing Implicit Defensive.
Import GRing.Theory Num.Theory.
Local Open Scope ring_scope.

Section Proxy.
Variable R : realDomainType.
Notation parr := (parr R).

Definition srank (xs : seq R) (j : nat) : nat :=
  count (fun j' => (nth 0 xs j' < nth 0 xs j) || ((nth 0 xs j' == nth 0 xs j) && (j' < j)%N)) (iota 0 (size xs)).

Definition nrank (P : seq nat) (i : nat) : nat :=
  count (fun i' => (nth 0%N P i' < nth 0%N P i)%N || ((nth 0%N P i' == nth 0%N P i) && (i' < i)%N)) (iota 0 (size P)).

Definition proxy_step (p : parr) (largest : seq (seq nat)) (P : seq nat) (idx : nat) : seq nat :=
  let ind := [seq i <- iota 0 (size P) | nth [::] largest i == nth [::] (rows p) idx] in
  let vals := [seq cell (cols p) idx i | i <- ind] in
  let M := maxs P in
  [seq (if i \in ind then srank vals (index i ind) + M + 1 else nth 0 P i)%N | i <- iota 0 (size P)].

Definition proxy_raw (g r : bool) (p : parr) : seq nat :=
  foldl (proxy_step p (lead_exponent g r p)) (nseq (psize p) 0%N) (glexsort g r (rows p)).

Definition sortable_proxy (g r : bool) (p : parr) : seq nat :=
  let P := proxy_raw g r p in [seq nrank P i | i <- iota 0 (psize p)].

End Proxy.
