(* Compare.v — the comparison loops (greater, less, ..., maximum, minimum), equal / not_equal,
   leading-term queries.  All walk the stored terms in glexsort order; the last write wins. *)
From mathcomp Require Import all_ssreflect all_algebra.
From NP Require Import Base Poly Order.
Set Implicit Arguments. Unset Strict Implicit. Unset Printing Implicit Defensive.
Import GRing.Theory Num.Theory.
Local Open Scope ring_scope.

(* which numpy comparison a loop uses *)
Inductive cop := CGt | CGe | CLt | CLe.

(* the mask of a loop iteration as a Boolean term over a := (c1 != 0), b := (c2 != 0), d := (c1 != c2) *)
Inductive bexp := BA | BB | BD | BTrue | BAnd of bexp & bexp | BOr of bexp & bexp | BNot of bexp.
Fixpoint bexp_eval (m : bexp) (a b d : bool) : bool :=
  match m with
  | BA => a | BB => b | BD => d | BTrue => true
  | BAnd x y => bexp_eval x a b d && bexp_eval y a b d
  | BOr x y => bexp_eval x a b d || bexp_eval y a b d
  | BNot x => ~~ bexp_eval x a b d
  end.

(* one comparison function as written in the source: initial verdict, loop comparison, mask *)
Record cmp_code := CmpCode { cc_init : option cop; cc_loop : cop; cc_mask : bexp }.

Section Cmp.
Variable R : realDomainType.
Notation parr := (parr R).

Definition cfun (c : cop) (x y : R) : bool :=
  match c with CGt => y < x | CGe => y <= x | CLt => x < y | CLe => x <= y end.

Notation cell := (@cell R).

Definition cmp_cols (code : cmp_code) (order : seq nat) (ca cb : seq (seq R)) (m : nat) : seq bool :=
  let init := [seq (if cc_init code is Some c then cfun c (cell ca 0 i) (cell cb 0 i) else false)
              | i <- iota 0 m] in
  foldl (fun out k =>
           [seq (let x := cell ca k i in let y := cell cb k i in
                 if bexp_eval (cc_mask code) (x != 0) (y != 0) (x != y)
                 then cfun (cc_loop code) x y else nth false out i)
           | i <- iota 0 m])
        init order.

Definition aligned2 (o : opts) (a b : parr) : res (parr * parr) :=
  rbind (align_polys o [:: a; b]) (fun ps =>
    match ps with [:: a'; b'] => Ok (a', b') | _ => Err OtherError end).

Definition sort_order (o : opts) (p : parr) : seq nat :=
  glexsort (o_sgraded o) (o_sreverse o) (rows p).

(* greater / greater_equal / less / less_equal *)
Definition pcompare (code : cmp_code) (o : opts) (a b : parr) : res (seq nat * seq bool) :=
  rbind (aligned2 o a b) (fun ab =>
    Ok (shape ab.1, cmp_cols code (sort_order o ab.1) (cols ab.1) (cols ab.2) (psize ab.1))).

(* equal: out &= (c1 == c2) over all columns; not_equal: out |= (c1 != c2) *)
Definition pequal (o : opts) (a b : parr) : res (seq nat * seq bool) :=
  rbind (aligned2 o a b) (fun ab =>
    Ok (shape ab.1,
        [seq all (fun k => cell (cols ab.1) k i == cell (cols ab.2) k i) (iota 0 (size (rows ab.1)))
        | i <- iota 0 (psize ab.1)])).

Definition pnot_equal (o : opts) (a b : parr) : res (seq nat * seq bool) :=
  rbind (aligned2 o a b) (fun ab =>
    Ok (shape ab.1,
        [seq has (fun k => cell (cols ab.1) k i != cell (cols ab.2) k i) (iota 0 (size (rows ab.1)))
        | i <- iota 0 (psize ab.1)])).

(* maximum / minimum: the verdict chooses between the aligned operands (numpoly.where) *)
Definition pselect (code : cmp_code) (o : opts) (a b : parr) : res parr :=
  rbind (aligned2 o a b) (fun ab =>
    let v := cmp_cols code (sort_order o ab.1) (cols ab.1) (cols ab.2) (psize ab.1) in
    clean o (Parr (names ab.1) (shape ab.1) (rows ab.1)
                  [seq [seq (if nth false v i then cell (cols ab.1) k i else cell (cols ab.2) k i)
                       | i <- iota 0 (psize ab.1)]
                  | k <- iota 0 (size (rows ab.1))])).

(* ---- leading terms (C19): walk in glexsort order, write where the coefficient is non-zero ---- *)
Definition lead_index (g r : bool) (p : parr) (i : nat) : option nat :=
  foldl (fun acc k => if cell (cols p) k i != 0 then Some k else acc) None (glexsort g r (rows p)).

Definition lead_exponent (g r : bool) (p : parr) : seq (seq nat) :=
  [seq (if lead_index g r p i is Some k then nth [::] (rows p) k else nseq (size (names p)) 0%N)
  | i <- iota 0 (psize p)].

Definition lead_coefficient (g r : bool) (p : parr) : seq R :=
  [seq (if lead_index g r p i is Some k then cell (cols p) k i else 0) | i <- iota 0 (psize p)].

End Cmp.

(* the six codes as shipped *)
Definition mask_std := BAnd (BOr BA BB) BD.
Definition code_gt := CmpCode (Some CGt) CGt mask_std.
Definition code_ge := CmpCode (Some CGe) CGe mask_std.
Definition code_lt := CmpCode (Some CLt) CLt mask_std.
Definition code_le := CmpCode (Some CLe) CLe mask_std.
Definition code_max := CmpCode None CGt mask_std.
Definition code_min := CmpCode None CLt BD.
