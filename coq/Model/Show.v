(* Show.v — executable model of numpoly/array_function/array_repr.py (`to_string` / `_to_string`,
   shared by array_str and array_repr) as a TOKEN STREAM per array element, and a reference
   evaluator for the printed grammar.  No proofs in this file.

   What is abstracted: the separator strings (display_multiply / display_exponent are the tokens
   TMul / TPow whatever their spelling), the spelling of names ("q<k>" is TName k) and Python's
   number formatting (`str(c)` is described per coefficient type by a `cshow` record: which tokens
   it lexes to, and the verdict of `float(c) >= 0`).  numpy's array brackets are outside the model
   (array2string is called with formatter str on the per-element strings).
   For an array, to_string recurses over the first axis (`for poly_ in poly`), i.e. prints the
   cleaned 0-d element polynomials; the model prints element i from the array's own term list,
   skipping its zero coefficients.  Both give the same text when the exponent rows are pairwise
   distinct (the sorted order of a sub-list is the sub-list of the sorted order); the correspondence
   check compares them on arrays of every shape.
   Assumed: numpy print options at their defaults (suppress=False, so the
   `suppress_small and abs(c) < 10**-precision` skip never fires); names are non-empty strings. *)
From mathcomp Require Import all_ssreflect all_algebra.
From NP Require Import Base Poly Order.
Set Implicit Arguments. Unset Strict Implicit. Unset Printing Implicit Defensive.
Import GRing.Theory Num.Theory.
Local Open Scope ring_scope.

(* ---- tokens ------------------------------------------------------------------------------ *)
Inductive tok (R : Type) :=
  | TPlus | TMinus          (* "+"  "-" *)
  | TMul | TPow             (* options["display_multiply"], options["display_exponent"] *)
  | TNum of R               (* an unsigned number literal (for complex: possibly parenthesised) *)
  | TName of nat            (* indeterminate q<k> *)
  | TNat of nat.            (* the exponent after TPow *)
Arguments TPlus {R}. Arguments TMinus {R}. Arguments TMul {R}. Arguments TPow {R}.
Arguments TName {R} _. Arguments TNat {R} _.

(* the three display options that select the term order *)
Record dopts := DOpts { d_graded : bool; d_reverse : bool; d_inverse : bool }.
Definition dflt_dopts := DOpts true false true.

(* how one coefficient type prints: c_nonneg c is `float(c) >= 0`, c_str c is `str(c)` lexed *)
Record cshow (R : Type) := CShow { c_nonneg : R -> bool; c_str : R -> seq (tok R) }.

(* int, float, bool coefficients: sign followed by the magnitude *)
Definition ord_show (R : realDomainType) : cshow R :=
  CShow (fun c => 0 <= c) (fun c => if c < 0 then [:: TMinus; TNum (- c)] else [:: TNum c]).

(* the rule that decides whether "+" is written in front of a term that is not the first one:
     PlusByValue : `float(coefficients[idx]) >= 0`      (the shipped code)
     PlusByText  : `not out.startswith("-")`            (the repair proposed for defect D16)
   read from the source by harness/translators/show_tr.py *)
Inductive plus_rule := PlusByValue | PlusByText.

(* the remaining facts about `_to_string` that the model below hard-wires, as read from the source
   by the translator (Bridge/BridgeShow.v proves gen_show_code = good_show_code).
   Option keys: 1 display_graded, 2 display_reverse, 3 display_inverse, 4 display_exponent,
   5 display_multiply. *)
Record show_code := ShowCode {
  sc_graded_key : nat;        (* glexsort(..., graded=options[?]) *)
  sc_reverse_key : nat;       (* glexsort(..., reverse=options[?]) *)
  sc_inverse_key : nat;       (* if options[?]: *)
  sc_inverse_reverses : bool; (*     indices = indices[::-1] *)
  sc_skip_zero : bool;        (* if not coefficients[idx]: continue *)
  sc_one_elided : bool;       (* c == 1 -> "" *)
  sc_mone_elided : bool;      (* c == -1 -> "-" *)
  sc_elide_needs_any : bool;  (* ... and any(exponents[idx]) *)
  sc_mul_guard : bool;        (* multiply sign iff out not in ("", "-") *)
  sc_pow_threshold : nat;     (* exponent written iff exponent > ? *)
  sc_pow_key : nat;
  sc_mul_key : nat;
  sc_zero_fallback : bool     (* "".join(output) if output else str(zero of the dtype) *)
}.
Definition good_show_code := ShowCode 1 2 3 true true true true true true 1 4 5 true.

Section Show.
Variable R : comRingType.
Variable cs : cshow R.
Variable pr : plus_rule.
Notation parr := (parr R).
Notation tok := (tok R).

(* indices = glexsort(exponents.T, graded=display_graded, reverse=display_reverse);
   if display_inverse: indices = indices[::-1] *)
Definition disp_order (o : dopts) (p : parr) : seq nat :=
  let ix := glexsort (d_graded o) (d_reverse o) (rows p) in
  if d_inverse o then rev ix else ix.

(* the (exponent row, coefficient of element i) pairs in the order the loop visits them *)
Definition walk (o : dopts) (p : parr) (i : nat) : seq (seq nat * R) :=
  [seq (nth [::] (rows p) k, cell (cols p) k i) | k <- disp_order o p].

(* `if not coefficients[idx]: continue` *)
Definition show_terms (o : dopts) (p : parr) (i : nat) : seq (seq nat * R) :=
  [seq t <- walk o p i | t.2 != 0].

(* any(exponents[idx]) *)
Definition nonconst (r : seq nat) : bool := has (fun e => e != 0%N) r.

(* if c == 1 and any(e): out = ""  elif c == -1 and any(e): out = "-"  else: out = str(c) *)
Definition coef_toks (c : R) (r : seq nat) : seq tok :=
  if (c == 1) && nonconst r then [::]
  else if (c == -1) && nonconst r then [:: TMinus]
  else c_str cs c.

(* out in ("", "-") *)
Definition is_bare (ts : seq tok) : bool :=
  match ts with [::] | [:: TMinus] => true | _ => false end.

(* for exponent, indeterminant in zip(exponents[idx], names):
     if exponent: (if out not in ("", "-"): out += multiply); out += indeterminant
     if exponent > 1: out += exponent_sign + str(exponent)
   `lead` is "out not in ('', '-')"; it holds after the first name has been written *)
Fixpoint fact_toks (lead : bool) (ens : seq (nat * nat)) : seq tok :=
  match ens with
  | [::] => [::]
  | (e, v) :: ens' =>
      if e == 0%N then fact_toks lead ens'
      else (if lead then [:: TMul] else [::])
           ++ TName v :: (if (1 < e)%N then [:: TPow; TNat e] else [::])
           ++ fact_toks true ens'
  end.

Definition starts_minus (ts : seq tok) : bool := if ts is TMinus :: _ then true else false.

(* the text of one term, before the "+" decision *)
Definition body_toks (ns : seq nat) (t : seq nat * R) : seq tok :=
  let co := coef_toks t.2 t.1 in co ++ fact_toks (~~ is_bare co) (zip t.1 ns).

Definition wants_plus (t : seq nat * R) (out : seq tok) : bool :=
  match pr with PlusByValue => c_nonneg cs t.2 | PlusByText => ~~ starts_minus out end.

(* one loop iteration; first = (output == []) *)
Definition term_toks (first : bool) (ns : seq nat) (t : seq nat * R) : seq tok :=
  let out := body_toks ns t in
  if ~~ first && wants_plus t out then TPlus :: out else out.

Fixpoint join_terms (first : bool) (ns : seq nat) (ts : seq (seq nat * R)) : seq tok :=
  match ts with
  | [::] => [::]
  | t :: ts' => term_toks first ns t ++ join_terms false ns ts'
  end.

(* "".join(output) if output else str(numpy.zeros(1, dtype).item()) *)
Definition show_elem (o : dopts) (p : parr) (i : nat) : seq tok :=
  let ts := show_terms o p i in
  if ts is [::] then [:: TNum 0] else join_terms true (names p) ts.

(* to_string of an array: one string per element (C order) *)
Definition show (o : dopts) (p : parr) : seq (seq tok) :=
  [seq show_elem o p i | i <- iota 0 (psize p)].

End Show.

(* ---- reference evaluator of the printed grammar ------------------------------------------------
     expr   := term (('+' | '-') term)*
     term   := ['-']* factor ('*' ['-']* factor)*        (Python's unary minus; the printer only
     factor := NUM | NAME ['**' NAT]                       writes it in front of a term)
   as a left-to-right automaton over an arbitrary target algebra given by its operations.
   Everything outside the grammar is rejected (None). *)
Record alg (R A : Type) := Alg {
  a_zero : A; a_one : A; a_add : A -> A -> A; a_mul : A -> A -> A; a_opp : A -> A;
  a_inj : R -> A;                (* a number literal *)
  a_var : nat -> nat -> A        (* a_var k e : indeterminate k to the power e *)
}.

Inductive emode := MFact | MAfter | MName of nat | MPow of nat.
(* e_acc: sum of the finished terms; e_neg / e_prd: sign and product of the factors of the
   current term; MName k: name k read, not yet multiplied (a "**" may follow) *)
Record est (A : Type) := ESt { e_acc : A; e_neg : bool; e_prd : A; e_mode : emode }.

Section Eval.
Variables (R A : Type) (al : alg R A).
Notation tok := (tok R).
Notation est := (est A).

Definition signed (neg : bool) (x : A) : A := if neg then a_opp al x else x.
Definition close_term (st : est) : A := a_add al (e_acc st) (signed (e_neg st) (e_prd st)).
Definition mul_in (st : est) (x : A) : est :=
  ESt (e_acc st) (e_neg st) (a_mul al (e_prd st) x) MAfter.

(* a complete factor has been read *)
Definition after_tok (st : est) (t : tok) : option est :=
  match t with
  | TMul => Some (ESt (e_acc st) (e_neg st) (e_prd st) MFact)
  | TPlus => Some (ESt (close_term st) false (a_one al) MFact)
  | TMinus => Some (ESt (close_term st) true (a_one al) MFact)
  | _ => None
  end.

Definition step (st : est) (t : tok) : option est :=
  match e_mode st, t with
  | MFact, TMinus => Some (ESt (e_acc st) (~~ e_neg st) (e_prd st) MFact)
  | MFact, TNum c => Some (mul_in st (a_inj al c))
  | MFact, TName k => Some (ESt (e_acc st) (e_neg st) (e_prd st) (MName k))
  | MFact, _ => None
  | MAfter, _ => after_tok st t
  | MName k, TPow => Some (ESt (e_acc st) (e_neg st) (e_prd st) (MPow k))
  | MName k, _ => after_tok (mul_in st (a_var al k 1)) t
  | MPow k, TNat e => Some (mul_in st (a_var al k e))
  | MPow k, _ => None
  end.

Fixpoint run (st : est) (ts : seq tok) : option est :=
  match ts with
  | [::] => Some st
  | t :: ts' => if step st t is Some st' then run st' ts' else None
  end.

Definition finish (st : est) : option A :=
  match e_mode st with
  | MAfter => Some (close_term st)
  | MName k => Some (close_term (mul_in st (a_var al k 1)))
  | _ => None
  end.

Definition est0 : est := ESt (a_zero al) false (a_one al) MFact.
Definition eval_tokens (ts : seq tok) : option A :=
  if run est0 ts is Some st then finish st else None.

End Eval.

(* ---- the executable target: the list of printed terms, in printed order ------------------------ *)
Section ListAlg.
Variable R : comRingType.
Definition lterm := (seq (nat * nat) * R)%type.    (* (variable, exponent) factors as printed; coefficient *)

Definition lone : seq lterm := [:: ([::], 1)].
Definition lmul (a b : seq lterm) : seq lterm := [seq (x.1 ++ y.1, x.2 * y.2) | x <- a, y <- b].
Definition lopp (a : seq lterm) : seq lterm := [seq (x.1, - x.2) | x <- a].
Definition linj (c : R) : seq lterm := [:: ([::], c)].
Definition lvar (k e : nat) : seq lterm := [:: ([:: (k, e)], 1)].
Definition lalg : alg R (seq lterm) := Alg [::] lone cat lmul lopp linj lvar.

Definition parse_terms (ts : seq (tok R)) : option (seq lterm) := eval_tokens lalg ts.

(* normal form comparable with Poly.canon: exponents added per variable, zero exponents dropped,
   variables ascending; coefficients added per monomial, zero coefficients dropped *)
Definition mono_norm (fs : seq (nat * nat)) : mono :=
  [seq ve <- [seq (v, sumn [seq f.2 | f <- fs & f.1 == v]) | v <- sort leq (undup (unzip1 fs))]
  | ve.2 != 0%N].

Definition terms_norm (ts : seq lterm) : seq (mono * R) :=
  let ts1 := [seq (mono_norm t.1, t.2) | t <- ts] in
  [seq mc <- [seq (m, foldr +%R 0 [seq t.2 | t <- ts1 & t.1 == m]) | m <- undup (unzip1 ts1)]
  | mc.2 != 0].

(* the text denotes element i of p (as canonical forms) *)
Definition denotes (ts : seq (tok R)) (p : parr R) (i : nat) : bool :=
  if parse_terms ts is Some l then perm_eq (terms_norm l) (canon p i) else false.

Definition tok_eqb (a b : tok R) : bool :=
  match a, b with
  | TPlus, TPlus | TMinus, TMinus | TMul, TMul | TPow, TPow => true
  | TNum x, TNum y => x == y
  | TName x, TName y => x == y
  | TNat x, TNat y => x == y
  | _, _ => false
  end.
Fixpoint toks_eqb (a b : seq (tok R)) : bool :=
  match a, b with
  | [::], [::] => true
  | x :: a', y :: b' => tok_eqb x y && toks_eqb a' b'
  | _, _ => false
  end.
Fixpoint tokss_eqb (a b : seq (seq (tok R))) : bool :=
  match a, b with
  | [::], [::] => true
  | x :: a', y :: b' => toks_eqb x y && tokss_eqb a' b'
  | _, _ => false
  end.
End ListAlg.

(* ---- what the correspondence check evaluates ----------------------------------------------------
   for each display setting: the model's token streams equal the implementation's (lexed) texts,
   and the reference evaluator's verdict "text i denotes element i" equals the harness's *)
Definition chk_show (R : comRingType) (cs : cshow R) (pr : plus_rule) (p : parr R)
    (obs : seq (dopts * seq (seq (tok R)) * seq bool)) : bool :=
  all (fun x : dopts * seq (seq (tok R)) * seq bool =>
         let: (o, tss, ds) := x in
         tokss_eqb (show cs pr o p) tss
         && ([seq denotes (nth [::] tss i) p i | i <- iota 0 (psize p)] == ds)) obs.
