(* Query.v — isconstant, tonumpy, decompose, set_dimensions (C19).  No proofs. *)
From mathcomp Require Import all_ssreflect all_algebra.
From NP Require Import Base Poly.
Set Implicit Arguments. Unset Strict Implicit. Unset Printing Implicit Defensive.
Import GRing.Theory.
Local Open Scope ring_scope.

Section Query.
Variable R : comRingType.
Notation parr := (parr R).

Definition const_row (r : seq nat) : bool := ~~ has (fun e => e != 0%N) r.

(* isconstant.py: no term with a non-zero exponent has a non-zero coefficient *)
Definition isconstant (p : parr) : bool :=
  all (fun t : term R => const_row t.1 || ~~ has (fun c => c != 0) t.2) (terms p).

(* tonumpy.py: error for non-constants, else the coefficient column of the zero exponent row; a constant WITHOUT a zero
   exponent row (only retained all-zero terms) is zero (fix D35; before, argwhere(...).item() raised ValueError) *)
Definition tonumpy (p : parr) : res (seq nat * seq R) :=
  if ~~ isconstant p then Err FeatureNotSupported
  else match [seq t <- terms p | const_row t.1] with
       | [::] => Ok (shape p, zeros R (psize p))
       | [:: t] => Ok (shape p, t.2)
       | _ => Err ValueError      (* argwhere(...).item() needs at most one zero row *)
       end.

(* decompose.py: one slice per stored term, stacked along a new first axis *)
Definition decompose (p : parr) : parr :=
  let N := size (rows p) in
  Parr (names p) (N :: shape p) (rows p)
       [seq flatten [seq (if j == k then nth [::] (cols p) k else zeros R (psize p)) | j <- iota 0 N]
       | k <- iota 0 N].

(* set_dimensions.py *)
(* names to append: the smallest indices not yet used, then everything sorted by name; the model
   covers the case where the sort of names as strings agrees with the order of indices (< 10) *)
Fixpoint fresh_names (used : seq nat) (k fuel idx : nat) : seq nat :=
  match fuel, k with
  | _, 0%N => [::]
  | 0%N, _ => [::]
  | fuel'.+1, k'.+1 =>
      if idx \in used then fresh_names used k fuel' idx.+1
      else idx :: fresh_names used k' fuel' idx.+1
  end.

Definition set_dimensions (o : opts) (p : parr) (d : nat) : res parr :=
  let D := size (names p) in
  if d == D then Ok p else
  if (D < d)%N then
    let extra := fresh_names (names p) (d - D) (d + D) 0 in
    let ns := names p ++ extra in
    let ns' := sort leq ns in
    from_attributes (o_retc o) true ns' (shape p)
      [seq widen ns ns' (r ++ nseq (d - D) 0%N) | r <- rows p] (cols p)
  else
    let ts := [seq t <- terms p | ~~ has (fun e => e != 0%N) (drop d t.1)] in
    let ts := if ts is [::] then [:: (nseq d 0%N, zeros R (psize p))] else ts in
    from_attributes (o_retc o) true (take d (names p)) (shape p)
      [seq take d t.1 | t <- ts] (unzip2 ts).

End Query.
