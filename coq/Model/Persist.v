(* Persist.v — executable model of the persistence paths of ndpoly (C13):
   (1) the text header written by savetxt (HEADER_TEMPLATE filled with names / keys / shape) and the
       parser loadtxt applies to the first line (startswith test, HEADER_REGEX search, "," splits,
       int());  code points are binary naturals, stdlib style;
   (2) __reduce__ -> polynomial_from_attributes (pickle) and the buffer copy, on Poly.v's [parr];
   (3) savetxt's (size, nterms) matrix, what numpy.loadtxt hands back for it (ndmin=0 squeezes),
       unstructured_to_structured, polynomial(struct, names) and the final reshape.
   Defect switches (Record [tfix]) describe the code before / after the proposed repairs.
   No proofs in this file. *)
From Coq Require Import NArith List Bool Ascii String DecimalN.
From NP Require Import Key.

(* ================================================================================================ *)
(* Part 1 — the header line                                                                            *)
(* ================================================================================================ *)
Section HeaderCodec.
Local Open Scope N_scope.
Local Open Scope list_scope.

Definition str := list N.                       (* a Python str as its code points *)
Definition lit (s : string) : str := map N_of_ascii (list_ascii_of_string s).

(* code points matched by \s in a Python 3 str pattern (= str.isspace); regenerated from the
   running interpreter by the translator and bridged *)
Definition space_table : list N :=
  9 :: 10 :: 11 :: 12 :: 13 :: 28 :: 29 :: 30 :: 31 :: 32 :: 133 :: 160 :: 5760 :: 8192 :: 8193 :: 8194
  :: 8195 :: 8196 :: 8197 :: 8198 :: 8199 :: 8200 :: 8201 :: 8202 :: 8232 :: 8233 :: 8239 :: 8287 :: 12288 :: nil.
Definition is_space (c : N) : bool := existsb (N.eqb c) space_table.
Definition comma : N := 44.
Definition newline : N := 10.

(* sep.join(xs) and s.split(sep) for a one-character separator *)
Fixpoint join (c : N) (xs : list str) : str :=
  match xs with
  | nil => nil
  | x :: nil => x
  | x :: xs' => x ++ c :: join c xs'
  end.

Fixpoint split (c : N) (s : str) : list str :=
  match s with
  | nil => nil :: nil
  | x :: s' =>
      if x =? c then nil :: split c s'
      else match split c s' with h :: t => (x :: h) :: t | nil => (x :: nil) :: nil end
  end.

(* str(n) for a non-negative int, and int(s) restricted to plain ASCII digit strings *)
Fixpoint digits (d : Decimal.uint) : str :=
  match d with
  | Decimal.Nil => nil
  | Decimal.D0 d' => 48 :: digits d' | Decimal.D1 d' => 49 :: digits d'
  | Decimal.D2 d' => 50 :: digits d' | Decimal.D3 d' => 51 :: digits d'
  | Decimal.D4 d' => 52 :: digits d' | Decimal.D5 d' => 53 :: digits d'
  | Decimal.D6 d' => 54 :: digits d' | Decimal.D7 d' => 55 :: digits d'
  | Decimal.D8 d' => 56 :: digits d' | Decimal.D9 d' => 57 :: digits d'
  end.
Definition dec (n : N) : str := digits (N.to_uint n).

Definition digit_con (c : N) : option (Decimal.uint -> Decimal.uint) :=
  if c =? 48 then Some Decimal.D0 else if c =? 49 then Some Decimal.D1 else
  if c =? 50 then Some Decimal.D2 else if c =? 51 then Some Decimal.D3 else
  if c =? 52 then Some Decimal.D4 else if c =? 53 then Some Decimal.D5 else
  if c =? 54 then Some Decimal.D6 else if c =? 55 then Some Decimal.D7 else
  if c =? 56 then Some Decimal.D8 else if c =? 57 then Some Decimal.D9 else None.
Fixpoint undigits (s : str) : option Decimal.uint :=
  match s with
  | nil => Some Decimal.Nil
  | c :: s' => match digit_con c, undigits s' with Some f, Some d => Some (f d) | _, _ => None end
  end.
Definition parse_int (s : str) : option N :=
  match s with nil => None | _ => option_map N.of_uint (undigits s) end.

(* indeterminate names: "q<k>" with the canonical decimal suffix (DESIGN section 4) *)
Definition name_str (k : N) : str := 113 :: dec k.
Definition name_idx (s : str) : option N :=
  match s with
  | c :: d => if c =? 113 then
                match parse_int d with
                | Some k => if list_eqb (dec k) d then Some k else None
                | None => None
                end
              else None
  | nil => None
  end.

(* ---- HEADER_TEMPLATE and str.format ---------------------------------------------------------- *)
Inductive field := FVersion | FNames | FKeys | FShape.
Inductive titem := TLit (s : str) | TField (f : field).

Definition hdr_template : list titem :=
  TLit (lit "numpoly:") :: TField FVersion :: TLit (lit " names:") :: TField FNames ::
  TLit (lit " keys:") :: TField FKeys :: TLit (lit " shape:") :: TField FShape :: nil.

Definition fill (version names keys shape : str) (t : list titem) : str :=
  flat_map (fun it => match it with
                      | TLit s => s
                      | TField FVersion => version | TField FNames => names
                      | TField FKeys => keys | TField FShape => shape
                      end) t.

(* the header savetxt builds: names joined, keys (= encoded exponent rows) joined, shape joined *)
Definition print_header (off : N) (version : str) (names : list str) (rows : list (list N))
    (shape : list N) : str :=
  fill version (join comma names) (join comma (map (encode_row off) rows))
       (join comma (map dec shape)) hdr_template.

(* numpy.savetxt: comments + header (+ newline); the user's header, if any, follows on later lines *)
Definition first_line (comments hdr : str) : str := comments ++ hdr ++ newline :: nil.

(* ---- HEADER_REGEX: the template with the fields replaced by \S+ / (\S+) / (\S* ) ------------------ *)
Inductive ritem := RLit (s : str) | RNs (plus capture : bool).
(* [star]: the shape group is (\S* ) (repaired) instead of (\S+) (shipped) *)
Definition field_regex (star : bool) (f : field) : ritem :=
  match f with
  | FVersion => RNs true false
  | FNames | FKeys => RNs true true
  | FShape => RNs (negb star) true
  end.
Definition hdr_regex (star : bool) : list ritem :=
  map (fun it => match it with TLit s => RLit s | TField f => field_regex star f end) hdr_template.

Fixpoint strip_prefix (l s : str) : option str :=
  match l, s with
  | nil, _ => Some s
  | a :: l', b :: s' => if a =? b then strip_prefix l' s' else None
  | _ :: _, nil => None
  end.
Definition starts_with (l s : str) : bool := if strip_prefix l s then true else false.

(* the maximal run of non-space characters.  Every literal that follows a \S group starts with a
   space (checked by the bridge), so greedy matching with backtracking can only succeed with the
   maximal run: this deterministic matcher is re's behaviour on such patterns. *)
Fixpoint span_ns (s : str) : str * str :=
  match s with
  | nil => (nil, nil)
  | c :: s' => if is_space c then (nil, s) else let (g, r) := span_ns s' in (c :: g, r)
  end.

Fixpoint rmatch (r : list ritem) (s : str) : option (list str) :=
  match r with
  | nil => Some nil
  | RLit l :: r' => match strip_prefix l s with Some s' => rmatch r' s' | None => None end
  | RNs plus cap :: r' =>
      let (g, s') := span_ns s in
      if plus && (match g with nil => true | _ => false end) then None
      else option_map (fun gs => if cap then g :: gs else gs) (rmatch r' s')
  end.

(* re.search: leftmost start position at which the pattern matches *)
Fixpoint rsearch (r : list ritem) (s : str) : option (list str) :=
  match rmatch r s with
  | Some g => Some g
  | None => match s with nil => None | _ :: s' => rsearch r s' end
  end.

(* ---- what loadtxt does with the first line ------------------------------------------------------ *)
Inductive herr := HAssert | HValue.
Inductive hdr := HPlain | HFail (e : herr) | HOk (names keys : list str) (shape : list N).

Fixpoint ints (xs : list str) : option (list N) :=
  match xs with
  | nil => Some nil
  | x :: xs' => match parse_int x, ints xs' with Some n, Some ns => Some (n :: ns) | _, _ => None end
  end.

(* [star]: regex repaired; [filt]: `for idx in ...split(",") if idx` (repaired) instead of every piece *)
Definition parse_header (star filt : bool) (comments line : str) : hdr :=
  if starts_with (comments ++ lit "numpoly:") line then
    match rsearch (hdr_regex star) line with
    | Some (g1 :: g2 :: g3 :: nil) =>
        let pieces := split comma g3 in
        let pieces := if filt then filter (fun x => match x with nil => false | _ => true end) pieces
                      else pieces in
        match ints pieces with
        | Some sh => HOk (split comma g1) (split comma g2) sh
        | None => HFail HValue
        end
    | _ => HFail HAssert
    end
  else HPlain.

(* the lines numpy.loadtxt gets to see: a path is re-opened, a file object has lost the line that
   loadtxt read with readline() unless it is chained back ([chain], repaired) *)
Definition lines_seen (A : Type) (fileobj chain : bool) (lines : list A) : list A :=
  if fileobj && negb chain then tl lines else lines.

End HeaderCodec.

(* ================================================================================================ *)
(* Part 2 — pickle / copy / the coefficient matrix, on Poly.v's storage model                          *)
(* ================================================================================================ *)
From mathcomp Require Import all_ssreflect all_algebra.
From NP Require Import Base Poly.
Set Implicit Arguments. Unset Strict Implicit. Unset Printing Implicit Defensive.
Import GRing.Theory.
Local Open Scope ring_scope.

(* the positional retain_coefficients / retain_names arguments of the __reduce__ tuple
   (None: argument not passed, polynomial_from_attributes takes the global option) *)
Record rflags := RFlags { rf_rc : option bool; rf_rn : option bool }.
Definition shipped_flags := RFlags (Some false) None.
Definition exact_flags := RFlags (Some true) (Some true).
Definition flag (dflt : bool) (x : option bool) : bool := if x is Some b then b else dflt.

(* defect switches of the text path *)
Record tfix := TFix {
  fx_star : bool;     (* shape group of the regex accepts the empty string *)
  fx_filter : bool;   (* empty pieces of the shape split are skipped *)
  fx_ravel : bool;    (* the loaded array is reshaped to (-1, nkeys) before unstructured_to_structured *)
  fx_chain : bool     (* the line read from a file object is handed back to numpy.loadtxt *)
}.
Definition shipped_tfix := TFix false false false false.
Definition fixed_tfix := TFix true true true true.

Section Persist.
Variable R : comRingType.
Implicit Types (p : parr R) (o : opts).

(* ---- __reduce__ and the reconstruction ----------------------------------------------------------- *)
(* (exponents, coefficients, names, dtype, allocation, flags...): every coefficient array carries its
   own shape; `coefficients` is [] for an array without elements *)
Record pickled := Pickled {
  pk_rows : seq (seq nat);
  pk_cols : seq (seq nat * seq R);
  pk_names : seq nat;
  pk_flags : rflags
}.

Definition reduce (f : rflags) p : pickled :=
  Pickled (rows p) (if psize p == 0%N then [::] else [seq (shape p, c) | c <- cols p]) (names p) f.

(* polynomial_from_attributes( *args ): shape = coefficients[0].shape *)
Definition rebuild o (t : pickled) : res (parr R) :=
  from_attributes (flag (o_retc o) (rf_rc (pk_flags t))) (flag (o_retn o) (rf_rn (pk_flags t)))
                  (pk_names t) (head [::] (unzip1 (pk_cols t))) (pk_rows t) (unzip2 (pk_cols t)).

Definition pickle_roundtrip o (f : rflags) p : res (parr R) := rebuild o (reduce f p).

(* ndarray.__copy__ / __deepcopy__ / .copy(): a fresh buffer with the same bytes; names, keys, dtype
   are taken over by __array_finalize__ *)
Definition pcopy p : parr R := Parr (names p) (shape p) (rows p) [seq [seq x | x <- c] | c <- cols p].

(* ---- savetxt: structured_to_unstructured(values.ravel()) : one line per element, one column per term *)
Definition to_matrix p : seq (seq R) :=
  [seq [seq nth 0 c i | c <- cols p] | i <- iota 0 (psize p)].

(* ---- numpy.loadtxt(..., ndmin=0): axes of length one are squeezed ---------------------------------- *)
Inductive loaded := L0 of R | L1 of seq R | L2 of seq (seq R).
Definition np_squeeze (m : seq (seq R)) : loaded :=
  match m with
  | [:: [:: x]] => L0 x
  | [:: r] => L1 r
  | _ => if all (fun r => size r == 1%N) m then L1 [seq head 0 r | r <- m] else L2 m
  end.
Definition ldata (a : loaded) : seq R :=
  match a with L0 x => [:: x] | L1 r => r | L2 m => flatten m end.

Fixpoint chunk (fuel k : nat) (s : seq R) : seq (seq R) :=
  match fuel with
  | 0%N => [::]
  | fuel'.+1 => if s is [::] then [::] else take k s :: chunk fuel' k (drop k s)
  end.

(* unstructured_to_structured(array, dtype with nk fields): (struct shape, one column per field) *)
Definition to_struct (ravel : bool) (nk : nat) (a : loaded) : res (seq nat * seq (seq R)) :=
  if ravel then
    let d := ldata a in
    if (nk == 0%N) || ((size d %% nk)%N != 0%N) then Err ValueError
    else let m := chunk (size d) nk d in
         Ok ([:: size m], [seq column 0 k m | k <- iota 0 nk])
  else
    match a with
    | L0 _ => Err ValueError                         (* "arr must have at least one dimension" *)
    | L1 r => if size r == nk then Ok ([::], [seq [:: x] | x <- r]) else Err ValueError
    | L2 m => if all (fun r => size r == nk) m
              then Ok ([:: size m], [seq column 0 k m | k <- iota 0 nk]) else Err ValueError
    end.

(* polynomial(struct, names=names) followed by reshape(array, shape) = aspolynomial(values.reshape) *)
Definition load_poly o (ravel : bool) (ns : seq nat) (rs : seq (seq nat)) (sh : seq nat)
    (a : loaded) : res (parr R) :=
  rbind (to_struct ravel (size rs) a) (fun sc =>
  rbind (from_attributes (o_retc o) (o_retn o) ns sc.1 rs sc.2) (fun p1 =>
  if prodn sh != prodn sc.1 then Err ValueError
  else from_attributes (o_retc o) (o_retn o) (names p1) sh (rows p1) (cols p1))).

(* write + read of the numeric part *)
Definition text_roundtrip o (ravel : bool) p : res (parr R) :=
  load_poly o ravel (names p) (rows p) (shape p) (np_squeeze (to_matrix p)).

End Persist.

(* ================================================================================================ *)
(* Part 3 — the whole loadtxt at the instance that is run, from the code points of the first line    *)
(* ================================================================================================ *)
Inductive lres (A : Type) := LdPlain | LdErr of err | LdUnmodelled | LdPoly of A.
Arguments LdPlain {A}. Arguments LdErr {A} _. Arguments LdUnmodelled {A}.

Definition opt_all A (xs : seq (option A)) : option (seq A) :=
  foldr (fun x acc => if x is Some a then omap (cons a) acc else None) (Some [::]) xs.

Section Whole.
Variable R : comRingType.

(* header line -> names as indices, exponent rows, shape; then the numeric part *)
Definition loadtxt_model (o : opts) (fx : tfix) (off : N) (comments line : seq N)
    (a : loaded R) : lres (parr R) :=
  match parse_header (fx_star fx) (fx_filter fx) comments line with
  | HPlain => LdPlain
  | HFail HAssert => LdErr OtherError
  | HFail HValue => LdErr ValueError
  | HOk ns ks sh =>
      match opt_all [seq name_idx s | s <- ns] with
      | None => LdUnmodelled
      | Some idx =>
          match load_poly o (fx_ravel fx) [seq N.to_nat k | k <- idx]
                          [seq [seq N.to_nat e | e <- decode_row off k] | k <- ks]
                          [seq N.to_nat d | d <- sh] a with
          | Ok p => LdPoly p
          | Err e => LdErr e
          end
      end
  end.

(* header text of savetxt for a model polynomial *)
Definition savetxt_header (off : N) (version comments : seq N) (p : parr R) : seq N :=
  first_line comments
    (print_header off version [seq name_str (N.of_nat k) | k <- names p]
                  [seq [seq N.of_nat e | e <- r] | r <- rows p] [seq N.of_nat d | d <- shape p]).

End Whole.
