(* Effects.v — effect IR for C17 ("operations never modify their arguments").

   A numpoly function is abstracted to a program over *variables* holding *values*; a value is a
   pair of buffers (own, elem): the buffer the object itself writes through, and the buffer of
   (any one of) its elements.  For a numeric array both coincide; for a Python list / tuple / dict /
   object array `own` is the container and `elem` stands for whichever element is looked at.
   The semantics is a *may* semantics at the granularity of single write events: it is executable,
   every non-deterministic decision (which of the possible sources a binding takes, which branch,
   how many loop iterations, whether execution stops here because something raised) is read from
   an explicit choice list, and the theorems quantify over all choice lists.

   Stdlib style; executable; no proofs in this file. *)
From Coq Require Import List Arith Bool PeanoNat.
Import ListNotations.

Definition var := nat.
Definition buf := nat.
Definition atom := nat.      (* 2*i = own buffer of parameter i, 2*i+1 = element buffer of parameter i *)
Definition fname := nat.
Definition value := (buf * buf)%type.

(* where a component of a freshly bound value may come from *)
Inductive ref := New | Own (y : var) | El (y : var).

Inductive instr :=
  | Assign (x : var) (os es : list ref)   (* x := (o, e), o among os, e among es *)
  | Write (x : var)                       (* in-place store through x's own buffer *)
  | Call (x : var) (f : fname) (args : list var)
  | Return (x : var)
  | Raise
  | If (p q : prog)                       (* either branch *)
  | Loop (p : prog)                       (* any number of iterations *)
with prog :=
  | Done
  | Seq (i : instr) (p : prog).
Notation "i ;; p" := (Seq i p) (at level 61, right associativity).
Definition pl (l : list instr) : prog := fold_right Seq Done l.     (* program from a list of instructions *)

(* the instructions the translator speaks in *)
Definition Alloc (x : var) : instr := Assign x [New] [New].                     (* fresh buffer *)
Definition Alias (x y : var) : instr := Assign x [Own y] [El y].                (* same object *)
Definition View (x y : var) : instr := Assign x [Own y] [El y].                 (* shares y's buffer *)
Definition Elem (x y : var) : instr := Assign x [El y] [El y].                  (* x = y[i], for x in y *)
Definition MayAlias (x : var) (ys : list var) : instr :=                        (* fresh, or one of ys *)
  Assign x (New :: map Own ys) (New :: map El ys).
Definition Box (x : var) (ys : list var) : instr :=                             (* new container holding ys *)
  Assign x [New] (New :: map Own ys ++ map El ys).
Definition Put (c v : var) : instr := Assign c [Own c] [El c; Own v; El v].     (* c now also holds v *)

Record fdef := FDef { f_arity : nat; f_outs : list atom; f_body : prog }.
Definition table := list fdef.

(* ---- executable semantics ------------------------------------------------------------------ *)
Inductive outcome := ONorm | ORet (v : value) | OExc.
Record rstate := RState { env : var -> value; next : buf; wr : list buf; ch : list nat }.

Definition upd (e : var -> value) (x : var) (v : value) : var -> value :=
  fun y => if Nat.eqb y x then v else e y.

Definition pop (s : rstate) : nat * rstate :=
  match ch s with
  | [] => (0, s)
  | c :: r => (c, RState (env s) (next s) (wr s) r)
  end.

Definition rd (s : rstate) (r : ref) : buf :=
  match r with New => next s | Own y => fst (env s y) | El y => snd (env s y) end.

Definition pick (c : nat) (rs : list ref) : ref := nth (c mod (length rs)) rs New.

(* environment at function entry: parameter i holds the i-th argument value; every other
   variable holds the not yet used buffer d *)
Definition entry_env (vals : list value) (d : buf) : var -> value := fun i => nth i vals (d, d).
Definition entry (vals : list value) (d : buf) (w : list buf) (c : list nat) : rstate :=
  RState (entry_env vals d) d w c.

Fixpoint run_p (tbl : table) (n : nat) (p : prog) (s : rstate) {struct n} : outcome * rstate :=
  match n with
  | 0 => (OExc, s)
  | S m =>
    match p with
    | Done => (ONorm, s)
    | Seq i p' =>
        let (c, s0) := pop s in
        if Nat.eqb c 1 then (OExc, s0)                (* something raised here: execution stops *)
        else match run_i tbl m i s0 with
             | (ONorm, s1) => run_p tbl m p' s1
             | r => r
             end
    end
  end
with run_i (tbl : table) (n : nat) (i : instr) (s : rstate) {struct n} : outcome * rstate :=
  match n with
  | 0 => (OExc, s)
  | S m =>
    match i with
    | Assign x os es =>
        let (co, s1) := pop s in
        let (ce, s2) := pop s1 in
        let v := (rd s2 (pick co os), rd s2 (pick ce es)) in
        (ONorm, RState (upd (env s2) x v) (S (next s2)) (wr s2) (ch s2))
    | Write x => (ONorm, RState (env s) (next s) (fst (env s x) :: wr s) (ch s))
    | Return x => (ORet (env s x), s)
    | Raise => (OExc, s)
    | If p q =>
        let (c, s1) := pop s in
        if Nat.eqb c 0 then run_p tbl m p s1 else run_p tbl m q s1
    | Loop p =>
        let (c, s1) := pop s in
        if Nat.eqb c 0 then (ONorm, s1)
        else match run_p tbl m p s1 with
             | (ONorm, s2) => run_i tbl m (Loop p) s2
             | r => r
             end
    | Call x f args =>
        match nth_error tbl f with
        | None => (OExc, s)
        | Some fd =>
            let vals := map (env s) (firstn (f_arity fd) args) in
            match run_p tbl m (f_body fd) (entry vals (next s) (wr s) (ch s)) with
            | (ORet v, s1) => (ONorm, RState (upd (env s) x v) (next s1) (wr s1) (ch s1))
            | (ONorm, s1) =>
                (ONorm, RState (upd (env s) x (next s1, next s1)) (S (next s1)) (wr s1) (ch s1))
            | (OExc, s1) =>
                (* the callee raised after a prefix of its effects; the exception propagates, or an
                   enclosing handler catches it and execution goes on (over-approximation) *)
                let (c, s2) := pop (RState (env s) (next s1) (wr s1) (ch s1)) in
                if Nat.eqb c 0 then (OExc, s2)
                else (ONorm, RState (upd (env s) x (next s1, next s1)) (S (next s1)) (wr s1) (ch s2))
            end
        end
    end
  end.

(* buffer denoted by an atom of the function that was entered with argument values vals *)
Definition atom_buf (vals : list value) (d : buf) (a : atom) : buf :=
  let v := nth (Nat.div2 a) vals (d, d) in if Nat.even a then fst v else snd v.

(* ---- abstract domain: which parameter atoms a component may denote ---------------------------- *)
Definition aset := list atom.
Fixpoint mem (a : nat) (l : list nat) : bool :=
  match l with [] => false | b :: l' => Nat.eqb a b || mem a l' end.
Fixpoint union (l1 l2 : aset) : aset :=
  match l1 with
  | [] => l2
  | a :: l1' => let u := union l1' l2 in if mem a u then u else a :: u
  end.
Definition subset (l1 l2 : aset) : bool := forallb (fun a => mem a l2) l1.

Definition aval := (aset * aset)%type.
(* the abstract environment is positional: entry x belongs to variable x; missing = no atoms *)
Record astate := AState { aenv : list aval; awr : aset; aro : aset; are : aset }.

Definition get (A : astate) (x : var) : aval := nth x (aenv A) ([], []).
Fixpoint set_nth (l : list aval) (x : nat) (v : aval) : list aval :=
  match x, l with
  | 0, [] => [v]
  | 0, _ :: l' => v :: l'
  | S x', [] => ([], []) :: set_nth [] x' v
  | S x', a :: l' => a :: set_nth l' x' v
  end.
Definition set (A : astate) (x : var) (v : aval) : astate :=
  AState (set_nth (aenv A) x v) (awr A) (aro A) (are A).

Definition aref (A : astate) (r : ref) : aset :=
  match r with New => [] | Own y => fst (get A y) | El y => snd (get A y) end.
Fixpoint arefs (A : astate) (rs : list ref) : aset :=
  match rs with [] => [] | r :: rs' => union (aref A r) (arefs A rs') end.

Fixpoint join_env (l1 l2 : list aval) : list aval :=
  match l1, l2 with
  | [], _ => l2
  | _, [] => l1
  | (o1, e1) :: l1', (o2, e2) :: l2' => (union o1 o2, union e1 e2) :: join_env l1' l2'
  end.
Definition join (A B : astate) : astate :=
  AState (join_env (aenv A) (aenv B)) (union (awr A) (awr B)) (union (aro A) (aro B)) (union (are A) (are B)).

Fixpoint leq_env (l1 l2 : list aval) : bool :=
  match l1, l2 with
  | [], _ => true
  | (o1, e1) :: l1', [] => subset o1 [] && subset e1 [] && leq_env l1' []
  | (o1, e1) :: l1', (o2, e2) :: l2' => subset o1 o2 && subset e1 e2 && leq_env l1' l2'
  end.
Definition leqb (A B : astate) : bool :=
  leq_env (aenv A) (aenv B) && subset (awr A) (awr B) && subset (aro A) (aro B) && subset (are A) (are B).

(* what a callee is known to do: parameter atoms it may write, atoms its result may share *)
Record summary := Summary { s_w : aset; s_ro : aset; s_re : aset }.
Definition summaries := list summary.

(* the callee's atom a, seen from the call site *)
Definition subst1 (A : astate) (args : list var) (a : atom) : aset :=
  match nth_error args (Nat.div2 a) with
  | Some y => if Nat.even a then fst (get A y) else snd (get A y)
  | None => []
  end.
Fixpoint subst (A : astate) (args : list var) (S : aset) : aset :=
  match S with [] => [] | a :: S' => union (subst1 A args a) (subst A args S') end.

Definition loop_fuel : nat := 40.

Section Analysis.
Variable sums : summaries.

(* iterate the body until the abstract state is a post-fixpoint; None if it does not settle *)
Fixpoint an_loop (body : astate -> option astate) (fuel : nat) (A : astate) : option astate :=
  match body A with
  | None => None
  | Some B =>
      if leqb B A then Some A
      else match fuel with 0 => None | S f => an_loop body f (join A B) end
  end.

Fixpoint an_i (i : instr) (A : astate) : option astate :=
  match i with
  | Assign x os es => Some (set A x (arefs A os, arefs A es))
  | Write x => Some (AState (aenv A) (union (fst (get A x)) (awr A)) (aro A) (are A))
  | Return x => Some (AState (aenv A) (awr A) (union (fst (get A x)) (aro A)) (union (snd (get A x)) (are A)))
  | Raise => Some A
  | If p q =>
      match an_p p A, an_p q A with
      | Some A1, Some A2 => Some (join A1 A2)
      | _, _ => None
      end
  | Loop p => an_loop (an_p p) loop_fuel A
  | Call x f args =>
      match nth_error sums f with
      | None => None
      | Some sm =>
          let A1 := AState (aenv A) (union (subst A args (s_w sm)) (awr A)) (aro A) (are A) in
          Some (set A1 x (subst A args (s_ro sm), subst A args (s_re sm)))
      end
  end
with an_p (p : prog) (A : astate) : option astate :=
  match p with
  | Done => Some A
  | Seq i p' => match an_i i A with Some A1 => an_p p' A1 | None => None end
  end.

Definition ainit (k : nat) : astate :=
  AState (map (fun i => ([2 * i], [2 * i + 1])) (seq 0 k)) [] [] [].

Definition analyse (fd : fdef) : option astate := an_p (f_body fd) (ainit (f_arity fd)).

(* the body does no more than the summary says *)
Definition consistent (fd : fdef) (sm : summary) : bool :=
  match analyse fd with
  | Some A => subset (awr A) (s_w sm) && subset (aro A) (s_ro sm) && subset (are A) (s_re sm)
  | None => false
  end.

(* the only parameter atoms the function may write are its declared output targets *)
Definition declared (fd : fdef) (sm : summary) : bool := subset (s_w sm) (f_outs fd).

Definition safe (fd : fdef) (sm : summary) : bool := consistent fd sm && declared fd sm.
End Analysis.

Fixpoint forallb2 {A B} (f : A -> B -> bool) (l1 : list A) (l2 : list B) : bool :=
  match l1, l2 with
  | [], [] => true
  | a :: l1', b :: l2' => f a b && forallb2 f l1' l2'
  | _, _ => false
  end.

(* every function body is consistent with the table of summaries (an inductive invariant: the
   summaries of callees, including recursive ones, are assumed while a body is analysed) *)
Definition table_ok (tbl : table) (sums : summaries) : bool := forallb2 (consistent sums) tbl sums.

(* indices of the functions whose summary writes a parameter that is not a declared output *)
Fixpoint unsafe_from (k : nat) (tbl : table) (sums : summaries) : list fname :=
  match tbl, sums with
  | fd :: tbl', sm :: sums' => if declared fd sm then unsafe_from (S k) tbl' sums' else k :: unsafe_from (S k) tbl' sums'
  | _, _ => []
  end.
Definition unsafe_funs (tbl : table) (sums : summaries) : list fname := unsafe_from 0 tbl sums.

(* summary inference (not trusted: its result is checked by table_ok): Kleene iteration from "no effect",
   stopped as soon as a round changes nothing *)
Definition infer_round (tbl : table) (sums : summaries) : summaries :=
  map (fun fd => match analyse sums fd with
                 | Some A => Summary (awr A) (aro A) (are A)
                 | None => Summary [] [] []
                 end) tbl.
Definition sum_leb (a b : summary) : bool :=
  subset (s_w a) (s_w b) && subset (s_ro a) (s_ro b) && subset (s_re a) (s_re b).
Fixpoint infer (n : nat) (tbl : table) (sums : summaries) : summaries :=
  match n with
  | 0 => sums
  | S m => let s' := infer_round tbl sums in
           if forallb2 sum_leb s' sums then sums else infer m tbl s'
  end.
Definition infer0 (n : nat) (tbl : table) : summaries := infer n tbl (map (fun _ => Summary [] [] []) tbl).
