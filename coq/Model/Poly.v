(* Poly.v — executable model of numpoly's polynomial arrays: storage record,
   clean/from_attributes, the three aligners, simple_dispatch (+, -, neg),
   multiply, power, indexing, and the canonical observation compared with
   the implementation.  No proofs in this file. *)
From mathcomp Require Import all_ssreflect all_algebra.
From NP Require Import Base.
Set Implicit Arguments. Unset Strict Implicit. Unset Printing Implicit Defensive.
Import GRing.Theory.
Local Open Scope ring_scope.

(* the options that the modelled functions read *)
Record opts := Opts { o_retc : bool; o_retn : bool; o_sgraded : bool; o_sreverse : bool }.
Definition dflt_opts := Opts false true true false.

Section Model.
Variable R : comRingType.

(* names are indeterminate indices: "q<k>" is k (default varname, canonical suffix) *)
Record parr := Parr {
  names : seq nat;          (* ordered indeterminates, one per exponent column *)
  shape : seq nat;
  rows  : seq (seq nat);    (* exponent rows, storage order *)
  cols  : seq (seq R)       (* one flat (C-order) coefficient column per row *)
}.

Definition term := (seq nat * seq R)%type.
Definition terms (p : parr) : seq term := zip (rows p) (cols p).
Definition zeros (m : nat) : seq R := nseq m 0.
Definition psize (p : parr) : nat := prodn (shape p).
Definition cell (cs : seq (seq R)) (k i : nat) : R := nth 0 (nth [::] cs k) i.

(* ---- well-formedness (C03) ---------------------------------------------- *)
Definition wfb (p : parr) : bool :=
  [&& size (rows p) == size (cols p),
      0 < size (rows p),
      uniq (rows p),
      all (fun r => size r == size (names p)) (rows p),
      all (fun c => size c == psize p) (cols p),
      0 < size (names p) & uniq (names p)]%N.

(* ---- clean.py : postprocess_attributes ------------------------------------ *)
Definition keep_term (t : term) : bool :=
  has (fun c => c != 0) t.2 || ~~ has (fun e => e != 0%N) t.1.

Definition rm_coefs (D : nat) (ts : seq term) : seq term :=
  let ks := filter keep_term ts in
  if ks is [::] then [:: (nseq D 0%N, zeros (size (head [::] (unzip2 ts))))] else ks.

Definition used_mask (D : nat) (rs : seq (seq nat)) : seq bool :=
  let m := [seq has (fun r => nth 0%N r k != 0%N) rs | k <- iota 0 D] in
  if has id m then m else (if m is _ :: m' then true :: m' else m).

Definition rm_names (rs : seq (seq nat)) (ns : seq nat) : seq (seq nat) * seq nat :=
  let m := used_mask (size ns) rs in ([seq mask m r | r <- rs], mask m ns).

Definition from_attributes (rc rn : bool) (ns sh : seq nat)
    (rs : seq (seq nat)) (cs : seq (seq R)) : res parr :=
  if size rs != size cs then Err ConstructionError else
  if cs is [::] then Err OtherError else
  let ts := if rc then zip rs cs else rm_coefs (size (head [::] rs)) (zip rs cs) in
  let rs1 := unzip1 ts in
  let cs1 := unzip2 ts in
  if ~~ all (fun r => size r == size ns) rs1 then Err ConstructionError else
  if ~~ uniq ns then Err ConstructionError else
  let: (rs2, ns2) := if rn then (rs1, ns) else rm_names rs1 ns in
  if ~~ uniq rs2 then Err ConstructionError else
  Ok (Parr ns2 sh rs2 cs1).

Definition clean (o : opts) (p : parr) : res parr :=
  from_attributes (o_retc o) (o_retn o) (names p) (shape p) (rows p) (cols p).

(* ---- align.py ------------------------------------------------------------ *)
(* align_shape: multiply every coefficient with ones of the common shape, re-clean *)
Definition bcast (s : seq nat) (p : parr) : parr :=
  Parr (names p) s (rows p)
       [seq gather 0 (bidx (shape p) s) (prodn s) c | c <- cols p].

Definition align_shape1 (o : opts) (s : seq nat) (p : parr) : res parr :=
  if shape p == s then Ok p else clean o (bcast s p).

(* align_indeterminants *)
Definition union_names (nss : seq (seq nat)) : seq nat := sort leq (undup (flatten nss)).
Definition expo (ns : seq nat) (row : seq nat) (v : nat) : nat := nth 0%N row (index v ns).
Definition widen (ns ns' : seq nat) (row : seq nat) : seq nat := [seq expo ns row v | v <- ns'].
Definition align_names (ns' : seq nat) (p : parr) : parr :=
  if names p == ns' then p
  else Parr ns' (shape p) [seq widen (names p) ns' r | r <- rows p] (cols p).

(* align_exponents (names already common) *)
Definition global_rows (rss : seq (seq (seq nat))) : seq (seq nat) :=
  sort lexleq (undup (flatten rss)).
Definition colof (p : parr) (r : seq nat) : seq R :=
  nth (zeros (psize p)) (cols p) (index r (rows p)).
Definition align_rows (rs : seq (seq nat)) (p : parr) : parr :=
  Parr (names p) (shape p) rs [seq colof p r | r <- rs].

(* align_polynomials on a list: shape, then names, then exponents *)
Definition rseq A (xs : seq (res A)) : res (seq A) :=
  foldr (fun x acc => rbind x (fun a => rmap (cons a) acc)) (Ok [::]) xs.

Definition align_shapes (o : opts) (ps : seq parr) : res (seq parr) :=
  match bshapes [seq shape p | p <- ps] with
  | None => Err ValueError
  | Some s => rseq [seq align_shape1 o s p | p <- ps]
  end.

Definition align_indets (ps : seq parr) : seq parr :=
  let ns := union_names [seq names p | p <- ps] in [seq align_names ns p | p <- ps].

Definition align_expons (ps : seq parr) : seq parr :=
  let ps1 := if all (fun p => names p == names (head (Parr [::] [::] [::] [::]) ps)) ps
             then ps else align_indets ps in
  let rs := global_rows [seq rows p | p <- ps1] in
  [seq align_rows rs p | p <- ps1].

Definition align_polys (o : opts) (ps : seq parr) : res (seq parr) :=
  rmap align_expons (align_shapes o ps).

(* ---- dispatch.py : simple_dispatch for coefficient-wise functions -------------- *)
Definition zipw (f : R -> R -> R) (a b : seq R) : seq R := [seq f x.1 x.2 | x <- zip a b].

Definition dispatch1 (o : opts) (f : R -> R) (a : parr) : res parr :=
  clean o (Parr (names a) (shape a) (rows a) [seq map f c | c <- cols a]).

Definition dispatch2 (o : opts) (f : R -> R -> R) (a b : parr) : res parr :=
  rbind (align_polys o [:: a; b]) (fun ps =>
    match ps with
    | [:: a'; b'] =>
        clean o (Parr (names a') (shape a') (rows a')
                      [seq zipw f x.1 x.2 | x <- zip (cols a') (cols b')])
    | _ => Err OtherError
    end).

Definition padd o := dispatch2 o +%R.
Definition psub o := dispatch2 o (fun x y => x - y).
Definition pneg o := dispatch1 o -%R.

(* ---- multiply.py + cmultiply.pyx ------------------------------------------------ *)
Definition eaddr (r1 r2 : seq nat) : seq nat := [seq (x.1 + x.2)%N | x <- zip r1 r2].
Definition addcols (m : nat) (cs : seq (seq R)) : seq R :=
  foldr (fun c acc => zipw +%R c acc) (zeros m) cs.

Definition mul_pairs (s : seq nat) (a b : parr) : seq term :=
  [seq (eaddr ta.1 tb.1,
        [seq nth 0 ta.2 (bidx (shape a) s i) * nth 0 tb.2 (bidx (shape b) s i)
        | i <- iota 0 (prodn s)])
  | ta <- terms a, tb <- terms b].

Definition pmul (o : opts) (a b : parr) : res parr :=
  match bshape (shape a) (shape b) with
  | None => Err ValueError
  | Some s =>
      let ns := union_names [:: names a; names b] in
      let a1 := align_names ns a in
      let b1 := align_names ns b in
      let pairs := mul_pairs s a1 b1 in
      let rs := sort lexleq (undup (unzip1 pairs)) in
      let cs := [seq addcols (prodn s) [seq q.2 | q <- pairs & q.1 == r] | r <- rs] in
      from_attributes (o_retc o) (o_retn o) ns s rs cs
  end.

(* power.py, 0-d exponent: fold of multiply from the constant one *)
Definition pone (a : parr) : parr :=
  Parr (take 1 (names a)) (shape a) [:: [:: 0%N]] [:: nseq (psize a) 1].

Fixpoint ppow_fold (o : opts) (e : nat) (acc : res parr) (a : parr) : res parr :=
  match e with
  | 0%N => acc
  | e'.+1 => ppow_fold o e' (rbind acc (fun x => pmul o x a)) a
  end.
Definition ppow (o : opts) (a : parr) (e : nat) : res parr :=
  rbind (from_attributes (o_retc o) (o_retn o) (take 1 (names a)) (shape a)
                         [:: [:: 0%N]] [:: nseq (psize a) 1])
        (fun one => ppow_fold o e (Ok one) a).

(* power.py, array of exponents: raise to each distinct exponent once, keep the elements that ask
   for it (mask), accumulate *)
Definition mask_poly (se es : seq nat) (k : nat) : parr :=
  Parr [:: 0%N] se [:: [:: 0%N]] [:: [seq (if e == k then 1 else 0) | e <- es]].

Definition ppow_arr (o : opts) (x : parr) (se es : seq nat) : res parr :=
  match bshape (shape x) se with
  | None => Err ValueError
  | Some s =>
      foldl (fun acc k =>
               rbind acc (fun a =>
               rbind (ppow o x k) (fun xk =>
               rbind (pmul o xk (mask_poly se es k)) (fun t => padd o a t))))
            (Ok (Parr [:: 0%N] s [:: [:: 0%N]] [:: zeros (prodn s)]))
            (sort leq (undup es))
  end.

(* ---- expression trees over the ring operators (C01) ---------------------------- *)
Inductive expr :=
  | Leaf of parr
  | ENeg of expr
  | EAdd of expr & expr
  | ESub of expr & expr
  | EMul of expr & expr
  | EPow of expr & nat.

Fixpoint eval (o : opts) (e : expr) : res parr :=
  match e with
  | Leaf p => Ok p
  | ENeg a => rbind (eval o a) (pneg o)
  | EAdd a b => rbind (eval o a) (fun x => rbind (eval o b) (padd o x))
  | ESub a b => rbind (eval o a) (fun x => rbind (eval o b) (psub o x))
  | EMul a b => rbind (eval o a) (fun x => rbind (eval o b) (pmul o x))
  | EPow a k => rbind (eval o a) (fun x => ppow o x k)
  end.

(* ---- indexing: every column indexed with the same index map ---------------------- *)
Definition pgather (o : opts) (s : seq nat) (sigma : nat -> nat) (p : parr) : res parr :=
  clean o (Parr (names p) s (rows p) [seq gather 0 sigma (prodn s) c | c <- cols p]).

(* ---- construct/monomial.py: identity coefficient matrix over the generated exponents ------ *)
Definition pmonomial (ns : seq nat) (ix : seq (seq nat)) : parr :=
  Parr ns [:: size ix] ix
       [seq [seq (if i == k then 1 else 0) | i <- iota 0 (size ix)] | k <- iota 0 (size ix)].

(* ---- canonical observation --------------------------------------------------- *)
Definition mono := seq (nat * nat).      (* (variable, exponent > 0), sorted by variable *)
Definition sparse (ns : seq nat) (r : seq nat) : mono :=
  sort (fun x y => x.1 <= y.1)%N [seq x <- zip ns r | x.2 != 0%N].
Definition canon (p : parr) (i : nat) : seq (mono * R) :=
  [seq (sparse (names p) t.1, nth 0 t.2 i) | t <- terms p & nth 0 t.2 i != 0].

Definition obs := (seq nat * seq (seq (mono * R)))%type.
Definition observe (p : parr) : obs := (shape p, [seq canon p i | i <- iota 0 (psize p)]).
Definition obs_eq (x y : obs) : bool :=
  [&& x.1 == y.1, size x.2 == size y.2 & all (fun ab => perm_eq ab.1 ab.2) (zip x.2 y.2)].

End Model.
