(* Order.v — monomial orders, glexsort, cross truncation, glexindex, bindex.  No proofs. *)
From Coq Require Import BinNat.
From mathcomp Require Import all_ssreflect.
From NP Require Import Base.
Set Implicit Arguments. Unset Strict Implicit. Unset Printing Implicit Defensive.

(* ---- the monomial orders ------------------------------------------------------------- *)
(* numpy.lexsort's primary key is the LAST row: lexicographic on the reversed exponent vector;
   reverse=True flips the rows first *)
Definition lkey (r : bool) (m : seq nat) : seq nat := if r then m else rev m.
Definition okey (g r : bool) (m : seq nat) : seq nat :=
  (if g then [:: sumn m] else [::]) ++ lkey r m.
Definition mleq (g r : bool) (m1 m2 : seq nat) : bool := lexleq (okey g r m1) (okey g r m2).

(* ---- glexsort: lexsort, then (graded) a stable argsort of the column sums --------------- *)
Definition glexsort (g r : bool) (cols : seq (seq nat)) : seq nat :=
  let col i := nth [::] cols i in
  let s1 := sort (fun i j => lexleq (lkey r (col i)) (lkey r (col j))) (iota 0 (size cols)) in
  if g then sort (fun i j => sumn (col i) <= sumn (col j)) s1 else s1.

(* ---- cross_truncate ----------------------------------------------------------------------- *)
(* norms handled exactly: 0, integer p >= 1, infinity *)
Inductive normt := NZero | NP of nat | NInf.

(* bounds are given as ss_k = bound_k + 1, so that ss_k = 0 encodes a negative bound *)
(* sum_k (t_k/b_k)^p <= 1 with denominators cleared, computed in binary naturals *)
Definition npow (b : N) (p : nat) : N := iter p (N.mul b) 1%num.
Definition nprod (s : seq N) : N := foldr N.mul 1%num s.
Definition nsum (s : seq N) : N := foldr N.add 0%num s.
Definition prod_except (bs : seq N) (k : nat) : N :=
  nprod [seq nth 1%num bs j | j <- iota 0 (size bs) & j != k].

Definition ball (nm : normt) (t bs : seq nat) : bool :=
  match nm with
  | NZero => (count (fun x => 0 < x) t <= 1) && all (fun xb => xb.1 <= xb.2) (zip t bs)
  | NInf => all (fun xb => xb.1 <= xb.2) (zip t bs)
  | NP p =>
      let bp := [seq npow (bin_of_nat b) p | b <- bs] in
      let tp := [seq npow (bin_of_nat x) p | x <- t] in
      N.leb (nsum [seq (nth 0%num tp k * prod_except bp k)%num | k <- iota 0 (size bs)]) (nprod bp)
  end.

Definition cross_truncate (nm : normt) (t ss : seq nat) : bool :=
  if has (fun s => s == 0) ss then false else
  let z := zip t ss in
  let zero := [seq x <- z | x.2 == 1] in        (* bound 0: the index must be 0 *)
  let rest := [seq x <- z | x.2 != 1] in
  all (fun x => x.1 == 0) zero &&
  (if rest is [::] then true else ball nm (unzip1 rest) [seq x.2.-1 | x <- rest]).

(* ---- _glexindex ---------------------------------------------------------------------------- *)
Definition maxs (s : seq nat) : nat := foldr maxn 0 s.

Fixpoint grid (nm : normt) (bound : nat) (d : nat) : seq (seq nat) :=
  match d with
  | 0 => [::]
  | 1 => [seq [:: v] | v <- iota 0 bound]
  | d'.+1 =>
      let prev := grid nm bound d' in
      (* "if idx: truncate": not before the first extension *)
      let prev := if d' is 1 then prev
                  else [seq t <- prev | cross_truncate nm t (nseq (size t) bound)] in
      [seq v :: t | v <- iota 0 bound, t <- prev]
  end.

Definition glexindex_raw (nm0 nm1 : normt) (start stop : seq nat) : seq (seq nat) :=
  let bound := maxs stop in
  let d := size start in
  let g := grid nm1 bound d in
  if d == 1 then [seq t <- g | (nth 0 start 0 <= nth 0 t 0) && (nth 0 t 0 < bound)]
  else [seq t <- g | cross_truncate nm1 t stop && ~~ cross_truncate nm0 t start].

Definition glexindex (nm0 nm1 : normt) (start stop : seq nat) (g r : bool) : seq (seq nat) :=
  let ix := glexindex_raw nm0 nm1 start stop in
  [seq nth [::] ix i | i <- glexsort g r ix].

(* bindex: ordering letters G (graded), R (reverse off), I (inverted output) *)
Definition bindex (nm0 nm1 : normt) (start stop : seq nat) (hasG hasR hasI : bool) : seq (seq nat) :=
  let out := glexindex nm0 nm1 start stop hasG (~~ hasR) in
  if hasI then rev out else out.
