(* DivmodCut.v — the cut-off of get_division_candidate (divmod.py) (C05).  No proofs.

     candidate = x1.coefficients[idx1] / numpy.where(include, x2.coefficients[idx2], 1)
     if numpy.all(numpy.abs(candidate) < cutoff): continue

   A pair (divisor monomial e2, dividend monomial m) is SKIPPED when, in every element of the array, the candidate
   coefficient - dividend coefficient at m over the divisor's coefficient at e2 for the included elements, over 1 for the
   others - is smaller than the cut-off in absolute value; the search then goes on with the next smaller dividend monomial.
   run_with is the division loop for an ARBITRARY way of choosing the pair; run_cut instantiates it with the cut-off rule
   (run of Divmod.v is the rule without cut-off). *)
From mathcomp Require Import all_ssreflect all_algebra.
From NP Require Import Base Divmod.
Set Implicit Arguments. Unset Strict Implicit. Unset Printing Implicit Defensive.
Import GRing.Theory Num.Theory.
Local Open Scope ring_scope.

Section With.
Variable F : fieldType.
Variable cand : seq (elem F) -> option (mono * mono).

Fixpoint run_with (fuel : nat) (es : seq (elem F)) : res (seq (elem F)) :=
  match fuel with
  | 0%N => Err OutOfFuel
  | fuel'.+1 =>
      match cand es with
      | None => Ok es
      | Some (e2, e1) => run_with fuel' [seq step_elem e2 e1 e | e <- es]
      end
  end.

Definition divmod_with (fuel : nat) (fs gs : seq (spoly F)) : res (seq (spoly F * spoly F)) :=
  rmap (map (fun e => (e_q e, e_d e))) (run_with fuel (start fs gs)).
End With.

Section Cut.
Variable F : numFieldType.
Variable eps : F.

Definition included (e2 m : mono) (e : elem F) : bool := (lead (e_g e) == Some e2) && (coef_at (e_d e) m != 0).
Definition cand_coef (e2 m : mono) (e : elem F) : F :=
  coef_at (e_d e) m / (if included e2 m e then coef_at (e_g e) e2 else 1).
Definition kept (e2 m : mono) (es : seq (elem F)) : bool := has (fun e => ~~ (`|cand_coef e2 m e| < eps)) es.

Definition pick_e1_cut (e2 : mono) (es : seq (elem F)) : option mono :=
  mmax [seq m <- flatten [seq support (e_d e) | e <- es & lead (e_g e) == Some e2] | mdivides e2 m && kept e2 m es].

Definition candidate_cut (es : seq (elem F)) : option (mono * mono) :=
  first_some (fun e2 => pick_e1_cut e2 es) (sort_desc (pmap (fun e => lead (e_g e)) es)).

Definition run_cut := run_with candidate_cut.
Definition divmod_cut := divmod_with candidate_cut.
End Cut.
