(* Rearr.v — the two wrapper skeletons behind numpoly's shape functions and indexing (C09).

   M2 "raw" skeleton (reshape, transpose, moveaxis, expand_dims, atleast_1d..3d, repeat, tile, split
   family, diag, diagonal, broadcast_arrays, choose (over one stacked operand), full/full_like,
   indexing, iteration, ravel/flatten/.T):  apply ONE re-arrangement to the structured storage,
   i.e. the same index map to every coefficient column, and re-wrap with the input's names.
   A re-arrangement is given by its index map: result element j is input element i
   ([Some i]) or a fill element ([None], numpy's zero record: numpy.diag off the diagonal).

   M1 "columns" skeleton (concatenate, stack, hstack, vstack, dstack, where): align the
   exponents of all operands, then build every result column by taking, for result element j,
   element i of operand k.

   The index maps themselves are numpy's (computed by the harness from the very numpy function
   on index arrays); the theorems in Proofs/RearrP.v hold for EVERY index map.  No proofs here. *)
From mathcomp Require Import all_ssreflect all_algebra.
From NP Require Import Base Poly.
Set Implicit Arguments. Unset Strict Implicit. Unset Printing Implicit Defensive.
Import GRing.Theory.
Local Open Scope ring_scope.

Section Rearr.
Variable R : comRingType.
Implicit Types (p : parr R) (o : opts).

Definition ogather (sigma : seq (option nat)) (c : seq R) : seq R :=
  [seq (if s is Some i then nth 0 c i else 0) | s <- sigma].

Definition prearr o (s : seq nat) (sigma : seq (option nat)) p : res (parr R) :=
  if size sigma != prodn s then Err ValueError else
  clean o (Parr (names p) s (rows p) [seq ogather sigma c | c <- cols p]).

Definition pnil0 : parr R := Parr [::] [::] [::] [::].

Definition jcol (qs : seq (parr R)) (tau : seq (nat * nat)) (k : nat) : seq R :=
  [seq nth 0 (nth [::] (cols (nth pnil0 qs t.1)) k) t.2 | t <- tau].

Definition pjoin o (s : seq nat) (tau : seq (nat * nat)) (ps : seq (parr R)) : res (parr R) :=
  if ps is [::] then Err ValueError else
  if size tau != prodn s then Err ValueError else
  if ~~ all (fun t => t.1 < size ps)%N tau then Err ValueError else
  let qs := align_expons ps in
  let q0 := head pnil0 qs in
  clean o (Parr (names q0) s (rows q0) [seq jcol qs tau k | k <- iota 0 (size (rows q0))]).

(* concrete index maps of the re-arrangements that Base.v models itself *)
Definition sigma_id (m : nat) : seq (option nat) := [seq Some i | i <- iota 0 m].
Definition sigma_bcast (s t : seq nat) : seq (option nat) := [seq Some (bidx s t i) | i <- iota 0 (prodn t)].
(* transpose with an axis permutation: result multi-index ix (shape [s_perm]) reads input
   multi-index ix' with ix'_(perm k) = ix_k *)
Definition perm_shape (s : seq nat) (perm : seq nat) : seq nat := [seq nth 1%N s a | a <- perm].
Definition unperm (perm ix : seq nat) : seq nat := [seq nth 0%N ix (index a perm) | a <- iota 0 (size perm)].
Definition sigma_transpose (s perm : seq nat) : seq (option nat) :=
  let t := perm_shape s perm in
  [seq Some (ravel s (unperm perm (unravel t j))) | j <- iota 0 (prodn t)].
(* concatenation of operands along the first axis (flat C order: blocks follow each other) *)
Definition tau_concat0 (sizes : seq nat) : seq (nat * nat) :=
  flatten [seq [seq (ki.1, i) | i <- iota 0 ki.2] | ki <- zip (iota 0 (size sizes)) sizes].

End Rearr.
