(* Reduce.v — reductions and linear algebra (C10): executable models, no proofs.

   sum / cumsum / mean / diff / ediff1d   apply a LINEAR numpy function to every coefficient
       column (dispatch.simple_dispatch, diff.py, ediff1d.py): result element j of every column is
       sum_{(i,w) in W_j} w * (element i); [plinear] takes the weight lists W (numpy's, obtained by the
       harness from the same numpy function) — the theorem holds for every W.
   prod    fold of numpoly.multiply over the slices along the axis (prod.py: _prod).
   inner / outer / matmul   re-arrange both operands into a common shape (reshape / newaxis /
       broadcast_arrays / implicit broadcasting), multiply, then sum along one axis: [pbilinear].
   det     the 2x2 formula and the first-row Laplace expansion of det.py on stacks of matrices. *)
From mathcomp Require Import all_ssreflect all_algebra.
From NP Require Import Base Poly Rearr.
Set Implicit Arguments. Unset Strict Implicit. Unset Printing Implicit Defensive.
Import GRing.Theory.
Local Open Scope ring_scope.

Section Reduce.
Variable R : comRingType.
Implicit Types (p a b : parr R) (o : opts).

(* ---- linear column functions ------------------------------------------------------------ *)
Definition wsum (wj : seq (nat * R)) (c : seq R) : R :=
  foldr (fun iw acc => iw.2 * nth 0 c iw.1 + acc) 0 wj.

Definition plinear o (s : seq nat) (W : seq (seq (nat * R))) p : res (parr R) :=
  if size W != prodn s then Err ValueError else
  clean o (Parr (names p) s (rows p) [seq [seq wsum wj c | wj <- W] | c <- cols p]).

(* ---- prod: out = slice_0 ; out = multiply(out, slice_k) --------------------------------------- *)
Definition pslice o (s : seq nat) (f : seq nat) p : res (parr R) := prearr o s [seq Some i | i <- f] p.

Definition pprod o (s : seq nat) (F : seq (seq nat)) p : res (parr R) :=
  match F with
  | [::] => Err OtherError        (* empty axis: IndexError in _prod *)
  | f0 :: fs =>
      foldl (fun acc f => rbind acc (fun x => rbind (pslice o s f p) (fun y => pmul o x y)))
            (pslice o s f0 p) fs
  end.

(* ---- inner, outer, matmul -------------------------------------------------------------------- *)
Definition pbilinear o (sm : seq nat) (sa sb : seq (option nat)) (s : seq nat) (W : seq (seq (nat * R)))
    a b : res (parr R) :=
  rbind (prearr o sm sa a) (fun a' =>
  rbind (prearr o sm sb b) (fun b' =>
  rbind (pmul o a' b') (plinear o s W))).

(* ---- det ------------------------------------------------------------------------------------- *)
(* a stack of d x d matrices is handled entry-wise: entry (i,j) is the array (of the batch shape)
   a[..., i, j]; the recursion of det.py works on the matrix of these entries *)
Definition entry o (bs : seq nat) (d i j : nat) p : res (parr R) :=
  prearr o bs [seq Some (b * (d * d) + i * d + j)%N | b <- iota 0 (prodn bs)] p.

Definition zeros_of (bs : seq nat) : parr R := Parr [:: 0%N] bs [:: [:: 0%N]] [:: zeros R (prodn bs)].

Definition minor_cols (d idx : nat) : seq nat := [seq c <- iota 0 d | c != idx].
Definition minor A (M : seq (seq A)) (d idx : nat) (dflt : A) : seq (seq A) :=
  [seq [seq nth dflt row c | c <- minor_cols d idx] | row <- behead M].

Fixpoint pdetM (fuel : nat) o (bs : seq nat) (M : seq (seq (parr R))) : res (parr R) :=
  match fuel with
  | 0%N => Err OutOfFuel
  | fuel'.+1 =>
      let d := size M in
      let z := zeros_of bs in
      let at_ i j := nth z (nth [::] M i) j in
      if d == 1%N then Ok (at_ 0%N 0%N) else
      if d == 2%N then
        rbind (pmul o (at_ 0%N 0%N) (at_ 1%N 1%N)) (fun x =>
        rbind (pmul o (at_ 1%N 0%N) (at_ 0%N 1%N)) (fun y => psub o x y))
      else
        foldl (fun acc idx =>
                 rbind acc (fun out =>
                 rbind (pdetM fuel' o bs (minor M d idx z)) (fun m =>
                 rbind (pmul o (at_ 0%N idx) m) (fun t =>
                 if odd idx then psub o out t else padd o out t))))
              (Ok z) (iota 0 d)
  end.

Definition pdet o (bs : seq nat) (d : nat) p : res (parr R) :=
  if d == 0%N then Err OtherError else
  rbind (rseq [seq rseq [seq entry o bs d i j p | j <- iota 0 d] | i <- iota 0 d])
        (pdetM d o bs).

End Reduce.
