(* Harness.v — the instance at which the model is *run* by the correspondence check
   (coefficients in Z, via mathcomp.zify's ssrZ structures) and the comparison of a
   model result with the implementation's recorded observation. *)
From Coq Require Import ZArith.
From mathcomp Require Import all_ssreflect all_algebra.
From mathcomp Require Import ssrZ.
From NP Require Import Base Poly.
Set Implicit Arguments. Unset Strict Implicit. Unset Printing Implicit Defensive.

Definition ZR : comRingType := [comRingType of Z].
Definition zparr := parr ZR.
Definition ZParr (ns sh : seq nat) (rs : seq (seq nat)) (cs : seq (seq Z)) : zparr :=
  @Parr ZR ns sh rs cs.

Inductive expect := EOk of obs ZR | EErr of err.

(* agreement of a model result with the implementation's observation *)
Definition chk (r : res zparr) (e : expect) : bool :=
  match r, e with
  | Ok p, EOk o => obs_eq (observe p) o
  | Err a, EErr b => err_eqb a b
  | _, _ => false
  end.

(* same, plus: the model result satisfies the well-formedness predicate *)
Definition chk_wf (r : res zparr) (e : expect) : bool :=
  chk r e && (if r is Ok p then wfb p else true).

Definition show (r : res zparr) : option (obs ZR) + err :=
  match r with Ok p => inl (Some (observe p)) | Err e => inr e end.
