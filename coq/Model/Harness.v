(* Harness.v — the instance at which the model is *run* by the correspondence check
   (coefficients in Z, via mathcomp.zify's ssrZ structures) and the comparison of a
   model result with the implementation's recorded observation. *)
From Coq Require Import ZArith.
From mathcomp Require Import all_ssreflect all_algebra.
From mathcomp Require Import ssrZ.
From NP Require Import Base Poly.
Set Implicit Arguments. Unset Strict Implicit. Unset Printing Implicit Defensive.

Definition ZR : comRingType := [comRingType of Z].
Definition zparr := parr ZR.
Definition ZParr (ns sh : seq nat) (rs : seq (seq nat)) (cs : seq (seq Z)) : zparr :=
  @Parr ZR ns sh rs cs.

Inductive expect := EOk of obs ZR | EErr of err.

(* agreement of a model result with the implementation's observation *)
Definition chk (r : res zparr) (e : expect) : bool :=
  match r, e with
  | Ok p, EOk o => obs_eq (observe p) o
  | Err a, EErr b => err_eqb a b
  | _, _ => false
  end.

(* same, plus: the model result satisfies the well-formedness predicate *)
Definition chk_wf (r : res zparr) (e : expect) : bool :=
  chk r e && (if r is Ok p then wfb p else true).

Definition zpow_arr o (x : zparr) (se es : seq nat) : res zparr := @ppow_arr ZR o x se es.

Definition show (r : res zparr) : option (obs ZR) + err :=
  match r with Ok p => inl (Some (observe p)) | Err e => inr e end.

(* ---- ordered instance (comparisons, leading terms) ------------------------------------- *)
From NP Require Import Order Compare Proxy ProxyAxis.
Definition ZO : realDomainType := [realDomainType of Z].

Inductive bexpect := BOk of seq nat & seq bool | BErr of err.
Definition chk_bool (r : res (seq nat * seq bool)) (e : bexpect) : bool :=
  match r, e with
  | Ok (s, v), BOk s' v' => (s == s') && (v == v')
  | Err a, BErr b => err_eqb a b
  | _, _ => false
  end.

Definition zcompare (code : cmp_code) (o : opts) (a b : zparr) := @pcompare ZO code o a b.
Definition zequal (o : opts) (a b : zparr) := @pequal ZO o a b.
Definition znot_equal (o : opts) (a b : zparr) := @pnot_equal ZO o a b.
Definition zselect (code : cmp_code) (o : opts) (a b : zparr) : res zparr := @pselect ZO code o a b.
Definition zlead_exponent g r (p : zparr) := @lead_exponent ZO g r p.
Definition zproxy_raw g r (p : zparr) : seq nat := @proxy_raw ZO g r p.
Definition zsortable_proxy g r (p : zparr) : seq nat := @sortable_proxy ZO g r p.
Definition zargmin g r (p : zparr) : nat := @pargmin ZO g r p.
Definition zargmax g r (p : zparr) : nat := @pargmax ZO g r p.
Definition zamin_pos g r (p : zparr) : nat := @pamin_pos ZO g r p.
Definition zamax_pos g r (p : zparr) : nat := @pamax_pos ZO g r p.
Definition zargmin_axis g r (p : zparr) lanes : seq nat := @pargmin_axis ZO g r p lanes.
Definition zargmax_axis g r (p : zparr) lanes : seq nat := @pargmax_axis ZO g r p lanes.
Definition zamin_axis g r (p : zparr) lanes : seq nat := @pamin_axis ZO g r p lanes.
Definition zamax_axis g r (p : zparr) lanes : seq nat := @pamax_axis ZO g r p lanes.
Definition among (pos : seq nat) (cands : seq (seq nat)) : bool :=
  (size pos == size cands) && all (fun pc => pc.1 \in pc.2) (zip pos cands).
Definition zlead_coefficient g r (p : zparr) : seq Z := @lead_coefficient ZO g r p.

(* ---- queries (C19) -------------------------------------------------------------------------- *)
From NP Require Import Query.
Inductive nexpect := NOk of seq nat & seq Z | NErr of err.
Definition chk_num (r : res (seq nat * seq Z)) (e : nexpect) : bool :=
  match r, e with
  | Ok (s, v), NOk s' v' => (s == s') && (v == v')
  | Err a, NErr b => err_eqb a b
  | _, _ => false
  end.
Definition zisconstant (p : zparr) : bool := @isconstant ZR p.
Definition ztonumpy (p : zparr) := @tonumpy ZR p.
Definition zdecompose (p : zparr) : zparr := @decompose ZR p.
Definition zset_dimensions (o : opts) (p : zparr) (d : nat) : res zparr := @set_dimensions ZR o p d.

(* ---- layout-level comparison (C03, C04) -------------------------------------------------- *)
Inductive lexpect := LOk of seq nat & seq nat & seq (seq nat) & seq (seq Z) | LErr of err.
Definition chk_layout (r : res zparr) (e : lexpect) : bool :=
  match r, e with
  | Ok p, LOk ns sh rs cs =>
      [&& names p == ns, shape p == sh, size (rows p) == size (cols p) &
          perm_eq (zip (rows p) (cols p)) (zip rs cs)]
  | Err a, LErr b => err_eqb a b
  | _, _ => false
  end.
Fixpoint all2b A B (f : A -> B -> bool) (xs : seq A) (ys : seq B) : bool :=
  match xs, ys with
  | [::], [::] => true
  | x :: xs', y :: ys' => f x y && all2b f xs' ys'
  | _, _ => false
  end.
Definition chk_layouts (r : res (seq zparr)) (es : seq lexpect) : bool :=
  match r with
  | Ok ps => all2b (fun p e => chk_layout (Ok p) e) ps es
  | Err a => if es is [:: LErr b] then err_eqb a b else false
  end.
Definition zfrom_attributes rc rn ns sh rs (cs : seq (seq Z)) : res zparr := @from_attributes ZR rc rn ns sh rs cs.
Definition zalign_shapes o (ps : seq zparr) := @align_shapes ZR o ps.
Definition zalign_indets (ps : seq zparr) : res (seq zparr) := Ok (@align_indets ZR ps).
Definition zalign_expons (ps : seq zparr) : res (seq zparr) := Ok (@align_expons ZR ps).
Definition zalign_polys o (ps : seq zparr) := @align_polys ZR o ps.

(* ---- derivative (C06) --------------------------------------------------------------------- *)
From NP Require Import Deriv.
Definition zderivative o (p : zparr) (vs : seq nat) : res zparr := @derivative ZR o p vs.
Definition zgradient o (p : zparr) : res zparr := @gradient ZR o p.
Definition zhessian o (p : zparr) : res zparr := @hessian ZR o p.

(* ---- evaluation (C02) ---------------------------------------------------------------------- *)
From NP Require Import Eval.
Definition ZNum (s : seq nat) (xs : seq Z) : carg ZR := @ANum ZR s xs.
Definition ZPoly (p : zparr) : carg ZR := @APoly ZR p.
Definition zbind (ns : seq nat) (args : seq (option (carg ZR))) (kw : seq (nat * carg ZR)) := @bind ZR ns args kw.
Definition zcall_numeric (p : zparr) (args : seq (option (carg ZR))) (kw : seq (nat * carg ZR)) : res (seq nat * seq Z) :=
  rbind (zbind (names p) args kw) (fun b =>
    if all isSome b then @call_numeric ZR p (pmap id b) else Err OtherError).
Definition zcall_poly o (p : zparr) (args : seq (option (carg ZR))) (kw : seq (nat * carg ZR)) : res zparr :=
  rbind (zbind (names p) args kw) (@call_poly ZR o p).
