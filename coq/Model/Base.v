(* Base.v — shapes, flat C-order indexing, numpy broadcasting.  Executable, no proofs. *)
From mathcomp Require Import all_ssreflect.
Set Implicit Arguments. Unset Strict Implicit. Unset Printing Implicit Defensive.

(* ---- errors as values ------------------------------------------------- *)
Inductive err :=
  | ValueError | TypeError | KeyError | ConstructionError
  | FeatureNotSupported | OutOfFuel | OtherError.

Definition err_eqb (a b : err) : bool :=
  match a, b with
  | ValueError, ValueError | TypeError, TypeError | KeyError, KeyError
  | ConstructionError, ConstructionError | FeatureNotSupported, FeatureNotSupported
  | OutOfFuel, OutOfFuel | OtherError, OtherError => true
  | _, _ => false
  end.

Inductive res (A : Type) := Ok of A | Err of err.
Arguments Err {A} _.

Definition rbind A B (x : res A) (f : A -> res B) : res B :=
  match x with Ok a => f a | Err e => Err e end.
Definition rmap A B (f : A -> B) (x : res A) : res B :=
  match x with Ok a => Ok (f a) | Err e => Err e end.

(* ---- shapes ------------------------------------------------------------ *)
Definition prodn (s : seq nat) : nat := foldr muln 1 s.

(* C-order (row-major) unravel / ravel, as numpy.unravel_index / ravel_multi_index *)
Fixpoint unravel (s : seq nat) (i : nat) : seq nat :=
  match s with
  | [::] => [::]
  | _ :: s' => (i %/ prodn s') :: unravel s' (i %% prodn s')
  end.

Fixpoint ravel (s : seq nat) (ix : seq nat) : nat :=
  match s, ix with
  | _ :: s', k :: ix' => k * prodn s' + ravel s' ix'
  | _, _ => 0
  end.

(* numpy.broadcast_shapes for two shapes: right-aligned, 1 stretches *)
Definition bdim (a b : nat) : option nat :=
  if a == b then Some a else if a == 1 then Some b else if b == 1 then Some a else None.

Fixpoint bshape_rev (a b : seq nat) : option (seq nat) :=
  match a, b with
  | [::], _ => Some b
  | _, [::] => Some a
  | x :: a', y :: b' =>
      if bdim x y is Some d then omap (cons d) (bshape_rev a' b') else None
  end.

Definition bshape (a b : seq nat) : option (seq nat) :=
  omap rev (bshape_rev (rev a) (rev b)).

Fixpoint bshapes (ss : seq (seq nat)) : option (seq nat) :=
  match ss with
  | [::] => Some [::]
  | s :: ss' => if bshapes ss' is Some t then bshape s t else None
  end.

(* source multi-index of target multi-index [ix] (already right-aligned to s) *)
Definition pin (s ix : seq nat) : seq nat :=
  [seq (if dk.1 == 1 then 0 else dk.2) | dk <- zip s ix].

(* flat index in an array of shape s (broadcastable to t) feeding flat index i of shape t *)
Definition bidx (s t : seq nat) (i : nat) : nat :=
  ravel s (pin s (drop (size t - size s) (unravel t i))).

(* gather: new flat data from an index map *)
Definition gather A (d : A) (sigma : nat -> nat) (m : nat) (c : seq A) : seq A :=
  [seq nth d c (sigma i) | i <- iota 0 m].

(* lexicographic order on nat sequences (numpy.unique(axis=0) row order) *)
Fixpoint lexleq (a b : seq nat) : bool :=
  match a, b with
  | [::], _ => true
  | _ :: _, [::] => false
  | x :: a', y :: b' => (x < y) || ((x == y) && lexleq a' b')
  end.

(* transposition of a row-major matrix given as a list of rows *)
Fixpoint column A (d : A) (k : nat) (m : seq (seq A)) : seq A :=
  match m with [::] => [::] | r :: m' => nth d r k :: column d k m' end.
