(* DType.v — the numeric coefficient dtypes of numpy (kind, width), numpy's promotion as a
   function of kind/width, the NEP-50 weak Python-scalar rule, casts of integer-valued data,
   fixed-width arithmetic, and a cell-level model of numpoly's coefficient write paths
   (cset_values / cadd_values / from_attributes / astype / dispatch / multiply), parametrised
   by a record of defect switches.  Executable, no proofs.  Stdlib style.  (C12) *)
From Coq Require Import ZArith List Bool.
Import ListNotations.
Open Scope Z_scope.

(* ---- dtypes --------------------------------------------------------------------------- *)
Inductive dtype :=
  | B8 | I8 | I16 | I32 | I64 | U8 | U16 | U32 | U64 | F16 | F32 | F64 | C64 | C128.

Definition all_dtypes : list dtype :=
  [B8; I8; I16; I32; I64; U8; U16; U32; U64; F16; F32; F64; C64; C128].

Inductive kind := KBool | KInt | KUInt | KFloat | KComplex.

Definition kind_of (d : dtype) : kind :=
  match d with
  | B8 => KBool
  | I8 | I16 | I32 | I64 => KInt
  | U8 | U16 | U32 | U64 => KUInt
  | F16 | F32 | F64 => KFloat
  | C64 | C128 => KComplex
  end.

(* item size in bits *)
Definition width (d : dtype) : Z :=
  match d with
  | B8 | I8 | U8 => 8
  | I16 | U16 | F16 => 16
  | I32 | U32 | F32 => 32
  | I64 | U64 | F64 | C64 => 64
  | C128 => 128
  end.

Definition dtype_code (d : dtype) : Z :=
  match d with
  | B8 => 0 | I8 => 1 | I16 => 2 | I32 => 3 | I64 => 4 | U8 => 5 | U16 => 6 | U32 => 7 | U64 => 8
  | F16 => 9 | F32 => 10 | F64 => 11 | C64 => 12 | C128 => 13
  end.
Definition dtype_eqb (a b : dtype) : bool := dtype_code a =? dtype_code b.

Definition is_intkind (d : dtype) : bool :=
  match kind_of d with KInt | KUInt => true | _ => false end.
Definition is_inexact (d : dtype) : bool :=
  match kind_of d with KFloat | KComplex => true | _ => false end.

(* the smallest dtype of a kind with at least w bits *)
Definition mk_int (w : Z) : dtype :=
  if w <=? 8 then I8 else if w <=? 16 then I16 else if w <=? 32 then I32 else I64.
Definition mk_uint (w : Z) : dtype :=
  if w <=? 8 then U8 else if w <=? 16 then U16 else if w <=? 32 then U32 else U64.
Definition mk_float (w : Z) : dtype :=
  if w <=? 16 then F16 else if w <=? 32 then F32 else F64.
Definition mk_complex (w : Z) : dtype := if w <=? 64 then C64 else C128.

(* bits of the float that numpy considers able to hold the dtype:
   8-bit integers and bool -> float16, 16-bit -> float32, wider -> float64;
   a float is its own width, a complex number needs the float of half its width *)
Definition float_need (d : dtype) : Z :=
  match kind_of d with
  | KBool => 16
  | KInt | KUInt => if width d <=? 8 then 16 else if width d <=? 16 then 32 else 64
  | KFloat => width d
  | KComplex => width d / 2
  end.

(* signed with unsigned: the signed type if strictly wider, else the signed type of twice the
   unsigned width, float64 when that would need more than 64 bits *)
Definition mixed (ws wu : Z) : dtype :=
  if wu <? ws then mk_int ws else if wu <? 64 then mk_int (2 * wu) else F64.

(* numpy.result_type of two arrays *)
Definition promote (a b : dtype) : dtype :=
  match kind_of a, kind_of b with
  | KBool, _ => b
  | _, KBool => a
  | KInt, KInt => mk_int (Z.max (width a) (width b))
  | KUInt, KUInt => mk_uint (Z.max (width a) (width b))
  | KInt, KUInt => mixed (width a) (width b)
  | KUInt, KInt => mixed (width b) (width a)
  | KComplex, _ | _, KComplex => mk_complex (2 * Z.max (float_need a) (float_need b))
  | _, _ => mk_float (Z.max (float_need a) (float_need b))
  end.

(* ---- NEP 50: Python scalars are "weak" ------------------------------------------------- *)
Inductive pykind := PyBool | PyInt | PyFloat | PyComplex.

(* the dtype numpy.asarray gives a Python scalar on its own *)
Definition default_dtype (k : pykind) : dtype :=
  match k with PyBool => B8 | PyInt => I64 | PyFloat => F64 | PyComplex => C128 end.

(* result dtype of  array(dtype d) <op> python scalar of kind k *)
Definition promote_weak (d : dtype) (k : pykind) : dtype :=
  match k with
  | PyBool => d
  | PyInt => match kind_of d with KBool => I64 | _ => d end
  | PyFloat => match kind_of d with KBool | KInt | KUInt => F64 | _ => d end
  | PyComplex =>
      match kind_of d with
      | KBool | KInt | KUInt => C128
      | KFloat => mk_complex (2 * width d)
      | KComplex => d
      end
  end.

(* ---- values: integer-valued data ------------------------------------------------------- *)
(* VZ: a real integer value; VC: a complex value with integer parts; Inexact: a float the
   model does not follow (outside the exactly representable integer range); Garbage: computed
   from bytes that were never written from the inputs. *)
Inductive value := VZ (z : Z) | VC (re im : Z) | Inexact | Garbage.

Definition value_eqb (a b : value) : bool :=
  match a, b with
  | VZ x, VZ y => x =? y
  | VC a1 a2, VC b1 b2 => (a1 =? b1) && (a2 =? b2)
  | Inexact, Inexact | Garbage, Garbage => true
  | _, _ => false
  end.

(* integer range [int_lo, int_hi) of bool / int / uint dtypes *)
Definition int_lo (d : dtype) : Z :=
  match kind_of d with KInt => - 2 ^ (width d - 1) | _ => 0 end.
Definition int_hi (d : dtype) : Z :=
  match kind_of d with KInt => 2 ^ (width d - 1) | KUInt => 2 ^ width d | _ => 2 end.

(* two's complement / modular wrap into the range of an int / uint dtype *)
Definition wrap (d : dtype) (z : Z) : Z :=
  match kind_of d with
  | KInt => (z + 2 ^ (width d - 1)) mod 2 ^ width d - 2 ^ (width d - 1)
  | _ => z mod 2 ^ width d
  end.

(* precision (mantissa bits + 1) of the float a float / complex dtype is made of *)
Definition prec (d : dtype) : Z :=
  match d with F16 => 11 | F32 | C64 => 24 | _ => 53 end.
Definition fexact (d : dtype) (z : Z) : bool := Z.abs z <=? 2 ^ prec d.

Definition truth (z : Z) : Z := if z =? 0 then 0 else 1.

(* numpy's cast (astype, casting='unsafe') on integer-valued data *)
Definition cast (d : dtype) (v : value) : value :=
  match kind_of d, v with
  | _, Inexact => Inexact
  | _, Garbage => Garbage
  | KBool, VZ z => VZ (truth z)
  | KBool, VC re im => VZ (if (re =? 0) && (im =? 0) then 0 else 1)
  | (KInt | KUInt), VZ z => VZ (wrap d z)
  | (KInt | KUInt), VC re _ => VZ (wrap d re)            (* the imaginary part is discarded *)
  | KFloat, VZ z => if fexact d z then VZ z else Inexact
  | KFloat, VC re _ => if fexact d re then VZ re else Inexact
  | KComplex, VZ z => if fexact d z then VC z 0 else Inexact
  | KComplex, VC re im => if fexact d re && fexact d im then VC re im else Inexact
  end.

(* v is a value an array of dtype d can hold (and the model follows exactly) *)
Definition representable (d : dtype) (v : value) : bool :=
  match kind_of d, v with
  | (KBool | KInt | KUInt), VZ z => (int_lo d <=? z) && (z <? int_hi d)
  | KFloat, VZ z => fexact d z
  | KComplex, VC re im => fexact d re && fexact d im
  | _, _ => false
  end.

(* the same number, a real seen as a complex with zero imaginary part *)
Definition to_cplx (v : value) : value := match v with VZ z => VC z 0 | _ => v end.
Definition same_number (a b : value) : bool :=
  match to_cplx a, to_cplx b with
  | VC a1 a2, VC b1 b2 => (a1 =? b1) && (a2 =? b2)
  | _, _ => false
  end.

(* ---- arithmetic in a fixed dtype ----------------------------------------------------------- *)
Inductive binop := Add | Sub | Mul.

Definition zop (op : binop) (x y : Z) : Z :=
  match op with Add => x + y | Sub => x - y | Mul => x * y end.

(* exact arithmetic on values (reals embed into the complex numbers) *)
Definition exact_op (op : binop) (x y : value) : value :=
  match x, y with
  | Garbage, _ | _, Garbage => Garbage
  | Inexact, _ | _, Inexact => Inexact
  | VZ a, VZ b => VZ (zop op a b)
  | _, _ =>
      match to_cplx x, to_cplx y with
      | VC a b, VC c d =>
          match op with
          | Add => VC (a + c) (b + d)
          | Sub => VC (a - c) (b - d)
          | Mul => VC (a * c - b * d) (a * d + b * c)
          end
      | _, _ => Garbage
      end
  end.

(* a complex product is computed from four real products: all of them have to be exact *)
Definition mul_parts_exact (d : dtype) (x y : value) : bool :=
  match x, y with
  | VC a b, VC c e => fexact d (a * c) && fexact d (b * e) && fexact d (a * e) && fexact d (b * c)
  | _, _ => true
  end.

(* numpy's ufunc loop in dtype d: operands are cast to d, the result is a d again.
   None: numpy refuses (boolean subtract raises TypeError). *)
Definition arith (op : binop) (d : dtype) (x y : value) : option value :=
  match kind_of d, op with
  | KBool, Sub => None
  | _, _ =>
      let x' := cast d x in
      let y' := cast d y in
      match op, kind_of d with
      | Mul, KComplex =>
          if mul_parts_exact d x' y' then Some (cast d (exact_op op x' y'))
          else Some (match exact_op op x' y' with Garbage => Garbage | _ => Inexact end)
      | _, _ => Some (cast d (exact_op op x' y'))
      end
  end.

(* numpy has no loop at all for this operation in this dtype (whatever the array size) *)
Definition refuses (op : binop) (d : dtype) : bool :=
  match kind_of d, op with KBool, Sub => true | _, _ => false end.

Definition arith_v (op : binop) (d : dtype) (x y : value) : value :=
  match arith op d x y with Some v => v | None => Garbage end.

Definition zero (d : dtype) : value := cast d (VZ 0).
Definition one (d : dtype) : value := cast d (VZ 1).

(* ---- cells and the write paths ---------------------------------------------------------- *)
(* One coefficient cell of a polynomial's buffer.
   Unwritten : still as allocated (the harness's poison hook makes that 0xA5 bytes).
   Val d v   : holds the dtype-d encoding of v.
   Raw src v : holds the bytes of the dtype-src encoding of v, whatever the field's dtype is. *)
Inductive cell := Unwritten | Val (d : dtype) (v : value) | Raw (src : dtype) (v : value).

Definition col := list cell.
Definition fresh (n : nat) : col := repeat Unwritten n.

(* Defect switches: true = the defect is present.  [fixed] = all false. *)
Record quirks := mkQ {
  q_no_cast : bool;          (* from_attributes hands coefficients to the writer in their own dtype *)
  q_kernel_only : bool;      (* from_attributes: no write at all for dtypes the kernel does not know *)
  q_mul_kernel_only : bool;  (* multiply: the same for the product kernel *)
  q_empty_unwritten : bool;  (* an empty coefficient list leaves the 0-d allocation as it is *)
  q_size0_scalar : bool;     (* .coefficients of a zero-size array is [] : the array becomes a scalar *)
  q_bcast_int : bool;        (* broadcasting multiplies by an int64 array of ones: dtype changes *)
  q_strong_scalars : bool    (* Python scalars become int64/float64/complex128 arrays before promotion *)
}.
Definition fixed : quirks := mkQ false false false false false false false.
Definition shipped : quirks := mkQ true true true true true true true.

(* the source dtypes cset_values / cadd_values have a branch for *)
Definition kernel_dtype (d : dtype) : bool :=
  match d with B8 | U32 | I64 | F64 | C128 => true | _ => false end.

(* one element written by the cset path of from_attributes into a field of dtype fd;
   the coefficient has dtype src and value v; old is the cell's previous content *)
Definition write (q : quirks) (fd src : dtype) (v : value) (old : cell) : cell :=
  let s := if q_no_cast q then src else fd in
  let w := if q_no_cast q then v else cast fd v in
  if kernel_dtype s then (if dtype_eqb s fd then Val fd w else Raw s w)
  else if q_kernel_only q then old
  else Val fd (cast fd w).          (* plain numpy assignment casts *)

(* the product kernel: coefficient products already have the field's dtype *)
Definition mwrite (q : quirks) (fd : dtype) (v : value) (old : cell) : cell :=
  if kernel_dtype fd then Val fd (cast fd v)
  else if q_mul_kernel_only q then old
  else Val fd (cast fd v).

(* when do the bytes of a src-encoded value read correctly through a field of dtype fd:
   equal width and both of bool / int / uint kind (little endian two's complement) *)
Definition reinterpret_ok (src fd : dtype) : bool :=
  (width src =? width fd) && negb (is_inexact src) && is_intkind fd.

(* what numpy reads from a cell of a field of dtype fd *)
Definition read (fd : dtype) (c : cell) : value :=
  match c with
  | Val _ v => v
  | Raw src v => if reinterpret_ok src fd then cast fd v else Garbage
  | Unwritten => Garbage
  end.

(* cadd: accumulate into the cell *)
Definition maccum (q : quirks) (fd : dtype) (v : value) (old : cell) : cell :=
  if kernel_dtype fd || negb (q_mul_kernel_only q)
  then Val fd (arith_v Add fd (read fd old) v)
  else old.

Fixpoint map2 {A B C} (f : A -> B -> C) (l1 : list A) (l2 : list B) : list C :=
  match l1, l2 with
  | a :: l1', b :: l2' => f a b :: map2 f l1' l2'
  | _, _ => []
  end.

(* cset_values / cadd_values on a whole column *)
Definition set_values (q : quirks) (fd src : dtype) (vs : list value) (c : col) : col :=
  map2 (write q fd src) vs c.
Definition mset_values (q : quirks) (fd : dtype) (vs : list value) (c : col) : col :=
  map2 (mwrite q fd) vs c.
Definition add_values (q : quirks) (fd : dtype) (vs : list value) (c : col) : col :=
  map2 (maccum q fd) vs c.

(* a source wider than the field makes the raw write run over the following bytes *)
Definition overruns (q : quirks) (fd src : dtype) : bool :=
  q_no_cast q && kernel_dtype src && (width fd <? width src).

Record poly := mkP { p_dtype : dtype; p_cols : list col; p_clobbered : bool }.

(* polynomial_from_attributes at cell level.  coeffs: (dtype, values) per key; darg: the dtype
   argument; nk: the number of exponent rows (it only matters on the empty path).
   dtype = darg, else the common dtype (numpy.result_type) of all coefficients; the empty list is the 0-d path: one cell per
   exponent row; nothing is written on the shipped code, zeros are written after the repair. *)
(* numpy.result_type over all coefficients passed (the repaired rule: before, the first one's dtype) *)
Definition common_dtype (s0 : dtype) (ds : list dtype) : dtype := fold_left promote ds s0.

Definition from_attributes (q : quirks) (darg : option dtype) (nk : nat) (coeffs : list (dtype * list value)) : poly :=
  match coeffs with
  | [] =>
      let d := match darg with Some d => d | None => I64 end in
      mkP d (repeat (if q_empty_unwritten q then [Unwritten] else set_values q d d [zero d] (fresh 1)) nk) false
  | (s0, _) :: rest =>
      let d := match darg with Some d => d | None => common_dtype s0 (map fst rest) end in
      mkP d (map (fun sv => set_values q d (fst sv) (snd sv) (fresh (length (snd sv)))) coeffs)
          (existsb (fun sv => overruns q d (fst sv)) coeffs)
  end.

(* a zero-size array: every column is empty *)
Definition size0 (p : poly) : bool :=
  forallb (fun c => match c with [] => true | _ => false end) (p_cols p).

(* what  poly.coefficients  hands on: dtype and the values read from the cells; on the shipped
   code the list is empty for a zero-size array *)
Definition coefficients (q : quirks) (p : poly) : list (dtype * list value) :=
  if size0 p && q_size0_scalar q then []
  else map (fun c => (p_dtype p, map (read (p_dtype p)) c)) (p_cols p).

Definition or_clob (b : bool) (p : poly) : poly := mkP (p_dtype p) (p_cols p) (b || p_clobbered p).

(* from_attributes applied to a polynomial's own attributes (clean_attributes passes
   dtype=poly.dtype; __getitem__, polynomial(poly) pass what the caller gave) *)
Definition rebuild (q : quirks) (darg : option dtype) (p : poly) : poly :=
  or_clob (p_clobbered p) (from_attributes q darg (length (p_cols p)) (coefficients q p)).
Definition clean (q : quirks) (p : poly) : poly := rebuild q (Some (p_dtype p)) p.

(* align_exponents: every key of the common key list gets the operand's coefficient or zeros *)
Definition realign (q : quirks) (p : poly) : poly :=
  or_clob (p_clobbered p)
    (from_attributes q None (length (p_cols p)) (map (fun c => (p_dtype p, map (read (p_dtype p)) c)) (p_cols p))).

(* a harness-built (correct) polynomial: every cell holds its value *)
Definition good (d : dtype) (cols : list (list value)) : poly :=
  mkP d (map (map (fun v => Val d (cast d v))) cols) false.

(* ndpoly.astype: numpy casts the coefficients read, then from_attributes(dtype=d) *)
Definition astype (q : quirks) (d : dtype) (p : poly) : poly :=
  or_clob (p_clobbered p)
    (from_attributes q (Some d) (length (p_cols p)) (map (fun sv => (d, map (cast d) (snd sv))) (coefficients q p))).

(* polynomial(data of dtype s, dtype=darg) *)
Definition construct (q : quirks) (s : dtype) (darg : option dtype) (cols : list (list value)) : poly :=
  from_attributes q darg (length cols) (map (fun c => (s, map (cast s) c)) cols).

(* indexing, slicing and one-operand shape functions: output element j is input element ix[j] *)
Definition gather {A} (dflt : A) (ix : list nat) (l : list A) : list A := map (fun i => nth i l dflt) ix.
(* viacoef: the function goes through .coefficients (__getitem__) rather than through the
   structured array (reshape, transpose, ...) *)
Definition reindex (q : quirks) (viacoef : bool) (ix : list nat) (p : poly) : poly :=
  or_clob (p_clobbered p)
    (from_attributes q None (length (p_cols p))
       (map (fun sv => (fst sv, gather Garbage ix (snd sv)))
            (if viacoef then coefficients q p
             else map (fun c => (p_dtype p, map (read (p_dtype p)) c)) (p_cols p)))).

(* ndarray methods that work on the raw structured buffer (.reshape, .T, ravel, flatten, copy):
   the cells are moved, nothing is written *)
Definition raw_view (ix : list nat) (p : poly) : poly :=
  mkP (p_dtype p) (map (gather Unwritten ix) (p_cols p)) (p_clobbered p).

(* numpy assignment  out.values[key] = array : always the proper encoding *)
Definition assigned (d : dtype) (vs : list value) : col := map (fun v => Val d (cast d v)) vs.

(* broadcasting an operand (align_shape): coefficient * ones(int) on the shipped code *)
Definition bcast_dtype (q : quirks) (b : bool) (d : dtype) : dtype :=
  if b && q_bcast_int q then promote d I64 else d.
Definition broadcasted (q : quirks) (b : bool) (p : poly) : poly :=
  if b then
    let d := bcast_dtype q b (p_dtype p) in
    or_clob (p_clobbered p)
      (from_attributes q None (length (p_cols p)) (map (fun c => (d, map (fun x => cast d (read (p_dtype p) x)) c)) (p_cols p)))
  else p.

(* simple_dispatch of a binary ufunc (add, subtract): operands broadcast (b1, b2 say which one
   is stretched), re-built by align_exponents, numpy computes column by column in the promoted
   dtype and assigns, clean_attributes rebuilds.  Both operands carry the same key list.
   None: numpy raises TypeError. *)
Definition dispatch2 (q : quirks) (op : binop) (b1 b2 : bool) (p1 p2 : poly) : option poly :=
  let a1 := realign q (broadcasted q b1 p1) in
  let a2 := realign q (broadcasted q b2 p2) in
  let d := promote (p_dtype a1) (p_dtype a2) in
  if refuses op d then None else
  Some (or_clob (p_clobbered a1 || p_clobbered a2)
          (clean q (mkP d (map2 (fun c1 c2 =>
                       assigned d (map2 (fun x y => arith_v op d (read (p_dtype a1) x) (read (p_dtype a2) y)) c1 c2))
                     (p_cols a1) (p_cols a2)) false))).

(* where / concatenate / stack of two operands: element j comes from operand 1 or 2 *)
Definition select2 (q : quirks) (sel : list (bool * nat)) (p1 p2 : poly) : poly :=
  let a1 := realign q p1 in
  let a2 := realign q p2 in
  let d := promote (p_dtype a1) (p_dtype a2) in
  or_clob (p_clobbered a1 || p_clobbered a2)
    (from_attributes q (Some d) (length (p_cols a1))
       (map2 (fun c1 c2 =>
          (d, map (fun s : bool * nat => cast d (if fst s then nth (snd s) (map (read (p_dtype a1)) c1) Garbage
                                     else nth (snd s) (map (read (p_dtype a2)) c2) Garbage)) sel))
        (p_cols a1) (p_cols a2))).

(* multiply: for every key of the result the list of (column of p1, column of p2) pairs in the
   order the kernel meets them; the first product is set, the others are accumulated;
   clean_attributes rebuilds *)
Definition product (d : dtype) (d1 d2 : dtype) (c1 c2 : col) : list value :=
  map2 (fun x y => arith_v Mul d (read d1 x) (read d2 y)) c1 c2.

Definition mul_column (q : quirks) (d : dtype) (p1 p2 : poly) (n : nat) (pairs : list (nat * nat)) : col :=
  let prod ij := product d (p_dtype p1) (p_dtype p2) (nth (fst ij) (p_cols p1) []) (nth (snd ij) (p_cols p2) []) in
  match pairs with
  | [] => fresh n
  | ij :: rest =>
      fold_left (fun c ij' => add_values q d (prod ij') c) rest (mset_values q d (prod ij) (fresh n))
  end.

Definition multiply (q : quirks) (n : nat) (keys : list (list (nat * nat))) (p1 p2 : poly) : poly :=
  let d := promote (p_dtype p1) (p_dtype p2) in
  or_clob (p_clobbered p1 || p_clobbered p2)
    (clean q (mkP d (map (mul_column q d p1 p2 n) keys) false)).

(* power of a single-column polynomial c*x^k by a Python int: ones, e multiplications, a last
   polynomial(...) *)
Fixpoint pow_loop (q : quirks) (n : nat) (e : nat) (acc p : poly) : poly :=
  match e with
  | O => acc
  | S e' => pow_loop q n e' (multiply q n [[(0%nat, 0%nat)]] acc p) p
  end.
Definition power1 (q : quirks) (n : nat) (e : nat) (p : poly) : poly :=
  let d := p_dtype p in
  rebuild q None
    (pow_loop q n e (from_attributes q None 1%nat [(d, repeat (one d) n)]) p).

(* a Python scalar as operand: which dtype does its polynomial get, None = OverflowError *)
Definition scalar_value (k : pykind) (z : Z) : value :=
  match k with PyComplex => VC 0 z | _ => VZ z end.
Definition scalar_dtype (q : quirks) (other : dtype) (k : pykind) (z : Z) : option dtype :=
  if q_strong_scalars q then Some (default_dtype k)
  else
    let d := promote_weak other k in
    if is_intkind d && negb (representable d (scalar_value k z)) then None else Some d.

(* sum over groups of elements (numpy.sum: small integers are accumulated in 64 bits) *)
Definition sum_dtype (d : dtype) : dtype :=
  match kind_of d with KBool | KInt => I64 | KUInt => U64 | _ => d end.
Definition sum_groups (q : quirks) (groups : list (list nat)) (p : poly) : poly :=
  let a := realign q p in
  let d := sum_dtype (p_dtype a) in
  or_clob (p_clobbered a)
    (clean q
       (mkP d (map (fun c =>
                 assigned d (map (fun g => fold_left (fun acc i => arith_v Add d acc (nth i (map (read (p_dtype a)) c) Garbage))
                                                      g (zero d)) groups))
               (p_cols a)) false)).

(* a result numpy computed (values cols, dtype d) from the operand's field arrays, assigned
   column by column and cleaned; re: the operand went through align_exponents first *)
Definition readable (p : poly) : bool :=
  forallb (forallb (fun c => match read (p_dtype p) c with Garbage => false | _ => true end)) (p_cols p).
Definition derived (q : quirks) (re : bool) (p : poly) (d : dtype) (cols : list (list value)) : poly :=
  let a := if re then realign q p else p in
  or_clob (p_clobbered a)
    (clean q (mkP d (map (map (fun v => Val d (if readable a then cast d v else Garbage))) cols) false)).

(* ---- observations (what the harness sees in a returned buffer) ---------------------------- *)
(* OVal v: this exact value; OPoison: every byte still carries the poison pattern;
   OAny: the model makes no claim (garbage, or a float outside the exact range) *)
Inductive obs := OVal (v : value) | OPoison | OAny.

Definition observe (fd : dtype) (c : cell) : obs :=
  match c with
  | Unwritten => OPoison
  | Val _ v => match v with Garbage | Inexact => OAny | _ => OVal v end
  | Raw src v =>
      if reinterpret_ok src fd then
        match cast fd v with Garbage | Inexact => OAny | w => OVal w end
      else OAny
  end.

(* implementation side: IV v = exact value read, IP = all bytes poison, IG = anything else
   (non-integral, nan, inf) *)
(* IPV v: the bytes equal the poison pattern, which for this dtype also spells the exact value v
   (e.g. int8 -91 = 0xA5): indistinguishable, so it agrees with "never written" and with "holds v" *)
Inductive iobs := IV (v : value) | IP | IG | IPV (v : value).

Definition agree (m : obs) (i : iobs) : bool :=
  match m, i with
  | OAny, _ => true
  | OPoison, IP => true
  | OPoison, IPV _ => true
  | OVal v, IV w => value_eqb v w
  | OVal v, IPV w => value_eqb v w
  | _, _ => false
  end.

Fixpoint agree_col (fd : dtype) (c : col) (i : list iobs) : bool :=
  match c, i with
  | [], [] => true
  | x :: c', y :: i' => agree (observe fd x) y && agree_col fd c' i'
  | _, _ => false
  end.

(* an absent column (removed as all-zero before the last rebuild): the model must not claim a
   non-zero value there *)
Definition absent_ok (fd : dtype) (c : col) : bool :=
  forallb (fun x => match observe fd x with
                    | OVal v => value_eqb v (zero fd) || value_eqb v (VZ 0)
                    | _ => true end) c.

Fixpoint agree_cols (fd : dtype) (cs : list col) (is : list (option (list iobs))) : bool :=
  match cs, is with
  | [], [] => true
  | c :: cs', Some i :: is' => agree_col fd c i && agree_cols fd cs' is'
  | c :: cs', None :: is' => absent_ok fd c && agree_cols fd cs' is'
  | _, _ => false
  end.

(* model polynomial vs implementation: dtype equal; cells agree unless an overrun clobbered the
   buffer (then only the dtype is compared) *)
Definition chk (p : poly) (idt : dtype) (is : list (option (list iobs))) : bool :=
  dtype_eqb (p_dtype p) idt && (p_clobbered p || agree_cols (p_dtype p) (p_cols p) is).

Definition chk_opt (p : option poly) (i : option (dtype * list (option (list iobs)))) : bool :=
  match p, i with
  | Some p, Some (idt, is) => chk p idt is
  | None, None => true
  | _, _ => false
  end.
