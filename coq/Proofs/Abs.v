(* Abs.v — the abstraction function absE from the storage model to SsrMultinomials'
   {mpoly R[n]} and its basic algebra. *)
From mathcomp Require Import all_ssreflect all_algebra.
From SsrMultinomials Require Import mpoly.
From NP Require Import Base Poly.
Set Implicit Arguments. Unset Strict Implicit. Unset Printing Implicit Defensive.
Import GRing.Theory.
Local Open Scope ring_scope.

Lemma mem_zip (S T : eqType) (s1 : seq S) (s2 : seq T) (t : S * T) :
  t \in zip s1 s2 -> t.1 \in s1 /\ t.2 \in s2.
Proof.
elim: s1 s2 => [|x s1 IH] [|y s2] //=; rewrite !inE.
case/orP => [/eqP ->|/IH [-> ->]] /=; first by rewrite !eqxx.
by rewrite !orbT.
Qed.

(* parr is an eqType (needed for membership in operand lists) *)
Section ParrEq.
Variable R : comRingType.
Definition parr_to_tuple (p : parr R) := (names p, shape p, rows p, cols p).
Definition tuple_to_parr (t : seq nat * seq nat * seq (seq nat) * seq (seq R)) : parr R :=
  let: (a, b, c, d) := t in Parr a b c d.
Lemma parr_tupleK : cancel parr_to_tuple tuple_to_parr.
Proof. by case. Qed.
Definition parr_eqMixin := CanEqMixin parr_tupleK.
Canonical parr_eqType := EqType (parr R) parr_eqMixin.
End ParrEq.

Section Abs.
Variable (n : nat) (R : comRingType).
Implicit Types (p q : parr R) (t : term R) (ns : seq nat) (r : seq nat).

Definition mon ns r : 'X_{1..n} := [multinom expo ns r v | v < n].
Definition absT ns (i : nat) t : {mpoly R[n]} := nth 0 t.2 i *: 'X_[mon ns t.1].
Definition absL ns (i : nat) (ts : seq (term R)) : {mpoly R[n]} := \sum_(t <- ts) absT ns i t.
Definition absE p (i : nat) : {mpoly R[n]} := absL (names p) i (terms p).

Lemma absL_cat ns i ts1 ts2 : absL ns i (ts1 ++ ts2) = absL ns i ts1 + absL ns i ts2.
Proof. by rewrite /absL big_cat. Qed.

Lemma absL_cons ns i t ts : absL ns i (t :: ts) = absT ns i t + absL ns i ts.
Proof. by rewrite /absL big_cons. Qed.

Lemma absL_nil ns i : absL ns i [::] = 0.
Proof. by rewrite /absL big_nil. Qed.

Lemma nth_zeros m i : nth 0 (zeros R m) i = 0.
Proof. by rewrite nth_nseq; case: ifP. Qed.

Lemma absT_zeros ns i r m : absT ns i (r, zeros R m) = 0.
Proof. by rewrite /absT /= nth_zeros scale0r. Qed.

Lemma nth_all0 (s : seq R) i : ~~ has (fun c => c != 0) s -> nth 0 s i = 0.
Proof.
move=> h; case: (ltnP i (size s)) => [lt|ge]; last by rewrite nth_default.
by move: h; rewrite -all_predC => /all_nthP -/(_ 0 i lt) /=; rewrite negbK => /eqP.
Qed.

(* permuting the term list does not change the denotation *)
Lemma absL_perm ns i ts1 ts2 : perm_eq ts1 ts2 -> absL ns i ts1 = absL ns i ts2.
Proof. by move=> pe; rewrite /absL (perm_big _ pe). Qed.

(* ---- zero-column removal ------------------------------------------------- *)
Lemma absL_filter_keep ns i ts : absL ns i (filter (@keep_term R) ts) = absL ns i ts.
Proof.
rewrite /absL big_filter [RHS](bigID (@keep_term R)) /=.
rewrite [X in _ + X]big1 ?addr0 // => t; rewrite /keep_term negb_or => /andP[h _].
by rewrite /absT nth_all0 // scale0r.
Qed.

Lemma absL_rm_coefs ns i D ts : absL ns i (rm_coefs D ts) = absL ns i ts.
Proof.
rewrite /rm_coefs -(absL_filter_keep ns i ts).
case: (filter _ ts) => [|t ts'] //.
by rewrite absL_cons absL_nil absT_zeros addr0.
Qed.

(* ---- gathering (broadcast, indexing) ------------------------------------------ *)
Lemma nth_gather (sigma : nat -> nat) m (c : seq R) i :
  (i < m)%N -> nth 0 (gather 0 sigma m c) i = nth 0 c (sigma i).
Proof. by move=> lt; rewrite /gather (nth_map 0%N) ?size_iota // nth_iota. Qed.

Lemma size_gather (sigma : nat -> nat) m (c : seq R) : size (gather 0 sigma m c) = m.
Proof. by rewrite /gather size_map size_iota. Qed.

Lemma absL_gather ns (sigma : nat -> nat) m i rs (cs : seq (seq R)) :
  (i < m)%N ->
  absL ns i (zip rs [seq gather 0 sigma m c | c <- cs]) = absL ns (sigma i) (zip rs cs).
Proof.
move=> lt; elim: rs cs => [|r rs IH] [|c cs] //=; rewrite ?absL_nil //.
by rewrite !absL_cons IH /absT /= nth_gather.
Qed.

(* ---- widening the name tuple --------------------------------------------------- *)
Lemma expo_widen ns ns' r v :
  {subset ns <= ns'} -> size r = size ns -> expo ns' (widen ns ns' r) v = expo ns r v.
Proof.
move=> sub sz; rewrite /expo /widen.
case vin: (v \in ns').
  by rewrite (nth_map 0%N) ?index_mem // nth_index.
rewrite nth_default; last by rewrite size_map leqNgt index_mem vin.
rewrite nth_default // sz leqNgt index_mem; apply/negP => /sub; by rewrite vin.
Qed.

Lemma mon_widen ns ns' r :
  {subset ns <= ns'} -> size r = size ns -> mon ns' (widen ns ns' r) = mon ns r.
Proof. by move=> sub sz; apply/mnmP => v; rewrite !mnmE expo_widen. Qed.

Lemma absE_align_names ns' p i :
  {subset names p <= ns'} -> all (fun r => size r == size (names p)) (rows p) ->
  absE (align_names ns' p) i = absE p i.
Proof.
move=> sub /allP szs; rewrite /align_names; case: ifP => // _.
rewrite /absE /terms /=.
elim: (rows p) (cols p) szs => [|r rs IH] [|c cs] szs /=; rewrite ?absL_nil //.
rewrite !absL_cons IH; last by move=> x xin; apply: szs; rewrite inE xin orbT.
congr (_ + _); rewrite /absT /= mon_widen //.
by apply/eqP/szs; rewrite inE eqxx.
Qed.

End Abs.
