(* DivmodExact.v — exact division (C05): when the dividend is a polynomial multiple of the divisor, the remainder
   is zero and the quotient is the cofactor.  The monomial order of numpy.lexsort is compatible with
   multiplication, so the product of the two top terms cannot cancel. *)
From mathcomp Require Import all_ssreflect all_algebra.
From SsrMultinomials Require Import ssrcomplements mpoly.
From NP Require Import Base Divmod DivmodP DivmodTerm.
Set Implicit Arguments. Unset Strict Implicit. Unset Printing Implicit Defensive.
Import GRing.Theory.
Local Open Scope ring_scope.

Section Exact.
Variable (n : nat) (F : fieldType).
Implicit Types (p q g : spoly F) (m d : mono) (a b : 'X_{1..n}) (E G : {mpoly F[n]}).

Definition mseq a : mono := [tuple a i | i < n].

Lemma size_mseq a : size (mseq a) = n. Proof. by rewrite size_tuple. Qed.
Lemma nth_mseq a (i : 'I_n) : nth 0%N (mseq a) i = a i. Proof. by rewrite nth_mktuple. Qed.
Lemma smon_mseq a : smon n (mseq a) = a.
Proof. by apply/mnmP => i; rewrite mnmE nth_mseq. Qed.
Lemma mseq_smon m : size m = n -> mseq (smon n m) = m.
Proof.
move=> sz; apply: (@eq_from_nth _ 0%N); first by rewrite size_mseq.
by move=> k; rewrite size_mseq => lk; rewrite (nth_mseq _ (Ordinal lk)) mnmE.
Qed.
Lemma mseq_add a b : mseq (a + b)%MM = madd (mseq a) (mseq b).
Proof.
apply: (@eq_from_nth _ 0%N); first by rewrite size_madd !size_mseq.
move=> k; rewrite size_mseq => lk.
by rewrite nth_madd' !(nth_mseq _ (Ordinal lk)) mnmDE.
Qed.
Lemma mseq_inj : injective mseq.
Proof. by move=> a b e; rewrite -(smon_mseq a) e smon_mseq. Qed.

(* coefficients of the denoted polynomial *)
Lemma coef_at_abs p m : wp n p -> size m = n -> (absS n p)@_(smon n m) = coef_at p m.
Proof.
move=> w sz; rewrite coef_atE /absS raddf_sum /= [RHS]big_mkcond /=.
rewrite !big_seq; apply: eq_bigr => t tin; rewrite mcoeffZ mcoeffX.
have st : size t.1 = n by apply/eqP; move/allP: w; apply.
case: (t.1 =P m) => [->|ne]; first by rewrite eqxx mulr1.
case: eqP => [e|_]; last by rewrite mulr0.
by case: ne; rewrite -(mseq_smon st) e mseq_smon.
Qed.

Lemma msupp_support p a : wp n p -> (a \in msupp (absS n p)) = (mseq a \in support p).
Proof. by move=> w; rewrite mcoeff_msupp mem_support -(coef_at_abs w (size_mseq a)) smon_mseq. Qed.

Lemma mdivides_madd (u : mono) e2 : size u = size e2 -> mdivides e2 (madd u e2).
Proof.
move=> sz; rewrite madd_padd2 // /padd2.
elim: u e2 sz => [|x u IH] [|y e2] //= [sz]; by rewrite leq_addl IH.
Qed.

(* ---- the product of the two top terms does not cancel ---- *)
Definition top E a : Prop := a \in msupp E /\ forall y, y \in msupp E -> ~~ mlt (mseq a) (mseq y).

Lemma top_exists E : E != 0 -> exists a, top E a.
Proof.
rewrite -msupp_eq0 => nz.
have w : all (fun m => size m == n) (map mseq (msupp E)).
  by apply/allP => m /mapP[a _ ->]; rewrite size_mseq.
case e : (mmax (map mseq (msupp E))) => [x|]; last first.
  by move/eqP: e; rewrite mmax_nil; case: (msupp E) nz.
have [/mapP[a ain xa] mx] := mmax_some w e; exists a; split=> // y yin.
by rewrite -xa; apply: mx; apply: map_f.
Qed.

Lemma top_coeff E G a b : top E a -> top G b -> (E * G)@_(a + b)%MM = E@_a * G@_b.
Proof.
move=> [ain amax] [bin bmax].
rewrite mpolyME (bigD1_seq (a, b)) /=; first last.
+ by rewrite allpairs_uniq // => -[? ?] [].
+ by rewrite allpairs_f.
rewrite mcoeffD mcoeffZ mcoeffX eqxx mulr1.
rewrite big_seq_cond raddf_sum /= big1 ?addr0 //.
case=> m1 m2; rewrite in_allpairs //= -andbA => /and3P[m1in m2in ne].
rewrite mcoeffZ mcoeffX; case: eqP => [e|_]; last by rewrite mulr0.
have e' : madd (mseq m1) (mseq m2) = madd (mseq a) (mseq b) by rewrite -!mseq_add e.
have sm x : size (mseq x) = n := size_mseq x.
have irr := mlt_irr (madd (mseq a) (mseq b)).
case/or3P: (mlt_total (etrans (sm m1) (esym (sm a)))) (amax _ m1in) => [lt1 _|/eqP e1 _|->//].
- have s1 : mlt (madd (mseq m1) (mseq m2)) (madd (mseq a) (mseq m2)) by apply: mlt_madd; rewrite ?sm.
  case/or3P: (mlt_total (etrans (sm m2) (esym (sm b)))) (bmax _ m2in) => [lt2 _|/eqP e2 _|->//].
  + have s2 : mlt (madd (mseq a) (mseq m2)) (madd (mseq a) (mseq b)).
      by rewrite ![madd (mseq a) _]madd_comm; apply: mlt_madd; rewrite ?sm.
    have s12 : mlt (madd (mseq m1) (mseq m2)) (madd (mseq a) (mseq b)).
      by apply: mlt_trans s1 s2; rewrite !size_madd ?sm.
    by move: s12; rewrite e' irr.
  + by move: s1 e'; rewrite e2 => s1 e'; move: s1; rewrite e' irr.
- move: e'; rewrite e1 ![madd (mseq a) _]madd_comm => /madd_inj; rewrite !sm => /(_ erefl erefl) e2.
  by move: ne; rewrite (mseq_inj e1) (mseq_inj e2) eqxx.
Qed.

(* ---- widths are preserved by the loop ---- *)
Lemma run_we D fuel (es es' : seq (elem F)) : all (we D) es -> run fuel es = Ok es' -> all (we D) es'.
Proof.
elim: fuel es => [|fuel IH] es //= wes.
case cand : (candidate es) => [[e2 e1]|]; last by move=> [<-].
apply: IH; apply/allP => e' /mapP[e ein ->]; exact: (we_step wes cand).
Qed.

(* ---- exact multiples ---- *)
Theorem divmod_exact fuel (fs gs : seq (spoly F)) out i (e2 : mono) (Q0 : {mpoly F[n]}) :
  size fs = size gs -> all (wp n) fs -> all (wp n) gs ->
  divmod fuel fs gs = Ok out -> (i < size fs)%N ->
  lead (norm (nth [::] gs i)) = Some e2 ->
  absS n (nth [::] fs i) = Q0 * absS n (nth [::] gs i) ->
  support (nth ([::], [::]) out i).2 = [::] /\ absS n (nth ([::], [::]) out i).1 = Q0.
Proof.
move=> sz wfs wgs dv lt le mult.
have [so idn] := divmod_identity n sz dv; have := idn i lt.
have red := divmod_reduced n sz dv lt le.
set q := (nth _ out i).1; set r := (nth _ out i).2 => eqn; rewrite -/r in red.
set g := nth [::] gs i in le mult eqn.
have wg : wp n g by move/allP: wgs; apply; apply: mem_nth; rewrite -sz.
(* the remainder has width n *)
have wr : wp n r.
  move: dv; rewrite /divmod; case er : (run fuel (start fs gs)) => [es'|] //= [eo].
  have wes : all (we n) (start fs gs).
    apply/allP => e /mapP[[f0 g0] /mem_zip2 [fin gin] ->]; rewrite /we /=.
    by rewrite !wp_norm //; [move/allP: wgs; apply | move/allP: wfs; apply].
  have wes' := run_we wes er.
  have lt' : (i < size es')%N by rewrite -so -eo size_map in lt *.
  have /and3P[_ wd _] := allP wes' _ (mem_nth (Elem [::] [::] [::]) lt').
  by rewrite /r -eo (nth_map (Elem [::] [::] [::])).
have rE : absS n r = (Q0 - absS n q) * absS n g.
  by rewrite mulrBl -mult eqn addrC addKr.
have [e2in e2max] : e2 \in support g /\ forall y, y \in support g -> ~~ mlt e2 y.
  have w : all (fun m => size m == n) (support (norm g)).
    by apply/allP => m /(wp_support (wp_norm wg)) ->.
  have [i1 i2] := mmax_some w le; rewrite support_norm in i1; split=> // y yin.
  by apply: i2; rewrite support_norm.
have se2 : size e2 = n := wp_support wg e2in.
have topG : top (absS n g) (smon n e2).
  split; first by rewrite msupp_support // mseq_smon.
  by move=> y; rewrite msupp_support // mseq_smon // => /e2max.
case: (eqVneq (Q0 - absS n q) 0) => [/eqP z|nz].
  split; last by apply/esym/eqP; rewrite -subr_eq0.
  move: rE; rewrite (eqP z) mul0r => r0.
  case er : (support r) => [|m0 l] //.
  have min : m0 \in support r by rewrite er mem_head.
  have sm := wp_support wr min.
  by move: min; rewrite mem_support -(coef_at_abs wr sm) r0 mcoeff0 eqxx.
have [a topE] := top_exists nz.
have := top_coeff topE topG; rewrite -rE => cf.
have nzc : (absS n r)@_(a + smon n e2)%MM != 0.
  rewrite cf mulf_neq0 //; first by have [ain _] := topE; rewrite -mcoeff_msupp.
  by rewrite coef_at_abs // -mem_support.
have : mseq (a + smon n e2)%MM \in support r by rewrite -msupp_support // mcoeff_msupp.
move/red; rewrite mseq_add mseq_smon // mdivides_madd // size_mseq //.
Qed.
End Exact.
