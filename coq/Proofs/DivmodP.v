(* DivmodP.v — the division loop keeps dividend = q * divisor + r, and stops only on a reduced
   remainder (C05). *)
From mathcomp Require Import all_ssreflect all_algebra.
From SsrMultinomials Require Import mpoly.
From NP Require Import Base Divmod.
Set Implicit Arguments. Unset Strict Implicit. Unset Printing Implicit Defensive.
Import GRing.Theory.
Local Open Scope ring_scope.

Section ElemEq.
Variable F : fieldType.
Definition elem_to_tuple (e : elem F) := (e_q e, e_d e, e_g e).
Definition tuple_to_elem (t : spoly F * spoly F * spoly F) : elem F := let: (a, b, c) := t in Elem a b c.
Lemma elem_tupleK : cancel elem_to_tuple tuple_to_elem.
Proof. by case. Qed.
Definition elem_eqMixin := CanEqMixin elem_tupleK.
Canonical elem_eqType := EqType (elem F) elem_eqMixin.
End ElemEq.

Section DivmodP.
Variable (n : nat) (F : fieldType).
Implicit Types (p q g : spoly F) (m d : mono) (es : seq (elem F)).

Definition smon m : 'X_{1..n} := [multinom nth 0%N m k | k < n].
Definition absS p : {mpoly F[n]} := \sum_(t <- p) t.2 *: 'X_[smon t.1].

Lemma absS_cat p q : absS (p ++ q) = absS p + absS q.
Proof. by rewrite /absS big_cat. Qed.

Lemma absS_cons t p : absS (t :: p) = t.2 *: 'X_[smon t.1] + absS p.
Proof. by rewrite /absS big_cons. Qed.

(* ---- coefficients, normalisation ------------------------------------------------------------ *)
Lemma coef_atE p m : coef_at p m = \sum_(t <- p | t.1 == m) t.2.
Proof.
elim: p => [|t p IH] /=; first by rewrite big_nil.
by rewrite big_cons IH; case: ifP.
Qed.

Lemma partition_by_key (l : seq (mono * F)) (G : mono * F -> {mpoly F[n]}) :
  \sum_(t <- l) G t = \sum_(m <- undup (unzip1 l)) \sum_(t <- l | t.1 == m) G t.
Proof.
rewrite [RHS](eq_bigr (fun m => \sum_(t <- l) (if t.1 == m then G t else 0))); last first.
  by move=> m _; rewrite big_mkcond.
rewrite exchange_big /= big_seq_cond [RHS]big_seq_cond; apply: eq_bigr => t; rewrite andbT => tin.
have tin1 : t.1 \in undup (unzip1 l) by rewrite mem_undup; apply/mapP; exists t.
rewrite (bigD1_seq t.1) ?undup_uniq //= eqxx big1 ?addr0 // => m /negbTE.
by rewrite eq_sym => ->.
Qed.

Theorem absS_norm p : absS (norm p) = absS p.
Proof.
rewrite /norm /support /absS big_map big_filter /=.
rewrite (partition_by_key p (fun t => t.2 *: 'X_[smon t.1])).
rewrite [RHS](bigID (fun m => coef_at p m != 0)) /=.
rewrite [X in _ = _ + X]big1 ?addr0; last first.
  move=> m; rewrite negbK => /eqP cz.
  rewrite (eq_bigr (fun t => t.2 *: 'X_[smon m])); last by move=> t /eqP ->.
  by rewrite -scaler_suml -coef_atE cz scale0r.
apply: eq_bigr => m _.
rewrite (eq_bigr (fun t => t.2 *: 'X_[smon m])); last by move=> t /eqP ->.
by rewrite -scaler_suml -coef_atE.
Qed.

Lemma support_nil_abs p : support p = [::] -> absS p = 0.
Proof. by move=> sn; rewrite -absS_norm /norm sn /absS big_nil. Qed.

(* ---- shifting and scaling the divisor --------------------------------------------------------- *)
Lemma nth_madd a b k : nth 0%N (madd a b) k = (nth 0%N a k + nth 0%N b k)%N.
Proof.
rewrite /madd; case: (ltnP k (maxn (size a) (size b))) => [lt|ge].
  by rewrite (nth_map 0%N) ?size_iota // nth_iota.
rewrite nth_default ?size_map ?size_iota //.
by move: ge; rewrite geq_max => /andP[ga gb]; rewrite !nth_default.
Qed.

Lemma smon_madd a b : smon (madd a b) = (smon a + smon b)%MM.
Proof. by apply/mnmP => k; rewrite mnmDE !mnmE nth_madd. Qed.

Lemma absS_sscale (k : F) d g : absS (sscale k d g) = k *: ('X_[smon d] * absS g).
Proof.
rewrite /absS /sscale big_map mulr_sumr scaler_sumr; apply: eq_bigr => t _ /=.
by rewrite smon_madd mpolyXD -scalerAr scalerA [X in _ = _ *: X]mulrC.
Qed.

(* ---- the loop invariant ------------------------------------------------------------------------- *)
Definition value (e : elem F) : {mpoly F[n]} := absS (e_q e) * absS (e_g e) + absS (e_d e).

Theorem step_elem_value (e2 e1 : mono) (e : elem F) : value (step_elem e2 e1 e) = value e /\ e_g (step_elem e2 e1 e) = e_g e.
Proof.
rewrite /step_elem; case: ifP => // _; split=> //.
rewrite /value /= !absS_norm absS_cons absS_cat absS_sscale /=.
set k := _ / _; set X := 'X_[_]; set G := absS (e_g e); set Q := absS (e_q e); set D := absS (e_d e).
rewrite mulrDl scaleNr -scalerAl.
by rewrite [_ + Q * G]addrC -addrA [k *: _ + _]addrCA subrr addr0.
Qed.

Lemma run_value fuel es es' :
  run fuel es = Ok es' ->
  [seq value e | e <- es'] = [seq value e | e <- es] /\ [seq e_g e | e <- es'] = [seq e_g e | e <- es].
Proof.
elim: fuel es => [|fuel IH] es //=.
case: (candidate es) => [[e2 e1]|]; last by move=> [<-].
move=> /IH [-> ->]; rewrite -!map_comp; split; apply: eq_map => e /=.
- by case: (step_elem_value e2 e1 e).
- by case: (step_elem_value e2 e1 e).
Qed.

Lemma value_start (f g : spoly F) : value (Elem [::] (norm f) (norm g)) = absS f.
Proof. by rewrite /value /= {1}/absS big_nil mul0r add0r absS_norm. Qed.

(* the identity for the results of divmod, element by element *)
Theorem divmod_identity fuel (fs gs : seq (spoly F)) out :
  size fs = size gs -> divmod fuel fs gs = Ok out ->
  size out = size fs /\
  forall i, (i < size fs)%N ->
    absS (nth [::] fs i) = absS (nth ([::], [::]) out i).1 * absS (nth [::] gs i) + absS (nth ([::], [::]) out i).2.
Proof.
move=> sz; rewrite /divmod; case er: (run fuel (start fs gs)) => [es'|] //= [<-].
have [ev eg] := run_value er.
have ss : size es' = size fs.
  by have := congr1 size ev; rewrite !size_map /start size_zip sz minnn.
split; first by rewrite size_map.
move=> i lt.
have lt' : (i < size es')%N by rewrite ss.
have ltz : (i < size (zip fs gs))%N by rewrite size_zip sz minnn -sz.
rewrite (nth_map (Elem [::] [::] [::])) //=.
have := congr1 (fun l => nth 0 l i) ev.
rewrite (nth_map (Elem [::] [::] [::])) // /start -map_comp (nth_map ([::], [::])) //= nth_zip //=.
rewrite value_start => <-; rewrite /value.
have := congr1 (fun l => nth [::] l i) eg.
rewrite (nth_map (Elem [::] [::] [::])) // /start -map_comp (nth_map ([::], [::])) //= nth_zip //= => ->.
by rewrite absS_norm.
Qed.

(* ---- the loop only stops on a reduced remainder --------------------------------------------------- *)
Lemma mmax_none (l : seq mono) : mmax l = None -> l = [::].
Proof. by case: l => [|m l] //=; case: (mmax l) => [x|] //; case: ifP. Qed.

Lemma first_some_none A B (f : A -> option B) (l : seq A) :
  first_some f l = None -> forall x, List.In x l -> f x = None.
Proof.
elim: l => [|y l IH] //=; case fy: (f y) => [b|] // /IH H x [<-|/H] //.
Qed.

Lemma run_stops fuel es es' : run fuel es = Ok es' -> candidate es' = None.
Proof.
elim: fuel es => [|fuel IH] es //=.
case ec: (candidate es) => [[e2 e1]|]; first exact: IH.
by move=> [<-].
Qed.

Theorem candidate_none_reduced es (e : elem F) (e2 : mono) m :
  candidate es = None -> e \in es -> lead (e_g e) = Some e2 -> m \in support (e_d e) -> ~~ mdivides e2 m.
Proof.
rewrite /candidate => cn ein le min.
have e2in : e2 \in sort_desc (pmap (fun e => lead (e_g e)) es).
  rewrite /sort_desc mem_rev mem_sort mem_undup mem_pmap; apply/mapP; exists e => //.
have inl : List.In e2 (sort_desc (pmap (fun e => lead (e_g e)) es)).
  elim: (sort_desc _) e2in => [|x l IH] //=; rewrite inE => /orP[/eqP ->|/IH]; [by left | by right].
have /mmax_none pe := first_some_none cn inl.
apply/negP => dv.
have : m \in [seq m <- flatten [seq support (e_d e) | e <- es & lead (e_g e) == Some e2] | mdivides e2 m].
  rewrite mem_filter dv /=; apply/flattenP; exists (support (e_d e)) => //.
  by apply/mapP; exists e => //; rewrite mem_filter le eqxx.
by rewrite pe.
Qed.

Theorem divmod_reduced fuel (fs gs : seq (spoly F)) out i (e2 : mono) m :
  size fs = size gs -> divmod fuel fs gs = Ok out -> (i < size fs)%N ->
  lead (norm (nth [::] gs i)) = Some e2 -> m \in support (nth ([::], [::]) out i).2 -> ~~ mdivides e2 m.
Proof.
move=> sz; rewrite /divmod; case er: (run fuel (start fs gs)) => [es'|] //= [<-] lt le.
have [ev eg] := run_value er.
have ss : size es' = size fs.
  by have := congr1 size ev; rewrite !size_map /start size_zip sz minnn.
have lt' : (i < size es')%N by rewrite ss.
have ltz : (i < size (zip fs gs))%N by rewrite size_zip sz minnn -sz.
rewrite (nth_map (Elem [::] [::] [::])) //= => min.
apply: (candidate_none_reduced (run_stops er) (mem_nth _ lt') _ min).
have := congr1 (fun l => nth [::] l i) eg.
rewrite (nth_map (Elem [::] [::] [::])) // /start -map_comp (nth_map ([::], [::])) //= nth_zip //= => ->.
exact: le.
Qed.

(* a divisor whose leading monomial divides everything (a non-zero constant): the remainder is 0 and
   the quotient is the true quotient *)
Corollary divmod_leading_unit fuel (fs gs : seq (spoly F)) out i (e2 : mono) :
  size fs = size gs -> divmod fuel fs gs = Ok out -> (i < size fs)%N ->
  lead (norm (nth [::] gs i)) = Some e2 -> (forall m, mdivides e2 m) ->
  absS (nth ([::], [::]) out i).2 = 0 /\
  absS (nth [::] fs i) = absS (nth ([::], [::]) out i).1 * absS (nth [::] gs i).
Proof.
move=> sz er lt le dv.
have r0 : absS (nth ([::], [::]) out i).2 = 0.
  apply: support_nil_abs; case E: (support _) => [|m l] //.
  have := divmod_reduced sz er lt le (m := m); rewrite E mem_head => /(_ isT).
  by rewrite dv.
split=> //; have [_ /(_ i lt) ->] := divmod_identity sz er.
by rewrite r0 addr0.
Qed.

(* one indeterminate: every monomial of the remainder has a smaller degree than the divisor's leading one *)
Corollary divmod_univariate_degree fuel (fs gs : seq (spoly F)) out i (b a : nat) :
  size fs = size gs -> divmod fuel fs gs = Ok out -> (i < size fs)%N ->
  lead (norm (nth [::] gs i)) = Some [:: b] -> [:: a] \in support (nth ([::], [::]) out i).2 -> (a < b)%N.
Proof.
move=> sz er lt le ain.
by have := divmod_reduced sz er lt le ain; rewrite /= andbT -ltnNge.
Qed.

End DivmodP.
