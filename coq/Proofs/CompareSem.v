(* CompareSem.v — the comparison verdicts in terms of the COEFFICIENTS OF THE DENOTED POLYNOMIALS (C07):
   a < b at an element iff, at the largest stored monomial where the two polynomials' coefficients differ,
   a's coefficient is the smaller one. *)
From mathcomp Require Import all_ssreflect all_algebra zify.
From SsrMultinomials Require Import mpoly.
From NP Require Import Base Poly Order Compare OrderP CompareP Abs Clean Shape Align Arith MonomialP CompareTop PolyOrder.
Set Implicit Arguments. Unset Strict Implicit. Unset Printing Implicit Defensive.
Import GRing.Theory Num.Theory Order.Theory.
Local Open Scope ring_scope.

Section Readout.
Variable (n : nat) (R : comRingType).
Implicit Types (p : parr R) (ns r : seq nat).

(* distinct exponent rows denote distinct monomials *)
Lemma mon_inj ns r1 r2 :
  uniq ns -> all (fun v => v < n)%N ns -> size r1 = size ns -> size r2 = size ns ->
  mon n ns r1 = mon n ns r2 -> r1 = r2.
Proof.
move=> un ltn s1 s2 em; apply: (@eq_from_nth _ 0%N); first by rewrite s1 s2.
move=> k; rewrite s1 => lk.
have vn : (nth 0%N ns k < n)%N by move/allP: ltn; apply; apply: mem_nth.
have := congr1 (fun m : 'X_{1..n} => m (Ordinal vn)) em.
by rewrite !mnmE /= !expo_nth.
Qed.

(* the stored coefficient IS the coefficient of the denoted polynomial at the row's monomial *)
Theorem coeff_readout p i k :
  wfb p -> all (fun v => v < n)%N (names p) -> (k < size (rows p))%N ->
  (absE n p i)@_(mon n (names p) (nth [::] (rows p) k)) = cell (cols p) k i.
Proof.
move=> wp ltn lk; have [srs rpos urs wid [_ _ un]] := wfbP wp.
rewrite absE_index // raddf_sum /=.
rewrite (bigD1_seq k) ?mem_index_iota ?iota_uniq //= mcoeffZ mcoeffX eqxx mulr1.
rewrite big1_seq ?addr0 // => k' /andP[nk]; rewrite mem_index_iota => /andP[_ lk'].
rewrite mcoeffZ mcoeffX; case: eqP => [em|_]; last by rewrite mulr0.
have sz j : (j < size (rows p))%N -> size (nth [::] (rows p) j) = size (names p).
  by move=> lj; apply/eqP; move/allP: wid; apply; apply: mem_nth.
have := mon_inj un ltn (sz _ lk') (sz _ lk) em => /eqP.
by rewrite nth_uniq // (negbTE nk).
Qed.

(* a monomial that is not stored has coefficient zero *)
Theorem coeff_absent p i (m : 'X_{1..n}) :
  wfb p -> (forall k, (k < size (rows p))%N -> mon n (names p) (nth [::] (rows p) k) != m) ->
  (absE n p i)@_m = 0.
Proof.
move=> wp nin; rewrite absE_index // raddf_sum /= big1_seq // => k; rewrite mem_index_iota => /andP[_ lk].
by rewrite mcoeffZ mcoeffX (negbTE (nin k lk)) mulr0.
Qed.
End Readout.

Section Sem.
Variable (n : nat) (R : realDomainType).
Variables (o : opts) (a' b' : parr R).
Hypotheses (wa : wfb a') (wb : wfb b') (rr : rows a' = rows b') (nn : names a' = names b')
           (ltn : all (fun v => v < n)%N (names a')).
Let order := sort_order o a'.
Let N := size (rows a').
Let va i := vec order (cols a') i.
Let vb i := vec order (cols b') i.
Let row k := nth [::] (rows a') k.
Let M k : 'X_{1..n} := mon n (names a') (row k).
(* strictly later in the configured monomial order *)
Local Notation above := (PolyOrder.above (o_sgraded o) (o_sreverse o)).

Lemma take_eq_nth (T : eqType) (x0 : T) (u w : seq T) p : size u = size w -> (p <= size u)%N ->
  (take p u = take p w) <-> (forall q, (q < p)%N -> nth x0 u q = nth x0 w q).
Proof.
move=> sz le; split=> [tk q lq|h].
  by rewrite -(nth_take x0 lq u) tk nth_take.
apply: (@eq_from_nth _ x0); first by rewrite !size_take -sz.
move=> q; rewrite size_take => lq.
have lqp : (q < p)%N by move: lq; case: (ltnP p (size u)) => // ge lq; exact: leq_trans lq ge.
by rewrite !nth_take //; apply: h.
Qed.

Let L := rev order.
Lemma L_perm : perm_eq L (iota 0 N). Proof. by rewrite /L perm_rev; apply: order_perm. Qed.
Lemma L_uniq : uniq L. Proof. by rewrite (perm_uniq L_perm) iota_uniq. Qed.
Lemma L_size : size L = N. Proof. by rewrite (perm_size L_perm) size_iota. Qed.
Lemma L_lt p : (p < N)%N -> (nth 0%N L p < N)%N.
Proof. by move=> lp; have := mem_nth 0%N (s := L) (n := p); rewrite L_size (perm_mem L_perm) mem_iota /= add0n; apply. Qed.
Lemma L_pos k : (k < N)%N -> exists2 p, (p < N)%N & nth 0%N L p = k.
Proof.
move=> lk; have : k \in L by rewrite (perm_mem L_perm) mem_iota.
by move=> kin; exists (index k L); rewrite ?nth_index // -L_size index_mem.
Qed.
Lemma L_desc p q : (p < q)%N -> (q < N)%N ->
  mleq (o_sgraded o) (o_sreverse o) (row (nth 0%N L q)) (row (nth 0%N L p)).
Proof.
move=> pq qN.
have tr : transitive (fun j k => mleq (o_sgraded o) (o_sreverse o) (row k) (row j)).
  by move=> y x z xy yz; apply: mleq_trans yz xy.
have := sorted_ltn_nth tr 0%N (order_descending o a'); rewrite -/L => h.
by apply: h => //; rewrite inE L_size //; apply: ltn_trans qN.
Qed.

Lemma row_size k : (k < N)%N -> size (row k) = size (names a').
Proof. by move=> lk; have [_ _ _ wid _] := wfbP wa; apply/eqP; move/allP: wid; apply; apply: mem_nth. Qed.
Lemma row_inj k k' : (k < N)%N -> (k' < N)%N -> row k = row k' -> k = k'.
Proof.
move=> lk lk' e; have [_ _ urs _ _] := wfbP wa.
by apply/eqP; rewrite -(nth_uniq [::] lk lk' urs); apply/eqP.
Qed.

Lemma nth_va i p : (p < N)%N -> nth 0 (va i) p = (absE n a' i)@_(M (nth 0%N L p)).
Proof.
move=> lp; rewrite /va /vec -/L (nth_map 0%N) ?L_size //.
by rewrite /M /row coeff_readout //; apply: L_lt.
Qed.
Lemma nth_vb i p : (p < N)%N -> nth 0 (vb i) p = (absE n b' i)@_(M (nth 0%N L p)).
Proof.
move=> lp; rewrite /vb /vec -/L (nth_map 0%N) ?L_size //.
rewrite /M /row nn rr coeff_readout // -?nn -?rr //; exact: L_lt.
Qed.

(* THE ORDER, semantically: a < b at element i iff there is a stored monomial at which a's coefficient
   is smaller, and the two polynomials agree at every stored monomial that is later in the configured order *)
Theorem lt_semantic i :
  lexlt (va i) (vb i) <->
  exists k, [/\ (k < N)%N, (absE n a' i)@_(M k) < (absE n b' i)@_(M k) &
                forall k', (k' < N)%N -> above (row k) (row k') ->
                           (absE n a' i)@_(M k') = (absE n b' i)@_(M k')].
Proof.
have sz : size (va i) = size (vb i) by rewrite /va /vb /vec !size_map.
have sva : size (va i) = N by rewrite /va /vec size_map -/L L_size.
rewrite (lexlt_char sz); split.
- case=> p [lp tk np]; rewrite sva in lp; exists (nth 0%N L p); split; first exact: L_lt.
    by rewrite -nth_va // -nth_vb.
  move=> k' lk' /andP[le ne]; have [q lq eq] := L_pos lk'.
  have qp : (q < p)%N.
    rewrite ltnNge; apply/negP; rewrite leq_eqVlt => /orP[/eqP e|pq].
      by move: ne; rewrite -eq e eqxx.
    have ge := L_desc pq lq; rewrite eq in ge.
    move: ne; rewrite (mleq_anti _ le ge) ?eqxx // !row_size //; exact: L_lt.
  have := (take_eq_nth 0 sz _).1 tk q qp; rewrite sva => /(_ (ltnW lp)).
  by rewrite nth_va // nth_vb // eq.
- case=> k [lk lt ab]; have [p lp ep] := L_pos lk; exists p; rewrite sva; split=> //.
    apply/(take_eq_nth 0 sz); first by rewrite sva ltnW.
    move=> q qp; have lq : (q < N)%N by apply: ltn_trans lp.
    rewrite nth_va // nth_vb //; apply: ab; first exact: L_lt.
    rewrite /PolyOrder.above -ep (L_desc qp lp) /=; apply/eqP => e.
    have := row_inj (L_lt lp) (L_lt lq) e => /eqP.
    by rewrite nth_uniq ?L_size ?L_uniq // => /eqP e'; move: qp; rewrite e' ltnn.
  by rewrite nth_va // nth_vb // ep.
Qed.

(* ---- the same statement with no reference to WHICH monomials happen to be stored ---- *)
Local Notation rowof := (PolyOrder.rowof (n := n) (names a')).

Lemma rowof_M k : (k < N)%N -> rowof (M k) = row k.
Proof.
move=> lk; have [_ _ _ _ [_ _ un]] := wfbP wa.
apply: (@eq_from_nth _ 0%N); first by rewrite size_map row_size.
move=> j; rewrite size_map => lj; rewrite (nth_map 0%N) //.
have vn : (nth 0%N (names a') j < n)%N by move/allP: ltn; apply; apply: mem_nth.
by rewrite insubT /M mnmE /= /expo index_uniq.
Qed.

Lemma stored_dec (m : 'X_{1..n}) :
  (exists2 k, (k < N)%N & M k = m) \/ (forall k, (k < N)%N -> M k != m).
Proof.
case h : (has (fun k => M k == m) (iota 0 N)).
  by left; case/hasP: h => k; rewrite mem_iota /= add0n => lk /eqP e; exists k.
right=> k lk; apply/negP => e; move/negP: h; apply; apply/hasP; exists k => //.
by rewrite mem_iota.
Qed.

Lemma absent_b (m : 'X_{1..n}) i : (forall k, (k < N)%N -> M k != m) -> (absE n b' i)@_m = 0.
Proof. by move=> h; apply: coeff_absent => // k; rewrite -rr -nn; apply: h. Qed.

Theorem lt_polynomial i :
  lexlt (va i) (vb i) <-> plt (names a') (o_sgraded o) (o_sreverse o) (absE n a' i) (absE n b' i).
Proof.
rewrite lt_semantic; split.
- case=> k [lk lt ab]; exists (M k); split=> // m'; rewrite rowof_M //.
  case: (stored_dec m') => [[k' lk' <-]|nin] abv; last by rewrite absent_b // (coeff_absent _ wa).
  by apply: ab => //; rewrite -(rowof_M lk').
- case=> m [lt ab]; case: (stored_dec m) => [[k lk e]|nin]; last first.
    by move: lt; rewrite absent_b // (coeff_absent _ wa) // ltxx.
  exists k; rewrite e; split=> // k' lk' abv; apply: ab.
  by rewrite -e !rowof_M.
Qed.

(* the denoted polynomials only involve the array's own indeterminants *)
Lemma M_supported k : (k < N)%N -> supported (names a') (M k).
Proof.
move=> lk; apply/forallP => w; case win : (val w \in names a') => //=.
by rewrite /M mnmE /expo nth_default // row_size // leqNgt index_mem win.
Qed.

Theorem absE_psupp_a i : psupp (names a') (absE n a' i).
Proof.
move=> m ns; apply: coeff_absent => // k lk; apply: contraNneq ns => <-; exact: M_supported.
Qed.
Theorem absE_psupp_b i : psupp (names a') (absE n b' i).
Proof.
move=> m ns; apply: absent_b => // k lk; apply: contraNneq ns => <-; exact: M_supported.
Qed.
End Sem.
