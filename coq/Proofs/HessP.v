(* HessP.v — the Hessian holds the second partials in indeterminate order (C06). *)
From mathcomp Require Import all_ssreflect all_algebra zify.
From SsrMultinomials Require Import mpoly.
From NP Require Import Base Poly Deriv Abs Clean Shape Align Arith MonomialP QueryP DerivP StackP.
Set Implicit Arguments. Unset Strict Implicit. Unset Printing Implicit Defensive.
Import GRing.Theory.
Local Open Scope ring_scope.

Section Hess.
Variable (n : nat) (R : comRingType).
Implicit Types (p q r : parr R) (o : opts).

(* a stack of first partials of any array, with respect to any list of its indeterminates *)
Lemma dstack_spec o q (vs : seq 'I_n) r :
  wfb q -> all (fun v : 'I_n => nat_of_ord v \in names q) vs -> (0 < size vs)%N ->
  rbind (rseq [seq derivative o q [:: nat_of_ord v] | v <- vs]) (pstack0 o) = Ok r ->
  [/\ wfb r, shape r = size vs :: shape q &
      forall (v0 : 'I_n) j i, (j < size vs)%N -> (i < psize q)%N ->
        absE n r (j * psize q + i) = (absE n q i)^`M(nth v0 vs j)].
Proof.
move=> wq vin vpos.
case er: (rseq _) => [ds|] //= es.
have [szd hd] := rseq_map er.
have dfact j (v0 : 'I_n) : (j < size vs)%N ->
    [/\ wfb (nth (pnil R) ds j), shape (nth (pnil R) ds j) = shape q &
        forall i, absE n (nth (pnil R) ds j) i = (absE n q i)^`M(nth v0 vs j)].
  move=> lt; have := hd v0 (pnil R) j lt; rewrite /= => ed.
  have vj : nat_of_ord (nth v0 vs j) \in names q by move/allP: vin; apply; apply: mem_nth.
  have [w s e] := @derivative_spec n R o q [:: nth v0 vs j] _ wq (introT andP (conj vj isT)) ed.
  by split.
have v00 : 'I_n by case: vs vpos {vin er szd hd dfact} => [|v vs'].
have wds : all (@wfb R) ds.
  by apply/(all_nthP (pnil R)) => j; rewrite szd => lt; have [] := dfact j v00 lt.
have sds : all (fun d => shape d == shape q) ds.
  by apply/(all_nthP (pnil R)) => j; rewrite szd => lt; have [_ -> _] := dfact j v00 lt.
have [wr sr vr] := pstack0_spec n wds sds es.
split=> //; first by rewrite sr szd.
move=> v0 j i ltj lti; rewrite vr ?szd //.
by have [_ _ ->] := dfact j v0 ltj.
Qed.

Theorem hessian_spec o p (vs : seq 'I_n) r :
  wfb p -> names p = [seq nat_of_ord v | v <- vs] -> hessian o p = Ok r ->
  let D := size (names p) in
  [/\ wfb r, shape r = D :: D :: shape p &
      forall (v0 : 'I_n) k j i, (k < D)%N -> (j < D)%N -> (i < psize p)%N ->
        absE n r (k * (D * psize p) + (j * psize p + i)) = ((absE n p i)^`M(nth v0 vs j))^`M(nth v0 vs k)].
Proof.
move=> wp np; rewrite /hessian.
case eg: (gradient o p) => [g|] //=.
have [wg sg vg] := gradient_spec wp np eg.
have [_ _ _ _ [_ npos _]] := wfbP wp.
set ns := union_names _; set g' := align_names ns g.
have sub : {subset names g <= ns} by move=> v; apply: mem_union_names; rewrite inE eqxx.
have subp : {subset names p <= ns} by move=> v; apply: mem_union_names; rewrite !inE eqxx orbT.
have uns : uniq ns by apply: uniq_union_names.
have wg' : wfb g' by apply: wfb_align_names.
have ng' : names g' = ns by apply: names_align_names.
have sg' : shape g' = shape g by apply: shape_align_names.
have [_ _ _ widg _] := wfbP wg.
have vg' i : absE n g' i = absE n g i by rewrite /g' absE_align_names.
rewrite np -map_comp => es.
have vin : all (fun v : 'I_n => nat_of_ord v \in names g') vs.
  by apply/allP => v vi; rewrite ng'; apply: subp; rewrite np; apply: map_f.
have vpos : (0 < size vs)%N by move: npos; rewrite np size_map.
have [wr sr vr] := dstack_spec wg' vin vpos es.
have szv : size vs = size (names p) by rewrite np size_map.
have psg : psize g' = (size (names p) * psize p)%N by rewrite /psize sg' sg.
cbv zeta; rewrite !size_map; split=> //; first by rewrite sr sg' sg szv.
move=> v0 k j i ltk ltj lti.
have psg' : psize g' = (size vs * psize p)%N by rewrite psg szv.
rewrite -psg' (vr v0) //; last first.
  by rewrite psg'; nia.
by rewrite vg' (vg v0).
Qed.

End Hess.
