(* PolyOrder.v — the order the comparison operators compute, as a relation on POLYNOMIALS (C07):
   plt ns g r A B  :=  there is a monomial at which A's coefficient is smaller, and A, B agree at every
   monomial later in the (graded)(reverse) lexicographic order on the exponents of the names ns.
   It is a strict total order on the polynomials in the indeterminants ns, and does not change when
   further names are added. *)
From mathcomp Require Import all_ssreflect all_algebra zify.
From SsrMultinomials Require Import mpoly.
From NP Require Import Base Poly Order OrderP Abs.
Set Implicit Arguments. Unset Strict Implicit. Unset Printing Implicit Defensive.
Import GRing.Theory Num.Theory Order.Theory.
Local Open Scope ring_scope.

Section PolyOrder.
Variable (n : nat) (R : realDomainType).
Implicit Types (ns : seq nat) (m : 'X_{1..n}) (A B C : {mpoly R[n]}) (g r : bool).

Definition rowof ns m : seq nat :=
  [seq (if insub v : option 'I_n is Some w then m w else 0%N) | v <- ns].
Definition supported ns m : bool := [forall v : 'I_n, (val v \in ns) || (m v == 0%N)].
Definition psupp ns A : Prop := forall m, ~~ supported ns m -> A@_m = 0.
Definition above g r (r1 r2 : seq nat) : bool := mleq g r r1 r2 && (r1 != r2).
Definition plt ns g r A B : Prop :=
  exists m, A@_m < B@_m /\ forall m', above g r (rowof ns m) (rowof ns m') -> A@_m' = B@_m'.

Lemma size_rowof ns m : size (rowof ns m) = size ns.
Proof. by rewrite size_map. Qed.

Lemma nth_rowof ns m (w : 'I_n) : val w \in ns -> nth 0%N (rowof ns m) (index (val w) ns) = m w.
Proof.
by move=> win; rewrite (nth_map 0%N) ?index_mem // nth_index // valK.
Qed.

Lemma rowof_inj ns m1 m2 : supported ns m1 -> supported ns m2 -> rowof ns m1 = rowof ns m2 -> m1 = m2.
Proof.
move=> /forallP s1 /forallP s2 e; apply/mnmP => w.
case win : (val w \in ns); first by rewrite -(nth_rowof m1 win) e nth_rowof.
by move: (s1 w) (s2 w); rewrite win /= => /eqP -> /eqP ->.
Qed.

Lemma above_trans g r (x y z : seq nat) : size x = size y -> above g r x y -> above g r y z -> above g r x z.
Proof.
move=> sz /andP[xy nxy] /andP[yz nyz]; rewrite /above (mleq_trans xy yz) /=.
apply/eqP => e; rewrite -e in yz; move: nxy; rewrite (mleq_anti sz xy yz) eqxx //.
Qed.

Lemma above_cases g r (x y : seq nat) : [\/ x = y, above g r x y | above g r y x].
Proof.
case: (eqVneq x y) => [->|ne]; first by constructor 1.
case/orP: (mleq_total g r x y) => h; first by constructor 2; rewrite /above h.
by constructor 3; rewrite /above h eq_sym.
Qed.

Lemma lt_supported ns A B m : psupp ns A -> psupp ns B -> A@_m < B@_m -> supported ns m.
Proof. by move=> sa sb; apply: contraTT => ns'; rewrite sa // sb // ltxx. Qed.

(* ---- strict total order ---- *)
Theorem plt_irrefl ns g r A : ~ plt ns g r A A.
Proof. by case=> m []; rewrite ltxx. Qed.

Theorem plt_trans ns g r A B C : psupp ns A -> psupp ns B -> psupp ns C ->
  plt ns g r A B -> plt ns g r B C -> plt ns g r A C.
Proof.
move=> sa sb sc [m1 [l1 e1]] [m2 [l2 e2]].
have s1 := lt_supported sa sb l1; have s2 := lt_supported sb sc l2.
have sz x y : size (rowof ns x) = size (rowof ns y) by rewrite !size_rowof.
case: (above_cases g r (rowof ns m1) (rowof ns m2)) => [e|ab|ab].
- have em := rowof_inj s1 s2 e; rewrite -em in l2 e2.
  exists m1; split; first exact: lt_trans l1 l2.
  by move=> m' ab; rewrite e1 // e2.
- exists m2; split; first by rewrite e1.
  by move=> m' ab'; rewrite e1 ?e2 //; apply: above_trans ab ab'.
- exists m1; split; first by rewrite -e2.
  by move=> m' ab'; rewrite e1 ?e2 //; apply: above_trans ab ab'.
Qed.

Theorem plt_asym ns g r A B : psupp ns A -> psupp ns B -> plt ns g r A B -> ~ plt ns g r B A.
Proof. by move=> sa sb ab ba; apply: (@plt_irrefl ns g r A); apply: plt_trans ab ba. Qed.

Lemma max_row g r (s : seq 'X_{1..n}) ns : s != [::] ->
  exists2 m, m \in s & forall m', m' \in s -> mleq g r (rowof ns m') (rowof ns m).
Proof.
elim: s => [|x s IH] // _; case: (eqVneq s [::]) => [->|/IH [m ms hm]].
  by exists x; rewrite ?mem_head // => m'; rewrite inE => /eqP ->; apply: mleq_refl.
case/orP: (mleq_total g r (rowof ns x) (rowof ns m)) => h.
  exists m; first by rewrite inE ms orbT.
  by move=> m'; rewrite inE => /orP[/eqP ->|/hm].
exists x; first exact: mem_head.
move=> m'; rewrite inE => /orP[/eqP ->|/hm h']; first exact: mleq_refl.
exact: mleq_trans h' h.
Qed.

Theorem plt_total ns g r A B : psupp ns A -> psupp ns B -> A != B ->
  plt ns g r A B \/ plt ns g r B A.
Proof.
move=> sa sb ne.
have nz : msupp (A - B) != [::] by rewrite msupp_eq0 subr_eq0.
have [m ms hm] := max_row g r ns nz.
have eqm m' : above g r (rowof ns m) (rowof ns m') -> A@_m' = B@_m'.
  case/andP=> le nee; apply/eqP; rewrite -subr_eq0 -mcoeffB; apply/eqP/memN_msupp_eq0.
  apply/negP => /hm ge; move: nee; rewrite (mleq_anti _ le ge) ?eqxx // !size_rowof //.
have : A@_m != B@_m by rewrite -subr_eq0 -mcoeffB -mcoeff_msupp.
rewrite neq_lt => /orP[lt|lt]; [left|right]; exists m; split=> // m' /eqm //.
Qed.
(* ---- adding names does not change the order ---- *)
Lemma expo_out ns (row : seq nat) v : size row = size ns -> v \notin ns -> expo ns row v = 0%N.
Proof. by move=> sz nin; rewrite /expo nth_default // sz leqNgt index_mem. Qed.

Lemma lexleq_filter ns (f1 f2 : nat -> nat) (l : seq nat) :
  (forall v, v \notin ns -> f1 v = f2 v) ->
  lexleq (map f1 l) (map f2 l) = lexleq (map f1 (filter (mem ns) l)) (map f2 (filter (mem ns) l)).
Proof.
move=> out; elim: l => [|v l IH] //=; case: ifP => [_|/negbT /out e] /=; first by rewrite IH.
by rewrite e ltnn eqxx.
Qed.

Lemma sumn_filter ns (f : nat -> nat) (l : seq nat) :
  (forall v, v \notin ns -> f v = 0%N) -> sumn (map f l) = sumn (map f (filter (mem ns) l)).
Proof.
by move=> out; elim: l => [|v l IH] //=; case: ifP => [_|/negbT /out ->] /=; rewrite IH.
Qed.

Lemma map_expo ns (row : seq nat) : uniq ns -> size row = size ns -> [seq expo ns row v | v <- ns] = row.
Proof.
move=> un sz; apply: (@eq_from_nth _ 0%N); first by rewrite size_map.
by move=> j; rewrite size_map => lj; rewrite (nth_map 0%N) // /expo index_uniq.
Qed.

Lemma mleq_widen g r ns ns' (r1 r2 : seq nat) :
  uniq ns' -> subseq ns ns' -> size r1 = size ns -> size r2 = size ns ->
  mleq g r (widen ns ns' r1) (widen ns ns' r2) = mleq g r r1 r2.
Proof.
move=> un' sub s1 s2; have un := subseq_uniq sub un'.
have flt : filter (mem ns) ns' = ns by apply/esym/subseq_uniqP.
have sm ri : size ri = size ns -> sumn (widen ns ns' ri) = sumn ri.
  move=> si; rewrite /widen (@sumn_filter ns) ?flt ?map_expo // => v; exact: expo_out.
have lk ri rj : size ri = size ns -> size rj = size ns ->
    lexleq (lkey r (widen ns ns' ri)) (lkey r (widen ns ns' rj)) = lexleq (lkey r ri) (lkey r rj).
  move=> si sj; rewrite /lkey /widen; case: (r).
    rewrite (@lexleq_filter ns) ?flt ?map_expo // => v nin; by rewrite !expo_out.
  rewrite -!map_rev (@lexleq_filter ns) ?filter_rev ?flt ?map_rev ?map_expo // => v nin.
  by rewrite !expo_out.
rewrite /mleq /okey; case: (g) => /=; last exact: lk.
by rewrite !sm // lk.
Qed.

Lemma rowof_widen ns ns' m : supported ns m -> rowof ns' m = widen ns ns' (rowof ns m).
Proof.
move=> /forallP sp; rewrite /rowof /widen; apply: eq_map => v.
case vin : (v \in ns); last first.
  rewrite expo_out ?size_map ?vin //; case: insubP => // w _ wv.
  by move: (sp w); rewrite wv vin /= => /eqP.
by rewrite /expo (nth_map 0%N) ?index_mem // nth_index.
Qed.

Lemma supported_sub ns ns' m : {subset ns <= ns'} -> supported ns m -> supported ns' m.
Proof.
move=> sub /forallP sp; apply/forallP => w; case/orP: (sp w) => [/sub ->//|->]; exact: orbT.
Qed.

Theorem plt_widen ns ns' g r A B : uniq ns' -> subseq ns ns' -> psupp ns A -> psupp ns B ->
  plt ns g r A B <-> plt ns' g r A B.
Proof.
move=> un' sub sa sb.
have ab m m' : supported ns m -> supported ns m' ->
    above g r (rowof ns' m) (rowof ns' m') = above g r (rowof ns m) (rowof ns m').
  move=> s1 s2; rewrite /above !(@rowof_widen ns ns') // mleq_widen ?size_rowof //; congr (_ && ~~ _).
  apply/eqP/eqP => [e|-> //].
  have := rowof_inj (supported_sub (mem_subseq sub) s1) (supported_sub (mem_subseq sub) s2).
  by rewrite !(@rowof_widen ns ns') // => /(_ e) ->.
split=> -[m [lt e]]; exists m; split=> // m' abv; have s1 := lt_supported sa sb lt.
- case s2 : (supported ns m'); last by rewrite sa ?sb ?s2.
  by apply: e; rewrite -ab.
- case s2 : (supported ns m'); last by rewrite sa ?sb ?s2.
  by apply: e; rewrite ab.
Qed.
End PolyOrder.
