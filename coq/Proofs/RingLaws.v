(* RingLaws.v — commutative-ring laws for the model operators, as corollaries of the
   refinement theorems and MathComp's ring theory. *)
From mathcomp Require Import all_ssreflect all_algebra.
From SsrMultinomials Require Import mpoly.
From NP Require Import Base Poly Abs Clean Shape Align Arith Expr.
Set Implicit Arguments. Unset Strict Implicit. Unset Printing Implicit Defensive.
Import GRing.Theory.
Local Open Scope ring_scope.

Section Laws.
Variable (n : nat) (R : comRingType).
Implicit Types (a b c : parr R) (o : opts).

Definition same_value (r1 r2 : parr R) : Prop :=
  shape r1 = shape r2 /\ forall i, absE n r1 i = absE n r2 i.

Lemma same_value_of s (r1 r2 : parr R) :
  wfb r1 -> wfb r2 -> shape r1 = s -> shape r2 = s ->
  (forall i, (i < prodn s)%N -> absE n r1 i = absE n r2 i) -> same_value r1 r2.
Proof.
move=> w1 w2 s1 s2 eq; split; first by rewrite s1 s2.
move=> i; case: (ltnP i (prodn s)) => [/eq //|ge].
by rewrite !absE_oob // /psize ?s1 ?s2.
Qed.

Theorem padd_comm o a b r1 r2 :
  wfb a -> wfb b -> padd o a b = Ok r1 -> padd o b a = Ok r2 -> same_value r1 r2.
Proof.
move=> wa wb e1 e2.
have [s bs [w1 s1 v1]] := padd_spec n wa wb e1.
have [s' bs' [w2 s2 v2]] := padd_spec n wb wa e2.
move: bs'; rewrite bshapeC bs => -[ss]; rewrite -ss in s2 v2.
by apply: (same_value_of w1 w2 s1 s2) => i lt; rewrite v1 // v2 // addrC.
Qed.

Theorem pmul_comm o a b r1 r2 :
  wfb a -> wfb b -> pmul o a b = Ok r1 -> pmul o b a = Ok r2 -> same_value r1 r2.
Proof.
move=> wa wb e1 e2.
have [s bs [w1 s1 v1]] := pmul_spec n wa wb e1.
have [s' bs' [w2 s2 v2]] := pmul_spec n wb wa e2.
move: bs'; rewrite bshapeC bs => -[ss]; rewrite -ss in s2 v2.
by apply: (same_value_of w1 w2 s1 s2) => i lt; rewrite v1 // v2 // mulrC.
Qed.

(* laws on operands of one common shape (no index re-mapping) *)
Section SameShape.
Variables (o : opts) (a b c : parr R) (s : seq nat).
Hypotheses (wa : wfb a) (wb : wfb b) (wc : wfb c).
Hypotheses (sa : shape a = s) (sb : shape b = s) (sc : shape c = s).

Lemma same_shape_bin (op : {mpoly R[n]} -> {mpoly R[n]} -> {mpoly R[n]}) pop x y r :
  (forall a b r', wfb a -> wfb b -> pop o a b = Ok r' ->
     exists2 s, bshape (shape a) (shape b) = Some s &
       [/\ wfb r', shape r' = s &
           forall i, (i < prodn s)%N ->
             absE n r' i = op (absE n a (bidx (shape a) s i)) (absE n b (bidx (shape b) s i))]) ->
  wfb x -> wfb y -> shape x = s -> shape y = s -> pop o x y = Ok r ->
  [/\ wfb r, shape r = s & forall i, (i < prodn s)%N -> absE n r i = op (absE n x i) (absE n y i)].
Proof.
move=> spec wx wy sx sy e.
have [s' bs [wr sr vr]] := spec _ _ _ wx wy e.
move: bs; rewrite sx sy bshape_refl => -[ss]; rewrite -ss in sr vr.
by split=> // i lt; rewrite vr // sx sy !bidx_id.
Qed.

Theorem pmul_padd_distr bc ab ac l r :
  padd o b c = Ok bc -> pmul o a bc = Ok l ->
  pmul o a b = Ok ab -> pmul o a c = Ok ac -> padd o ab ac = Ok r ->
  same_value l r.
Proof.
move=> e1 e2 e3 e4 e5.
have [w1 s1 v1] := same_shape_bin (@padd_spec n R o) wb wc sb sc e1.
have [w2 s2 v2] := same_shape_bin (@pmul_spec n R o) wa w1 sa s1 e2.
have [w3 s3 v3] := same_shape_bin (@pmul_spec n R o) wa wb sa sb e3.
have [w4 s4 v4] := same_shape_bin (@pmul_spec n R o) wa wc sa sc e4.
have [w5 s5 v5] := same_shape_bin (@padd_spec n R o) w3 w4 s3 s4 e5.
by apply: (same_value_of w2 w5 s2 s5) => i lt; rewrite v2 // v1 // v5 // v3 // v4 // mulrDr.
Qed.

Theorem pmul_assoc ab l bc r :
  pmul o a b = Ok ab -> pmul o ab c = Ok l ->
  pmul o b c = Ok bc -> pmul o a bc = Ok r -> same_value l r.
Proof.
move=> e1 e2 e3 e4.
have [w1 s1 v1] := same_shape_bin (@pmul_spec n R o) wa wb sa sb e1.
have [w2 s2 v2] := same_shape_bin (@pmul_spec n R o) w1 wc s1 sc e2.
have [w3 s3 v3] := same_shape_bin (@pmul_spec n R o) wb wc sb sc e3.
have [w4 s4 v4] := same_shape_bin (@pmul_spec n R o) wa w3 sa s3 e4.
by apply: (same_value_of w2 w4 s2 s4) => i lt; rewrite v2 // v1 // v4 // v3 // mulrA.
Qed.

Theorem ppow_add j k pj pk l r :
  ppow o a (j + k) = Ok l -> ppow o a j = Ok pj -> ppow o a k = Ok pk ->
  pmul o pj pk = Ok r -> same_value l r.
Proof.
move=> e1 e2 e3 e4.
have [w1 s1 v1] := ppow_spec n wa e1.
have [w2 s2 v2] := ppow_spec n wa e2.
have [w3 s3 v3] := ppow_spec n wa e3.
rewrite sa in s1 s2 s3.
have [w4 s4 v4] := same_shape_bin (@pmul_spec n R o) w2 w3 s2 s3 e4.
apply: (same_value_of w1 w4 s1 s4) => i lt.
by rewrite v4 // v1 ?v2 ?v3 /psize ?sa // exprD.
Qed.

End SameShape.
End Laws.
