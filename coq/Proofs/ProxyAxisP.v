(* ProxyAxisP.v — argmin / argmax / amin / amax along an axis select, in EVERY lane, the element that is extreme for the
   order of sortable_proxy (leading exponent, then leading coefficient), first occurrence among equals (C19, C11). *)
From mathcomp Require Import all_ssreflect all_algebra zify.
From NP Require Import Base Poly Order Compare Proxy ProxyP ProxyAxis.
Set Implicit Arguments. Unset Strict Implicit. Unset Printing Implicit Defensive.
Import GRing.Theory Num.Theory.

Lemma foldr_minn_in d s : foldr minn d s \in d :: s.
Proof.
elim: s => [|x s IH] /=; first by rewrite inE.
rewrite /minn; case: ifP => _; first by rewrite !inE eqxx orbT.
by move: IH; rewrite !inE => /orP[->|->] //; rewrite !orbT.
Qed.

Lemma foldr_minn_le d s v : v \in d :: s -> (foldr minn d s <= v)%N.
Proof.
elim: s v => [|x s IH] v /=; first by rewrite inE => /eqP ->.
rewrite !inE => /or3P[/eqP ->|/eqP ->|vin].
- by apply: leq_trans (geq_minr _ _) _; apply: IH; rewrite inE eqxx.
- exact: geq_minl.
- by apply: leq_trans (geq_minr _ _) _; apply: IH; rewrite inE vin orbT.
Qed.

Lemma mins_cons x s : mins (x :: s) = minn x (foldr minn x s).
Proof. by []. Qed.

Lemma mins_in vs : vs != [::] -> mins vs \in vs.
Proof.
case: vs => [|x s] // _; rewrite mins_cons.
case: (leqP x (foldr minn x s)) => _; first by rewrite inE eqxx.
exact: foldr_minn_in.
Qed.

Lemma mins_le vs v : v \in vs -> (mins vs <= v)%N.
Proof.
case: vs => [|x s] // vin; rewrite mins_cons.
by apply: leq_trans (geq_minr _ _) _; apply: foldr_minn_le.
Qed.

Lemma maxs_in vs : vs != [::] -> maxs vs \in vs.
Proof.
elim: vs => [|x s IH] // _; rewrite /maxs /= -/(maxs s) /maxn; case: ifP => lt; last by rewrite inE eqxx.
have ne : s != [::] by case: s lt {IH}.
by rewrite inE IH ?orbT.
Qed.

Lemma maxs_le vs v : v \in vs -> (v <= maxs vs)%N.
Proof.
elim: vs => [|x s IH] //; rewrite inE /maxs /= -/(maxs s) => /orP[/eqP ->|vin]; first exact: leq_maxl.
by apply: leq_trans (IH vin) _; apply: leq_maxr.
Qed.

(* ---- one lane of a rank vector without repetitions ---- *)
Section Lane.
Variables (P lane : seq nat).
Hypothesis uP : uniq P.
Hypothesis inl : all (fun i => (i < size P)%N) lane.
Hypothesis ul : uniq lane.
Hypothesis ne : lane != [::].
Let vs := lane_vals P lane.

Lemma vals_size : size vs = size lane. Proof. by rewrite /vs /lane_vals size_map. Qed.
Lemma vals_ne : vs != [::]. Proof. by rewrite -size_eq0 vals_size size_eq0. Qed.
Lemma vals_uniq : uniq vs.
Proof.
rewrite /vs /lane_vals map_inj_in_uniq // => i j iin jin /eqP.
by rewrite nth_uniq ?(allP inl) // => /eqP.
Qed.
Lemma vals_nth t : (t < size lane)%N -> nth 0%N vs t = nth 0%N P (nth 0%N lane t).
Proof. by move=> lt; rewrite /vs /lane_vals (nth_map 0%N). Qed.

Lemma lane_argmin_lt : (lane_argmin P lane < size lane)%N.
Proof. by rewrite /lane_argmin -/vs -vals_size index_mem mins_in // vals_ne. Qed.

Lemma lane_argmax_lt : (lane_argmax P lane < size lane)%N.
Proof. by rewrite /lane_argmax -/vs -vals_size index_mem maxs_in // vals_ne. Qed.

Theorem lane_argmin_least t : (t < size lane)%N -> t != lane_argmin P lane ->
  (nth 0%N P (nth 0%N lane (lane_argmin P lane)) < nth 0%N P (nth 0%N lane t))%N.
Proof.
move=> lt net; rewrite -!vals_nth ?lane_argmin_lt // /lane_argmin -/vs.
have min_in := mins_in vals_ne; rewrite nth_index //.
have tin : nth 0%N vs t \in vs by apply: mem_nth; rewrite vals_size.
rewrite ltn_neqAle mins_le // andbT.
apply: contraNneq net => e; rewrite /lane_argmin -/vs e index_uniq ?vals_uniq // vals_size //.
Qed.

Theorem lane_argmax_greatest t : (t < size lane)%N -> t != lane_argmax P lane ->
  (nth 0%N P (nth 0%N lane t) < nth 0%N P (nth 0%N lane (lane_argmax P lane)))%N.
Proof.
move=> lt net; rewrite -!vals_nth ?lane_argmax_lt // /lane_argmax -/vs.
have max_in := maxs_in vals_ne; rewrite nth_index //.
have tin : nth 0%N vs t \in vs by apply: mem_nth; rewrite vals_size.
rewrite ltn_neqAle maxs_le // andbT.
apply: contraNneq net => e; rewrite /lane_argmax -/vs -e index_uniq ?vals_uniq // vals_size //.
Qed.

(* the flat position holding the lane's smallest / largest rank is the lane's argmin / argmax place *)
Lemma index_min_pos : index (mins vs) P = nth 0%N lane (lane_argmin P lane).
Proof.
have l := lane_argmin_lt.
have := vals_nth l; rewrite {1}/lane_argmin -/vs nth_index ?mins_in ?vals_ne // => ->.
by rewrite index_uniq // (allP inl) // mem_nth.
Qed.

Lemma index_max_pos : index (maxs vs) P = nth 0%N lane (lane_argmax P lane).
Proof.
have l := lane_argmax_lt.
have := vals_nth l; rewrite {1}/lane_argmax -/vs nth_index ?maxs_in ?vals_ne // => ->.
by rewrite index_uniq // (allP inl) // mem_nth.
Qed.
End Lane.

(* ---- the ranks of the reversed array, reversed back (argmax.py): ties go to the EARLIER position ---- *)
Section RProxy.
Variable R : realDomainType.
Variables (g r : bool) (p : parr R).
Hypothesis wp : wfb p.
Let sz := psize p.
Let rp := rproxy g r p.

Lemma rproxy_size : size rp = sz.
Proof. by rewrite /rp /rproxy size_rev (res_size g r (wfb_prev wp)) psize_prev. Qed.

Lemma rproxy_uniq : uniq rp.
Proof. by rewrite /rp /rproxy rev_uniq (res_uniq g r (wfb_prev wp)). Qed.

Lemma rproxy_nth i : (i < sz)%N -> nth 0%N rp i = nth 0%N (sortable_proxy g r (prev p)) (sz - i.+1)%N.
Proof. by move=> li; rewrite /rp /rproxy nth_rev (res_size g r (wfb_prev wp)) psize_prev. Qed.

Theorem rproxy_leading i j k k' : (i < sz)%N -> (j < sz)%N ->
  lead_index g r p i = Some k -> lead_index g r p j = Some k' ->
  (nth 0%N rp i < nth 0%N rp j)%N
  = if k == k'
    then (cell (cols p) k i < cell (cols p) k j)%R || ((cell (cols p) k i == cell (cols p) k j) && (j < i)%N)
    else mleq g r (nth [::] (rows p) k) (nth [::] (rows p) k').
Proof.
move=> li lj lei lej; rewrite !rproxy_nth //.
set i' := (sz - i.+1)%N; set j' := (sz - j.+1)%N.
have li' : (i' < sz)%N by rewrite /i'; lia.
have lj' : (j' < sz)%N by rewrite /j'; lia.
have ei : (sz - i'.+1)%N = i by rewrite /i'; lia.
have ej : (sz - j'.+1)%N = j by rewrite /j'; lia.
have lei' : lead_index g r (prev p) i' = Some k by rewrite lead_index_prev // -/sz ei.
have lej' : lead_index g r (prev p) j' = Some k' by rewrite lead_index_prev // -/sz ej.
rewrite (sortable_proxy_leading (wfb_prev wp) _ _ lei' lej') ?psize_prev //.
rewrite !cell_prev // -/sz ei ej /=.
by have -> : (i' < j')%N = (j < i)%N by rewrite /i' /j'; lia.
Qed.
End RProxy.

(* ---- argmin / argmax / amin / amax along an axis, lane by lane ---- *)
Section Axis.
Variable R : realDomainType.
Variables (g r : bool) (p : parr R).
Hypothesis wp : wfb p.
Variable lane : seq nat.
Hypothesis inl : all (fun i => (i < psize p)%N) lane.
Hypothesis ul : uniq lane.
Hypothesis ne : lane != [::].
Let sz := psize p.
Let res := sortable_proxy g r p.
Let rp := rproxy g r p.
Let amin := lane_argmin res lane.
Let amax := lane_argmax rp lane.

Let inl_res : all (fun i => (i < size res)%N) lane. Proof. by rewrite (res_size g r wp). Qed.
Let inl_rp : all (fun i => (i < size rp)%N) lane. Proof. by rewrite (rproxy_size g r wp). Qed.

Lemma lane_lt t : (t < size lane)%N -> (nth 0%N lane t < sz)%N.
Proof. by move=> lt; apply: (allP inl); apply: mem_nth. Qed.

Theorem argmin_axis_lt : (amin < size lane)%N.
Proof. exact: lane_argmin_lt. Qed.

Theorem argmax_axis_lt : (amax < size lane)%N.
Proof. exact: lane_argmax_lt. Qed.

(* argmin along an axis: in its lane, the element with the smallest (leading exponent, leading coefficient), the first
   of several equal ones *)
Theorem argmin_axis_spec t k0 k : (t < size lane)%N -> t != amin ->
  lead_index g r p (nth 0%N lane amin) = Some k0 -> lead_index g r p (nth 0%N lane t) = Some k ->
  if k0 == k
  then (cell (cols p) k0 (nth 0%N lane amin) < cell (cols p) k0 (nth 0%N lane t))%R
       || ((cell (cols p) k0 (nth 0%N lane amin) == cell (cols p) k0 (nth 0%N lane t))
           && (nth 0%N lane amin < nth 0%N lane t)%N)
  else mleq g r (nth [::] (rows p) k0) (nth [::] (rows p) k).
Proof.
move=> lt net l0 lk.
have lt' := lane_argmin_least (res_uniq g r wp) inl_res ul ne lt net.
by rewrite -(sortable_proxy_leading wp (lane_lt argmin_axis_lt) (lane_lt lt) l0 lk).
Qed.

(* argmax along an axis: the largest, and again the FIRST of several equal ones *)
Theorem argmax_axis_spec t k1 k : (t < size lane)%N -> t != amax ->
  lead_index g r p (nth 0%N lane amax) = Some k1 -> lead_index g r p (nth 0%N lane t) = Some k ->
  if k == k1
  then (cell (cols p) k (nth 0%N lane t) < cell (cols p) k (nth 0%N lane amax))%R
       || ((cell (cols p) k (nth 0%N lane t) == cell (cols p) k (nth 0%N lane amax))
           && (nth 0%N lane amax < nth 0%N lane t)%N)
  else mleq g r (nth [::] (rows p) k) (nth [::] (rows p) k1).
Proof.
move=> lt net l1 lk.
have lt' := lane_argmax_greatest (rproxy_uniq g r wp) inl_rp ul ne lt net.
by rewrite -(rproxy_leading wp (lane_lt lt) (lane_lt argmax_axis_lt) lk l1).
Qed.

(* amin / amax along an axis return the element at the lane's place of smallest / largest rank *)
Theorem amin_axis_pos : index (mins (lane_vals res lane)) res = nth 0%N lane amin.
Proof. exact: (index_min_pos (res_uniq g r wp) inl_res). Qed.

Theorem amax_axis_pos : index (maxs (lane_vals res lane)) res = nth 0%N lane (lane_argmax res lane).
Proof. exact: (index_max_pos (res_uniq g r wp) inl_res). Qed.

(* amax: the largest of the lane; of several equal ones the LAST (the ranks of the array itself break ties by position) *)
Theorem amax_axis_spec t k1 k : let a := lane_argmax res lane in (t < size lane)%N -> t != a ->
  lead_index g r p (nth 0%N lane a) = Some k1 -> lead_index g r p (nth 0%N lane t) = Some k ->
  if k == k1
  then (cell (cols p) k (nth 0%N lane t) < cell (cols p) k (nth 0%N lane a))%R
       || ((cell (cols p) k (nth 0%N lane t) == cell (cols p) k (nth 0%N lane a))
           && (nth 0%N lane t < nth 0%N lane a)%N)
  else mleq g r (nth [::] (rows p) k) (nth [::] (rows p) k1).
Proof.
move=> a lt net l1 lk.
have la : (a < size lane)%N by apply: lane_argmax_lt.
have lt' := lane_argmax_greatest (res_uniq g r wp) inl_res ul ne lt net.
by rewrite -(sortable_proxy_leading wp (lane_lt lt) (lane_lt la) lk l1).
Qed.
End Axis.
