(* Expr.v — powers and arbitrary expression trees over the ring operators (C01) *)
From mathcomp Require Import all_ssreflect all_algebra.
From SsrMultinomials Require Import mpoly.
From NP Require Import Base Poly Abs Clean Shape Align Arith.
Set Implicit Arguments. Unset Strict Implicit. Unset Printing Implicit Defensive.
Import GRing.Theory.
Local Open Scope ring_scope.

Section Expr.
Variable (n : nat) (R : comRingType).
Implicit Types (a b : parr R) (o : opts).

Lemma mon_zero ns : mon n ns [:: 0%N] = 0%MM.
Proof. by apply/mnmP => v; rewrite mnmE mnm0E /expo; case: (index _ _) => [|[|k]]. Qed.

Lemma absL_one ns m i : (i < m)%N -> absL n ns i [:: ([:: 0%N], nseq m (1 : R))] = 1.
Proof.
move=> lt; rewrite absL_cons absL_nil addr0 /absT /= nth_nseq lt mon_zero.
by rewrite mpolyX0 scale1r.
Qed.

Lemma ppow_fold_err o e err a : ppow_fold o e (Err err) a = Err err.
Proof. by elim: e => [|e IH] //=. Qed.

Lemma ppow_fold_spec o a e x (f : nat -> {mpoly R[n]}) r :
  wfb a -> wfb x -> shape x = shape a ->
  (forall i, (i < psize a)%N -> absE n x i = f i) ->
  ppow_fold o e (Ok x) a = Ok r ->
  [/\ wfb r, shape r = shape a &
      forall i, (i < psize a)%N -> absE n r i = f i * absE n a i ^+ e].
Proof.
move=> wa; elim: e x f => [|e IH] x f wx sx fx /=.
  by move=> [<-]; split=> // i lt; rewrite expr0 mulr1 fx.
case em: (pmul o x a) => [y|err] /=; last by rewrite ppow_fold_err.
have [s bs [wy sy ey]] := pmul_spec n wx wa em.
move: bs; rewrite sx bshape_refl => -[ss]; rewrite -ss in sy ey.
move=> /(IH y (fun i => f i * absE n a i) wy sy) [] //.
  by move=> i lt; rewrite ey // sx !bidx_id // fx.
move=> wr sr er; split=> // i lt.
by rewrite er // exprS mulrA.
Qed.

Theorem ppow_spec o a e r :
  wfb a -> ppow o a e = Ok r ->
  [/\ wfb r, shape r = shape a &
      forall i, (i < psize a)%N -> absE n r i = absE n a i ^+ e].
Proof.
move=> wa; rewrite /ppow.
case e1: (from_attributes _ _ _ _ _ _) => [one|] //=.
have [_ _ _ _ [_ npos _]] := wfbP wa.
have w1 : wfb one.
  apply: (from_attributes_wf _ _ e1); first by rewrite /= size_nseq eqxx.
  by rewrite size_take; case: (size (names a)) npos => [|[|k]].
have [_ s1] := from_attributes_absE n 0 e1.
move=> /(ppow_fold_spec (f := fun=> 1) wa w1 s1) [].
  by move=> i lt; case: (from_attributes_absE n i e1) => -> _; rewrite absL_one.
by move=> wr sr er; split=> // i lt; rewrite er // mul1r.
Qed.

(* ---- expression trees ------------------------------------------------------------ *)
(* the denotation of a tree: broadcast shape and element function (0 outside the shape) *)
Definition dshape := seq nat.
Definition dval := (dshape * (nat -> {mpoly R[n]}))%type.

Definition den1 (op : {mpoly R[n]} -> {mpoly R[n]}) (x : option dval) : option dval :=
  omap (fun sf : dval => (sf.1, fun i => if (i < prodn sf.1)%N then op (sf.2 i) else 0)) x.

Definition den2 (op : {mpoly R[n]} -> {mpoly R[n]} -> {mpoly R[n]}) (x y : option dval) : option dval :=
  match x, y with
  | Some (sa, fa), Some (sb, fb) =>
      if bshape sa sb is Some s
      then Some (s, fun i => if (i < prodn s)%N then op (fa (bidx sa s i)) (fb (bidx sb s i)) else 0)
      else None
  | _, _ => None
  end.

Fixpoint den (e : expr R) : option dval :=
  match e with
  | Leaf p => Some (shape p, absE n p)
  | ENeg a => den1 -%R (den a)
  | EAdd a b => den2 +%R (den a) (den b)
  | ESub a b => den2 (fun x y => x - y) (den a) (den b)
  | EMul a b => den2 *%R (den a) (den b)
  | EPow a k => den1 (fun x => x ^+ k) (den a)
  end.

Fixpoint leaves_wf (e : expr R) : bool :=
  match e with
  | Leaf p => wfb p
  | ENeg a | EPow a _ => leaves_wf a
  | EAdd a b | ESub a b | EMul a b => leaves_wf a && leaves_wf b
  end.

Definition agrees (r : parr R) (d : option dval) : Prop :=
  exists f, [/\ d = Some (shape r, f), wfb r & forall i, absE n r i = f i].

Lemma agrees2 o (op : {mpoly R[n]} -> {mpoly R[n]} -> {mpoly R[n]})
    (pop : opts -> parr R -> parr R -> res (parr R)) x y dx dy r :
  (forall a b r', wfb a -> wfb b -> pop o a b = Ok r' ->
     exists2 s, bshape (shape a) (shape b) = Some s &
       [/\ wfb r', shape r' = s &
           forall i, (i < prodn s)%N ->
             absE n r' i = op (absE n a (bidx (shape a) s i)) (absE n b (bidx (shape b) s i))]) ->
  agrees x dx -> agrees y dy -> pop o x y = Ok r -> agrees r (den2 op dx dy).
Proof.
move=> spec [fx [-> wx ex]] [fy [-> wy ey]] er.
have [s bs [wr sr er']] := spec _ _ _ wx wy er.
rewrite /den2 bs; rewrite -sr in bs er' *.
exists (fun i => if (i < prodn (shape r))%N
                 then op (fx (bidx (shape x) (shape r) i)) (fy (bidx (shape y) (shape r) i))
                 else 0).
split=> // i; case: ltnP => [lt|ge]; first by rewrite er' // ex ey.
by rewrite absE_oob.
Qed.

Theorem eval_spec o e r : leaves_wf e -> eval o e = Ok r -> agrees r (den e).
Proof.
elim: e r => [p|a IHa|a IHa b IHb|a IHa b IHb|a IHa b IHb|a IHa k] r /=.
- by move=> wp [<-]; exists (absE n p).
- move=> wl; case ea: (eval o a) => [x|] //= en.
  have [fx [-> wx ex]] := IHa _ wl ea.
  have [wr sr er] := pneg_spec n wx en.
  rewrite /den1 /= -sr.
  exists (fun i => if (i < prodn (shape r))%N then - fx i else 0).
  split=> // i; case: ltnP => [lt|ge]; first by rewrite er ex.
  by rewrite absE_oob.
- move=> /andP[wla wlb]; case ea: (eval o a) => [x|] //=; case eb: (eval o b) => [y|] //=.
  by apply: agrees2 (IHa _ wla ea) (IHb _ wlb eb) => a' b' r'; apply: padd_spec.
- move=> /andP[wla wlb]; case ea: (eval o a) => [x|] //=; case eb: (eval o b) => [y|] //=.
  by apply: agrees2 (IHa _ wla ea) (IHb _ wlb eb) => a' b' r'; apply: psub_spec.
- move=> /andP[wla wlb]; case ea: (eval o a) => [x|] //=; case eb: (eval o b) => [y|] //=.
  by apply: agrees2 (IHa _ wla ea) (IHb _ wlb eb) => a' b' r'; apply: pmul_spec.
- move=> wl; case ea: (eval o a) => [x|] //= ep.
  have [fx [-> wx ex]] := IHa _ wl ea.
  have [wr sr er] := ppow_spec wx ep.
  rewrite /den1 /= -sr.
  exists (fun i => if (i < prodn (shape r))%N then fx i ^+ k else 0).
  split=> // i; case: ltnP => [lt|ge]; last by rewrite absE_oob.
  by rewrite er -?ex // /psize -sr.
Qed.

(* commutative-ring laws for compositions: two trees with the same denotation evaluate to
   arrays whose elements are equal polynomials *)
Corollary eval_equal o e1 e2 r1 r2 :
  leaves_wf e1 -> leaves_wf e2 -> eval o e1 = Ok r1 -> eval o e2 = Ok r2 ->
  (forall s f1 f2, den e1 = Some (s, f1) -> den e2 = Some (s, f2) -> f1 =1 f2) ->
  omap fst (den e1) = omap fst (den e2) ->
  shape r1 = shape r2 /\ forall i, absE n r1 i = absE n r2 i.
Proof.
move=> w1 w2 ev1 ev2 feq seq.
have [f1 [d1 _ e1']] := eval_spec w1 ev1; have [f2 [d2 _ e2']] := eval_spec w2 ev2.
move: seq; rewrite d1 d2 /= => -[ss]; split=> // i.
by rewrite e1' e2'; apply: (feq (shape r1)) => //; rewrite d2 ss.
Qed.

End Expr.
