(* Align.v — the three aligners change representation only (C04) *)
From mathcomp Require Import all_ssreflect all_algebra.
From SsrMultinomials Require Import mpoly.
From NP Require Import Base Poly Abs Clean Shape.
Set Implicit Arguments. Unset Strict Implicit. Unset Printing Implicit Defensive.
Import GRing.Theory.
Local Open Scope ring_scope.

Section Align.
Variable (n : nat) (R : comRingType).
Implicit Types (p q : parr R) (ns : seq nat) (r : seq nat) (ps : seq (parr R)).

Lemma wfbP p : wfb p ->
  [/\ size (rows p) = size (cols p), (0 < size (rows p))%N, uniq (rows p),
      all (fun r => size r == size (names p)) (rows p) &
      [/\ all (fun c => size c == psize p) (cols p),
       (0 < size (names p))%N & uniq (names p)]].
Proof. by case/and5P => /eqP ? ? ? ? /and3P[? ? ?]; split. Qed.

Lemma wfbI p :
  size (rows p) = size (cols p) -> (0 < size (rows p))%N -> uniq (rows p) ->
  all (fun r => size r == size (names p)) (rows p) ->
  all (fun c => size c == psize p) (cols p) ->
  (0 < size (names p))%N -> uniq (names p) -> wfb p.
Proof. by rewrite /wfb => -> -> -> -> -> -> ->; rewrite eqxx. Qed.

(* index form of the denotation *)
Lemma absE_index p i :
  wfb p ->
  absE n p i = \sum_(0 <= k < size (rows p)) cell (cols p) k i *: 'X_[mon n (names p) (nth [::] (rows p) k)].
Proof.
move=> wp; have [sz _ _ _ _] := wfbP wp.
rewrite /absE /absL /terms (big_nth ([::], [::])) size_zip -sz minnn.
rewrite big_nat_cond [RHS]big_nat_cond; apply: eq_bigr => k; rewrite andbT => /andP[_ lt].
by rewrite /absT nth_zip.
Qed.

(* ---- align_shape --------------------------------------------------------------- *)
Lemma absE_bcast s p i :
  (i < prodn s)%N -> absE n (bcast s p) i = absE n p (bidx (shape p) s i).
Proof. by move=> lt; rewrite /absE /bcast /terms /= absL_gather. Qed.

Lemma bcast_colsize s p : all (fun c => size c == prodn s) (cols (bcast s p)).
Proof. by apply/allP => c /mapP[c' _ ->]; rewrite size_gather. Qed.

Theorem align_shape1P o s p q :
  wfb p -> align_shape1 o s p = Ok q ->
  [/\ wfb q, shape q = s &
      forall i, (i < prodn s)%N -> absE n q i = absE n p (bidx (shape p) s i)].
Proof.
move=> wp; rewrite /align_shape1; case: eqP => [sp [<-]|_ cl].
  by split=> // i lt; rewrite sp bidx_id.
have [_ _ _ _ [_ npos _]] := wfbP wp.
split; first exact: (from_attributes_wf (bcast_colsize s p) npos cl).
  by case: (from_attributes_absE n 0 cl).
move=> i lt; case: (from_attributes_absE n i cl) => -> _.
exact: (absE_bcast p lt).
Qed.

(* ---- align_indeterminants ------------------------------------------------------ *)
Lemma size_widen ns ns' r : size (widen ns ns' r) = size ns'.
Proof. by rewrite /widen size_map. Qed.

Lemma expo_nth ns r k : uniq ns -> (k < size ns)%N -> expo ns r (nth 0%N ns k) = nth 0%N r k.
Proof. by move=> un lt; rewrite /expo index_uniq. Qed.

Lemma widen_inj ns ns' r1 r2 :
  uniq ns -> {subset ns <= ns'} -> size r1 = size ns -> size r2 = size ns ->
  widen ns ns' r1 = widen ns ns' r2 -> r1 = r2.
Proof.
move=> un sub s1 s2 eqw; apply: (@eq_from_nth _ 0%N); first by rewrite s1 s2.
move=> k; rewrite s1 => lt.
rewrite -(expo_nth r1 un lt) -(expo_nth r2 un lt).
by rewrite -(expo_widen _ sub s1) -(expo_widen _ sub s2) eqw.
Qed.

Lemma names_align_names ns' p : names (align_names ns' p) = ns'.
Proof. by rewrite /align_names; case: eqP. Qed.

Lemma shape_align_names ns' p : shape (align_names ns' p) = shape p.
Proof. by rewrite /align_names; case: eqP. Qed.

Lemma wfb_align_names ns' p :
  wfb p -> uniq ns' -> {subset names p <= ns'} -> wfb (align_names ns' p).
Proof.
move=> wp un' sub; rewrite /align_names; case: eqP => // _.
have [srs rpos urs wid [csz npos un]] := wfbP wp.
apply: wfbI => //=; rewrite ?size_map //.
- rewrite map_inj_in_uniq // => r1 r2 r1in r2in.
  by apply: widen_inj => //; apply/eqP; move/allP: wid; apply.
- by apply/allP => r /mapP[r' _ ->]; rewrite size_widen.
- case: (names p) npos sub => [|x l] // _ sub.
  by have := sub x (mem_head _ _); case: (ns').
Qed.

(* ---- align_exponents ----------------------------------------------------------- *)
Lemma sum_zip_index (F : term R -> {mpoly R[n]}) (d : seq R) rs (cs : seq (seq R)) :
  uniq rs -> size rs = size cs ->
  \sum_(t <- zip rs cs) F t = \sum_(r <- rs) F (r, nth d cs (index r rs)).
Proof.
elim: rs cs => [|r rs IH] [|c cs] //=; rewrite ?big_nil // => /andP[rn un] [sz].
rewrite !big_cons eqxx /= IH //; congr (_ + _).
apply: eq_big_seq => r' r'in /=.
by case: eqP r'in rn => // -> ->.
Qed.

Lemma absL_zip_map ns i rs (f : seq nat -> seq R) :
  absL n ns i (zip rs [seq f r | r <- rs]) = \sum_(r <- rs) absT n ns i (r, f r).
Proof.
elim: rs => [|r rs IH] /=; first by rewrite absL_nil big_nil.
by rewrite absL_cons big_cons IH.
Qed.

Lemma colof_notin p r : size (rows p) = size (cols p) -> r \notin rows p -> colof p r = zeros R (psize p).
Proof.
move=> sz rn; rewrite /colof nth_default // -sz.
by rewrite leqNgt index_mem.
Qed.

Theorem absE_align_rows rs p i :
  wfb p -> uniq rs -> {subset rows p <= rs} -> absE n (align_rows rs p) i = absE n p i.
Proof.
move=> wp urs sub; have [srs rpos up wid [csz _ _]] := wfbP wp.
rewrite /absE /align_rows /terms /= absL_zip_map.
rewrite /absL (sum_zip_index _ (zeros R (psize p)) up srs).
rewrite (bigID (mem (rows p))) /= [X in _ + X]big1 ?addr0; last first.
  by move=> r rn; rewrite colof_notin // absT_zeros.
rewrite -big_filter; apply: perm_big.
apply: uniq_perm; rewrite ?filter_uniq // => r.
by rewrite mem_filter /=; case rin: (r \in rows p) => //=; rewrite (sub _ rin).
Qed.

Lemma size_colof p r : wfb p -> size (colof p r) = psize p.
Proof.
move=> wp; have [srs _ _ _ [csz _ _]] := wfbP wp; rewrite /colof.
case: (ltnP (index r (rows p)) (size (cols p))) => [lt|ge].
  by apply/eqP; move/allP: csz; apply; apply: mem_nth.
by rewrite nth_default // size_nseq.
Qed.

Lemma wfb_align_rows rs p :
  wfb p -> uniq rs -> (0 < size rs)%N -> all (fun r => size r == size (names p)) rs ->
  wfb (align_rows rs p).
Proof.
move=> wp urs rpos wid; have [_ _ _ _ [_ npos un]] := wfbP wp.
apply: wfbI => //=; rewrite ?size_map //.
by apply/allP => c /mapP[r _ ->]; rewrite size_colof.
Qed.

(* ---- the list versions -------------------------------------------------------------- *)
Definition pnil : parr R := Parr [::] [::] [::] [::].
Definition allsame ps := all (fun p => names p == names (head pnil ps)) ps.
Definition cnames ps := if allsame ps then names (head pnil ps) else union_names [seq names p | p <- ps].
Definition anames ps p := if allsame ps then p else align_names (cnames ps) p.
Definition grows ps := global_rows [seq rows (anames ps p) | p <- ps].

Lemma align_exponsE ps :
  align_expons ps = [seq align_rows (grows ps) (anames ps p) | p <- ps].
Proof.
rewrite /align_expons /grows /anames /cnames -/pnil -/(allsame ps).
case: (allsame ps) => //.
by rewrite /align_indets -!map_comp.
Qed.

Lemma mem_union_names nss ns v : ns \in nss -> v \in ns -> v \in union_names nss.
Proof.
move=> nin vin; rewrite /union_names mem_sort mem_undup.
by apply/flattenP; exists ns.
Qed.

Lemma uniq_union_names nss : uniq (union_names nss).
Proof. by rewrite /union_names sort_uniq undup_uniq. Qed.

Lemma anamesP ps p : all (@wfb R) ps -> p \in ps ->
  [/\ wfb (anames ps p), names (anames ps p) = cnames ps, shape (anames ps p) = shape p &
      forall i, absE n (anames ps p) i = absE n p i].
Proof.
move=> /allP wps pin; have wp := wps _ pin.
rewrite /anames /cnames; case same: (allsame ps).
  by split=> //; move/allP: same => /(_ _ pin) /eqP.
have sub : {subset names p <= union_names [seq names p | p <- ps]}.
  by move=> v; apply: mem_union_names; apply: map_f.
split.
- by apply: wfb_align_names => //; apply: uniq_union_names.
- exact: names_align_names.
- exact: shape_align_names.
- by move=> i; apply: absE_align_names => //; case: (wfbP wp).
Qed.

Lemma grows_uniq ps : uniq (grows ps).
Proof. by rewrite /grows /global_rows sort_uniq undup_uniq. Qed.

Lemma grows_sub ps p : p \in ps -> {subset rows (anames ps p) <= grows ps}.
Proof.
move=> pin r rin; rewrite /grows /global_rows mem_sort mem_undup.
by apply/flattenP; exists (rows (anames ps p)) => //; apply: map_f.
Qed.

Lemma grows_width ps : all (@wfb R) ps -> all (fun r => size r == size (cnames ps)) (grows ps).
Proof.
move=> wps; apply/allP => r; rewrite /grows /global_rows mem_sort mem_undup.
case/flattenP => rs /mapP[p pin ->] rin.
have [wq nq _ _] := anamesP wps pin; have [_ _ _ wid _] := wfbP wq.
by rewrite -nq; move/allP: wid; apply.
Qed.

Theorem align_expons_elem ps p :
  all (@wfb R) ps -> p \in ps ->
  let q := align_rows (grows ps) (anames ps p) in
  [/\ wfb q, names q = cnames ps, rows q = grows ps, shape q = shape p &
      forall i, absE n q i = absE n p i].
Proof.
move=> wps pin /=; have [wq nq sq eq] := anamesP wps pin.
have sub := grows_sub pin.
split=> //.
- apply: wfb_align_rows => //; first exact: grows_uniq.
    have [_ rpos _ _ _] := wfbP wq.
    case: (rows _) rpos sub => [|r rs] // _ sub.
    by have := sub r (mem_head _ _); case: (grows ps).
  by rewrite nq; apply: grows_width.
- by move=> i; rewrite absE_align_rows // grows_uniq.
Qed.

End Align.
