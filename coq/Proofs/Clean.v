(* Clean.v — postprocess_attributes / from_attributes: never changes the polynomial
   denoted, and what it returns is well-formed. *)
From mathcomp Require Import all_ssreflect all_algebra.
From SsrMultinomials Require Import mpoly.
From NP Require Import Base Poly Abs.
Set Implicit Arguments. Unset Strict Implicit. Unset Printing Implicit Defensive.
Import GRing.Theory.
Local Open Scope ring_scope.

Section Clean.
Variable (n : nat) (R : comRingType).
Implicit Types (p q : parr R) (ns : seq nat) (r : seq nat) (m : seq bool).

(* ---- dropping exponent columns that are zero everywhere ---------------------- *)
Lemma mask_expo m ns r v :
  size r = size ns -> size m = size ns -> uniq ns ->
  (forall k, (k < size ns)%N -> nth true m k = false -> nth 0%N r k = 0%N) ->
  expo (mask m ns) (mask m r) v = expo ns r v.
Proof.
elim: m ns r => [|b m IH] [|x ns] [|y r] //= [sr] [sm] /andP[xns uns] H.
have H' : forall k, (k < size ns)%N -> nth true m k = false -> nth 0%N r k = 0%N.
  by move=> k lt; apply: (H k.+1).
case: b H => H; rewrite /expo /=.
  by case: ifP => // _; apply: IH.
case: ifP => [/eqP xv|_]; last by apply: IH.
have -> : y = 0%N by apply: (H 0%N).
have vn : v \notin mask m ns by apply/negP => /mem_mask; rewrite -xv (negbTE xns).
by rewrite /= nth_default // (memNindex vn) !size_mask ?sr ?sm.
Qed.

Lemma mon_mask m ns r :
  size r = size ns -> size m = size ns -> uniq ns ->
  (forall k, (k < size ns)%N -> nth true m k = false -> nth 0%N r k = 0%N) ->
  mon n (mask m ns) (mask m r) = mon n ns r.
Proof. by move=> *; apply/mnmP => v; rewrite !mnmE mask_expo. Qed.

Lemma size_used_mask D (rs : seq (seq nat)) : size (used_mask D rs) = D.
Proof.
rewrite /used_mask; case: ifP => _; first by rewrite size_map size_iota.
by case: D => [|D] //=; rewrite size_map size_iota.
Qed.

Lemma used_mask_zero D rs r k :
  r \in rs -> (k < D)%N -> nth true (used_mask D rs) k = false -> nth 0%N r k = 0%N.
Proof.
move=> rin lt; rewrite /used_mask.
set m0 := [seq _ | k <- iota 0 D].
have m0k : nth true m0 k = false -> nth 0%N r k = 0%N.
  rewrite (nth_map 0%N) ?size_iota // nth_iota // add0n => /negbT.
  by rewrite -all_predC => /allP /(_ r rin) /=; rewrite negbK => /eqP.
case: ifP => _ //.
case: k lt m0k => [|k] lt m0k; first by rewrite /m0; case: (D) lt.
by move: m0k; rewrite /m0; case: (D) lt => [|D'] //=.
Qed.

Lemma absL_mask m ns i rs (cs : seq (seq R)) :
  all (fun r => size r == size ns) rs -> size m = size ns -> uniq ns ->
  (forall r k, r \in rs -> (k < size ns)%N -> nth true m k = false -> nth 0%N r k = 0%N) ->
  absL n (mask m ns) i (zip [seq mask m r | r <- rs] cs) = absL n ns i (zip rs cs).
Proof.
move=> szs sm un H.
elim: rs cs szs H => [|r rs IH] [|c cs]; rewrite /= ?absL_nil // => /andP[/eqP sr szs] H.
rewrite !absL_cons IH //; last by move=> r' k r'in; apply: H; rewrite inE r'in orbT.
congr (_ + _); rewrite /absT /= mon_mask // => k; apply: H; exact: mem_head.
Qed.

Lemma absL_rm_names ns i rs (cs : seq (seq R)) :
  all (fun r => size r == size ns) rs -> uniq ns ->
  absL n (rm_names rs ns).2 i (zip (rm_names rs ns).1 cs) = absL n ns i (zip rs cs).
Proof.
move=> szs un; rewrite /rm_names /=; apply: absL_mask => //.
  by rewrite size_used_mask.
by move=> r k rin lt; apply: used_mask_zero.
Qed.

(* ---- from_attributes -------------------------------------------------------- *)
Lemma zip_unzip12 (ts : seq (term R)) : zip (unzip1 ts) (unzip2 ts) = ts.
Proof. exact: zip_unzip. Qed.

Theorem from_attributes_absE rc rn ns sh rs (cs : seq (seq R)) q i :
  from_attributes rc rn ns sh rs cs = Ok q ->
  absE n q i = absL n ns i (zip rs cs) /\ shape q = sh.
Proof.
rewrite /from_attributes; case: ifP => // _; case: cs => [|c0 cs] //.
set ts := if rc then _ else _.
have tsE : absL n ns i ts = absL n ns i (zip rs (c0 :: cs)).
  by rewrite /ts; case: (rc) => //; rewrite absL_rm_coefs.
case: ifP => // /negbFE szs; case: ifP => // /negbFE un.
case: rn => /=.
  case: ifP => // _ [<-]; split=> //.
  by rewrite /absE /terms /= zip_unzip12.
case: ifP => // _ [<-]; split=> //.
by rewrite /absE /terms /= absL_rm_names // zip_unzip12.
Qed.

Lemma size_rm_coefs_pos D (ts : seq (term R)) : (0 < size (rm_coefs D ts))%N.
Proof. by rewrite /rm_coefs; case: (filter _ _). Qed.

Lemma rm_coefs_colsize D (ts : seq (term R)) (w : nat) :
  all (fun c => size c == w) (unzip2 ts) -> (0 < size ts)%N ->
  all (fun c => size c == w) (unzip2 (rm_coefs D ts)).
Proof.
move=> szs pos; rewrite /rm_coefs.
case E: (filter _ ts) => [|t ts'].
  rewrite /= andbT /zeros size_nseq.
  by case: ts szs pos {E} => [|t1 ts1] //= /andP[].
rewrite -E; apply/allP => c /mapP[t1]; rewrite mem_filter => /andP[_ tin] ->.
by move/allP: szs; apply; apply/mapP; exists t1.
Qed.

Lemma has_used_mask D rs : (0 < D)%N -> has id (used_mask D rs).
Proof.
rewrite /used_mask; case: ifP => // _.
by case: D => [|D] //=.
Qed.

Theorem from_attributes_wf rc rn ns sh rs (cs : seq (seq R)) q :
  all (fun c => size c == prodn sh) cs -> (0 < size ns)%N ->
  from_attributes rc rn ns sh rs cs = Ok q -> wfb q.
Proof.
move=> csz nspos; rewrite /from_attributes; case: ifP => // /negbFE /eqP srs.
case: cs csz srs => [|c0 cs] // csz srs.
set ts := if rc then _ else _.
have tspos : (0 < size ts)%N.
  rewrite /ts; case: (rc); last exact: size_rm_coefs_pos.
  by rewrite size_zip srs minnn.
have tscol : all (fun c => size c == prodn sh) (unzip2 ts).
  rewrite /ts; case: (rc); first by rewrite unzip2_zip // srs.
  apply: rm_coefs_colsize; first by rewrite unzip2_zip // srs.
  by rewrite size_zip srs minnn.
case: ifP => // /negbFE szs; case: ifP => // /negbFE un.
case: rn => /=.
  case: ifP => // /negbFE urs [<-]; rewrite /wfb /psize /=.
  by rewrite !size_map eqxx tspos urs szs tscol nspos un.
case: ifP => // /negbFE urs [<-]; rewrite /wfb /psize /=.
rewrite !size_map eqxx tspos urs tscol /= mask_uniq // andbT.
have sm : size (used_mask (size ns) (unzip1 ts)) = size ns by rewrite size_used_mask.
rewrite size_mask // -has_count has_used_mask // andbT.
apply/allP => r /mapP[r' r'in ->]; rewrite !size_mask //.
by rewrite sm; apply/esym/eqP; move/allP: szs; apply.
Qed.

End Clean.
