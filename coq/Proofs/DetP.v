(* DetP.v — det.py computes the determinant for every size and every stack of matrices (C10). *)
From mathcomp Require Import all_ssreflect all_algebra zify.
From SsrMultinomials Require Import mpoly.
From NP Require Import Base Poly Rearr Reduce Abs Clean Shape Align WfP Arith RearrP ReduceP.
Set Implicit Arguments. Unset Strict Implicit. Unset Printing Implicit Defensive.
Import GRing.Theory.
Local Open Scope ring_scope.

(* columns of a minor: all but idx, i.e. bump idx *)
Lemma minor_colsE d idx : (idx < d)%N -> minor_cols d idx = iota 0 idx ++ iota idx.+1 (d - idx.+1).
Proof.
move=> lt; rewrite /minor_cols.
have {1}-> : d = (idx + (1 + (d - idx.+1)))%N by lia.
rewrite iotaD add0n /= filter_cat /= eqxx /=.
congr (_ ++ _).
  by apply/all_filterP/allP => c; rewrite mem_iota add0n => /andP[_ ci]; rewrite neq_ltn ci.
by apply/all_filterP/allP => c; rewrite mem_iota => /andP[ci _]; rewrite neq_ltn ci orbT.
Qed.

Lemma nth_minor_cols d idx l : (idx < d)%N -> (l < d.-1)%N -> nth 0%N (minor_cols d idx) l = bump idx l.
Proof.
move=> lt ll; rewrite minor_colsE // nth_cat size_iota /bump.
case: (ltnP l idx) => [li|il]; first by rewrite nth_iota // add0n leqNgt li.
by rewrite nth_iota; lia.
Qed.

Lemma size_minor_cols d idx : (idx < d)%N -> size (minor_cols d idx) = d.-1.
Proof. by move=> lt; rewrite minor_colsE // size_cat !size_iota; lia. Qed.
Lemma det_mx22 (R : comRingType) (A : 'M[R]_2) : \det A = A 0 0 * A 1 1 - A 1 0 * A 0 1.
Proof.
rewrite (expand_det_row _ ord0) !big_ord_recl big_ord0 addr0 /cofactor !det_mx11 !mxE /=.
have e00 : lift (ord0 : 'I_2) (ord0 : 'I_1) = 1 :> 'I_2 by apply/val_inj.
have e10 : lift (1 : 'I_2) (ord0 : 'I_1) = 0 :> 'I_2 by apply/val_inj.
rewrite !e00 ?e10 /bump /= expr0 expr1 mul1r mulN1r mulrN.
by rewrite [A 0 1 * _]mulrC.
Qed.

Section DetP.
Variable (n : nat) (R : comRingType).
Variables (o : opts) (bs : seq nat).
Implicit Types (M : seq (seq (parr R))) (p q r x y : parr R).

Notation Z := (zeros_of R bs).
Definition square (d : nat) M : bool := (size M == d) && all (fun row => size row == d) M.
Definition mat (d : nat) M (i : nat) : 'M[{mpoly R[n]}]_d := \matrix_(k, l) E n bs M i k l.

Lemma wfb_zeros : wfb Z /\ shape Z = bs.
Proof. by rewrite /wfb /zeros_of /psize /= size_nseq eqxx. Qed.

Lemma absE_zeros i : absE n Z i = 0.
Proof. by rewrite /absE /absL /terms /= big_seq1 /absT /= nth_nseq; case: ifP; rewrite scale0r. Qed.

Lemma okM_nth M k l : okM bs M -> (k < size M)%N -> (l < size (nth [::] M k))%N ->
  wfb (nth Z (nth [::] M k) l) /\ shape (nth Z (nth [::] M k) l) = bs.
Proof. exact: okM_at. Qed.

(* ---- minors -------------------------------------------------------------------------------------- *)
Lemma square_minor d M idx : square d.+1 M -> (idx < d.+1)%N -> square d (minor M d.+1 idx Z).
Proof.
case/andP => /eqP sM rows lt; rewrite /square /minor size_map size_behead sM eqxx /=.
by apply/allP => row /mapP[row' _ ->]; rewrite size_map size_minor_cols.
Qed.

Lemma okM_minor d M idx : square d.+1 M -> okM bs M -> (idx < d.+1)%N -> okM bs (minor M d.+1 idx Z).
Proof.
case/andP => /eqP sM /allP rows okm lt; apply/allP => row /mapP[row' r'in ->].
have r'M : row' \in M by apply: mem_behead.
have sr : size row' = d.+1 by apply/eqP/rows.
apply/allP => x /mapP[c]; rewrite /minor_cols mem_filter mem_iota add0n => /andP[_ cd] ->.
by have /allP := allP okm _ r'M; apply; apply: mem_nth; rewrite sr.
Qed.

Lemma E_minor d M idx i k l : square d.+1 M -> (idx < d.+1)%N -> (k < d)%N -> (l < d)%N ->
  E n bs (minor M d.+1 idx Z) i k l = E n bs M i k.+1 (bump idx l).
Proof.
case/andP => /eqP sM _ lt ltk ltl; rewrite /E /minor.
rewrite (nth_map [::]) ?size_behead ?sM // nth_behead.
by rewrite (nth_map 0%N) ?size_minor_cols // nth_minor_cols.
Qed.

Lemma mat_minor d M (j : 'I_d.+1) i : square d.+1 M ->
  mat d (minor M d.+1 j Z) i = row' ord0 (col' j (mat d.+1 M i)).
Proof.
move=> sq; apply/matrixP => k l; rewrite !mxE.
by rewrite (E_minor i sq) ?ltn_ord.
Qed.

(* ---- the Laplace fold ------------------------------------------------------------------------------ *)
Definition dstep fuel M d (acc : res (parr R)) (idx : nat) : res (parr R) :=
  rbind acc (fun out =>
  rbind (pdetM fuel o bs (minor M d idx Z)) (fun m =>
  rbind (pmul o (nth Z (nth [::] M 0) idx) m) (fun t =>
  if odd idx then psub o out t else padd o out t))).

Lemma dstep_err fuel M d e l : foldl (dstep fuel M d) (Err e) l = Err e.
Proof. by elim: l. Qed.

Lemma laplace_fold fuel M d (Dt : nat -> nat -> {mpoly R[n]}) (l : seq nat) out0 r
    (S0 : nat -> {mpoly R[n]}) :
  square d M -> okM bs M -> all (fun j => j < d)%N l ->
  (forall j m, j \in l -> pdetM fuel o bs (minor M d j Z) = Ok m ->
     [/\ wfb m, shape m = bs & forall i, (i < prodn bs)%N -> absE n m i = Dt j i]) ->
  wfb out0 -> shape out0 = bs -> (forall i, (i < prodn bs)%N -> absE n out0 i = S0 i) ->
  foldl (dstep fuel M d) (Ok out0) l = Ok r ->
  [/\ wfb r, shape r = bs &
      forall i, (i < prodn bs)%N ->
        absE n r i = S0 i + \sum_(j <- l) (-1) ^+ j * (E n bs M i 0 j * Dt j i)].
Proof.
move=> sq okm; elim: l out0 S0 => [|j l IH] out0 S0 /=.
  by move=> _ _ w0 s0 v0 [<-]; split=> // i lt; rewrite big_nil addr0 v0.
move=> /andP[jd ld] spec w0 s0 v0.
case em: (pdetM fuel o bs (minor M d j Z)) => [m|e] /=; last by rewrite dstep_err.
have [wm sm vm] := spec j m (mem_head _ _) em.
have [/eqP sM /allP rows] := andP sq.
have r0in : nth [::] M 0 \in M by apply: mem_nth; rewrite sM (leq_ltn_trans _ jd).
have [wa sa] : wfb (nth Z (nth [::] M 0) j) /\ shape (nth Z (nth [::] M 0) j) = bs.
  by apply: okM_nth => //; [rewrite sM (leq_ltn_trans _ jd) | rewrite (eqP (rows _ r0in))].
case et: (pmul o _ m) => [t|e] /=; last by rewrite dstep_err.
have [wt st vt] := ss_mul n wa wm sa sm et.
have next out1 : (if odd j then psub o out0 t else padd o out0 t) = Ok out1 ->
    [/\ wfb out1, shape out1 = bs &
        forall i, (i < prodn bs)%N -> absE n out1 i = S0 i + (-1) ^+ j * (E n bs M i 0 j * Dt j i)].
  rewrite -signr_odd; case: (odd j) => e1.
    have [w1 s1 v1] := ss_sub n w0 wt s0 st e1; split=> // i lt.
    by rewrite v1 // v0 // vt // vm // expr1 mulN1r.
  have [w1 s1 v1] := ss_add n w0 wt s0 st e1; split=> // i lt.
  by rewrite v1 // v0 // vt // vm // expr0 mul1r.
case e1: (if odd j then _ else _) => [out1|e] /=; last by rewrite dstep_err.
have [w1 s1 v1] := next _ e1.
move=> /(IH out1 (fun i => S0 i + (-1) ^+ j * (E n bs M i 0 j * Dt j i)) ld) H.
have [] := H _ w1 s1 v1.
  by move=> j' m' j'in; apply: spec; rewrite inE j'in orbT.
move=> wr sr vr; split=> // i lt.
by rewrite vr // big_cons addrA.
Qed.


(* ---- det.py computes the determinant, for every size -------------------------------------------------- *)
Theorem pdetM_spec fuel : forall d M r,
  square d.+1 M -> okM bs M -> (d < fuel)%N -> pdetM fuel o bs M = Ok r ->
  [/\ wfb r, shape r = bs & forall i, (i < prodn bs)%N -> absE n r i = \det (mat d.+1 M i)].
Proof.
elim: fuel => [|fuel IH] d M r sq okm // lt.
case: d sq lt => [|[|d]] sq lt; have [/eqP sM /allP rows] := andP sq; rewrite /= sM.
- (* 1 x 1 *)
  rewrite eqxx => -[<-].
  have r0in : nth [::] M 0 \in M by apply: mem_nth; rewrite sM.
  have [w s] : wfb (nth Z (nth [::] M 0) 0) /\ shape (nth Z (nth [::] M 0) 0) = bs.
    by apply: okM_nth => //; [rewrite sM | rewrite (eqP (rows _ r0in))].
  by split=> // i li; rewrite det_mx11 mxE.
- (* 2 x 2 *)
  rewrite /=.
  have rin k : (k < 2)%N -> nth [::] M k \in M by move=> lk; apply: mem_nth; rewrite sM.
  have ent k l : (k < 2)%N -> (l < 2)%N ->
      wfb (nth Z (nth [::] M k) l) /\ shape (nth Z (nth [::] M k) l) = bs.
    by move=> lk ll; apply: okM_nth => //; [rewrite sM | rewrite (eqP (rows _ (rin _ lk)))].
  have [w00 s00] := ent 0%N 0%N isT isT; have [w11 s11] := ent 1%N 1%N isT isT.
  have [w10 s10] := ent 1%N 0%N isT isT; have [w01 s01] := ent 0%N 1%N isT isT.
  case e1: (pmul o _ _) => [u|] //=; case e2: (pmul o _ _) => [v|] //= e3.
  have [wu su vu] := ss_mul n w00 w11 s00 s11 e1; have [wv sv vv] := ss_mul n w10 w01 s10 s01 e2.
  have [wr sr vr] := ss_sub n wu wv su sv e3.
  by split=> // i li; rewrite vr // vu // vv // det_mx22 !mxE.
(* Laplace expansion along the first row *)
rewrite /= -/(dstep fuel M d.+3) => fold.
have [wz sz] := wfb_zeros.
have := @laplace_fold fuel M d.+3 (fun j i => \det (mat d.+2 (minor M d.+3 j Z) i)) (iota 0 d.+3) Z r (fun=> 0) sq okm.
have -> : all (fun j => (j < d.+3)%N) (iota 0 d.+3) by apply/allP => j; rewrite mem_iota add0n.
move=> /(_ isT) H.
have [] := H _ wz sz (fun i _ => absE_zeros i) fold.
  move=> j m; rewrite mem_iota add0n => /andP[_ jd] em.
  apply: (IH d.+1 _ _ (square_minor sq jd) (okM_minor sq okm jd) _ em).
  by rewrite -ltnS.
move=> wr sr vr; split=> // i li.
rewrite vr // add0r -[iota 0 d.+3]/(index_iota 0 d.+3) big_mkord (expand_det_row _ ord0).
apply: eq_bigr => j _; rewrite /cofactor mxE add0n mulrCA.
by congr (_ * (_ * _)); rewrite (mat_minor j i sq).
Qed.

(* on a stack of d x d matrices (batch shape bs): det.py as a whole *)
Lemma rseq_map' A B (f : A -> res B) (xs : seq A) (ys : seq B) :
  rseq [seq f x | x <- xs] = Ok ys ->
  size ys = size xs /\ forall d d' k, (k < size xs)%N -> f (nth d xs k) = Ok (nth d' ys k).
Proof.
elim: xs ys => [|x xs IH] ys /=; first by move=> [<-].
case ex: (f x) => [y|] //=; case er: (rseq _) => [ys'|] //= [<-] /=.
have [sz h] := IH _ er; split; first by rewrite sz.
by move=> d d' [|k] //= lt; apply: h.
Qed.

Theorem pdet_spec d p r :
  wfb p -> pdet o bs d.+1 p = Ok r ->
  [/\ wfb r, shape r = bs &
      forall b, (b < prodn bs)%N ->
        absE n r b = \det (\matrix_(k < d.+1, l < d.+1) absE n p (b * (d.+1 * d.+1) + k * d.+1 + l))].
Proof.
move=> wp; rewrite /pdet [(d.+1 == 0)%N]/=.
case eM: (rseq [seq _ | i <- iota 0 d.+1]) => [M|] //.
rewrite /rbind => em.
have [sM rowsM] := rseq_map' eM; rewrite size_iota in sM rowsM.
have rowk k : (k < d.+1)%N ->
    size (nth [::] M k) = d.+1 /\
    forall l, (l < d.+1)%N -> entry o bs d.+1 k l p = Ok (nth Z (nth [::] M k) l).
  move=> lk; have := rowsM 0%N [::] k lk; rewrite nth_iota // add0n => er.
  have [sr ents] := rseq_map' er; rewrite size_iota in sr ents; split=> // l ll.
  by have := ents 0%N Z l ll; rewrite nth_iota // add0n.
have sq : square d.+1 M.
  rewrite /square sM eqxx /=; apply/(all_nthP [::]) => k; rewrite sM => lk.
  by have [-> _] := rowk k lk.
have entP k l : (k < d.+1)%N -> (l < d.+1)%N ->
    [/\ wfb (nth Z (nth [::] M k) l), shape (nth Z (nth [::] M k) l) = bs &
        forall b, (b < prodn bs)%N -> E n bs M b k l = absE n p (b * (d.+1 * d.+1) + k * d.+1 + l)].
  move=> lk ll; have [_ /(_ l ll) ee] := rowk k lk.
  have [w s v] := prearr_spec n wp ee; split=> // b lb.
  by rewrite /E v // (nth_map 0%N) ?size_iota // nth_iota // add0n.
have okm : okM bs M.
  apply/(all_nthP [::]) => k; rewrite sM => lk; have [sr _] := rowk k lk.
  apply/(all_nthP Z) => l; rewrite sr => ll.
  by have [-> -> _] := entP k l lk ll; rewrite eqxx.
have [wr sr vr] := pdetM_spec sq okm (ltnSn d) em.
split=> // b lb; rewrite vr //; congr (\det _); apply/matrixP => k l; rewrite !mxE.
by have [_ _ ->] := entP k l (ltn_ord k) (ltn_ord l).
Qed.

End DetP.
