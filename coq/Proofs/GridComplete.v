(* GridComplete.v — glexindex generates EVERY tuple inside the bounds (C18): completeness of the grid that is
   built one dimension at a time with a truncation after each step. *)
From Coq Require Import BinNat.
From mathcomp Require Import all_ssreflect all_algebra zify.
From SsrMultinomials Require Import mpoly.
From NP Require Import Base Poly Order OrderP Abs.
Set Implicit Arguments. Unset Strict Implicit. Unset Printing Implicit Defensive.
Import GRing.Theory Num.Theory Order.Theory.

Section BallP.
Variable p : nat.
Hypothesis ppos : (0 < p)%N.

Lemma nb_leb (a b : N) : N.leb a b = (nat_of_bin a <= nat_of_bin b)%N. Proof. lia. Qed.
Lemma nb_mul (a b : N) : nat_of_bin (a * b)%num = (nat_of_bin a * nat_of_bin b)%N. Proof. lia. Qed.
Lemma nb_add (a b : N) : nat_of_bin (a + b)%num = (nat_of_bin a + nat_of_bin b)%N. Proof. lia. Qed.

Lemma nb_npow b : nat_of_bin (npow (bin_of_nat b) p) = (b ^ p)%N.
Proof.
rewrite /npow; elim: (p) => [|q IH] //=; rewrite nb_mul IH expnS.
by congr (_ * _)%N; lia.
Qed.

Lemma nb_nprod (s : seq N) : nat_of_bin (nprod s) = (\prod_(x <- s) nat_of_bin x)%N.
Proof. by elim: s => [|x s IH]; rewrite ?big_nil //= big_cons nb_mul IH. Qed.

Lemma nb_nsum (s : seq N) : nat_of_bin (nsum s) = (\sum_(x <- s) nat_of_bin x)%N.
Proof. by elim: s => [|x s IH]; rewrite ?big_nil //= big_cons nb_add IH. Qed.

(* the p-norm test on naturals *)
Lemma ball_nat (u bs : seq nat) : size u = size bs ->
  ball (NP p) u bs =
  (\sum_(k <- iota 0 (size bs)) (nth 0 u k ^ p * \prod_(j <- iota 0 (size bs) | j != k) nth 1 bs j ^ p)
   <= \prod_(j <- iota 0 (size bs)) nth 1 bs j ^ p)%N.
Proof.
move=> sz; rewrite /ball nb_leb nb_nsum nb_nprod big_map.
set m := size bs.
have bpE j : (j < m)%N -> nat_of_bin (nth 1%num [seq npow (bin_of_nat b) p | b <- bs] j) = (nth 1 bs j ^ p)%N.
  by move=> lj; rewrite (nth_map 1%N) // nb_npow.
congr (_ <= _)%N.
  rewrite !big_seq; apply: eq_bigr => k; rewrite mem_iota /= add0n => lk.
  rewrite nb_mul (nth_map 0%N) ?sz // nb_npow; congr (_ * _)%N.
  rewrite /prod_except nb_nprod big_map big_filter size_map -/m.
  rewrite -(big_filter _ (fun j => j != k)) -[RHS](big_filter _ (fun j => j != k)).
  by apply: eq_big_seq => j; rewrite mem_filter mem_iota /= add0n => /andP[_ lj]; apply: bpE.
rewrite big_map (big_nth 1%N) /index_iota subn0 -/m.
by apply: eq_big_seq => j _; rewrite nb_npow.
Qed.
Local Open Scope ring_scope.
Definition W (z : seq (nat * nat)) : rat := \sum_(x <- z) ((x.1 ^ p)%N)%:R / ((x.2 ^ p)%N)%:R.

Lemma W_nonneg z : 0 <= W z.
Proof. by rewrite /W; apply: sumr_ge0 => x _; rewrite divr_ge0 ?ler0n. Qed.

(* the cleared-denominator test is the rational p-norm test *)
Lemma ball_W (u bs : seq nat) : size u = size bs -> all (fun b => 0 < b)%N bs ->
  ball (NP p) u bs = (W (zip u bs) <= 1).
Proof.
move=> sz bpos; rewrite ball_nat //.
set m := size bs.
pose Bk k := (nth 1%N bs k ^ p)%N.
have Bpos k : (0 < Bk k)%N.
  rewrite /Bk expn_gt0; case: (ltnP k m) => lk; last by rewrite nth_default.
  by rewrite (allP bpos) ?mem_nth.
set P := (\prod_(j <- iota 0 m) _)%N.
have Ppos : (0 < P)%N by rewrite /P big_seq prodn_cond_gt0 // => j _; apply: Bpos.
have PE k : (k < m)%N -> P = (Bk k * \prod_(j <- iota 0 m | j != k) Bk j)%N.
  by move=> lk; rewrite /P (bigD1_seq k) ?mem_iota ?iota_uniq.
rewrite -(ler_nat [numDomainType of rat]) natr_sum.
have -> : \sum_(k <- iota 0 m) ((nth 0%N u k ^ p * \prod_(j <- iota 0 m | j != k) Bk j)%N)%:R
        = P%:R * W (zip u bs) :> rat.
  rewrite /W mulr_sumr (big_nth (0%N, 1%N)) size_zip sz minnn -/m /index_iota subn0.
  rewrite !big_seq; apply: eq_bigr => k; rewrite mem_iota /= add0n => lk.
  rewrite nth_zip //= natrM (PE k lk) natrM -/(Bk k).
  have nz : (Bk k)%:R != 0 :> rat by rewrite pnatr_eq0 -lt0n.
  by rewrite [RHS]mulrC mulrA divfK.
by rewrite ger_pmulr // ltr0n.
Qed.
End BallP.

Section GridComplete.
Variables (nm0 nm1 : normt).

(* the grid contains every tuple of the box whose proper suffixes of length >= 2 pass the step-wise truncation *)
Lemma grid_complete bound d t :
  size t = d.+1 -> all (fun x => x < bound) t ->
  (forall j, (0 < j)%N -> (2 <= size (drop j t))%N ->
             cross_truncate nm1 (drop j t) (nseq (size (drop j t)) bound)) ->
  t \in grid nm1 bound d.+1.
Proof.
elim: d t => [|d IH] t.
  case: t => [|v [|w t]] //= _ /andP[vb _] _.
  by apply/mapP; exists v => //; rewrite mem_iota add0n.
case: t => [|v t] //= [sz] /andP[vb al] suf.
apply/allpairsP; exists (v, t) => /=; split=> //; first by rewrite mem_iota add0n.
have tg : t \in grid nm1 bound d.+1.
  by apply: IH => // j jpos; have := suf j.+1 isT.
case: (d) sz tg => [|d'] sz tg //.
rewrite mem_filter tg andbT.
by have := suf 1%N isT; rewrite /= drop0 sz; apply.
Qed.
(* ---- the step-wise truncation never removes a suffix of a tuple that passes the final test ---- *)
Lemma ct_uniform nm (s : seq nat) B : all (fun x => x < B) s -> (0 < size s)%N ->
  cross_truncate nm s (nseq (size s) B) = (B == 1) || ball nm s (nseq (size s) B.-1).
Proof.
move=> al pos; rewrite /cross_truncate.
have Bpos : (0 < B)%N by case: s al pos => [|x s] //= /andP[xb _] _; apply: leq_ltn_trans xb.
have -> : has (fun x => x == 0) (nseq (size s) B) = false.
  by apply/negbTE/hasPn => x /nseqP[-> _]; rewrite -lt0n.
case: (eqVneq B 1) => [e|ne] /=.
  rewrite e in al *.
  have -> : [seq x <- zip s (nseq (size s) 1) | x.2 != 1] = [::].
    by apply/eqP; rewrite -(negbK (_ == _)) -has_filter; apply/hasPn => -[a b] /mem_zip [_ /nseqP[-> _]].
  rewrite andbT; apply/allP => -[a b]; rewrite mem_filter => /andP[_ /mem_zip [ain _]] /=.
  by move/allP: al => /(_ a ain); case: (a).
have -> : [seq x <- zip s (nseq (size s) B) | x.2 == 1] = [::].
  apply/eqP; rewrite -(negbK (_ == _)) -has_filter; apply/hasPn => -[a b] /mem_zip [_ /nseqP[-> _]] /=.
  exact: ne.
have -> : [seq x <- zip s (nseq (size s) B) | x.2 != 1] = zip s (nseq (size s) B).
  by apply/all_filterP/allP => -[a b] /mem_zip [_ /nseqP[-> _]].
rewrite /= unzip1_zip ?size_nseq //.
have -> : [seq x.2.-1 | x <- zip s (nseq (size s) B)] = nseq (size s) B.-1.
  have -> : [seq x.2.-1 | x <- zip s (nseq (size s) B)] = [seq x.-1 | x <- unzip2 (zip s (nseq (size s) B))].
    by rewrite -map_comp.
  by rewrite unzip2_zip ?size_nseq // map_nseq.
have zne : zip s (nseq (size s) B) != [::] by rewrite -size_eq0 size_zip size_nseq minnn -lt0n.
by case: (zip _ _) zne.
Qed.

(* what the final test says about the whole tuple *)
Definition restz (t ss : seq nat) := [seq x <- zip t ss | x.2 != 1].

Lemma ct_full nm t ss : size t = size ss -> cross_truncate nm t ss ->
  [/\ ~~ has (fun x => x == 0) ss,
      all (fun x => x.1 == 0) [seq x <- zip t ss | x.2 == 1] &
      restz t ss = [::] \/ ball nm (unzip1 (restz t ss)) [seq x.2.-1 | x <- restz t ss]].
Proof.
move=> sz; rewrite /cross_truncate; case: ifP => // /negbT nh /andP[az rb]; split=> //.
by rewrite /restz; case: [seq x <- zip t ss | x.2 != 1] rb => [|a l] rb; [left | right].
Qed.

Lemma count_rest (t ss : seq nat) : size t = size ss ->
  all (fun x => x.1 == 0) [seq x <- zip t ss | x.2 == 1] ->
  count (fun x => 0 < x) t = count (fun x => 0 < x) (unzip1 (restz t ss)).
Proof.
rewrite /restz; elim: t ss => [|a t IH] [|b ss] //= [sz]; case: (b =P 1) => [_|_] /=.
  by move=> /andP[/eqP -> /(IH _ sz) ->].
by move=> /(IH _ sz) ->.
Qed.

Lemma count_drop_le (a : pred nat) j (t : seq nat) : (count a (drop j t) <= count a t)%N.
Proof. by rewrite -{2}(cat_take_drop j t) count_cat leq_addl. Qed.

Lemma suffix_inf (t : seq nat) B j : all (fun x => x < B) t ->
  ball NInf (drop j t) (nseq (size (drop j t)) B.-1).
Proof.
move=> al; rewrite /ball; apply/allP => -[a b] /mem_zip [ain /nseqP[-> _]] /=.
have : a \in t by apply: mem_drop ain.
by move/allP: al => h /h; case: (B).
Qed.

Lemma suffix_zero (t ss : seq nat) B j : size t = size ss -> all (fun x => x < B) t ->
  cross_truncate NZero t ss -> ball NZero (drop j t) (nseq (size (drop j t)) B.-1).
Proof.
move=> sz al /(ct_full sz) [_ az rb]; rewrite /ball; apply/andP; split; last first.
  by have := suffix_inf j al; rewrite /ball.
apply: leq_trans (count_drop_le _ j t) _; rewrite (count_rest sz az).
by case: rb => [-> //|/andP[]].
Qed.
Lemma mem_maxs (ss : seq nat) x : x \in ss -> (x <= maxs ss)%N.
Proof.
elim: ss => [|y ss IH] //=; rewrite inE => /orP[/eqP ->|/IH h]; first exact: leq_maxl.
by apply: leq_trans h _; apply: leq_maxr.
Qed.

Local Open Scope ring_scope.
Lemma suffix_p p (t ss : seq nat) j : (0 < p)%N -> size t = size ss ->
  all (fun x => x < maxs ss)%N t -> (1 < maxs ss)%N ->
  cross_truncate (NP p) t ss -> ball (NP p) (drop j t) (nseq (size (drop j t)) (maxs ss).-1).
Proof.
move=> ppos sz al Bgt H; have [nh az rb] := ct_full sz H.
set B := maxs ss in al Bgt *; set b := B.-1; set s := drop j t.
have bpos : (0 < b)%N by rewrite /b; case: (B) Bgt => [|[|n]].
rewrite ball_W ?size_nseq //; last by apply/allP => x /nseqP[-> _].
pose f (a : nat) : rat := ((a ^ p)%N)%:R / ((b ^ p)%N)%:R.
have f0 a : 0 <= f a by rewrite /f divr_ge0 ?ler0n.
have -> : W p (zip s (nseq (size s) b)) = \sum_(a <- s) f a.
  rewrite /W; elim: (s) => [|a l IH] /=; first by rewrite !big_nil.
  by rewrite !big_cons IH.
have le1 : \sum_(a <- s) f a <= \sum_(a <- t) f a.
  by rewrite -[X in _ <= \sum_(a <- X) _](cat_take_drop j t) big_cat /= ler_addr sumr_ge0.
apply: le_trans le1 _.
have -> : \sum_(a <- t) f a = \sum_(x <- zip t ss) f x.1.
  by rewrite -{1}(@unzip1_zip _ _ t ss) ?sz // big_map.
rewrite (bigID (fun x : nat * nat => x.2 == 1%N)) /=.
have -> : \sum_(x <- zip t ss | x.2 == 1%N) f x.1 = 0.
  rewrite -big_filter big_seq big1 // => x xin.
  have /eqP -> : x.1 == 0%N by move/allP: az; apply.
  by rewrite /f exp0n // mul0r.
rewrite add0r -big_filter -/(restz t ss).
have rest_ok x : x \in restz t ss -> (0 < x.2.-1)%N /\ (x.2.-1 <= b)%N.
  rewrite mem_filter => /andP[n1 /mem_zip [_ xin]].
  have n0 : x.2 != 0%N.
    by apply: contraNneq nh => e; apply/hasP; exists x.2 => //; rewrite e.
  have := mem_maxs xin; rewrite -/B /b.
  by case: (x.2) n0 n1 => [|[|n]] // _ _; case: (B) => [|m] //=; rewrite ltnS.
have le2 : \sum_(x <- restz t ss) f x.1 <= W p [seq (x.1, x.2.-1) | x <- restz t ss].
  rewrite /W big_map big_seq [X in _ <= X]big_seq; apply: ler_sum => x /rest_ok [xpos xle] /=.
  rewrite /f ler_wpmul2l ?ler0n // lef_pinv ?posrE ?ltr0n ?expn_gt0 ?xpos ?bpos //.
  by rewrite ler_nat leq_exp2r.
apply: le_trans le2 _.
case: rb => [->|bl]; first by rewrite /W big_nil.
have zE : zip (unzip1 (restz t ss)) [seq x.2.-1 | x <- restz t ss] = [seq (x.1, x.2.-1) | x <- restz t ss].
  by elim: (restz t ss) => [|x l IH] //=; rewrite IH.
move: bl; rewrite ball_W ?zE //.
- by rewrite !size_map.
- by apply/allP => y /mapP[x /rest_ok [xpos _] ->].
Qed.
Local Close Scope ring_scope.

(* every suffix of a tuple that passes the final test passes the step-wise truncation *)
Lemma suffix_ok nm (t ss : seq nat) j : (if nm is NP p then 0 < p else true)%N -> size t = size ss ->
  all (fun x => x < maxs ss)%N t -> (0 < size (drop j t))%N ->
  cross_truncate nm t ss -> cross_truncate nm (drop j t) (nseq (size (drop j t)) (maxs ss)).
Proof.
move=> pp sz al pos H.
have als : all (fun x => x < maxs ss)%N (drop j t).
  by apply/allP => x /mem_drop xin; move/allP: al; apply.
rewrite ct_uniform //; case: (eqVneq (maxs ss) 1%N) => //= ne.
have Bgt : (1 < maxs ss)%N.
  case: (drop j t) als pos => [|x l] //= /andP[xb _] _.
  by case: (maxs ss) ne xb => [|[|m]].
case: nm pp H => [|p|] pp H.
- exact: suffix_zero H.
- exact: suffix_p.
- exact: suffix_inf.
Qed.

(* COMPLETENESS: every tuple inside the box that passes the final test is generated *)
Theorem glexindex_raw_complete start stop t :
  (if nm1 is NP p then 0 < p else true)%N ->
  size start = size stop -> size t = size start -> all (fun x => x < maxs stop)%N t ->
  (if size start == 1%N then (nth 0 start 0 <= nth 0 t 0)%N && (nth 0 t 0 < maxs stop)%N
   else cross_truncate nm1 t stop && ~~ cross_truncate nm0 t start) ->
  t \in glexindex_raw nm0 nm1 start stop.
Proof.
move=> pp ss st al test; rewrite /glexindex_raw.
case d1 : (size start == 1%N) test => test; rewrite mem_filter test /=.
  rewrite (eqP d1); case: t st al {test} => [|v [|w t]] //=; rewrite ?(eqP d1) // => _ /andP[vb _].
  by apply/mapP; exists v => //; rewrite mem_iota add0n.
have dpos : (0 < size start)%N.
  rewrite lt0n; apply/eqP => e0; move: test.
  have -> : t = [::] by apply: size0nil; rewrite st.
  have -> : stop = [::] by apply: size0nil; rewrite -ss.
  have -> : start = [::] by apply: size0nil.
  by rewrite /cross_truncate /=.
rewrite -(prednK dpos); apply: grid_complete; rewrite ?prednK //.
move=> j jpos sz2; apply: suffix_ok => //; first by rewrite st ss.
  by apply: leq_trans sz2.
by case/andP: test.
Qed.
End GridComplete.
