(* DerivP.v — derivative refines SsrMultinomials' formal partial derivative mderiv (C06). *)
From mathcomp Require Import all_ssreflect all_algebra.
From SsrMultinomials Require Import mpoly.
From NP Require Import Base Poly Deriv Abs Clean Shape Align Arith.
Set Implicit Arguments. Unset Strict Implicit. Unset Printing Implicit Defensive.
Import GRing.Theory.
Local Open Scope ring_scope.

Section DerivP.
Variable (n : nat) (R : comRingType).
Implicit Types (p q pref : parr R) (o : opts) (v : 'I_n).

Lemma mon_at ns (r : seq nat) v : mon n ns r v = expo ns r v.
Proof. by rewrite mnmE. Qed.

(* decrementing the exponent column of variable v subtracts the unit multinomial *)
Lemma mon_dec ns (r : seq nat) v :
  uniq ns -> (v : nat) \in ns -> size r = size ns -> nth 0%N r (index (v : nat) ns) != 0%N ->
  mon n ns (set_nth 0%N r (index (v : nat) ns) (nth 0%N r (index (v : nat) ns)).-1) = (mon n ns r - U_(v))%MM.
Proof.
move=> un vin sz nz; apply/mnmP => w; rewrite mnmBE !mnmE ?mnm1E /expo nth_set_nth /=.
case: (altP (index (w : nat) ns =P index (v : nat) ns)) => [e|ne].
  have wv : w = v.
    apply/val_inj => /=; have win : (w : nat) \in ns by rewrite -index_mem e index_mem.
    by rewrite -(nth_index 0%N win) e nth_index.
  by rewrite wv eqxx subn1.
have -> : (v == w) = false.
  by apply/negbTE; apply: contraNneq ne => ->.
by rewrite subn0.
Qed.

Lemma absT_dterm ns i (t : term R) v :
  uniq ns -> (v : nat) \in ns -> size t.1 = size ns ->
  nth 0%N t.1 (index (v : nat) ns) != 0%N ->
  absT n ns i (dterm (index (v : nat) ns) t) = (absT n ns i t)^`M(v).
Proof.
move=> un vin sz nz; rewrite /absT /dterm /= mon_dec // mderivZ mderivX mon_at /expo.
rewrite scalerA; congr (_ *: _).
case: (ltnP i (size t.2)) => lt; first by rewrite (nth_map 0) // mulrC.
by rewrite nth_default ?size_map // [X in _ = X * _]nth_default // mul0r.
Qed.

Lemma absT_free ns i (t : term R) v :
  nth 0%N t.1 (index (v : nat) ns) = 0%N -> (absT n ns i t)^`M(v) = 0.
Proof. by move=> z; rewrite /absT mderivZ mderivX mon_at /expo z scale0r scaler0. Qed.

(* the term list produced by one differentiation step denotes the partial derivative *)
Theorem absL_dterms p i v :
  wfb p -> (v : nat) \in names p ->
  absL n (names p) i (dterms (index (v : nat) (names p)) p) = (absE n p i)^`M(v).
Proof.
move=> wp vin; have [_ _ _ wid [_ _ un]] := wfbP wp.
set idx := index _ _; rewrite /absE /absL raddf_sum /=.
have -> : \sum_(t <- dterms idx p) absT n (names p) i t
        = \sum_(t <- [seq dterm idx t | t <- terms p & nth 0%N t.1 idx != 0%N]) absT n (names p) i t.
  rewrite /dterms; case: [seq _ | _ <- _ & _] => [|a l] //.
  by rewrite big_cons !big_nil absT_zeros addr0.
rewrite big_map big_filter [RHS](bigID (fun t : term R => nth 0%N t.1 idx != 0%N)) /=.
rewrite [X in _ + X]big1_seq ?addr0; last first.
  by move=> t /andP[/negPn /eqP z _]; apply: absT_free.
rewrite big_seq_cond [RHS]big_seq_cond; apply: eq_bigr => t /andP[tin nz].
apply: absT_dterm => //.
by have [rin _] := mem_zip tin; apply/eqP; move/allP: wid; apply.
Qed.

Lemma dterms_colsize idx p : wfb p ->
  all (fun c => size c == psize p) (unzip2 (dterms idx p)).
Proof.
move=> wp; have [_ _ _ _ [csz _ _]] := wfbP wp; rewrite /dterms.
case E: [seq _ | _ <- _ & _] => [|a l]; first by rewrite /= size_nseq eqxx.
rewrite -E; apply/allP => c /mapP[t /mapP[t0]]; rewrite mem_filter => /andP[_ t0in] -> ->.
by rewrite /= size_map; have [_ cin] := mem_zip t0in; move/allP: csz; apply.
Qed.

Lemma align_polys_same_shape o (a b : parr R) :
  shape a = shape b -> align_polys o [:: a; b] = Ok (align_expons [:: a; b]).
Proof.
move=> sab; rewrite /align_polys /align_shapes bshapes2 sab bshape_refl /=.
by rewrite /align_shape1 sab !eqxx.
Qed.

Lemma cnames_sup (ps : seq (parr R)) p : p \in ps -> {subset names p <= cnames ps}.
Proof.
move=> pin w win; rewrite /cnames; case: ifP => [/allP /(_ _ pin) /eqP <- //|_].
by apply: (@mem_union_names _ (names p)) => //; apply: map_f.
Qed.

(* one step of derivative.py *)
Theorem deriv_step_spec o p pref v q' pref' :
  wfb p -> wfb pref -> names pref = names p -> shape pref = shape p -> (v : nat) \in names p ->
  deriv_step o (p, pref) (index (v : nat) (names p)) = Ok (q', pref') ->
  [/\ wfb q', wfb pref', names pref' = names q', shape q' = shape p /\ shape pref' = shape p &
      [/\ (forall i, absE n q' i = (absE n p i)^`M(v)),
          (forall i, absE n pref' i = absE n pref i) & {subset names p <= names q'}]].
Proof.
move=> wp wr nr sr vin; rewrite /deriv_step index_mem vin /=.
case ef: (from_attributes _ _ _ _ _ _) => [q|] //=.
have [_ _ _ _ [_ npos _]] := wfbP wr.
have wq : wfb q by apply: (from_attributes_wf (dterms_colsize _ wp) npos ef).
have [eq sq] : (forall i, absE n q i = (absE n p i)^`M(v)) /\ shape q = shape p.
  split; last by case: (from_attributes_absE n 0 ef).
  by move=> i; case: (from_attributes_absE n i ef) => -> _; rewrite zip_unzip nr absL_dterms.
rewrite align_polys_same_shape ?sq ?sr // align_exponsE /= => -[<- <-].
set ps := [:: q; pref].
have wps : all (@wfb R) ps by rewrite /= wq wr.
have qin : q \in ps by rewrite !inE eqxx.
have rin : pref \in ps by rewrite !inE eqxx orbT.
have [w1 n1 r1 s1 e1] := align_expons_elem n wps qin.
have [w2 n2 r2 s2 e2] := align_expons_elem n wps rin.
split=> //; first by rewrite n1 n2.
  by rewrite s1 s2 sq sr.
split.
- by move=> i; rewrite e1 eq.
- by move=> i; rewrite e2.
- by move=> w win; rewrite n1; apply: (cnames_sup rin); rewrite nr.
Qed.

Arguments deriv_step : simpl never.

(* successive variables differentiate successively *)
Lemma derivative_names_spec o p pref (vs : seq 'I_n) r :
  wfb p -> wfb pref -> names pref = names p -> shape pref = shape p ->
  all (fun v : 'I_n => nat_of_ord v \in names p) vs ->
  derivative_names o (p, pref) [seq nat_of_ord v | v <- vs] = Ok r ->
  [/\ wfb r, shape r = shape p &
      forall i, absE n r i = foldl (fun acc v => acc^`M(v)) (absE n p i) vs].
Proof.
elim: vs p pref => [|v vs IH] p pref wp wr nr sr /=; first by move=> _ [<-].
move=> /andP[vin vsin]; rewrite vin /=.
case es: (deriv_step o (p, pref) (index (nat_of_ord v) (names p))) => [[q' pref']|] //= ed.
have [wq wr' nn [sq sr'] [eq _ sub]] := deriv_step_spec wp wr nr sr vin es.
have vsin' : all (fun v0 : 'I_n => nat_of_ord v0 \in names q') vs.
  by apply/allP => w /(allP vsin) /sub.
have [wres sres eres] := IH q' pref' wq wr' nn (etrans sr' (esym sq)) vsin' ed.
by split=> //; [rewrite sres | move=> i; rewrite eres eq].
Qed.

Theorem derivative_spec o p (vs : seq 'I_n) r :
  wfb p -> all (fun v : 'I_n => nat_of_ord v \in names p) vs ->
  derivative o p [seq nat_of_ord v | v <- vs] = Ok r ->
  [/\ wfb r, shape r = shape p &
      forall i, absE n r i = foldl (fun acc v => acc^`M(v)) (absE n p i) vs].
Proof. by move=> wp; apply: derivative_names_spec. Qed.

(* hence: mixed partials commute *)
Corollary derivative_schwarz o p (v w : 'I_n) r1 r2 :
  wfb p -> nat_of_ord v \in names p -> nat_of_ord w \in names p ->
  derivative o p [:: nat_of_ord v; nat_of_ord w] = Ok r1 ->
  derivative o p [:: nat_of_ord w; nat_of_ord v] = Ok r2 ->
  shape r1 = shape r2 /\ forall i, absE n r1 i = absE n r2 i.
Proof.
move=> wp vin win e1 e2.
have [_ s1 v1] := @derivative_spec o p [:: v; w] r1 wp (introT andP (conj vin (introT andP (conj win isT)))) e1.
have [_ s2 v2] := @derivative_spec o p [:: w; v] r2 wp (introT andP (conj win (introT andP (conj vin isT)))) e2.
by split; [rewrite s1 s2 | move=> i; rewrite v1 v2 /= mderiv_comm].
Qed.

(* a variable that is not an indeterminate of the polynomial is rejected *)
Theorem derivative_unknown o p (v : nat) : v \notin names p -> derivative o p [:: v] = Err ValueError.
Proof. by rewrite /derivative /= => ->. Qed.

End DerivP.

(* ---- linearity and the product rule, transported along the refinement theorems ------------- *)
Section Rules.
Variable (n : nat) (R : comRingType).
Implicit Types (a b : parr R) (o : opts) (v : 'I_n).

Corollary derivative_add o a b s v r :
  wfb a -> wfb b -> padd o a b = Ok s -> nat_of_ord v \in names s ->
  derivative o s [:: nat_of_ord v] = Ok r ->
  exists2 sh, bshape (shape a) (shape b) = Some sh &
    shape r = sh /\ forall i, (i < prodn sh)%N ->
      absE n r i = (absE n a (bidx (shape a) sh i))^`M(v) + (absE n b (bidx (shape b) sh i))^`M(v).
Proof.
move=> wa wb es vin ed; have [sh bs [ws ss vs]] := padd_spec n wa wb es.
have [_ sr vr] := @derivative_spec n R o s [:: v] r ws (introT andP (conj vin isT)) ed.
by exists sh => //; split=> [|i lt]; rewrite ?sr // vr /= vs // mderivD.
Qed.

Corollary derivative_mul o a b s v r :
  wfb a -> wfb b -> pmul o a b = Ok s -> nat_of_ord v \in names s ->
  derivative o s [:: nat_of_ord v] = Ok r ->
  exists2 sh, bshape (shape a) (shape b) = Some sh &
    shape r = sh /\ forall i, (i < prodn sh)%N ->
      let x := absE n a (bidx (shape a) sh i) in let y := absE n b (bidx (shape b) sh i) in
      absE n r i = x^`M(v) * y + x * y^`M(v).
Proof.
move=> wa wb es vin ed; have [sh bs [ws ss vs]] := pmul_spec n wa wb es.
have [_ sr vr] := @derivative_spec n R o s [:: v] r ws (introT andP (conj vin isT)) ed.
by exists sh => //; split=> [|i lt]; rewrite ?sr //= vr /= vs // mderivM.
Qed.

End Rules.
