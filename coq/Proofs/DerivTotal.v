(* DerivTotal.v — differentiation never fails because of an option setting (C15, C06). *)
From mathcomp Require Import all_ssreflect all_algebra.
From SsrMultinomials Require Import mpoly.
From NP Require Import Base Poly Deriv Abs Clean Shape Align WfP Arith DerivP StackP.
Set Implicit Arguments. Unset Strict Implicit. Unset Printing Implicit Defensive.
Import GRing.Theory.
Local Open Scope ring_scope.

Arguments deriv_step : simpl never.

Section DerivTotal.
Variable (n : nat) (R : comRingType).
Implicit Types (p q pref : parr R) (o : opts).

Lemma size_set_nth_in (r : seq nat) idx x : (idx < size r)%N -> size (set_nth 0%N r idx x) = size r.
Proof. by move=> lt; rewrite size_set_nth; apply/maxn_idPr. Qed.

(* lowering one positive exponent is injective *)
Lemma dec_inj idx (r1 r2 : seq nat) :
  size r1 = size r2 -> (idx < size r1)%N -> nth 0%N r1 idx != 0%N -> nth 0%N r2 idx != 0%N ->
  set_nth 0%N r1 idx (nth 0%N r1 idx).-1 = set_nth 0%N r2 idx (nth 0%N r2 idx).-1 -> r1 = r2.
Proof.
move=> sz lt n1 n2 e; apply: (@eq_from_nth _ 0%N) => // k lk.
have := congr1 (fun r => nth 0%N r k) e; rewrite !nth_set_nth /=.
case: (k =P idx) => [->|//] /eqP.
by rewrite -(eqn_add2r 1) !addn1 !prednK ?lt0n // => /eqP.
Qed.

Lemma unzip1_filter_zip (P : pred (seq nat)) (rs : seq (seq nat)) (cs : seq (seq R)) :
  size rs = size cs -> [seq t.1 | t <- zip rs cs & P t.1] = [seq r <- rs | P r].
Proof. by elim: rs cs => [|r rs IH] [|c cs] //= [sz]; case: ifP => _ /=; rewrite IH. Qed.

Lemma dterms_rows idx p : wfb p ->
  unzip1 (dterms idx p) =
  if [seq r <- rows p | nth 0%N r idx != 0%N] is [::] then [:: nseq (size (names p)) 0%N]
  else [seq set_nth 0%N r idx (nth 0%N r idx).-1 | r <- rows p & nth 0%N r idx != 0%N].
Proof.
move=> wp; have [srs _ _ _ _] := wfbP wp; rewrite /dterms.
have e : [seq t.1 | t <- [seq dterm idx t | t <- terms p & nth 0%N t.1 idx != 0%N]]
       = [seq set_nth 0%N r idx (nth 0%N r idx).-1 | r <- rows p & nth 0%N r idx != 0%N].
  rewrite -map_comp -(unzip1_filter_zip (fun r => nth 0%N r idx != 0%N) srs) -map_comp.
  by apply: eq_map.
case E : [seq dterm idx t | t <- terms p & nth 0%N t.1 idx != 0%N] => [|a l].
  by move: e; rewrite E /=; case: [seq r <- rows p | _] => [|x y].
by rewrite -E /unzip1 e; move: e; rewrite E; case: [seq r <- rows p | _].
Qed.

Lemma dterms_rows_uniq idx p : wfb p -> (idx < size (names p))%N -> uniq (unzip1 (dterms idx p)).
Proof.
move=> wp lt; have [_ _ urs wid _] := wfbP wp; rewrite dterms_rows //.
case E : [seq r <- rows p | _] => [|a l] //; rewrite -E.
rewrite map_inj_in_uniq ?filter_uniq // => r1 r2; rewrite !mem_filter => /andP[n1 r1in] /andP[n2 r2in] e.
have s1 : size r1 = size (names p) by apply/eqP; move/allP: wid; apply.
have s2 : size r2 = size (names p) by apply/eqP; move/allP: wid; apply.
by apply: (dec_inj _ _ n1 n2 e); rewrite ?s1 ?s2.
Qed.

Lemma dterms_rows_width idx p : wfb p -> (idx < size (names p))%N ->
  all (fun r => size r == size (names p)) (unzip1 (dterms idx p)).
Proof.
move=> wp lt; have [_ _ _ wid _] := wfbP wp; rewrite dterms_rows //.
case E : [seq r <- rows p | _] => [|a l]; first by rewrite /= size_nseq eqxx.
rewrite -E; apply/allP => r /mapP[r0]; rewrite mem_filter => /andP[_ r0in] ->.
have s0 : size r0 = size (names p) by apply/eqP; move/allP: wid; apply.
by rewrite size_set_nth_in s0.
Qed.

(* one differentiation step never fails *)
Theorem deriv_step_total o p pref v :
  wfb p -> wfb pref -> names pref = names p -> shape pref = shape p -> (v : nat) \in names p ->
  exists st, deriv_step o (p, pref) (index v (names p)) = Ok st.
Proof.
move=> wp wr nr sr vin; rewrite /deriv_step index_mem vin /=.
have lt : (index v (names p) < size (names p))%N by rewrite index_mem.
have [_ _ _ _ [_ npos un]] := wfbP wr.
have [q ef] : exists q, from_attributes false (o_retn o) (names pref) (shape p)
                          (unzip1 (dterms (index v (names p)) p)) (unzip2 (dterms (index v (names p)) p)) = Ok q.
  apply: from_attributes_total => //.
  - by rewrite !size_map.
  - by rewrite size_map /dterms; case: [seq _ | _ <- _ & _].
  - exact: dterms_rows_uniq.
  - by rewrite nr; apply: dterms_rows_width.
rewrite ef /=.
have wq : wfb q by apply: (from_attributes_wf (dterms_colsize _ wp) npos ef).
have [_ sq] := from_attributes_absE n 0 ef.
rewrite align_polys_same_shape ?sq ?sr // align_exponsE /=.
by eexists.
Qed.

Lemma derivative_names_total o p pref (vs : seq 'I_n) :
  wfb p -> wfb pref -> names pref = names p -> shape pref = shape p ->
  all (fun v : 'I_n => nat_of_ord v \in names p) vs ->
  exists r, derivative_names o (p, pref) [seq nat_of_ord v | v <- vs] = Ok r.
Proof.
elim: vs p pref => [|v vs IH] p pref wp wr nr sr /=; first by move=> _; exists p.
move=> /andP[vin vsin]; rewrite vin /=.
have [[q' pref'] es] := deriv_step_total o wp wr nr sr vin; rewrite es /=.
have [wq wr' nn [sq sr'] [_ _ sub]] := deriv_step_spec wp wr nr sr vin es.
apply: IH => //; first by rewrite sr' sq.
by apply/allP => w /(allP vsin) /sub.
Qed.

(* differentiation with respect to indeterminates of the polynomial never fails, whatever the options *)
Theorem derivative_total o p (vs : seq 'I_n) :
  wfb p -> all (fun v : 'I_n => nat_of_ord v \in names p) vs ->
  exists r, derivative o p [seq nat_of_ord v | v <- vs] = Ok r.
Proof. by move=> wp; apply: derivative_names_total. Qed.

(* stacking well-formed arrays of one shape never fails *)
Theorem pstack0_total o ps sh :
  (0 < size ps)%N -> all (@wfb R) ps -> all (fun p => shape p == sh) ps -> exists r, pstack0 o ps = Ok r.
Proof.
move=> pos wps shs; rewrite pstack0E //; set p0 := head _ ps; cbv zeta.
have p0in : p0 \in ps by rewrite /p0; case: (ps) pos => //= a l _; rewrite mem_head.
have sp0 : shape p0 = sh by apply/eqP; move/allP: shs; apply.
have -> : all (fun p => shape p == shape p0) ps by rewrite sp0.
rewrite [~~ true]/= align_exponsE.
set F := fun p => align_rows (grows ps) (anames ps p).
have [w0 n0 r0 s0 e0] := align_expons_elem n wps p0in.
have -> : head p0 [seq F p | p <- ps] = F p0 by rewrite /p0; case: (ps) pos.
rewrite -/(F p0) in w0 n0 r0; rewrite n0 r0.
have [srs rpos urs wid [_ npos un]] := wfbP w0.
rewrite /clean /=; apply: from_attributes_total => //.
- by rewrite size_map size_iota.
- by move: wid; rewrite n0 r0.
- by move: un; rewrite n0.
Qed.

(* gradient never fails, whatever the options *)
Theorem gradient_total o p (vs : seq 'I_n) :
  wfb p -> names p = [seq nat_of_ord v | v <- vs] -> exists r, gradient o p = Ok r.
Proof.
move=> wp np; rewrite /gradient.
have [_ _ _ _ [_ npos _]] := wfbP wp.
have vin (v : 'I_n) : v \in vs -> nat_of_ord v \in names p by move=> vi; rewrite np; apply: map_f.
have [ds [eds szd alld]] : exists ds, [/\ rseq [seq derivative o p [:: v] | v <- names p] = Ok ds, size ds = size (names p)
                                          & all (fun d => wfb d && (shape d == shape p)) ds].
  rewrite np; elim: (vs) vin => [|v l IH] vin /=; first by exists [::].
  have vv : nat_of_ord v \in names p by apply: vin; rewrite mem_head.
  have [d ed] := @derivative_total o p [:: v] wp (introT andP (conj vv isT)).
  have [wd sd _] := @derivative_spec n R o p [:: v] d wp (introT andP (conj vv isT)) ed.
  have vin' (w : 'I_n) : w \in l -> nat_of_ord w \in names p by move=> wi; apply: vin; rewrite inE wi orbT.
  have [ds [eds szd alld]] := IH vin'.
  exists (d :: ds); rewrite /= in ed *; rewrite ed eds /=; split=> //; first by rewrite szd.
  by rewrite wd sd eqxx.
rewrite eds /=; apply: (@pstack0_total o ds (shape p)).
- by rewrite szd.
- by apply/allP => d /(allP alld) /andP[].
- by apply/allP => d /(allP alld) /andP[].
Qed.
End DerivTotal.
