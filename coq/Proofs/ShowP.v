(* ShowP.v — the printed text denotes the polynomial (C16).
   1. Gaussian integers as a comRingType (the instance at which complex coefficients are run)
   2. the reference evaluator at {mpoly R[n]}; evaluating the token stream of an element gives absE
   3. the printed terms are the non-zero stored terms, sorted for the selected display order
   4. the display options only permute the printed terms *)
From Coq Require Import ZArith Lia.
From mathcomp Require Import all_ssreflect all_algebra ssrZ.
From SsrMultinomials Require Import mpoly.
From NP Require Import Base Poly Order OrderP Abs Show.
Set Implicit Arguments. Unset Strict Implicit. Unset Printing Implicit Defensive.
Import GRing.Theory Num.Theory.
Local Open Scope ring_scope.
Delimit Scope Z_scope with CZ.

(* ---- 1. Gaussian integers ------------------------------------------------------------------ *)
Record GI := Gi { gre : Z; gim : Z }.

Definition gi_pair (x : GI) : Z * Z := (gre x, gim x).
Definition pair_gi (p : Z * Z) : GI := Gi p.1 p.2.
Lemma gi_pairK : cancel gi_pair pair_gi. Proof. by case. Qed.
Definition gi_eqMixin := CanEqMixin gi_pairK.
Canonical gi_eqType := EqType GI gi_eqMixin.
Definition gi_choiceMixin := CanChoiceMixin gi_pairK.
Canonical gi_choiceType := ChoiceType GI gi_choiceMixin.

Definition gi_add (x y : GI) := Gi (gre x + gre y)%CZ (gim x + gim y)%CZ.
Definition gi_opp (x : GI) := Gi (- gre x)%CZ (- gim x)%CZ.
Definition gi_mul (x y : GI) :=
  Gi (gre x * gre y - gim x * gim y)%CZ (gre x * gim y + gim x * gre y)%CZ.
Definition gi0 := Gi 0%CZ 0%CZ.
Definition gi1 := Gi 1%CZ 0%CZ.

Lemma gi_addA : associative gi_add.
Proof. by case=> a b [c d] [e f]; rewrite /gi_add /=; congr Gi; ring. Qed.
Lemma gi_addC : commutative gi_add.
Proof. by case=> a b [c d]; rewrite /gi_add /=; congr Gi; ring. Qed.
Lemma gi_add0 : left_id gi0 gi_add.
Proof. by case=> a b; rewrite /gi_add /=; congr Gi. Qed.
Lemma gi_addN : left_inverse gi0 gi_opp gi_add.
Proof. by case=> a b; rewrite /gi_add /gi_opp /gi0 /=; congr Gi; ring. Qed.
Definition gi_zmodMixin := ZmodMixin gi_addA gi_addC gi_add0 gi_addN.
Canonical gi_zmodType := ZmodType GI gi_zmodMixin.

Lemma gi_mulA : associative gi_mul.
Proof. by case=> a b [c d] [e f]; rewrite /gi_mul /=; congr Gi; ring. Qed.
Lemma gi_mulC : commutative gi_mul.
Proof. by case=> a b [c d]; rewrite /gi_mul /=; congr Gi; ring. Qed.
Lemma gi_mul1 : left_id gi1 gi_mul.
Proof. by case=> a b; rewrite /gi_mul /gi1; congr Gi; cbn [gre gim]; ring. Qed.
Lemma gi_mulDl : left_distributive gi_mul gi_add.
Proof. by case=> a b [c d] [e f]; rewrite /gi_mul /gi_add /=; congr Gi; ring. Qed.
Lemma gi_1neq0 : gi1 != gi0. Proof. by []. Qed.
Definition gi_ringMixin := ComRingMixin gi_mulA gi_mulC gi_mul1 gi_mulDl gi_1neq0.
Canonical gi_ringType := RingType GI gi_ringMixin.
Canonical gi_comRingType := ComRingType GI gi_mulC.

(* str / float of a numpy.complex128 with integer parts:
   real part 0 (positive zero): "<b>j" or "-<b>j"; otherwise the parenthesised "(a+bj)", one number
   token whatever the sign of a.  float(c) is the real part. *)
Definition gauss_show : cshow GI :=
  CShow (fun c => (0 <=? gre c)%CZ)
        (fun c => if (gre c =? 0)%CZ
                  then (if (gim c <? 0)%CZ then [:: TMinus; TNum (Gi 0 (- gim c))] else [:: TNum c])
                  else [:: TNum c]).

(* ---- 2. running the evaluator on the printed tokens, for an arbitrary target algebra ------------- *)
Section RunGen.
Variables (R : comRingType) (A : Type) (al : alg R A) (cs : cshow R) (pr : plus_rule).
Implicit Types (st : est A) (ts : seq (tok R)) (ns r : seq nat) (t : seq nat * R).
Notation run := (run al).
Notation step := (step al).
Notation one := (a_one al).
Notation add := (a_add al).
Notation mul := (a_mul al).

Lemma run_cat st ts1 ts2 :
  run st (ts1 ++ ts2) = if run st ts1 is Some st' then run st' ts2 else None.
Proof. by elim: ts1 st => [|t ts1 IH] st //=; case: (step st t). Qed.

(* resolving a pending name *)
Definition settle st : est A :=
  if e_mode st is MName k then mul_in al st (a_var al k 1) else st.
Definition pv st : A := e_prd (settle st).
Definition complete st : bool :=
  match e_mode st with MAfter | MName _ => true | _ => false end.
Definition held st : A := signed al (e_neg st) (pv st).
Definition total st : A := add (e_acc st) (held st).
Definition ready (lead : bool) st : bool :=
  match e_mode st with MFact => ~~ lead | MAfter | MName _ => lead | MPow _ => false end.

Lemma finish_total st : complete st -> finish al st = Some (total st).
Proof. by case: st => a s x [] // k _. Qed.

Lemma step_plus st : complete st -> step st TPlus = Some (ESt (total st) false one MFact).
Proof. by case: st => a s x [] //= k _. Qed.

Lemma step_minus st : complete st -> step st TMinus = Some (ESt (total st) true one MFact).
Proof. by case: st => a s x [] //= k _. Qed.

(* the product of the printed factors, nested as the evaluator builds it *)
Definition nz (ev : nat * nat) : bool := ev.1 != 0%N.
Definition lprod (x : A) (ens : seq (nat * nat)) : A :=
  foldl (fun a ev => mul a (a_var al ev.2 ev.1)) x [seq ev <- ens | nz ev].

Lemma run_facts lead st ens : ready lead st ->
  exists st', [/\ run st (fact_toks R lead ens) = Some st', ready (lead || has nz ens) st',
                  e_acc st' = e_acc st, e_neg st' = e_neg st & pv st' = lprod (pv st) ens].
Proof.
elim: ens lead st => [|[e v] ens IH] lead st rd /=.
  by exists st; split=> //; rewrite orbF.
rewrite /nz /=; case: (eqVneq e 0%N) => [e0|e0] /=.
  have [st' [r1 r2 r3 r4 r5]] := IH lead st rd; exists st'; split=> //.
  by rewrite /lprod /= /nz /= e0.
rewrite orbT.
have r2 rest : run st ((if lead then [:: TMul] else [::]) ++ TName v :: rest)
               = run (ESt (e_acc st) (e_neg st) (pv st) (MName v)) rest.
  by case: st rd {IH} => a s x [] //= => [||k]; case: lead.
set s2 := ESt _ _ _ _ in r2.
pose s3 := if (1 < e)%N then ESt (e_acc st) (e_neg st) (mul (pv st) (a_var al v e)) MAfter else s2.
have r3 rest : run s2 ((if (1 < e)%N then [:: TPow; TNat e] else [::]) ++ rest) = run s3 rest.
  by rewrite /s3; case: ifP.
have rd3 : ready true s3 by rewrite /s3; case: ifP.
have pv3 : pv s3 = mul (pv st) (a_var al v e).
  rewrite /s3; case: ifP => //; rewrite /s2 /pv /=.
  by move: e0; clear; case: e => [|[|e]].
have [st' [q1 q2 q3 q4 q5]] := IH true s3 rd3.
exists st'; split=> //.
- by rewrite r2 r3.
- by rewrite q3 /s3; case: ifP.
- by rewrite q4 /s3; case: ifP.
- by rewrite q5 pv3 /lprod /= /nz /= e0.
Qed.

(* the shape of the coefficient text: sign, and the number if one is written *)
Definition cshape (co : seq (tok R)) : option (bool * option R) :=
  match co with
  | [::] => Some (false, None)
  | [:: TMinus] => Some (true, None)
  | [:: TNum x] => Some (false, Some x)
  | [:: TMinus; TNum x] => Some (true, Some x)
  | _ => None
  end.

Definition tval ns t : A :=
  match cshape (coef_toks cs t.2 t.1) with
  | Some (sg, ox) =>
      signed al sg (lprod (if ox is Some x then mul one (a_inj al x) else one) (zip t.1 ns))
  | None => a_zero al
  end.

Definition body_ok ns t : bool :=
  match cshape (coef_toks cs t.2 t.1) with
  | Some (_, None) => has nz (zip t.1 ns)
  | Some (_, Some _) => true
  | None => false
  end.

Lemma run_body acc ns t : body_ok ns t ->
  exists st', [/\ run (ESt acc false one MFact) (body_toks cs ns t) = Some st', complete st',
                  e_acc st' = acc & held st' = tval ns t].
Proof.
rewrite /body_ok /tval /body_toks.
case: (coef_toks cs t.2 t.1) => [|[||||x|k|e] [|[||||y|k'|e'] [|? ?]]] //= ok.
- have [st' [r1 r2 r3 r4 r5]] := @run_facts false (ESt acc false one MFact) (zip t.1 ns) isT.
  exists st'; split=> //; last by rewrite /held r4 r5.
  by move: r2; rewrite ok /ready /complete; case: (e_mode st') => /=.
- have [st' [r1 r2 r3 r4 r5]] := @run_facts false (ESt acc true one MFact) (zip t.1 ns) isT.
  exists st'; split=> //; last by rewrite /held r4 r5.
  by move: r2; rewrite ok /ready /complete; case: (e_mode st') => /=.
- have [st' [r1 r2 r3 r4 r5]] :=
    @run_facts true (ESt acc true (mul one (a_inj al y)) MAfter) (zip t.1 ns) isT.
  by exists st'; split=> //; rewrite /held r4 r5.
- have [st' [r1 r2 r3 r4 r5]] :=
    @run_facts true (ESt acc false (mul one (a_inj al x)) MAfter) (zip t.1 ns) isT.
  by exists st'; split=> //; rewrite /held r4 r5.
Qed.

Lemma run_term st ns t : complete st -> body_ok ns t ->
  wants_plus cs pr t (body_toks cs ns t) || starts_minus (body_toks cs ns t) ->
  exists st', [/\ run st (term_toks cs pr false ns t) = Some st', complete st' &
                  total st' = add (total st) (tval ns t)].
Proof.
move=> cst ok sep.
have [st' [r1 r2 r3 r4]] := run_body (total st) ok.
exists st'; split=> //; last by rewrite /total r3 r4.
rewrite /term_toks /=; case: ifP => [_|wp] /=; first by rewrite step_plus.
move: sep r1; rewrite wp /=; case: (body_toks cs ns t) => [|[] out] //= _.
by rewrite step_minus.
Qed.

Definition term_ok ns t : bool :=
  body_ok ns t && (wants_plus cs pr t (body_toks cs ns t) || starts_minus (body_toks cs ns t)).

Lemma run_join st ns (tl : seq (seq nat * R)) : complete st -> all (term_ok ns) tl ->
  exists st', [/\ run st (join_terms cs pr false ns tl) = Some st', complete st' &
                  total st' = foldl (fun a t => add a (tval ns t)) (total st) tl].
Proof.
elim: tl st => [|t tl IH] st cst /=; first by exists st.
case/andP=> /andP[ok sep] oks.
have [s1 [r1 r2 r3]] := run_term cst ok sep.
have [s2 [q1 q2 q3]] := IH s1 r2 oks.
by exists s2; split=> //; rewrite ?run_cat ?r1 // q3 r3.
Qed.

(* what the evaluator returns on the text of an element, symbolically *)
Definition esum ns (tl : seq (seq nat * R)) : A :=
  if tl is t :: tl' then foldl (fun a t => add a (tval ns t)) (add (a_zero al) (tval ns t)) tl'
  else add (a_zero al) (mul one (a_inj al 0)).

Theorem eval_show_gen (o : dopts) (p : parr R) i :
  (if show_terms o p i is t :: tl then body_ok (names p) t && all (term_ok (names p)) tl else true) ->
  eval_tokens al (show_elem cs pr o p i) = Some (esum (names p) (show_terms o p i)).
Proof.
rewrite /show_elem /eval_tokens; case: (show_terms o p i) => [|t tl] //=.
case/andP=> ok oks.
have [s1 [r1 r2 r3 r4]] := run_body (a_zero al) ok.
have [s2 [q1 q2 q3]] := run_join r2 oks.
by rewrite /term_toks /= run_cat r1 q1 finish_total // q3 /total r3 r4.
Qed.

End RunGen.

(* ---- 3. the evaluator at {mpoly R[n]}: the text of an element denotes absE -------------------- *)
Section Denote.
Variables (n : nat) (R : comRingType).
Notation A := {mpoly R[n]}.
Implicit Types (p : parr R) (ns r : seq nat) (c : R) (t : seq nat * R).

(* numbers are constants, q<k>**e is the k-th indeterminate to the e (an indeterminate outside
   0..n-1 is 1, as in absE) *)
Definition malg : alg R A :=
  Alg 0 1 +%R *%R -%R (fun c => c%:MP_[n]) (fun k e => 'X_[mon n [:: k] [:: e]]).

Lemma mon_cons v ns e r : v \notin ns -> size r = size ns ->
  mon n (v :: ns) (e :: r) = (mon n [:: v] [:: e] + mon n ns r)%MM.
Proof.
move=> vn sz; apply/mnmP => w; rewrite mnmDE !mnmE /expo /=.
case: (v =P nat_of_ord w) => [vw|_] /=; last by rewrite add0n.
by rewrite nth_default ?addn0 // sz leqNgt index_mem -vw.
Qed.

Lemma mon_nil : mon n [::] [::] = 0%MM.
Proof. by apply/mnmP => w; rewrite /mon mnmE. Qed.

Lemma mon_e0 v : mon n [:: v] [:: 0%N] = 0%MM.
Proof. by apply/mnmP => w; rewrite mnm0E /mon mnmE /expo /=; case: eqP. Qed.

Definition fprod (ens : seq (nat * nat)) : A :=
  \prod_(ev <- ens | ev.1 != 0%N) 'X_[mon n [:: ev.2] [:: ev.1]].

Lemma fprod_cons e v ens :
  fprod ((e, v) :: ens) = 'X_[mon n [:: v] [:: e]] * fprod ens.
Proof.
rewrite /fprod big_cons /=; case: eqP => //= ->.
by rewrite mon_e0 mpolyX0 mul1r.
Qed.

Lemma fprod_zip ns r : uniq ns -> size r = size ns -> fprod (zip r ns) = 'X_[mon n ns r].
Proof.
elim: ns r => [|v ns IH] [|e r] //=; first by rewrite /fprod big_nil mon_nil mpolyX0.
case/andP=> vn un [sz]; by rewrite fprod_cons IH // (mon_cons e vn sz) mpolyXD.
Qed.

Lemma lprod_malg x ens : lprod malg x ens = x * fprod ens.
Proof.
elim: ens x => [|[e v] ens IH] x; first by rewrite /lprod /fprod /= big_nil mulr1.
rewrite fprod_cons /lprod /= /nz /=; case: eqP => [->|_] /=.
  by rewrite mon_e0 mpolyX0 mul1r; apply: IH.
by rewrite -/(lprod malg _ ens) IH mulrA.
Qed.

Lemma has_nz_zip r ns : size r = size ns -> has nz (zip r ns) = nonconst r.
Proof. by elim: r ns => [|e r IH] [|v ns] //= [sz]; rewrite IH. Qed.

Variable cs : cshow R.

(* what the proofs need to know about the text of a coefficient: it is the number itself, or a
   minus sign followed by its opposite; and "+" is written whenever the text has no sign *)
Definition lex_ok c : Prop :=
  c_str cs c = [:: TNum c] \/ c_str cs c = [:: TMinus; TNum (- c)].
Definition plus_ok pr c : Prop :=
  (c_str cs c = [:: TNum c] \/ c = 1) -> pr = PlusByText \/ c_nonneg cs c.

Lemma tval_malg ns r c : lex_ok c -> uniq ns -> size r = size ns ->
  tval malg cs ns (r, c) = c *: 'X_[mon n ns r].
Proof.
move=> lx un sz; rewrite /tval /coef_toks /=.
case: ifP => [/andP[/eqP-> _]|_] /=.
  by rewrite lprod_malg fprod_zip // mul1r scale1r.
case: ifP => [/andP[/eqP-> _]|_] /=.
  by rewrite lprod_malg fprod_zip // mul1r scaleN1r.
case: lx => -> /=; rewrite lprod_malg fprod_zip // mul1r mul_mpolyC //.
by rewrite scaleNr opprK.
Qed.

Lemma body_ok_lex ns r c : lex_ok c -> size r = size ns -> body_ok cs ns (r, c).
Proof.
move=> lx sz; rewrite /body_ok /coef_toks /=.
case: ifP => [/andP[_ nc]|_] /=; first by rewrite has_nz_zip.
case: ifP => [/andP[_ nc]|_] /=; first by rewrite has_nz_zip.
by case: lx => ->.
Qed.

Lemma term_ok_lex pr ns r c : lex_ok c -> plus_ok pr c -> size r = size ns ->
  term_ok cs pr ns (r, c).
Proof.
move=> lx px sz; rewrite /term_ok body_ok_lex //=.
case: pr px => px; rewrite /wants_plus /=; last exact: orNb.
case nn: (c_nonneg cs c) => //=.
have nope : ~ (c_str cs c = [:: TNum c] \/ c = 1) by move/px => [|]; rewrite ?nn.
rewrite /body_toks /coef_toks /=.
case: ifP => [/andP[/eqP c1 _]|_]; first by case: nope; right.
case: ifP => // _.
by case: lx => [e|->] //; case: nope; left.
Qed.

Lemma sum_zip_iota (F : seq nat -> R -> A) i (rs : seq (seq nat)) (cls : seq (seq R)) :
  (forall r, F r 0 = 0) ->
  \sum_(t <- zip rs cls) F t.1 (nth 0 t.2 i)
  = \sum_(k <- iota 0 (size rs)) F (nth [::] rs k) (cell cls k i).
Proof.
move=> F0; elim: rs cls => [|r rs IH] [|cl cls] /=; rewrite ?big_nil //.
  by rewrite big1_seq // => k _; rewrite /cell !nth_nil F0.
rewrite !big_cons IH; congr (_ + _).
by rewrite -(addn0 1%N) iotaDl big_map.
Qed.

Lemma disp_order_perm (o : dopts) p : perm_eq (disp_order o p) (iota 0 (size (rows p))).
Proof.
rewrite /disp_order; case: ifP => _; last exact: glexsort_perm.
by rewrite perm_rev; apply: glexsort_perm.
Qed.

Lemma absE_show_terms (o : dopts) p i :
  absE n p i = \sum_(t <- show_terms o p i) t.2 *: 'X_[mon n (names p) t.1].
Proof.
have -> : \sum_(t <- show_terms o p i) t.2 *: 'X_[mon n (names p) t.1]
          = \sum_(t <- walk o p i) t.2 *: 'X_[mon n (names p) t.1].
  rewrite /show_terms big_filter [RHS](bigID (fun t => t.2 != 0)) /=.
  by rewrite [X in _ + X]big1 ?addr0 // => t /negPn/eqP->; rewrite scale0r.
rewrite /walk big_map (perm_big _ (disp_order_perm o p)) /=.
rewrite /absE /absL /terms /absT.
by apply: (@sum_zip_iota (fun r c => c *: 'X_[mon n (names p) r])) => r; rewrite scale0r.
Qed.

Lemma mem_show_terms (o : dopts) p i t : t \in show_terms o p i ->
  [/\ t.2 != 0 & exists2 k, (k < size (rows p))%N & t = (nth [::] (rows p) k, cell (cols p) k i)].
Proof.
rewrite mem_filter andbC => /andP[/mapP[k kin ->] t0]; split=> //.
by exists k => //; move: kin; rewrite (perm_mem (disp_order_perm o p)) mem_iota.
Qed.

Lemma foldl_addr (T : Type) (F : T -> A) x (s : seq T) :
  foldl (fun a u => a + F u) x s = x + \sum_(u <- s) F u.
Proof. by elim: s x => [|u s IH] x /=; rewrite ?big_nil ?addr0 // IH big_cons addrA. Qed.

Theorem show_denotes_gen pr (o : dopts) p i :
  uniq (names p) -> all (fun r => size r == size (names p)) (rows p) ->
  (forall t, t \in show_terms o p i -> lex_ok t.2 /\ plus_ok pr t.2) ->
  eval_tokens malg (show_elem cs pr o p i) = Some (absE n p i).
Proof.
move=> un szs oks.
have sz t : t \in show_terms o p i -> size t.1 = size (names p).
  by case/mem_show_terms=> _ [k lt ->] /=; apply/eqP/(allP szs)/mem_nth.
have tok t : t \in show_terms o p i -> term_ok cs pr (names p) t.
  by case: t => r c tin; have [lx px] := oks _ tin; apply: term_ok_lex => //; apply: (sz _ tin).
rewrite eval_show_gen; last first.
  case E: (show_terms o p i) tok => [|t tl] // tok; apply/andP; split.
    by have /andP[] := tok t (mem_head _ _).
  by apply/allP => u uin; apply: tok; rewrite inE uin orbT.
congr Some; rewrite (absE_show_terms o).
have tv t : t \in show_terms o p i -> tval malg cs (names p) t = t.2 *: 'X_[mon n (names p) t.1].
  by case: t => r c tin; have [lx _] := oks _ tin; apply: tval_malg => //; apply: (sz _ tin).
case: (show_terms o p i) tv => [|t tl] tv /=.
  by rewrite big_nil mul1r mpolyC0 addr0.
rewrite foldl_addr big_cons add0r tv ?mem_head //; congr (_ + _).
by apply: eq_big_seq => u uin; apply: tv; rewrite inE uin orbT.
Qed.

End Denote.

(* ---- 4. ordered coefficients (int, float, bool) --------------------------------------------- *)
Section Ordered.
Variables (n : nat) (R : realDomainType).

Lemma ord_lex_ok (c : R) : lex_ok (ord_show R) c.
Proof. by rewrite /lex_ok /=; case: ifP => _; [right | left]. Qed.

Lemma ord_plus_ok pr (c : R) : plus_ok (ord_show R) pr c.
Proof.
move=> h; right => /=; case: h => [|->]; last exact: ler01.
by rewrite /ord_show /=; case: (ltrP c 0).
Qed.

(* the token stream of element i evaluates to exactly the polynomial absE n p i, for every display
   setting and both "+" rules *)
Theorem show_denotes pr (o : dopts) (p : parr R) i :
  uniq (names p) -> all (fun r => size r == size (names p)) (rows p) ->
  eval_tokens (malg n R) (show_elem (ord_show R) pr o p i) = Some (absE n p i).
Proof.
move=> un szs; apply: show_denotes_gen => // t _; split; [exact: ord_lex_ok | exact: ord_plus_ok].
Qed.

End Ordered.

(* ---- 5. complex coefficients (Gaussian integers) ----------------------------------------------- *)
Section Gauss.
Variable n : nat.

Lemma gauss_lex_ok (c : GI) : lex_ok gauss_show c.
Proof.
case: c => a b; rewrite /lex_ok /=.
case: Z.eqb_spec => [->|_]; last by left.
by case: ifP => _; [right | left].
Qed.

(* with the repaired rule (PlusByText) every complex polynomial prints correctly *)
Theorem show_denotes_gauss_text (o : dopts) (p : parr gi_comRingType) i :
  uniq (names p) -> all (fun r => size r == size (names p)) (rows p) ->
  eval_tokens (malg n gi_comRingType) (show_elem gauss_show PlusByText o p i) = Some (absE n p i).
Proof.
move=> un szs; apply: show_denotes_gen => // t _; split; first exact: gauss_lex_ok.
by move=> _; left.
Qed.

(* with the shipped rule (PlusByValue) it does when no non-zero coefficient of the element has a
   negative real part *)
Theorem show_denotes_gauss_value (o : dopts) (p : parr gi_comRingType) i :
  uniq (names p) -> all (fun r => size r == size (names p)) (rows p) ->
  (forall k, (0 <=? gre (cell (cols p) k i))%CZ) ->
  eval_tokens (malg n gi_comRingType) (show_elem gauss_show PlusByValue o p i) = Some (absE n p i).
Proof.
move=> un szs re0; apply: show_denotes_gen => // t /mem_show_terms[_ [k _ ->]] /=.
by split; [exact: gauss_lex_ok | move=> _; right; apply: re0].
Qed.

End Gauss.

(* ---- 6. the printed terms: which, and in which order ------------------------------------------- *)
Section OrderOfTerms.
Variable R : comRingType.
Implicit Types (p : parr R) (o : dopts).

(* the stored (exponent row, coefficient) pairs of element i *)
Definition stored_terms p i : seq (seq nat * R) :=
  [seq (nth [::] (rows p) k, cell (cols p) k i) | k <- iota 0 (size (rows p))].

(* the order selected by the display options *)
Definition dle o : rel (seq nat) :=
  if d_inverse o then (fun a b => mleq (d_graded o) (d_reverse o) b a)
  else mleq (d_graded o) (d_reverse o).

Lemma dle_trans o : transitive (dle o).
Proof.
rewrite /dle; case: ifP => _ b a c; last exact: mleq_trans.
by move=> ba cb; apply: mleq_trans cb ba.
Qed.

Lemma disp_order_perm' o p : perm_eq (disp_order o p) (iota 0 (size (rows p))).
Proof.
rewrite /disp_order; case: ifP => _; last exact: glexsort_perm.
by rewrite perm_rev; apply: glexsort_perm.
Qed.

Lemma disp_order_sorted o p :
  sorted (relpre (nth [::] (rows p)) (dle o)) (disp_order o p).
Proof.
rewrite /disp_order /dle; case: ifP => _; last exact: glexsort_sorted.
by rewrite rev_sorted; apply: glexsort_sorted.
Qed.

Theorem show_terms_perm o p i :
  perm_eq (show_terms o p i) [seq t <- stored_terms p i | t.2 != 0].
Proof. by apply: perm_filter; apply: perm_map; apply: disp_order_perm'. Qed.

Theorem show_terms_sorted o p i : sorted (dle o) (unzip1 (show_terms o p i)).
Proof.
rewrite /show_terms /walk filter_map /unzip1 -map_comp.
rewrite (@eq_map _ _ _ (nth [::] (rows p))) // sorted_map.
apply: sorted_filter; last exact: disp_order_sorted.
by move=> b a c; apply: dle_trans.
Qed.

(* the display options only permute the printed terms *)
Theorem show_options_permute o1 o2 p i : perm_eq (show_terms o1 p i) (show_terms o2 p i).
Proof.
by apply: perm_trans (show_terms_perm o1 p i) _; rewrite perm_sym; apply: show_terms_perm.
Qed.

End OrderOfTerms.

(* ---- 7. the executable evaluator (list of printed terms) ---------------------------------------- *)
Section ListInstance.
Variables (R : comRingType) (cs : cshow R).
Implicit Types (ns r : seq nat) (c : R).

(* the factors q<v>**e the text shows for exponent row r *)
Definition factors r ns : seq (nat * nat) := [seq (ev.2, ev.1) | ev <- zip r ns & nz ev].

Lemma lprod_lalg m c ens :
  lprod (lalg R) [:: (m, c)] ens = [:: (m ++ [seq (ev.2, ev.1) | ev <- ens & nz ev], c)].
Proof.
rewrite /lprod; elim: [seq ev <- ens | nz ev] m c => [|[e v] s IH] m c /=; first by rewrite cats0.
by rewrite IH mulr1 -catA.
Qed.

Lemma tval_lalg ns r c : lex_ok cs c -> tval (lalg R) cs ns (r, c) = [:: (factors r ns, c)].
Proof.
move=> lx; rewrite /tval /coef_toks /=.
case: ifP => [/andP[/eqP-> _]|_] /=; first by rewrite lprod_lalg.
case: ifP => [/andP[/eqP-> _]|_] /=; first by rewrite lprod_lalg.
by case: lx => -> /=; rewrite lprod_lalg /= mul1r ?opprK.
Qed.

Lemma foldl_cat_flatten (T U : Type) (F : T -> seq U) x (s : seq T) :
  foldl (fun a u => a ++ F u) x s = x ++ flatten [seq F u | u <- s].
Proof. by elim: s x => [|u s IH] x /=; rewrite ?cats0 // IH catA. Qed.

(* parsing the text of an element gives back the walked terms, one printed term each, in order *)
Theorem show_parses pr (o : dopts) (p : parr R) i :
  all (fun r => size r == size (names p)) (rows p) ->
  (forall t, t \in show_terms o p i -> lex_ok cs t.2 /\ plus_ok cs pr t.2) ->
  parse_terms (show_elem cs pr o p i)
  = Some (if show_terms o p i is [::] then [:: ([::], 0)]
          else [seq (factors t.1 (names p), t.2) | t <- show_terms o p i]).
Proof.
move=> szs oks.
have sz t : t \in show_terms o p i -> size t.1 = size (names p).
  by case/mem_show_terms=> _ [k lt ->] /=; apply/eqP/(allP szs)/mem_nth.
have tok t : t \in show_terms o p i -> term_ok cs pr (names p) t.
  by case: t => r c tin; have [lx px] := oks _ tin; apply: term_ok_lex => //; apply: (sz _ tin).
rewrite /parse_terms eval_show_gen; last first.
  case E: (show_terms o p i) tok => [|t tl] // tok; apply/andP; split.
    by have /andP[] := tok t (mem_head _ _).
  by apply/allP => u uin; apply: tok; rewrite inE uin orbT.
congr Some.
have tv t : t \in show_terms o p i ->
    tval (lalg R) cs (names p) t = [:: (factors t.1 (names p), t.2)].
  by case: t => r c tin; have [lx _] := oks _ tin; apply: tval_lalg.
case: (show_terms o p i) tv => [|t tl] tv /=; first by rewrite /lmul /= mul1r.
rewrite foldl_cat_flatten tv ?mem_head //=; congr (_ :: _).
elim: tl tv => [|u tl IH] tv //=; rewrite tv ?inE ?eqxx ?orbT //=; congr (_ :: _).
by apply: IH => w win; apply: tv; move: win; rewrite !inE => /orP[->|->]; rewrite ?orbT.
Qed.

End ListInstance.

(* the executable evaluator refines the one at {mpoly R[n]}, on EVERY token list *)
Section Refines.
Variables (n : nat) (R : comRingType).
Notation A := {mpoly R[n]}.

Definition fabs (fs : seq (nat * nat)) : A := \prod_(f <- fs) 'X_[mon n [:: f.1] [:: f.2]].
Definition labs (l : seq (lterm R)) : A := \sum_(t <- l) t.2 *: fabs t.1.

Lemma labs_cat a b : labs (a ++ b) = labs a + labs b.
Proof. by rewrite /labs big_cat. Qed.

Lemma labs_mul a b : labs (a_mul (lalg R) a b) = labs a * labs b.
Proof.
rewrite /labs /= big_allpairs_dep big_distrl /=; apply: eq_bigr => x _.
rewrite big_distrr /=; apply: eq_bigr => y _ /=.
by rewrite /fabs big_cat /= -scalerAl -scalerAr scalerA.
Qed.

Lemma labs_opp a : labs (a_opp (lalg R) a) = - labs a.
Proof. by rewrite /labs /= big_map -sumrN; apply: eq_bigr => x _ /=; rewrite scaleNr. Qed.

Lemma labs_inj c : labs (a_inj (lalg R) c) = c%:MP_[n].
Proof. by rewrite /labs /= big_seq1 /fabs big_nil /= -mul_mpolyC mulr1. Qed.

Lemma labs_var k e : labs (a_var (lalg R) k e) = 'X_[mon n [:: k] [:: e]].
Proof. by rewrite /labs /= big_seq1 /fabs big_seq1 /= scale1r. Qed.

Lemma labs_one : labs (a_one (lalg R)) = 1.
Proof. by rewrite /labs /= big_seq1 /fabs big_nil scale1r. Qed.

Definition hst (st : est (seq (lterm R))) : est A :=
  ESt (labs (e_acc st)) (e_neg st) (labs (e_prd st)) (e_mode st).

Lemma close_hom' a s x :
  labs a + signed (malg n R) s (labs x) = labs (a ++ signed (lalg R) s x).
Proof. by case: s; rewrite labs_cat /= ?labs_opp. Qed.

Lemma close_hom st : close_term (malg n R) (hst st) = labs (close_term (lalg R) st).
Proof. by case: st => a s x m; rewrite /close_term /= close_hom'. Qed.

Lemma mul_in_hom st x : mul_in (malg n R) (hst st) (labs x) = hst (mul_in (lalg R) st x).
Proof. by case: st => a s y m; rewrite /mul_in /hst /= -labs_mul. Qed.

Lemma after_hom st t :
  after_tok (malg n R) (hst st) t = omap hst (after_tok (lalg R) st t).
Proof.
by case: st => a s x m; case: t => //=; rewrite close_hom' /hst /= labs_one.
Qed.

Local Arguments lmul : simpl never.
Local Arguments lopp : simpl never.
Local Arguments linj : simpl never.
Local Arguments lvar : simpl never.
Local Arguments lone : simpl never.

Lemma step_hom st t : step (malg n R) (hst st) t = omap hst (step (lalg R) st t).
Proof.
by case: st => a s x [||k|k]; case: t => //= *;
   rewrite /hst /= -?close_hom' ?labs_mul ?labs_inj ?labs_var ?labs_one.
Qed.

Lemma run_hom st ts : run (malg n R) (hst st) ts = omap hst (run (lalg R) st ts).
Proof.
elim: ts st => [|t ts IH] st //=; rewrite step_hom.
by case: (step (lalg R) st t) => [st'|] //=.
Qed.

Lemma finish_hom st : finish (malg n R) (hst st) = omap labs (finish (lalg R) st).
Proof.
by case: st => a s x [||k|k] //=; rewrite /close_term /= -close_hom' ?labs_mul ?labs_var.
Qed.

Theorem eval_refines (ts : seq (tok R)) :
  eval_tokens (malg n R) ts = omap labs (parse_terms ts).
Proof.
rewrite /parse_terms /eval_tokens.
have -> : est0 (malg n R) = hst (est0 (lalg R)) by rewrite /est0 /hst /= labs_one /labs big_nil.
rewrite run_hom; case: (run (lalg R) _ ts) => [st|] //=; exact: finish_hom.
Qed.

End Refines.
