(* OptIrrP.v — option settings never change the mathematical result (C15). *)
From mathcomp Require Import all_ssreflect all_algebra.
From SsrMultinomials Require Import mpoly.
From NP Require Import Base Poly Deriv Rearr Reduce Abs Clean Shape Align WfP Arith Expr DerivP RearrP ReduceP.
Set Implicit Arguments. Unset Strict Implicit. Unset Printing Implicit Defensive.
Import GRing.Theory.
Local Open Scope ring_scope.

Section OptIrr.
Variable (n : nat) (R : comRingType).
Implicit Types (p q r a b : parr R) (o : opts) (e : expr R).

Definition same_val r1 r2 : Prop := shape r1 = shape r2 /\ forall i, absE n r1 i = absE n r2 i.

(* ---- every expression tree over + - neg * ** ------------------------------------------------- *)
Theorem eval_opts_value o1 o2 e r1 r2 :
  leaves_wf e -> eval o1 e = Ok r1 -> eval o2 e = Ok r2 -> same_val r1 r2.
Proof.
move=> wl e1 e2.
have [f1 [d1 _ v1]] := eval_spec n wl e1; have [f2 [d2 _ v2]] := eval_spec n wl e2.
move: d2; rewrite d1 => -[ss ff]; split=> // i.
by rewrite v1 v2 ff.
Qed.

(* ---- totality: the ring operations never fail on well-formed operands whose shapes broadcast,
        whatever the options ------------------------------------------------------------------ *)
Lemma clean_total o p : wfb p -> exists q, clean o p = Ok q.
Proof.
move=> wp; have [srs rpos urs wid [_ _ un]] := wfbP wp.
exact: from_attributes_total.
Qed.

Lemma align_shape1_total o s p : wfb p -> exists q, align_shape1 o s p = Ok q.
Proof.
move=> wp; rewrite /align_shape1; case: ifP => _; first by exists p.
have [srs rpos urs wid [_ _ un]] := wfbP wp.
by rewrite /clean /=; apply: from_attributes_total => //; rewrite size_map.
Qed.

Lemma dispatch1_total o f p : wfb p -> exists q, dispatch1 o f p = Ok q.
Proof.
move=> wp; have [srs rpos urs wid [_ _ un]] := wfbP wp.
by rewrite /dispatch1 /clean /=; apply: from_attributes_total => //; rewrite size_map.
Qed.

Lemma dispatch2_total o f a b s :
  wfb a -> wfb b -> bshape (shape a) (shape b) = Some s -> exists q, dispatch2 o f a b = Ok q.
Proof.
move=> wa wb bs; rewrite /dispatch2 /align_polys /align_shapes /= bshape_nil bs.
have [a1 ea] := align_shape1_total o s wa; have [b1 eb] := align_shape1_total o s wb.
rewrite ea eb /=.
have [wa1 sa1 _] := align_shape1P n wa ea; have [wb1 sb1 _] := align_shape1P n wb eb.
have wps : all (@wfb R) [:: a1; b1] by rewrite /= wa1 wb1.
rewrite align_exponsE /=.
have [w1 n1 r1 s1 _] := align_expons_elem n wps (mem_head _ _).
have [srs1 rpos1 urs1 wid1 [_ _ un1]] := wfbP w1.
move: srs1 rpos1 urs1 wid1 un1; rewrite /= => srs1 rpos1 urs1 wid1 un1.
rewrite /clean /=; apply: from_attributes_total => //.
by rewrite size_map size_zip !size_map minnn.
Qed.

(* ---- the retain flags only decide the layout --------------------------------------------------- *)
Theorem retain_only_layout rc1 rn1 rc2 rn2 ns sh rs (cs : seq (seq R)) q1 q2 :
  from_attributes rc1 rn1 ns sh rs cs = Ok q1 -> from_attributes rc2 rn2 ns sh rs cs = Ok q2 ->
  same_val q1 q2.
Proof.
move=> e1 e2; split.
  by have [_ ->] := from_attributes_absE n 0 e1; have [_ ->] := from_attributes_absE n 0 e2.
by move=> i; have [-> _] := from_attributes_absE n i e1; have [-> _] := from_attributes_absE n i e2.
Qed.

(* ---- the sort flags are not read by construction, arithmetic, differentiation, re-arrangement,
        reduction: changing them gives literally the same function -------------------------------- *)
Definition with_sort o (g h : bool) := Opts (o_retc o) (o_retn o) g h.

Theorem sort_flags_unread o g h :
  [/\ padd (R:=R) (with_sort o g h) = padd o, psub (R:=R) (with_sort o g h) = psub o,
      pmul (R:=R) (with_sort o g h) = pmul o, pneg (R:=R) (with_sort o g h) = pneg o &
      [/\ clean (R:=R) (with_sort o g h) = clean o,
          prearr (R:=R) (with_sort o g h) = prearr o,
          pjoin (R:=R) (with_sort o g h) = pjoin o &
          plinear (R:=R) (with_sort o g h) = plinear o]].
Proof. by case: o. Qed.

Theorem sort_flags_unread_eval o g h e : eval (with_sort o g h) e = eval o e.
Proof.
have [ea es em en _] := sort_flags_unread o g h.
elim: e => [p|a IHa|a IHa b IHb|a IHa b IHb|a IHa b IHb|a IHa k] //=.
- by rewrite IHa en.
- by rewrite IHa IHb ea.
- by rewrite IHa IHb es.
- by rewrite IHa IHb em.
- rewrite IHa; case: (eval o a) => //= x; rewrite /ppow /=.
  case: (from_attributes _ _ _ _ _ _) => //= one.
  by elim: k (Ok one) => [|k IH] acc //=; rewrite IH em.
Qed.

(* ---- differentiation, re-arrangement, joins, linear reductions: same value under any two options ---- *)
Theorem derivative_opts_value o1 o2 p (vs : seq 'I_n) r1 r2 :
  wfb p -> all (fun v : 'I_n => nat_of_ord v \in names p) vs ->
  derivative o1 p [seq nat_of_ord v | v <- vs] = Ok r1 ->
  derivative o2 p [seq nat_of_ord v | v <- vs] = Ok r2 -> same_val r1 r2.
Proof.
move=> wp vin e1 e2.
have [_ s1 v1] := derivative_spec wp vin e1; have [_ s2 v2] := derivative_spec wp vin e2.
by split=> [|i]; rewrite ?s1 ?s2 // v1 v2.
Qed.

Lemma same_val_lt s r1 r2 : wfb r1 -> wfb r2 -> shape r1 = s -> shape r2 = s ->
  (forall i, (i < prodn s)%N -> absE n r1 i = absE n r2 i) -> same_val r1 r2.
Proof.
move=> w1 w2 s1 s2 eq; split; first by rewrite s1 s2.
move=> i; case: (ltnP i (prodn s)) => [/eq //|ge].
by rewrite !absE_oob // /psize ?s1 ?s2.
Qed.

Theorem prearr_opts_value o1 o2 s sigma p r1 r2 :
  wfb p -> prearr o1 s sigma p = Ok r1 -> prearr o2 s sigma p = Ok r2 -> same_val r1 r2.
Proof.
move=> wp e1 e2; have [w1 s1 v1] := prearr_spec n wp e1; have [w2 s2 v2] := prearr_spec n wp e2.
by apply: (same_val_lt w1 w2 s1 s2) => i lt; rewrite v1 // v2.
Qed.

Theorem pjoin_opts_value o1 o2 s tau (ps : seq (parr R)) r1 r2 :
  all (@wfb R) ps -> pjoin o1 s tau ps = Ok r1 -> pjoin o2 s tau ps = Ok r2 -> same_val r1 r2.
Proof.
move=> wp e1 e2; have [w1 s1 v1] := pjoin_spec n wp e1; have [w2 s2 v2] := pjoin_spec n wp e2.
by apply: (same_val_lt w1 w2 s1 s2) => i lt; rewrite v1 // v2.
Qed.

Theorem plinear_opts_value o1 o2 s W p r1 r2 :
  wfb p -> plinear o1 s W p = Ok r1 -> plinear o2 s W p = Ok r2 -> same_val r1 r2.
Proof.
move=> wp e1 e2; have [w1 s1 v1] := plinear_spec n wp e1; have [w2 s2 v2] := plinear_spec n wp e2.
by apply: (same_val_lt w1 w2 s1 s2) => i lt; rewrite v1 // v2.
Qed.

(* success does not depend on the options either *)
Theorem prearr_opts_success o1 o2 s sigma p r1 :
  wfb p -> prearr o1 s sigma p = Ok r1 -> exists r2, prearr o2 s sigma p = Ok r2.
Proof.
move=> wp e1; apply: prearr_total => //.
by move: e1; rewrite /prearr; case: eqP.
Qed.

Theorem plinear_opts_success o1 o2 s W p r1 :
  wfb p -> plinear o1 s W p = Ok r1 -> exists r2, plinear o2 s W p = Ok r2.
Proof.
move=> wp e1; apply: plinear_total => //.
by move: e1; rewrite /plinear; case: eqP.
Qed.

Theorem padd_opts_success o1 o2 a b r1 :
  wfb a -> wfb b -> padd o1 a b = Ok r1 -> exists r2, padd o2 a b = Ok r2.
Proof.
move=> wa wb e1; have [s bs _] := padd_spec n wa wb e1.
exact: (dispatch2_total o2 _ wa wb bs).
Qed.

Theorem psub_opts_success o1 o2 a b r1 :
  wfb a -> wfb b -> psub o1 a b = Ok r1 -> exists r2, psub o2 a b = Ok r2.
Proof.
move=> wa wb e1; have [s bs _] := psub_spec n wa wb e1.
exact: (dispatch2_total o2 _ wa wb bs).
Qed.

Theorem pneg_opts_success o1 o2 a : wfb a -> exists r2, pneg o2 a = Ok r2.
Proof. by move=> wa; apply: dispatch1_total. Qed.

End OptIrr.
