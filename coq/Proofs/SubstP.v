(* SubstP.v — calling a polynomial array with polynomial, numeric or missing arguments substitutes (C02):
   broadcast index bounds, product of parameter powers, numpoly.outer, the accumulation loop, and the
   identification with SsrMultinomials' comp_mpoly; staged evaluation as a corollary. *)
From mathcomp Require Import all_ssreflect all_algebra zify.
From SsrMultinomials Require Import mpoly.
From NP Require Import Base Poly Query Eval Abs Clean Shape Align WfP Arith Expr QueryP StackP ReduceP EvalP.
Set Implicit Arguments. Unset Strict Implicit. Unset Printing Implicit Defensive.
Import GRing.Theory.
(* ---- an in-range index of the broadcast shape maps to an in-range index of the operand --------- *)
Lemma ravel_lt s ix : size ix = size s -> all (fun dk => dk.2 < dk.1) (zip s ix) -> ravel s ix < prodn s.
Proof.
elim: s ix => [|d s IH] [|k ix] //= [sz] /andP[lt al].
have := IH _ sz al; set P := prodn s => ltP.
have : k * P + ravel s ix < k.+1 * P by rewrite mulSn addnC ltn_add2r.
by move=> h; apply: (leq_trans h); rewrite leq_mul2r lt orbT.
Qed.

(* compatibility of an operand shape with the broadcast shape, right-aligned *)
Fixpoint compat_rev (a t : seq nat) : bool :=
  match a, t with
  | [::], _ => true
  | x :: a', y :: t' => ((x == y) || (x == 1)) && compat_rev a' t'
  | _ :: _, [::] => false
  end.

Lemma bshape_rev_compat a t : bshape_rev a t = Some t -> compat_rev a t.
Proof.
elim: a t => [|x a IH] [|y t] //=.
rewrite /bdim; case: eqP => [->|nxy].
  by case e: (bshape_rev a t) => [u|] //= [ut]; rewrite /= IH // e ut.
case: eqP => [x1|nx1] /=.
  by case e: (bshape_rev a t) => [u|] //= [ut]; rewrite /= IH // e ut.
case: eqP => // y1; case e: (bshape_rev a t) => [u|] //= [xy]; by rewrite xy in nxy.
Qed.

Lemma bshape_compat a t : bshape a t = Some t -> compat_rev (rev a) (rev t).
Proof.
rewrite /bshape; case e: (bshape_rev (rev a) (rev t)) => [u|] //= [ut].
by apply: bshape_rev_compat; rewrite e -ut revK.
Qed.

Definition okdim (xy : nat * nat) : bool := (xy.1 == xy.2) || (xy.1 == 1).

Lemma compat_split a t : compat_rev (rev a) (rev t) ->
  exists pre t', [/\ t = pre ++ t', size t' = size a & all okdim (zip a t')].
Proof.
elim/last_ind: a t => [|a x IH] t; first by exists t, [::]; rewrite cats0.
rewrite rev_rcons; case/lastP: t => [|t y] //; rewrite rev_rcons /= => /andP[c1 c2].
have [pre [t' [-> sz al]]] := IH t c2.
exists pre, (rcons t' y); split.
- by rewrite rcons_cat.
- by rewrite !size_rcons sz.
- by rewrite zip_rcons ?sz // all_rcons al andbT.
Qed.

Lemma prodn_cat a b : prodn (a ++ b) = prodn a * prodn b.
Proof. by elim: a => [|x a IH] /=; rewrite ?mul1n // IH mulnA. Qed.

Lemma drop_unravel pre t' j : j < prodn (pre ++ t') ->
  drop (size pre) (unravel (pre ++ t') j) = unravel t' (j %% prodn t').
Proof.
elim: pre j => [|d pre IH] j /=; first by move=> lt; rewrite drop0 modn_small.
move=> lt; have Ppos : 0 < prodn (pre ++ t') by case: (prodn _) lt => //; rewrite muln0.
by rewrite IH ?ltn_pmod // modn_dvdm // prodn_cat dvdn_mull.
Qed.

Lemma pin_bound a t' ix : size t' = size a -> size ix = size a -> all okdim (zip a t') ->
  all (fun dk => dk.2 < dk.1) (zip t' ix) ->
  size (pin a ix) = size a /\ all (fun dk => dk.2 < dk.1) (zip a (pin a ix)).
Proof.
elim: a t' ix => [|x a IH] [|y t'] [|k ix] //= [st] [si] /andP[ok al] /andP[lt bl].
have [sp bp] := IH _ _ st si al bl.
rewrite /pin /= -/(pin a ix); split; first by rewrite sp.
rewrite bp andbT; move: ok; rewrite /okdim /=.
by case: (x =P 1) => [->|_] //; rewrite orbF => /eqP ->.
Qed.

Theorem bidx_lt a t j : bshape a t = Some t -> j < prodn t -> bidx a t j < prodn a.
Proof.
move=> /bshape_compat /compat_split [pre [t' [-> st al]]] lt.
rewrite /bidx size_cat st addnK drop_unravel //.
have P'pos : 0 < prodn t' by move: lt; rewrite prodn_cat; case: (prodn t') => //; rewrite muln0.
have lt' : j %% prodn t' < prodn t' by rewrite ltn_pmod.
have [sp bp] := pin_bound st (etrans (size_unravel _ _) st) al (unravel_bound lt').
exact: ravel_lt.
Qed.

(* ---- the common broadcast shape absorbs every operand shape ------------------------------------ *)
Lemma compat_rev_refl s : compat_rev s s.
Proof. by elim: s => [|x s IH] //=; rewrite eqxx. Qed.

Lemma bshape_rev_absorbs a t s : bshape_rev a t = Some s -> compat_rev a s /\ compat_rev t s.
Proof.
elim: a t s => [|x a IH] [|y t] s /=.
- by [].
- by move=> [<-]; split=> //; rewrite /= eqxx /= compat_rev_refl.
- by move=> [<-]; split=> //; rewrite /= eqxx /= compat_rev_refl.
case bd: (bdim x y) => [d|] //; case e: (bshape_rev a t) => [s'|] //= [<-] /=.
have [ca ct] := IH _ _ e; rewrite ca ct !andbT.
move: bd; rewrite /bdim; case: (x =P y) => [->|nxy]; first by move=> [<-]; rewrite eqxx.
case: (x =P 1) => [->|nx1]; first by move=> [<-]; rewrite eqxx orbT.
by case: (y =P 1) => [->|//] [<-]; rewrite !eqxx orbT.
Qed.

Lemma compat_rev_trans t b s : compat_rev b t -> compat_rev t s -> compat_rev b s.
Proof.
elim: b t s => [|x b IH] [|y t] [|z s] //= /andP[o1 c1] /andP[o2 c2].
rewrite (IH _ _ c1 c2) andbT.
case/orP: o1 => [/eqP ->|->]; last by rewrite orbT.
by case/orP: o2 => [->|/eqP ->] //; rewrite eqxx orbT.
Qed.

Lemma compat_rev_bshape b s : compat_rev b s -> bshape_rev b s = Some s.
Proof.
elim: b s => [|x b IH] [|z s] //= /andP[ok c]; rewrite (IH _ c) /= /bdim.
case: (x =P z) ok => [-> //|nxz] /=; by case: (x =P 1).
Qed.

Lemma bshape_of_compat b s : compat_rev (rev b) (rev s) -> bshape b s = Some s.
Proof. by move=> c; rewrite /bshape (compat_rev_bshape c) /= revK. Qed.

Lemma bshapes_absorbs (ss : seq (seq nat)) s : bshapes ss = Some s -> all (fun a => bshape a s == Some s) ss.
Proof.
elim: ss s => [|a ss IH] s //=; case e: (bshapes ss) => [t|] // bs.
have := bs; rewrite /bshape; case er: (bshape_rev (rev a) (rev t)) => [u|] //= [us].
have [ca ct] := bshape_rev_absorbs er.
have rs : rev s = u by rewrite -us revK.
apply/andP; split.
  by apply/eqP/bshape_of_compat; rewrite rs.
apply/allP => b bin; have /eqP bt := allP (IH _ e) _ bin.
apply/eqP/bshape_of_compat; rewrite rs.
exact: (compat_rev_trans (bshape_compat bt) ct).
Qed.

Local Open Scope ring_scope.

Lemma mem_zip2' (S T : eqType) (s1 : seq S) (s2 : seq T) (t : S * T) :
  t \in zip s1 s2 -> t.1 \in s1 /\ t.2 \in s2.
Proof.
elim: s1 s2 => [|x s1 IH] [|y s2] //=; rewrite !inE.
case/orP => [/eqP ->|/IH [-> ->]] /=; first by rewrite !eqxx.
by rewrite !orbT.
Qed.

Section SubstP.
Variable (n : nat) (R : comRingType).
Variable o : opts.
Implicit Types (p q r x y t : parr R) (s : seq nat).

Lemma wfb_ones s : wfb (ones_poly R s) /\ shape (ones_poly R s) = s.
Proof. by rewrite /wfb /ones_poly /psize /= size_nseq eqxx. Qed.

Lemma absE_ones s j : (j < prodn s)%N -> absE n (ones_poly R s) j = 1.
Proof. by move=> lt; rewrite /absE /terms /=; apply: absL_one. Qed.

(* product of powers of the (broadcast) parameters *)
Definition tstep (acc : res (parr R)) (ep : nat * parr R) : res (parr R) :=
  rbind acc (fun a => rbind (ppow o ep.2 ep.1) (fun pw => pmul o a pw)).

Lemma tstep_err e l : foldl tstep (Err e) l = Err e.
Proof. by elim: l. Qed.

Lemma term_fold_spec s (l : seq (nat * parr R)) a0 (A0 : nat -> {mpoly R[n]}) tp :
  all (fun ep => wfb ep.2 && (bshape (shape ep.2) s == Some s)) l ->
  wfb a0 -> shape a0 = s -> (forall j, (j < prodn s)%N -> absE n a0 j = A0 j) ->
  foldl tstep (Ok a0) l = Ok tp ->
  [/\ wfb tp, shape tp = s &
      forall j, (j < prodn s)%N ->
        absE n tp j = A0 j * \prod_(ep <- l) absE n ep.2 (bidx (shape ep.2) s j) ^+ ep.1].
Proof.
elim: l a0 A0 => [|[e q] l IH] a0 A0 /=.
  by move=> _ w0 s0 v0 [<-]; split=> // j lt; rewrite big_nil mulr1 v0.
move=> /andP[/andP[wq /eqP bq] al] w0 s0 v0.
case ep: (ppow o q e) => [pw|err] /=; last by rewrite tstep_err.
have [wpw spw vpw] := ppow_spec n wq ep.
case em: (pmul o a0 pw) => [m|err] /=; last by rewrite tstep_err.
have [s' bs' [wm sm vm]] := pmul_spec n w0 wpw em.
move: bs'; rewrite s0 spw bshapeC bq => -[ss]; rewrite -ss in sm vm.
move=> /(IH m (fun j => A0 j * absE n q (bidx (shape q) s j) ^+ e) al wm sm) H.
have [] := H.
  move=> j lt; rewrite vm // s0 bidx_id // v0 // spw vpw //.
  by rewrite /psize; apply: bidx_lt.
move=> wt st vt; split=> // j lt.
by rewrite vt // big_cons mulrA.
Qed.

Theorem term_poly_spec s row (params : seq (parr R)) tp :
  all (fun q => wfb q && (bshape (shape q) s == Some s)) params ->
  term_poly o s row params = Ok tp ->
  [/\ wfb tp, shape tp = s &
      forall j, (j < prodn s)%N ->
        absE n tp j = \prod_(ep <- zip row params) absE n ep.2 (bidx (shape ep.2) s j) ^+ ep.1].
Proof.
move=> okp; rewrite /term_poly -/tstep => ef.
have [w1 s1] := wfb_ones s.
have al : all (fun ep : nat * parr R => wfb ep.2 && (bshape (shape ep.2) s == Some s)) (zip row params).
  by apply/allP => ep /mem_zip [_ /(allP okp)].
have [wt st vt] := term_fold_spec al w1 s1 (fun j lt => absE_ones lt) ef.
by split=> // j lt; rewrite vt // mul1r.
Qed.


(* numpoly.outer(coefficient, term): element (i, j) is coefficient_i times element j of the term *)
Theorem pouter_spec sc (c : seq R) t r :
  wfb t -> size c = prodn sc -> pouter o sc c t = Ok r ->
  [/\ wfb r, shape r = sc ++ shape t &
      forall i j, (i < prodn sc)%N -> (j < psize t)%N ->
        absE n r (i * psize t + j) = nth 0 c i *: absE n t j].
Proof.
move=> wt szc; rewrite /pouter => cl.
have [srs rpos urs wid [csz npos un]] := wfbP wt.
set cs := [seq flatten _ | col <- cols t] in cl.
have cssz : all (fun col => size col == prodn (sc ++ shape t)) cs.
  apply/allP => col /mapP[col0 cin ->].
  rewrite (@size_flatten_blocks _ (psize t)) ?size_map ?szc ?prodn_cat //.
  by apply/allP => b /mapP[ci _ ->]; rewrite size_map; move/allP: csz; apply.
split; first exact: (from_attributes_wf cssz npos cl).
  by case: (from_attributes_absE n 0 cl).
move=> i j lti ltj; case: (from_attributes_absE n (i * psize t + j) cl) => -> _.
rewrite /absE /absL /terms /cs scaler_sumr.
elim: (rows t) (cols t) csz => [|r0 rs IH] [|c0 cl0] //=; rewrite ?big_nil //.
move=> /andP[/eqP sc0 rest]; rewrite !big_cons IH //; congr (_ + _).
rewrite /absT /= (@nth_flatten_blocks _ (psize t)) //; last first.
  by apply/allP => b /mapP[ci _ ->]; rewrite size_map sc0.
rewrite (nth_map 0) ?szc // (nth_map 0) ?sc0 //.
by rewrite scalerA.
Qed.


(* ---- the main loop of call.py with polynomial / partial arguments ------------------------------------- *)
Definition T (s : seq nat) (params : seq (parr R)) (t : term R) (k : nat) : {mpoly R[n]} :=
  nth 0 t.2 (k %/ prodn s) *:
  \prod_(ep <- zip t.1 params) absE n ep.2 (bidx (shape ep.2) s (k %% prodn s)) ^+ ep.1.

Definition cstep s params p (acc : res (option (parr R))) (t : term R) : res (option (parr R)) :=
  rbind acc (fun out =>
  rbind (term_poly o s t.1 params) (fun tp =>
  rbind (pouter o (shape p) t.2 tp) (fun tmp =>
  match out with
  | None => Ok (Some tmp)
  | Some x => rmap some (padd o x tmp)
  end))).

Lemma cstep_err s params p e l : foldl (cstep s params p) (Err e) l = Err e.
Proof. by elim: l. Qed.

Definition Inv s p (acc : option (parr R)) (S : nat -> {mpoly R[n]}) : Prop :=
  match acc with
  | None => forall k, S k = 0
  | Some x => [/\ wfb x, shape x = shape p ++ s &
                  forall k, (k < prodn (shape p ++ s))%N -> absE n x k = S k]
  end.

Lemma call_fold_spec s params p (l : seq (term R)) acc0 S0 out :
  all (fun q => wfb q && (bshape (shape q) s == Some s)) params ->
  (0 < prodn s)%N -> all (fun t : term R => size t.2 == psize p) l ->
  Inv s p acc0 S0 -> foldl (cstep s params p) (Ok acc0) l = Ok out ->
  Inv s p out (fun k => S0 k + \sum_(t <- l) T s params t k).
Proof.
move=> okp spos; elim: l acc0 S0 out => [|t l IH] acc0 S0 out /=.
  move=> _ inv [<-]; case: acc0 inv => [x [w sh v]|z] /=.
    by split=> // k lt; rewrite big_nil addr0 v.
  by move=> k; rewrite big_nil addr0 z.
move=> /andP[/eqP st al] inv.
case et: (term_poly o s t.1 params) => [tp|e] /=; last by rewrite cstep_err.
have [wtp stp vtp] := term_poly_spec okp et.
case eo: (pouter o (shape p) t.2 tp) => [tmp|e] /=; last by rewrite cstep_err.
have [wtmp stmp vtmp] := pouter_spec wtp st eo.
have tmpv k : (k < prodn (shape p ++ s))%N -> absE n tmp k = T s params t k.
  rewrite prodn_cat => lt.
  have ltj : (k %% prodn s < prodn s)%N by rewrite ltn_pmod.
  have lti : (k %/ prodn s < prodn (shape p))%N by rewrite ltn_divLR.
  have := vtmp _ _ lti; rewrite /psize stp => /(_ _ ltj).
  by rewrite -divn_eq /T => ->; rewrite vtp.
have next acc1 : (match acc0 with None => Ok (Some tmp) | Some x => rmap some (padd o x tmp) end) = Ok acc1 ->
    Inv s p acc1 (fun k => S0 k + T s params t k).
  case: acc0 inv => [x [wx sx vx]|z] /=.
    case ea: (padd o x tmp) => [y|] //= [<-].
    have [wy sy vy] := ss_add n wx wtmp sx (etrans stmp (congr1 _ stp)) ea.
    by split=> // k lt; rewrite vy // vx // tmpv.
  move=> [<-]; split=> //; first by rewrite stmp stp.
  by move=> k lt; rewrite z add0r tmpv.
case e1: (match acc0 with None => _ | Some x => _ end) => [acc1|e] /=; last by rewrite cstep_err.
have inv1 := next _ e1.
move=> /(IH acc1 _ _ al inv1); case: out => [y [wy sy vy]|zy] /=.
  by split=> // k lt; rewrite vy // big_cons addrA.
by move=> k; rewrite big_cons addrA zy.
Qed.


(* ---- calling a polynomial array with polynomial / numeric / missing arguments: substitution ------------ *)
Definition okarg (a : option (carg R)) : bool :=
  match a with
  | None => true
  | Some (ANum sa xs) => size xs == prodn sa
  | Some (APoly q) => wfb q
  end.

Lemma wfb_as_poly v a : okarg a -> wfb (as_poly v a).
Proof.
case: a => [[sa xs|q]|] //=.
- by move=> /eqP sx; rewrite /wfb /psize /= sx eqxx.
Qed.

Theorem call_poly_spec p (bound : seq (option (carg R))) r :
  wfb p -> size bound = size (names p) -> all okarg bound ->
  call_poly o p bound = Ok r ->
  let params := [seq as_poly va.1 va.2 | va <- zip (names p) bound] in
  exists2 s, bshapes [seq shape q | q <- params] = Some s &
    (0 < prodn s)%N ->
    [/\ wfb r, shape r = shape p ++ s &
        forall i j, (i < psize p)%N -> (j < prodn s)%N ->
          absE n r (i * prodn s + j)
          = \sum_(t <- terms p) nth 0 t.2 i *:
              \prod_(ep <- zip t.1 params) absE n ep.2 (bidx (shape ep.2) s j) ^+ ep.1].
Proof.
move=> wp sb okb; rewrite /call_poly; set params := [seq as_poly _ _ | va <- _].
case bs: (bshapes _) => [s|] //; rewrite -/(cstep s params p).
case ef: (foldl _ _ _) => [out|] //=; case: out ef => [r0|] // ef [<-].
exists s => // spos.
have wpar : all (@wfb R) params.
  rewrite /params; elim: (names p) (bound) okb => [|v ns IH] [|a bd] //= /andP[oa ob].
  by rewrite wfb_as_poly //= IH.
have okp : all (fun q => wfb q && (bshape (shape q) s == Some s)) params.
  apply/allP => q qin; rewrite (allP wpar _ qin) /=.
  by move/allP: (bshapes_absorbs bs); apply; apply: map_f.
have [srs rpos urs wid [csz npos un]] := wfbP wp.
have tsz : all (fun t : term R => size t.2 == psize p) (terms p).
  by apply/allP => t /mem_zip2' [_ tin]; move/allP: csz; apply.
have inv0 : Inv s p None (fun=> 0) by [].
have := call_fold_spec okp spos tsz inv0 ef.
rewrite /Inv => -[w0 s0 v0].
(* out, _ = align_indeterminants(out, poly.indeterminants): representation only *)
rewrite /align_indets /=; set ns := union_names _.
have sub : {subset names r0 <= ns} by move=> v; apply: mem_union_names; rewrite inE eqxx.
have uns : uniq ns by apply: uniq_union_names.
have [_ _ _ wid0 _] := wfbP w0.
split.
- exact: wfb_align_names.
- by rewrite shape_align_names.
move=> i j lti ltj; rewrite absE_align_names // v0; last first.
  by rewrite prodn_cat -/(psize p); nia.
rewrite add0r; apply: eq_bigr => t _; rewrite /T.
by rewrite divnMDl // modnMDl (divn_small ltj) (modn_small ltj) addn0.
Qed.


(* ---- ... which is SsrMultinomials' composition (substitution) of the element polynomial ---------------- *)
Definition sub_at (ns : seq nat) (params : seq (parr R)) s (j : nat) (v : nat) : {mpoly R[n]} :=
  let q := nth (ones_poly R [::]) params (index v ns) in absE n q (bidx (shape q) s j).

Definition sub_tuple ns params s j : n.-tuple {mpoly R[n]} := [tuple sub_at ns params s j i | i < n].

Lemma prod_zip_params (ns r : seq nat) (params : seq (parr R)) s j :
  uniq ns -> size r = size ns -> size params = size ns ->
  \prod_(ep <- zip r params) absE n ep.2 (bidx (shape ep.2) s j) ^+ ep.1
  = \prod_(v <- ns) sub_at ns params s j v ^+ expo ns r v.
Proof.
move=> un sr sp.
rewrite (big_nth (0%N, ones_poly R [::])) [RHS](big_nth 0%N) size_zip sr sp minnn.
rewrite big_nat_cond [RHS]big_nat_cond; apply: eq_bigr => k; rewrite andbT => /andP[_ lt].
by rewrite nth_zip ?sr ?sp //= /sub_at /expo index_uniq.
Qed.

Theorem call_poly_comp p (bound : seq (option (carg R))) r :
  wfb p -> all (fun v => v < n)%N (names p) -> size bound = size (names p) -> all okarg bound ->
  call_poly o p bound = Ok r ->
  let params := [seq as_poly va.1 va.2 | va <- zip (names p) bound] in
  exists2 s, bshapes [seq shape q | q <- params] = Some s &
    (0 < prodn s)%N ->
    [/\ wfb r, shape r = shape p ++ s &
        forall i j, (i < psize p)%N -> (j < prodn s)%N ->
          absE n r (i * prodn s + j) = (absE n p i) \mPo (sub_tuple (names p) params s j)].
Proof.
move=> wp ltn sb okb ec params.
have [s bs H] := call_poly_spec wp sb okb ec; exists s => // spos.
have [wr sr vr] := H spos; split=> // i j lti ltj; rewrite vr //.
have [srs rpos urs wid [csz npos un]] := wfbP wp.
rewrite /absE /absL raddf_sum /=.
rewrite big_seq_cond [RHS]big_seq_cond; apply: eq_bigr => t; rewrite andbT => tin.
have [rin _] := mem_zip2' tin.
have st : size t.1 = size (names p) by apply/eqP; move/allP: wid; apply.
have spar : size params = size (names p) by rewrite /params size_map size_zip sb minnn.
rewrite /absT comp_mpolyZ comp_mpolyX; congr (_ *: _).
rewrite (prod_zip_params s j un st spar).
rewrite -(@prod_over_names n _ (names p) t.1 (sub_at (names p) params s j)) //.
by apply: eq_bigr => v _; rewrite tnth_mktuple mnmE.
Qed.


(* evaluating the substituted polynomial = evaluating the original at the values of the arguments:
   staged evaluation and evaluation through a substituted polynomial agree with evaluation at once *)
Corollary call_staged p (bound : seq (option (carg R))) r (nu : 'I_n -> R) :
  wfb p -> all (fun v => v < n)%N (names p) -> size bound = size (names p) -> all okarg bound ->
  call_poly o p bound = Ok r ->
  let params := [seq as_poly va.1 va.2 | va <- zip (names p) bound] in
  exists2 s, bshapes [seq shape q | q <- params] = Some s &
    (0 < prodn s)%N ->
    forall i j, (i < psize p)%N -> (j < prodn s)%N ->
      (absE n r (i * prodn s + j)).@[nu]
      = (absE n p i).@[fun v => (sub_at (names p) params s j v).@[nu]].
Proof.
move=> wp ltn sb okb ec params.
have [s bs H] := call_poly_comp wp ltn sb okb ec; exists s => // spos i j lti ltj.
have [_ _ ->] := H spos => //.
by rewrite comp_mpoly_meval; apply: meval_eq => v; rewrite tnth_mktuple.
Qed.

End SubstP.
