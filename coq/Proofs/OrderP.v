(* OrderP.v — glexsort returns the stable sorting permutation for the (graded)(reverse)
   lexicographic monomial order (C18, used by C07/C16/C19). *)
From mathcomp Require Import all_ssreflect.
From NP Require Import Base Order.
Set Implicit Arguments. Unset Strict Implicit. Unset Printing Implicit Defensive.

(* ---- lexleq is a total order on sequences of one length ----------------------------------- *)
Lemma lexleq_refl : reflexive lexleq.
Proof. by elim=> [|x a IH] //=; rewrite eqxx IH orbT. Qed.

Lemma lexleq_total : total lexleq.
Proof.
elim=> [|x a IH] [|y b] //=.
case: (ltngtP x y) => //= _; exact: IH.
Qed.

Lemma lexleq_trans : transitive lexleq.
Proof.
move=> b a c; elim: a b c => [|x a IH] [|y b] [|z c] //=.
case: (ltngtP x y) => //= [xy _|<-].
  case: (ltngtP y z) => //= [yz _|<- _]; last by rewrite xy.
  by rewrite (ltn_trans xy yz).
by case: (ltngtP x z) => //= _; apply: IH.
Qed.

Lemma lexleq_anti a b : size a = size b -> lexleq a b -> lexleq b a -> a = b.
Proof.
elim: a b => [|x a IH] [|y b] //= [sz].
case: (ltngtP x y) => //= -> ab ba; congr (_ :: _); exact: IH.
Qed.

Lemma mleq_total g r : total (mleq g r).
Proof. by move=> a b; apply: lexleq_total. Qed.

Lemma mleq_trans g r : transitive (mleq g r).
Proof. by move=> b a c; apply: lexleq_trans. Qed.

Lemma mleq_refl g r : reflexive (mleq g r).
Proof. by move=> a; apply: lexleq_refl. Qed.

Lemma lkey_inj r : injective (lkey r).
Proof. by case: r => a b //=; apply: (can_inj revK). Qed.

Lemma mleq_anti g r a b : size a = size b -> mleq g r a b -> mleq g r b a -> a = b.
Proof.
move=> sz; rewrite /mleq /okey => ab ba.
have sk : size (lkey r a) = size (lkey r b) by case: (r); rewrite /= ?size_rev.
have := lexleq_anti _ ab ba; rewrite !size_cat sk.
by case: (g) => /= /(_ erefl) => [[_]|] /lkey_inj.
Qed.

(* graded comparison = compare the degree, then the lexicographic key *)
Lemma mleq_graded r a b :
  mleq true r a b = (sumn a < sumn b) || ((sumn a == sumn b) && mleq false r a b).
Proof. by []. Qed.

(* ---- glexsort ---------------------------------------------------------------------------------- *)
Section Glexsort.
Variables (g r : bool) (cols : seq (seq nat)).
Let col i := nth [::] cols i.

Theorem glexsort_perm : perm_eq (glexsort g r cols) (iota 0 (size cols)).
Proof.
rewrite /glexsort; case: g; last by rewrite perm_sort.
by rewrite perm_sort perm_sort.
Qed.

Theorem glexsort_sorted :
  sorted (fun i j => mleq g r (col i) (col j)) (glexsort g r cols).
Proof.
rewrite /glexsort -/col.
set le1 := fun i j => lexleq _ _.
have tot1 : total le1 by move=> i j; apply: lexleq_total.
have tr1 : transitive le1 by move=> j i k; apply: lexleq_trans.
case: g; last exact: sort_sorted.
set le2 := fun i j => _ <= _.
have tot2 : total le2 by move=> i j; apply: leq_total.
have := sort_stable tot2 tr1 (sort_sorted tot1 (iota 0 (size cols))).
apply: sub_sorted => i j /=; rewrite /le2 /le1 mleq_graded /mleq /okey /=.
by case: (ltngtP (sumn (col i)) (sumn (col j))).
Qed.

(* with pairwise distinct columns of one length the sorting permutation is unique *)
Theorem glexsort_unique (s : seq nat) :
  uniq cols -> all (fun c => size c == size (head [::] cols)) cols ->
  perm_eq s (iota 0 (size cols)) ->
  sorted (fun i j => mleq g r (col i) (col j)) s ->
  s = glexsort g r cols.
Proof.
move=> uc szs ps ss.
have inI i : i \in s -> i < size cols by rewrite (perm_mem ps) mem_iota add0n.
apply: (@sorted_eq_in _ (fun i j => mleq g r (col i) (col j))) => //.
- by move=> j i k _ _ _; apply: mleq_trans.
- move=> i j /inI ii /inI jj /andP[ij ji].
  have sz : size (col i) = size (col j).
    by rewrite (eqP (allP szs _ (mem_nth _ ii))) (eqP (allP szs _ (mem_nth _ jj))).
  have := mleq_anti sz ij ji; rewrite /col => /eqP.
  by rewrite nth_uniq // => /eqP.
- exact: glexsort_sorted.
- by rewrite (permPl ps) perm_sym glexsort_perm.
Qed.

End Glexsort.

(* ---- glexindex: the index grid and the final ordering --------------------------------------- *)
Section Glexindex.
Variables (nm0 nm1 : normt).

Lemma grid_box bound d t :
  t \in grid nm1 bound d -> size t = d /\ all (fun x => x < bound) t.
Proof.
elim: d t => [|[|d] IH] t //=.
  by case/mapP => v; rewrite mem_iota add0n /= => vb -> /=; rewrite vb.
case/allpairsP => [[v t']] /= [vin t'in ->] /=.
have t'g : t' \in grid nm1 bound d.+1.
  by move: t'in; case: (d) => [|d'] //; rewrite mem_filter => /andP[].
have [sz al] := IH _ t'g.
by rewrite sz al andbT; move: vin; rewrite mem_iota add0n.
Qed.

Lemma grid_uniq bound d : uniq (grid nm1 bound d).
Proof.
elim: d => [|[|d] IH] //=.
  by rewrite map_inj_uniq ?iota_uniq // => x y [].
apply: allpairs_uniq; rewrite ?iota_uniq //.
  by case: (d) IH => [|d'] // IH; apply: filter_uniq.
by move=> [v1 t1] [v2 t2] _ _ /= [-> ->].
Qed.

Theorem glexindex_raw_uniq start stop : uniq (glexindex_raw nm0 nm1 start stop).
Proof. by rewrite /glexindex_raw; case: ifP => _; apply: filter_uniq; apply: grid_uniq. Qed.

Theorem glexindex_raw_box start stop t :
  t \in glexindex_raw nm0 nm1 start stop ->
  size t = size start /\ all (fun x => x < maxs stop) t.
Proof.
by rewrite /glexindex_raw; case: ifP => _; rewrite mem_filter => /andP[_] /grid_box.
Qed.

(* the final membership test, in each of the two branches of the code *)
Theorem glexindex_raw_test start stop t :
  t \in glexindex_raw nm0 nm1 start stop ->
  if size start == 1 then (nth 0 start 0 <= nth 0 t 0) && (nth 0 t 0 < maxs stop)
  else cross_truncate nm1 t stop && ~~ cross_truncate nm0 t start.
Proof. by rewrite /glexindex_raw; case: ifP => _; rewrite mem_filter => /andP[]. Qed.

Theorem glexindex_perm start stop g r :
  perm_eq (glexindex nm0 nm1 start stop g r) (glexindex_raw nm0 nm1 start stop).
Proof.
rewrite /glexindex; set ix := glexindex_raw _ _ _ _.
have := glexsort_perm g r ix; move/(perm_map (nth [::] ix)) => p.
apply: (perm_trans p).
by rewrite -{3}(mkseq_nth [::] ix) /mkseq.
Qed.

Theorem glexindex_uniq start stop g r : uniq (glexindex nm0 nm1 start stop g r).
Proof. by rewrite (perm_uniq (glexindex_perm start stop g r)) glexindex_raw_uniq. Qed.

Theorem glexindex_sorted start stop g r :
  sorted (mleq g r) (glexindex nm0 nm1 start stop g r).
Proof.
rewrite /glexindex; set ix := glexindex_raw _ _ _ _.
by rewrite sorted_map; apply: glexsort_sorted.
Qed.

(* bindex only reverses the list when asked *)
Theorem bindex_spec start stop hasG hasR hasI :
  bindex nm0 nm1 start stop hasG hasR hasI =
  (if hasI then rev else id) (glexindex nm0 nm1 start stop hasG (~~ hasR)).
Proof. by rewrite /bindex; case: hasI. Qed.

End Glexindex.
