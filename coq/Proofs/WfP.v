(* WfP.v — from_attributes on well-formed input: never fails, is the identity when the retain
   flags are on, keeps exactly the documented terms when they are off, rejects duplicates (C03). *)
From mathcomp Require Import all_ssreflect all_algebra.
From SsrMultinomials Require Import mpoly.
From NP Require Import Base Poly Abs Clean Shape Align.
Set Implicit Arguments. Unset Strict Implicit. Unset Printing Implicit Defensive.
Import GRing.Theory.
Local Open Scope ring_scope.

Section Wf.
Variable R : comRingType.
Implicit Types (p q : parr R) (ns : seq nat) (m : seq bool).

(* masking columns that are zero in every row keeps the rows distinct *)
Lemma mask_inj_zero m (r1 r2 : seq nat) :
  size r1 = size m -> size r2 = size m ->
  (forall k, (k < size m)%N -> nth true m k = false -> nth 0%N r1 k = 0%N /\ nth 0%N r2 k = 0%N) ->
  mask m r1 = mask m r2 -> r1 = r2.
Proof.
elim: m r1 r2 => [|b m IH] [|x r1] [|y r2] //= [s1] [s2] H.
have H' k : (k < size m)%N -> nth true m k = false -> nth 0%N r1 k = 0%N /\ nth 0%N r2 k = 0%N.
  by move=> lt; apply: (H k.+1).
case: b H => H.
  by case=> -> /(IH _ _ s1 s2 H') ->.
have [/= -> ->] := H 0%N isT erefl.
by move/(IH _ _ s1 s2 H') ->.
Qed.

Lemma uniq_mask_rows m (rs : seq (seq nat)) :
  all (fun r => size r == size m) rs ->
  (forall r k, r \in rs -> (k < size m)%N -> nth true m k = false -> nth 0%N r k = 0%N) ->
  uniq rs -> uniq [seq mask m r | r <- rs].
Proof.
move=> szs H un; rewrite map_inj_in_uniq // => r1 r2 r1in r2in.
apply: mask_inj_zero; try by apply/eqP; move/allP: szs; apply.
by move=> k lt mk; split; [apply: (H r1) | apply: (H r2)].
Qed.

Lemma rm_coefs_sub D (ts : seq (term R)) :
  [\/ rm_coefs D ts = filter (@keep_term R) ts |
      rm_coefs D ts = [:: (nseq D 0%N, zeros R (size (head [::] (unzip2 ts))))] /\ filter (@keep_term R) ts = [::]].
Proof. by rewrite /rm_coefs; case: (filter _ _) => [|t l]; [right|left]. Qed.

(* from_attributes never fails on well-formed attributes *)
Theorem from_attributes_total rc rn ns sh rs (cs : seq (seq R)) :
  size rs = size cs -> (0 < size rs)%N -> uniq rs -> all (fun r => size r == size ns) rs -> uniq ns ->
  exists q, from_attributes rc rn ns sh rs cs = Ok q.
Proof.
move=> srs rpos urs wid uns; rewrite /from_attributes srs eqxx /=.
case: cs srs => [|c0 cs] srs; first by rewrite srs in rpos.
set ts := if rc then _ else _.
have [rs1E | [rs1E fE]] : (exists2 l, subseq l rs & unzip1 ts = l) \/ (unzip1 ts = [:: nseq (size (head [::] rs)) 0%N] /\ True).
- rewrite /ts; case: (rc); first by left; exists rs => //; rewrite unzip1_zip // srs.
  case: (rm_coefs_sub (size (head [::] rs)) (zip rs (c0 :: cs))) => [->|[-> _]]; last by right.
  left; exists (unzip1 (filter (@keep_term R) (zip rs (c0 :: cs)))) => //.
  have {2}<- : unzip1 (zip rs (c0 :: cs)) = rs by rewrite unzip1_zip // srs.
  by apply: map_subseq; apply: filter_subseq.
- case: rs1E => l sub lE.
  have ul : uniq l by apply: subseq_uniq urs.
  have wl : all (fun r => size r == size ns) l.
    by apply/allP => r /(mem_subseq sub); move/allP: wid; apply.
  rewrite lE wl uns /=; case: (rn) => /=; first by rewrite ul; eexists.
  rewrite uniq_mask_rows ?ul ?size_used_mask //; first by eexists.
  by move=> r k rin lt; apply: used_mask_zero.
- have hw : size (head [::] rs) = size ns.
    by case: rs rpos wid {urs srs ts rs1E} => [|r rs] //= _ /andP[/eqP].
  rewrite rs1E /= size_nseq hw eqxx uns /=; case: (rn) => /=; first by eexists.
  by eexists.
Qed.

(* with both retain flags on, rebuilding a well-formed polynomial from its attributes is the identity *)
Theorem roundtrip_retain p :
  wfb p -> from_attributes true true (names p) (shape p) (rows p) (cols p) = Ok p.
Proof.
move=> wp; have [srs rpos urs wid [csz npos un]] := wfbP wp.
rewrite /from_attributes srs eqxx /=.
case E: (cols p) srs => [|c0 cs] srs; first by rewrite srs in rpos.
rewrite unzip1_zip ?srs // unzip2_zip ?srs // wid un urs /= -E.
by case: p {wp srs rpos urs wid csz npos un E} => ? ? ? ?.
Qed.

(* with the flags off exactly the all-zero non-constant terms are dropped (or the single zero
   constant remains) *)
Theorem clean_rows_exact ns sh rs (cs : seq (seq R)) q :
  size rs = size cs -> from_attributes false true ns sh rs cs = Ok q ->
  terms q = rm_coefs (size (head [::] rs)) (zip rs cs) /\ names q = ns.
Proof.
move=> srs; rewrite /from_attributes srs eqxx /=; case: cs srs => [|c0 cs] // srs.
case: ifP => // _; case: ifP => // _; case: ifP => // _ [<-] /=.
by rewrite /terms /= zip_unzip.
Qed.

(* duplicates are rejected *)
Theorem reject_duplicate_rows ns sh rs (cs : seq (seq R)) :
  size rs = size cs -> ~~ uniq rs -> from_attributes true true ns sh rs cs = Err ConstructionError
  \/ from_attributes true true ns sh rs cs = Err OtherError.
Proof.
move=> srs nu; rewrite /from_attributes srs eqxx /=; case: cs srs => [|c0 cs] srs; first by right.
left; rewrite unzip1_zip ?srs //.
by case: ifP => // _; case: ifP => // _; rewrite (negbTE nu).
Qed.

Theorem reject_duplicate_names rc rn ns sh rs (cs : seq (seq R)) q :
  from_attributes rc rn ns sh rs cs = Ok q -> uniq ns.
Proof.
rewrite /from_attributes; case: ifP => // _; case: cs => [|c0 cs] //.
by case: ifP => // _; case: ifP => // /negbFE.
Qed.

End Wf.
