(* CompareP.v — the comparison loops decide one strict total order (C07): on an alignment, the
   verdict at an element is the lexicographic comparison of the coefficient vectors read in
   descending monomial order ("the largest monomial at which the operands differ decides"). *)
From mathcomp Require Import all_ssreflect all_algebra.
From NP Require Import Base Poly Order Compare OrderP.
Set Implicit Arguments. Unset Strict Implicit. Unset Printing Implicit Defensive.
Import GRing.Theory Num.Theory Order.Theory.
Local Open Scope ring_scope.

(* last write wins *)
Lemma foldl_lww (A : Type) (P : nat -> bool) (v : nat -> A) (init : A) (order : seq nat) :
  foldl (fun acc k => if P k then v k else acc) init order = last init [seq v k | k <- order & P k].
Proof. by elim: order init => [|k order IH] init //=; rewrite IH; case: (P k). Qed.

Lemma eq_foldl2 (A B : Type) (f g : A -> B -> A) : f =2 g -> foldl f =2 foldl g.
Proof. by move=> fg z s; elim: s z => [|x s IH] z //=; rewrite fg IH. Qed.

Lemma nth_foldl_rows (g : nat -> nat -> bool -> bool) (m : nat) (init : seq bool) order i :
  (i < m)%N ->
  nth false (foldl (fun out k => [seq g k j (nth false out j) | j <- iota 0 m]) init order) i
  = foldl (fun acc k => g k i acc) (nth false init i) order.
Proof.
move=> lt; elim: order init => [|k order IH] init //=.
by rewrite IH (nth_map 0%N) ?size_iota // nth_iota // add0n.
Qed.

Section Lex.
Variable R : realDomainType.
Implicit Types (u w z : seq R).

(* strict lexicographic order on coefficient vectors *)
Fixpoint lexlt u w : bool :=
  match u, w with
  | x :: u', y :: w' => (x < y) || ((x == y) && lexlt u' w')
  | _, _ => false
  end.

Lemma lexlt_irr u : lexlt u u = false.
Proof. by elim: u => [|x u IH] //=; rewrite ltxx eqxx IH. Qed.

Lemma lexlt_trans w u z : lexlt u w -> lexlt w z -> lexlt u z.
Proof.
elim: u w z => [|x u IH] [|y w] [|t z] //=.
case/orP => [xy|/andP[/eqP -> uw]]; case/orP => [yt|/andP[/eqP <- wz]].
- by rewrite (lt_trans xy yt).
- by rewrite xy.
- by rewrite yt.
- by rewrite eqxx (IH _ _ uw wz) orbT.
Qed.

Lemma lexlt_asym u w : lexlt u w -> ~~ lexlt w u.
Proof. by move=> uw; apply/negP => wu; have := lexlt_trans uw wu; rewrite lexlt_irr. Qed.

(* exactly one of u<w, u=w, w<u *)
Lemma lexlt_trichotomy u w : size u = size w ->
  [|| [&& lexlt u w, u != w & ~~ lexlt w u],
      [&& ~~ lexlt u w, u == w & ~~ lexlt w u] |
      [&& ~~ lexlt u w, u != w & lexlt w u]].
Proof.
elim: u w => [|x u IH] [|y w] //= [sz]; rewrite eqseq_cons.
by case: (ltgtP x y) => //= _; rewrite ?orbT //; apply: IH.
Qed.

(* the first position (largest monomial) at which the vectors differ decides *)
Lemma lexlt_char u w : size u = size w ->
  (lexlt u w <-> exists p, [/\ (p < size u)%N, take p u = take p w & nth 0 u p < nth 0 w p]).
Proof.
elim: u w => [|x u IH] [|y w] //= => [_|[sz]]; first by split=> // -[p []].
split.
  case/orP => [xy|/andP[/eqP -> /(IH _ sz) [p [lt tk np]]]]; first by exists 0%N; split.
  by exists p.+1; split=> //=; rewrite tk.
case=> [[|p]] [lt /= tk np]; first by rewrite np.
case: tk => -> tk; rewrite eqxx /=; apply/orP; right.
by apply/(IH _ sz); exists p.
Qed.

End Lex.

Section Verdict.
Variable R : realDomainType.
Variables (ca cb : seq (seq R)) (order : seq nat) (m : nat).

Definition mask_ok (code : cmp_code) : Prop :=
  forall a b d : bool, (d ==> a || b) -> bexp_eval (cc_mask code) a b d = d.

(* the coefficient vectors of element i, largest monomial first *)
Definition vec (cs : seq (seq R)) (i : nat) : seq R := [seq cell cs k i | k <- rev order].

Lemma mask_cell code k i : mask_ok code ->
  bexp_eval (cc_mask code) (cell ca k i != 0) (cell cb k i != 0) (cell ca k i != cell cb k i)
  = (cell ca k i != cell cb k i).
Proof.
move=> mk; apply: mk; apply/implyP => ne.
by case: eqP => //= a0; case: eqP => //= b0; rewrite a0 b0 eqxx in ne.
Qed.

(* only two things matter about the comparisons a loop uses: the verdict on equal operands
   (initial verdict) and the strict comparison on different ones (loop, under the mask) *)
Definition is_refl (c : cop) : bool := match c with CGe | CLe => true | _ => false end.
Definition strict (c : cop) : cop := match c with CGt | CGe => CGt | CLt | CLe => CLt end.
Definition init_refl (code : cmp_code) : bool := if cc_init code is Some c then is_refl c else false.

Lemma cfun_refl c (x : R) : cfun c x x = is_refl c.
Proof. by case: c; rewrite /= ?ltxx ?lexx. Qed.

Lemma cfun_strict c (x y : R) : x != y -> cfun c x y = cfun (strict c) x y.
Proof. by case: c => //= ne; rewrite le_eqVlt ?(negbTE ne) // eq_sym (negbTE ne). Qed.

Lemma cmp_cols_elem code i : (i < m)%N -> mask_ok code ->
  nth false (cmp_cols code order ca cb m) i
  = last (if cc_init code is Some c then cfun c (cell ca 0 i) (cell cb 0 i) else false)
         [seq cfun (strict (cc_loop code)) (cell ca k i) (cell cb k i) | k <- order & cell ca k i != cell cb k i].
Proof.
move=> lt mk; rewrite /cmp_cols.
rewrite (nth_foldl_rows (fun k j old =>
   if bexp_eval (cc_mask code) (cell ca k j != 0) (cell cb k j != 0) (cell ca k j != cell cb k j)
   then cfun (cc_loop code) (cell ca k j) (cell cb k j) else old)) //.
rewrite (nth_map 0%N) ?size_iota // nth_iota // add0n.
set b0 := (if cc_init code is Some _ then _ else _).
have -> : [seq cfun (strict (cc_loop code)) (cell ca k i) (cell cb k i) | k <- order & cell ca k i != cell cb k i]
        = [seq cfun (cc_loop code) (cell ca k i) (cell cb k i) | k <- order & cell ca k i != cell cb k i].
  by apply/eq_in_map => k; rewrite mem_filter => /andP[ne _]; rewrite -cfun_strict.
rewrite -foldl_lww; apply: eq_foldl2 => acc k.
by rewrite mask_cell.
Qed.

(* last differing position decides = lexicographic comparison from the largest monomial down *)
Lemma last_lt_lex (x y : nat -> R) (b0 : bool) (s : seq nat) :
  (all (fun k => x k == y k) s -> b0 = false) ->
  last b0 [seq x k < y k | k <- s & x k != y k] = lexlt [seq x k | k <- rev s] [seq y k | k <- rev s].
Proof.
elim/last_ind: s => [|s k IH] h; first by rewrite /= h.
rewrite rev_rcons /= filter_rcons.
case: (altP (x k =P y k)) => [e|ne] /=.
  rewrite e ltxx /=; apply: IH => al; apply: h.
  by rewrite all_rcons al e eqxx.
by rewrite map_rcons last_rcons orbF.
Qed.

Lemma last_le_lex (x y : nat -> R) (b0 : bool) (s : seq nat) :
  (all (fun k => x k == y k) s -> b0 = true) ->
  last b0 [seq x k <= y k | k <- s & x k != y k] = ~~ lexlt [seq y k | k <- rev s] [seq x k | k <- rev s].
Proof.
elim/last_ind: s => [|s k IH] h; first by rewrite /= h.
rewrite rev_rcons /= filter_rcons.
case: (altP (x k =P y k)) => [e|ne] /=.
  rewrite e ltxx eqxx /=; apply: IH => al; apply: h.
  by rewrite all_rcons al e eqxx.
by rewrite map_rcons last_rcons eq_sym (negbTE ne) andFb orbF leNgt.
Qed.

Lemma last_lt_lex_neg (x y : nat -> R) (b0 : bool) (s : seq nat) :
  (all (fun k => x k == y k) s -> b0 = true) ->
  last b0 [seq x k < y k | k <- s & x k != y k] = ~~ lexlt [seq y k | k <- rev s] [seq x k | k <- rev s].
Proof.
move=> h; rewrite -(last_le_lex h); congr (last _ _).
by apply/eq_in_map => k; rewrite mem_filter => /andP[ne _]; rewrite le_eqVlt (negbTE ne).
Qed.

Hypothesis zero_in : 0%N \in order.

Lemma init_eq i : all (fun k => cell ca k i == cell cb k i) order -> cell ca 0 i = cell cb 0 i.
Proof. by move/allP => /(_ _ zero_in) /eqP. Qed.

Lemma init_val code i : all (fun k => cell ca k i == cell cb k i) order ->
  (if cc_init code is Some c then cfun c (cell ca 0 i) (cell cb 0 i) else false) = init_refl code.
Proof. by move/init_eq => ->; rewrite /init_refl; case: (cc_init code) => // c; rewrite cfun_refl. Qed.

Lemma flip_filter i (F : nat -> bool) :
  [seq F k | k <- order & cell cb k i != cell ca k i] = [seq F k | k <- order & cell ca k i != cell cb k i].
Proof. by congr (map _ _); apply: eq_filter => k; rewrite eq_sym. Qed.

Lemma flip_all i : all (fun k => cell cb k i == cell ca k i) order = all (fun k => cell ca k i == cell cb k i) order.
Proof. by apply: eq_all => k; rewrite eq_sym. Qed.

Theorem verdict_lt code i : (i < m)%N -> mask_ok code ->
  init_refl code = false -> strict (cc_loop code) = CLt ->
  nth false (cmp_cols code order ca cb m) i = lexlt (vec ca i) (vec cb i).
Proof.
move=> lt mk ci cl; rewrite cmp_cols_elem // cl /=.
by apply: last_lt_lex => /(init_val code) ->.
Qed.

Theorem verdict_gt code i : (i < m)%N -> mask_ok code ->
  init_refl code = false -> strict (cc_loop code) = CGt ->
  nth false (cmp_cols code order ca cb m) i = lexlt (vec cb i) (vec ca i).
Proof.
move=> lt mk ci cl; rewrite cmp_cols_elem // cl /= -flip_filter.
by apply: (@last_lt_lex (fun k => cell cb k i) (fun k => cell ca k i)); rewrite flip_all => /(init_val code) ->.
Qed.

Theorem verdict_le code i : (i < m)%N -> mask_ok code ->
  init_refl code = true -> strict (cc_loop code) = CLt ->
  nth false (cmp_cols code order ca cb m) i = ~~ lexlt (vec cb i) (vec ca i).
Proof.
move=> lt mk ci cl; rewrite cmp_cols_elem // cl /=.
by apply: last_lt_lex_neg => /(init_val code) ->.
Qed.

Theorem verdict_ge code i : (i < m)%N -> mask_ok code ->
  init_refl code = true -> strict (cc_loop code) = CGt ->
  nth false (cmp_cols code order ca cb m) i = ~~ lexlt (vec ca i) (vec cb i).
Proof.
move=> lt mk ci cl; rewrite cmp_cols_elem // cl /= -flip_filter.
by apply: (@last_lt_lex_neg (fun k => cell cb k i) (fun k => cell ca k i)); rewrite flip_all => /(init_val code) ->.
Qed.

(* maximum / minimum: no initial verdict; "a is chosen" iff a is strictly larger / smaller *)
Theorem verdict_select_gt code i : (i < m)%N -> mask_ok code ->
  cc_init code = None -> strict (cc_loop code) = CGt ->
  nth false (cmp_cols code order ca cb m) i = lexlt (vec cb i) (vec ca i).
Proof.
move=> lt mk ci cl; rewrite cmp_cols_elem // ci cl /= -flip_filter.
exact: (@last_lt_lex (fun k => cell cb k i) (fun k => cell ca k i)).
Qed.

Theorem verdict_select_lt code i : (i < m)%N -> mask_ok code ->
  cc_init code = None -> strict (cc_loop code) = CLt ->
  nth false (cmp_cols code order ca cb m) i = lexlt (vec ca i) (vec cb i).
Proof.
move=> lt mk ci cl; rewrite cmp_cols_elem // ci cl /=.
exact: last_lt_lex.
Qed.

End Verdict.

(* equal / not_equal on an alignment: all columns agree at the element  <->  equal vectors *)
Section Equal.
Variable R : realDomainType.
Variables (ca cb : seq (seq R)) (order : seq nat) (N : nat).
Hypothesis perm : perm_eq order (iota 0 N).

Lemma all_cols_vec i :
  all (fun k => cell ca k i == cell cb k i) (iota 0 N) = (vec order ca i == vec order cb i).
Proof.
rewrite -(perm_all _ perm) /vec -all_rev.
elim: (rev order) => [|k s IH] //=.
by rewrite eqseq_cons IH.
Qed.

Lemma has_cols_vec i :
  has (fun k => cell ca k i != cell cb k i) (iota 0 N) = (vec order ca i != vec order cb i).
Proof.
rewrite -all_cols_vec -[in RHS](@eq_all _ (predC (fun k => cell ca k i != cell cb k i))); last first.
  by move=> k /=; rewrite negbK.
by rewrite all_predC negbK.
Qed.

End Equal.
