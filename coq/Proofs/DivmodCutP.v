(* DivmodCutP.v — the cut-off of get_division_candidate (C05):
   - whatever pair the search hands to the loop (hence for EVERY cut-off), dividend = q * divisor + r is kept;
   - with the cut-off rule the loop only stops when every remaining term that the divisor's leading monomial divides
     has a candidate coefficient below the cut-off in every element of the array;
   - a cut-off <= 0 skips nothing: the loop is the one of Divmod.v, for which termination is proved (DivmodTerm.v). *)
From mathcomp Require Import all_ssreflect all_algebra.
From SsrMultinomials Require Import mpoly.
From NP Require Import Base Divmod DivmodP DivmodCut.

Set Implicit Arguments. Unset Strict Implicit. Unset Printing Implicit Defensive.
Import Order.POrderTheory GRing.Theory Num.Theory.
Local Open Scope ring_scope.

Section With.
Variables (n : nat) (F : fieldType).
Variable cand : seq (elem F) -> option (mono * mono).

Lemma run_with_value fuel es es' :
  run_with cand fuel es = Ok es' ->
  [seq value n e | e <- es'] = [seq value n e | e <- es] /\ [seq e_g e | e <- es'] = [seq e_g e | e <- es].
Proof.
elim: fuel es => [|fuel IH] es //=.
case: (cand es) => [[e2 e1]|]; last by move=> [<-].
move=> /IH [-> ->]; rewrite -!map_comp; split; apply: eq_map => e /=.
- by case: (step_elem_value n e2 e1 e).
- by case: (step_elem_value n e2 e1 e).
Qed.

Lemma run_with_stops fuel es es' : run_with cand fuel es = Ok es' -> cand es' = None.
Proof.
elim: fuel es => [|fuel IH] es //=.
case ec: (cand es) => [[e2 e1]|]; first exact: IH.
by move=> [<-].
Qed.

(* the identity, element by element, for ANY way of choosing the pair to divide at *)
Theorem divmod_with_identity fuel (fs gs : seq (spoly F)) out :
  size fs = size gs -> divmod_with cand fuel fs gs = Ok out ->
  size out = size fs /\
  forall i, (i < size fs)%N ->
    absS n (nth [::] fs i) = absS n (nth ([::], [::]) out i).1 * absS n (nth [::] gs i) + absS n (nth ([::], [::]) out i).2.
Proof.
move=> sz; rewrite /divmod_with; case er: (run_with cand fuel (start fs gs)) => [es'|] //= [<-].
have [ev eg] := run_with_value er.
have ss : size es' = size fs.
  by have := congr1 size ev; rewrite !size_map /start size_zip sz minnn.
split; first by rewrite size_map.
move=> i lt.
have lt' : (i < size es')%N by rewrite ss.
have ltz : (i < size (zip fs gs))%N by rewrite size_zip sz minnn -sz.
rewrite (nth_map (Elem [::] [::] [::])) //=.
have := congr1 (fun l => nth 0 l i) ev.
rewrite (nth_map (Elem [::] [::] [::])) // /start -map_comp (nth_map ([::], [::])) //= nth_zip //=.
rewrite value_start => <-; rewrite /value.
have := congr1 (fun l => nth [::] l i) eg.
rewrite (nth_map (Elem [::] [::] [::])) // /start -map_comp (nth_map ([::], [::])) //= nth_zip //= => ->.
by rewrite absS_norm.
Qed.
End With.

Section Cut.
Variables (n : nat) (F : numFieldType) (eps : F).

(* for every cut-off *)
Theorem divmod_cut_identity fuel (fs gs : seq (spoly F)) out :
  size fs = size gs -> divmod_cut eps fuel fs gs = Ok out ->
  size out = size fs /\
  forall i, (i < size fs)%N ->
    absS n (nth [::] fs i) = absS n (nth ([::], [::]) out i).1 * absS n (nth [::] gs i) + absS n (nth ([::], [::]) out i).2.
Proof. exact: divmod_with_identity. Qed.

(* where the loop stops: what is left and still divisible is below the cut-off everywhere *)
Theorem candidate_cut_none es (e : elem F) (e2 : mono) m :
  candidate_cut eps es = None -> e \in es -> lead (e_g e) = Some e2 -> m \in support (e_d e) -> mdivides e2 m ->
  forall e', e' \in es -> `|cand_coef e2 m e'| < eps.
Proof.
rewrite /candidate_cut => cn ein le min dv e' ein'.
have e2in : e2 \in sort_desc (pmap (fun e => lead (e_g e)) es).
  rewrite /sort_desc mem_rev mem_sort mem_undup mem_pmap; apply/mapP; exists e => //.
have inl : List.In e2 (sort_desc (pmap (fun e => lead (e_g e)) es)).
  elim: (sort_desc _) e2in => [|x l IH] //=; rewrite inE => /orP[/eqP ->|/IH]; [by left | by right].
have /mmax_none pe := first_some_none cn inl.
apply/negPn/negP => big.
have : m \in [seq m <- flatten [seq support (e_d e) | e <- es & lead (e_g e) == Some e2] | mdivides e2 m && kept eps e2 m es].
  rewrite mem_filter dv /=; apply/andP; split; first by apply/hasP; exists e'.
  apply/flattenP; exists (support (e_d e)) => //.
  by apply/mapP; exists e => //; rewrite mem_filter le eqxx.
by rewrite pe.
Qed.

Theorem divmod_cut_stops fuel es es' : run_cut eps fuel es = Ok es' -> candidate_cut eps es' = None.
Proof. exact: run_with_stops. Qed.

(* a cut-off <= 0 skips nothing *)
Hypothesis eps0 : eps <= 0.

Lemma pick_e1_cut0 e2 es : pick_e1_cut eps e2 es = pick_e1 e2 es.
Proof.
rewrite /pick_e1_cut /pick_e1; congr mmax; apply: eq_in_filter => m /flattenP[s /mapP[e]].
rewrite mem_filter => /andP[_ ein] -> _; rewrite /kept.
have -> : has (fun e0 => ~~ (`|cand_coef e2 m e0| < eps)) es; last by rewrite andbT.
by apply/hasP; exists e => //; rewrite (le_gtF (le_trans eps0 (normr_ge0 _))).
Qed.

Lemma candidate_cut0 es : candidate_cut eps es = candidate es.
Proof.
rewrite /candidate_cut /candidate; elim: (sort_desc _) => [|e2 l IH] //=.
by rewrite pick_e1_cut0 IH.
Qed.

Theorem run_cut0 fuel es : run_cut eps fuel es = run fuel es.
Proof. by elim: fuel es => [|fuel IH] es //=; rewrite candidate_cut0; case: (candidate es) => [[e2 e1]|]. Qed.

Theorem divmod_cut0 fuel fs gs : divmod_cut eps fuel fs gs = divmod fuel fs gs.
Proof. by rewrite /divmod_cut /divmod_with /divmod -/(run_cut eps) run_cut0. Qed.
End Cut.
