(* CompareTop.v — the public comparison functions in terms of the aligned operands (C07). *)
From mathcomp Require Import all_ssreflect all_algebra.
From SsrMultinomials Require Import mpoly.
From NP Require Import Base Poly Order Compare OrderP CompareP Abs Clean Shape Align Arith MonomialP.
Set Implicit Arguments. Unset Strict Implicit. Unset Printing Implicit Defensive.
Import GRing.Theory Num.Theory Order.Theory.
Local Open Scope ring_scope.

Section Top.
Variable (n : nat) (R : realDomainType).
Implicit Types (a b : parr R) (o : opts).

(* a comparison loop is as assumed when: its initial verdict on equal operands is [refl], its
   loop comparison is, on different operands, the strict comparison [loop], and its mask selects
   exactly the terms at which the operands differ *)
Definition code_ok (code : cmp_code) (refl : bool) (loop : cop) : Prop :=
  [/\ init_refl code = refl, strict (cc_loop code) = loop & mask_ok code].
Definition select_ok (code : cmp_code) (loop : cop) : Prop :=
  [/\ cc_init code = None, strict (cc_loop code) = loop & mask_ok code].

(* what alignment guarantees *)
Record aligned_pair o a b (a' b' : parr R) (s : seq nat) : Prop := AlignedPair {
  ap_shape : bshape (shape a) (shape b) = Some s;
  ap_wfa : wfb a'; ap_wfb : wfb b';
  ap_sa : shape a' = s; ap_sb : shape b' = s;
  ap_names : names a' = names b'; ap_rows : rows a' = rows b';
  ap_va : forall i, (i < prodn s)%N -> absE n a' i = absE n a (bidx (shape a) s i);
  ap_vb : forall i, (i < prodn s)%N -> absE n b' i = absE n b (bidx (shape b) s i)
}.

Lemma aligned2P o a b a' b' :
  wfb a -> wfb b -> aligned2 o a b = Ok (a', b') -> exists s, aligned_pair o a b a' b' s.
Proof.
move=> wa wb; rewrite /aligned2; case e: (align_polys _ _) => [ps|] //=.
have [s [a1 [b1 [bs -> [w1 w2 s1 s2 [nn rr]] v1 v2]]]] := align_polys2 n wa wb e.
by move=> [<- <-]; exists s; split.
Qed.

Section OnAlignment.
Variables (o : opts) (a' b' : parr R).
Hypotheses (wa : wfb a') (wb : wfb b') (rr : rows a' = rows b') (ss : shape a' = shape b').
Let order := sort_order o a'.
Let N := size (rows a').

Lemma order_perm : perm_eq order (iota 0 N).
Proof. exact: glexsort_perm. Qed.

Lemma zero_in_order : 0%N \in order.
Proof.
rewrite (perm_mem order_perm) mem_iota /= add0n /N.
by have [_ pos _ _ _] := wfbP wa.
Qed.

Let va i := vec order (cols a') i.
Let vb i := vec order (cols b') i.

Lemma size_vec i : size (va i) = size (vb i).
Proof. by rewrite /va /vb /vec !size_map. Qed.

(* the coefficient vectors are read from the largest monomial down *)
Theorem order_descending :
  sorted (fun j k => mleq (o_sgraded o) (o_sreverse o) (nth [::] (rows a') k) (nth [::] (rows a') j))
         (rev order).
Proof. by rewrite rev_sorted; apply: glexsort_sorted. Qed.

Variables (cgt cge clt cle : cmp_code).
Hypotheses (okgt : code_ok cgt false CGt) (okge : code_ok cge true CGt)
           (oklt : code_ok clt false CLt) (okle : code_ok cle true CLt).

Let verdict code i := nth false (cmp_cols code order (cols a') (cols b') (psize a')) i.
Let veq i := all (fun k => cell (cols a') k i == cell (cols b') k i) (iota 0 N).
Let vne i := has (fun k => cell (cols a') k i != cell (cols b') k i) (iota 0 N).

Theorem verdicts i : (i < psize a')%N ->
  [/\ verdict clt i = lexlt (va i) (vb i), verdict cgt i = lexlt (vb i) (va i),
      verdict cle i = ~~ lexlt (vb i) (va i), verdict cge i = ~~ lexlt (va i) (vb i) &
      veq i = (va i == vb i) /\ vne i = (va i != vb i)].
Proof.
move=> lt; have z := zero_in_order.
case: okgt => g1 g2 g3; case: okge => e1 e2 e3; case: oklt => l1 l2 l3; case: okle => m1 m2 m3.
split.
- exact: verdict_lt.
- exact: verdict_gt.
- exact: verdict_le.
- exact: verdict_ge.
- by rewrite /veq /vne (all_cols_vec _ _ order_perm) (has_cols_vec _ _ order_perm).
Qed.

(* exactly one of a<b, a==b, a>b; <=, >=, != are the complements *)
Theorem trichotomy i : (i < psize a')%N ->
  [|| [&& verdict clt i, ~~ veq i & ~~ verdict cgt i],
      [&& ~~ verdict clt i, veq i & ~~ verdict cgt i] |
      [&& ~~ verdict clt i, ~~ veq i & verdict cgt i]].
Proof.
move=> lt; have [-> -> _ _ [-> _]] := verdicts lt.
exact: (lexlt_trichotomy (size_vec i)).
Qed.

Theorem complements i : (i < psize a')%N ->
  [/\ verdict cle i = ~~ verdict cgt i, verdict cge i = ~~ verdict clt i & vne i = ~~ veq i].
Proof. by move=> lt; have [-> -> -> -> [-> ->]] := verdicts lt. Qed.

End OnAlignment.

(* == holds only for identical polynomials: on an alignment, equal vectors give equal values *)
Theorem equal_same_value (a' b' : parr R) order i :
  wfb a' -> wfb b' -> rows a' = rows b' -> names a' = names b' ->
  perm_eq order (iota 0 (size (rows a'))) ->
  vec order (cols a') i = vec order (cols b') i -> absE n a' i = absE n b' i.
Proof.
move=> wa wb rr nn pe ev; rewrite !absE_index // -rr -nn.
rewrite big_nat_cond [RHS]big_nat_cond; apply: eq_bigr => k; rewrite andbT => /andP[_ lt].
have kin : k \in rev order by rewrite mem_rev (perm_mem pe) mem_iota.
have := congr1 (fun v => nth 0 v (index k (rev order))) ev.
by rewrite /vec !(nth_map 0%N) ?index_mem // nth_index // => ->.
Qed.

(* maximum / minimum return, per element, one of the (aligned) operands as chosen by the verdict *)
Theorem pselect_spec code o (a' b' r : parr R) :
  wfb a' -> wfb b' -> rows a' = rows b' -> names a' = names b' -> shape a' = shape b' ->
  let v := cmp_cols code (sort_order o a') (cols a') (cols b') (psize a') in
  clean o (Parr (names a') (shape a') (rows a')
             [seq [seq (if nth false v i then cell (cols a') k i else cell (cols b') k i)
                  | i <- iota 0 (psize a')] | k <- iota 0 (size (rows a'))]) = Ok r ->
  [/\ wfb r, shape r = shape a' &
      forall i, (i < psize a')%N ->
        absE n r i = if nth false v i then absE n a' i else absE n b' i].
Proof.
move=> wa wb rr nn ss v cl.
have [_ _ _ _ [_ npos _]] := wfbP wa.
have csz : all (fun c => size c == prodn (shape a'))
             [seq [seq (if nth false v i then cell (cols a') k i else cell (cols b') k i)
                  | i <- iota 0 (psize a')] | k <- iota 0 (size (rows a'))].
  by apply/allP => c /mapP[k _ ->]; rewrite size_map size_iota.
split; first exact: (from_attributes_wf csz npos cl).
  by case: (from_attributes_absE n 0 cl).
move=> i lt; case: (from_attributes_absE n i cl) => -> _.
rewrite /absL zip_map_iota /absT /=.
have E (p : parr R) : wfb p -> absE n p i
    = \sum_(k <- iota 0 (size (rows p))) cell (cols p) k i *: 'X_[mon n (names p) (nth [::] (rows p) k)].
  by move=> wp; rewrite absE_index // /index_iota subn0.
rewrite (E _ wa) (E _ wb) -rr -nn.
have H k : nth 0 [seq (if nth false v j then cell (cols a') k j else cell (cols b') k j) | j <- iota 0 (psize a')] i
          = if nth false v i then cell (cols a') k i else cell (cols b') k i.
  by rewrite (nth_map 0%N) ?size_iota // nth_iota.
by case: (nth false v i) H => H; apply: eq_bigr => k _; rewrite H.
Qed.

End Top.
