(* DTypeP.v — numpy's promotion is a commutative, idempotent, (conditionally) associative join
   into which both arguments cast without loss; casts wrap modulo 2^w; fixed-width arithmetic is
   exact arithmetic followed by the cast; with the defect switches off every cell the write
   paths return is the cast of its source value.  (C12) *)
From Coq Require Import ZArith List Bool Lia.
From NP Require Import DType.
Import ListNotations.
Open Scope Z_scope.
Ltac Zify.zify_post_hook ::= Z.to_euclidean_division_equations.

(* ---- promotion ---------------------------------------------------------------------------- *)
Lemma dtype_eqb_eq a b : dtype_eqb a b = true <-> a = b.
Proof. destruct a, b; split; intros H; try reflexivity; try discriminate H. Qed.

Lemma dtype_eqb_refl a : dtype_eqb a a = true.
Proof. destruct a; reflexivity. Qed.

Lemma all_dtypes_complete d : In d all_dtypes.
Proof. destruct d; simpl; tauto. Qed.

Lemma promote_comm a b : promote a b = promote b a.
Proof. destruct a, b; reflexivity. Qed.

Lemma promote_idem a : promote a a = a.
Proof. destruct a; reflexivity. Qed.

Lemma promote_bool_l a : promote B8 a = a.
Proof. destruct a; reflexivity. Qed.

(* the result absorbs both arguments *)
Lemma promote_absorb_l a b : promote a (promote a b) = promote a b.
Proof. destruct a, b; reflexivity. Qed.
Lemma promote_absorb_r a b : promote (promote a b) b = promote a b.
Proof. destruct a, b; reflexivity. Qed.

(* associativity holds unless a signed integer, an unsigned integer and an inexact dtype meet *)
Definition has_kind (k : kind -> bool) (l : list dtype) : bool := existsb (fun d => k (kind_of d)) l.
Definition is_KInt k := match k with KInt => true | _ => false end.
Definition is_KUInt k := match k with KUInt => true | _ => false end.
Definition is_KInexact k := match k with KFloat | KComplex => true | _ => false end.
Definition assoc_safe (a b c : dtype) : bool :=
  negb (has_kind is_KInt [a; b; c] && has_kind is_KUInt [a; b; c] && has_kind is_KInexact [a; b; c]).

Lemma promote_assoc a b c :
  assoc_safe a b c = true -> promote (promote a b) c = promote a (promote b c).
Proof. destruct a, b, c; intros H; try reflexivity; discriminate H. Qed.

Definition triples : list (dtype * dtype * dtype) :=
  flat_map (fun a => flat_map (fun b => map (fun c => (a, b, c)) all_dtypes) all_dtypes) all_dtypes.
Definition assoc_fails (t : dtype * dtype * dtype) : bool :=
  let '(a, b, c) := t in negb (dtype_eqb (promote (promote a b) c) (promote a (promote b c))).

(* numpy's promotion is not associative: exactly 28 of the 2744 ordered triples fail *)
Lemma promote_assoc_failures :
  length (filter assoc_fails triples) = 28%nat /\
  promote (promote I8 U8) F16 = F32 /\ promote I8 (promote U8 F16) = F16.
Proof. vm_compute. repeat split. Qed.

(* weak Python scalars: the scalar never widens beyond the weak result *)
Lemma promote_weak_absorb d k : promote d (promote_weak d k) = promote_weak d k.
Proof. destruct d, k; reflexivity. Qed.

Lemma promote_weak_le_default d k :
  promote (promote_weak d k) (default_dtype k) = promote d (default_dtype k).
Proof. destruct d, k; reflexivity. Qed.

(* ---- integer ranges and wrap -------------------------------------------------------------- *)
Ltac consts :=
  change (8 - 1) with 7 in *; change (16 - 1) with 15 in *; change (32 - 1) with 31 in *;
  change (64 - 1) with 63 in *.

Lemma wrap_in_range d z : is_intkind d = true -> int_lo d <= z < int_hi d -> wrap d z = z.
Proof.
destruct d; try discriminate; intros _; cbv [wrap int_lo int_hi kind_of width]; consts; intros H; lia.
Qed.

Lemma wrap_range d z : is_intkind d = true -> int_lo d <= wrap d z < int_hi d.
Proof.
destruct d; try discriminate; intros _; cbv [wrap int_lo int_hi kind_of width]; consts; lia.
Qed.

Definition modulus (d : dtype) : Z := 2 ^ width d.

Lemma modulus_pos d : 0 < modulus d.
Proof. destruct d; reflexivity. Qed.

Lemma wrap_congr d z : is_intkind d = true -> (wrap d z - z) mod modulus d = 0.
Proof.
destruct d; try discriminate; intros _; cbv [wrap modulus kind_of width]; consts; lia.
Qed.

Lemma wrap_unique d z r :
  is_intkind d = true -> int_lo d <= r < int_hi d -> (r - z) mod modulus d = 0 -> r = wrap d z.
Proof.
destruct d; try discriminate; intros _; cbv [wrap modulus int_lo int_hi kind_of width]; consts; lia.
Qed.

(* wrap only depends on the residue *)
Lemma wrap_mod_eq d x y :
  is_intkind d = true -> (x - y) mod modulus d = 0 -> wrap d x = wrap d y.
Proof.
intros Hk H. apply wrap_unique; [exact Hk | apply wrap_range; exact Hk |].
pose proof (wrap_congr d x Hk) as Hx. pose proof (modulus_pos d) as Hm.
replace (wrap d x - y) with ((wrap d x - x) + (x - y)) by ring.
rewrite Z.add_mod by lia. rewrite Hx, H. reflexivity.
Qed.

Lemma wrap_idem d z : is_intkind d = true -> wrap d (wrap d z) = wrap d z.
Proof. intros Hk. apply wrap_in_range; [exact Hk | apply wrap_range; exact Hk]. Qed.

Lemma sub_mod0_mul m a b c : 0 < m -> (a - b) mod m = 0 -> (a * c - b * c) mod m = 0.
Proof.
intros Hm H. replace (a * c - b * c) with ((a - b) * c) by ring.
rewrite Z.mul_mod by lia. rewrite H. reflexivity.
Qed.

(* + - * commute with wrap: fixed-width arithmetic is exact arithmetic followed by the wrap *)
Lemma wrap_hom op d x y :
  is_intkind d = true -> wrap d (zop op (wrap d x) (wrap d y)) = wrap d (zop op x y).
Proof.
intros Hk. apply wrap_mod_eq; [exact Hk|].
pose proof (wrap_congr d x Hk) as Hx. pose proof (wrap_congr d y Hk) as Hy.
pose proof (modulus_pos d) as Hm.
destruct op; simpl.
- replace (wrap d x + wrap d y - (x + y)) with ((wrap d x - x) + (wrap d y - y)) by ring.
  rewrite Z.add_mod by lia. rewrite Hx, Hy. reflexivity.
- replace (wrap d x - wrap d y - (x - y)) with ((wrap d x - x) - (wrap d y - y)) by ring.
  rewrite Zminus_mod. rewrite Hx, Hy. reflexivity.
- replace (wrap d x * wrap d y - x * y) with ((wrap d x * wrap d y - x * wrap d y) + (x * wrap d y - x * y)) by ring.
  rewrite Z.add_mod by lia.
  rewrite (sub_mod0_mul (modulus d) (wrap d x) x (wrap d y) Hm Hx).
  replace (x * wrap d y - x * y) with (wrap d y * x - y * x) by ring.
  rewrite (sub_mod0_mul (modulus d) (wrap d y) y x Hm Hy). reflexivity.
Qed.

(* ---- casts -------------------------------------------------------------------------------- *)
Lemma cast_int d z : is_intkind d = true -> cast d (VZ z) = VZ (wrap d z).
Proof. destruct d; try discriminate; reflexivity. Qed.

Lemma cast_int_c d re im : is_intkind d = true -> cast d (VC re im) = VZ (wrap d re).
Proof. destruct d; try discriminate; reflexivity. Qed.

Lemma truth_idem z : truth (truth z) = truth z.
Proof. unfold truth; destruct (Z.eqb_spec z 0); reflexivity. Qed.

Ltac range_hyp H :=
  cbv [representable kind_of int_lo int_hi width fexact prec] in H; consts;
  rewrite ?andb_true_iff, ?Z.leb_le, ?Z.ltb_lt in H.

Ltac abs_true :=
  repeat match goal with
  | |- context [Z.abs ?x <=? ?c] => replace (Z.abs x <=? c) with true by (symmetry; apply Z.leb_le; lia)
  end.

Ltac bool_goal :=
  cbv beta iota; rewrite ?andb_true_iff, ?Z.leb_le, ?Z.ltb_lt, ?Z.eqb_eq; repeat split; try reflexivity; try lia.

(* a value the dtype can hold is left alone *)
Lemma cast_id d v : representable d v = true -> cast d v = v.
Proof.
intros H; destruct d; destruct v; try discriminate H; range_hyp H;
  cbv [cast kind_of wrap truth width fexact prec]; consts; abs_true; cbv beta iota;
  try reflexivity; try (f_equal; lia).
- destruct (Z.eqb_spec z 0); f_equal; lia.
Qed.

Lemma fexact_0 d : fexact d 0 = true.
Proof. destruct d; reflexivity. Qed.

Lemma cast_idem d v : cast d (cast d v) = cast d v.
Proof.
destruct v as [z|re im| |]; try (destruct d; reflexivity).
- destruct (kind_of d) eqn:K.
  + destruct d; try discriminate K. cbv [cast kind_of]. now rewrite truth_idem.
  + assert (Hk : is_intkind d = true) by (unfold is_intkind; now rewrite K).
    rewrite !cast_int by exact Hk. now rewrite wrap_idem.
  + assert (Hk : is_intkind d = true) by (unfold is_intkind; now rewrite K).
    rewrite !cast_int by exact Hk. now rewrite wrap_idem.
  + unfold cast; rewrite K. destruct (fexact d z) eqn:E; cbv beta iota; rewrite ?E; reflexivity.
  + unfold cast; rewrite K. destruct (fexact d z) eqn:E; cbv beta iota; rewrite ?E, ?fexact_0; reflexivity.
- destruct (kind_of d) eqn:K.
  + destruct d; try discriminate K. cbv [cast kind_of]. destruct ((re =? 0) && (im =? 0)); reflexivity.
  + assert (Hk : is_intkind d = true) by (unfold is_intkind; now rewrite K).
    rewrite !cast_int_c, cast_int by exact Hk. now rewrite wrap_idem.
  + assert (Hk : is_intkind d = true) by (unfold is_intkind; now rewrite K).
    rewrite !cast_int_c, cast_int by exact Hk. now rewrite wrap_idem.
  + unfold cast; rewrite K. destruct (fexact d re) eqn:E; cbv beta iota; rewrite ?E; reflexivity.
  + unfold cast; rewrite K. destruct (fexact d re && fexact d im) eqn:E; cbv beta iota; rewrite ?E; reflexivity.
Qed.

(* the result of an integer cast is the unique value of the dtype's range congruent to the
   source modulo 2^width *)
Lemma cast_wrap_spec d z :
  is_intkind d = true ->
  exists r, cast d (VZ z) = VZ r /\ int_lo d <= r < int_hi d /\ (r - z) mod 2 ^ width d = 0 /\
            forall r', int_lo d <= r' < int_hi d -> (r' - z) mod 2 ^ width d = 0 -> r' = r.
Proof.
intros Hk. exists (wrap d z). split; [apply cast_int; exact Hk|].
split; [apply wrap_range; exact Hk|]. split; [apply (wrap_congr d z Hk)|].
intros r' Hr Hc. apply wrap_unique; assumption.
Qed.

(* casting to bool asks "non-zero?" *)
Lemma cast_bool_spec z : cast B8 (VZ z) = VZ (if z =? 0 then 0 else 1).
Proof. reflexivity. Qed.

(* a cast result is always a value of the dtype (or one of the two tokens) *)
Lemma cast_representable d v :
  match cast d v with Inexact | Garbage => True | w => representable d w = true end.
Proof.
destruct v as [z|re im| |]; try (destruct d; exact I).
- destruct d; cbv [cast representable kind_of wrap truth int_lo int_hi width fexact prec]; consts;
    try (destruct (Z.eqb_spec z 0); reflexivity);
    try (destruct (Z.abs z <=? _) eqn:E; [rewrite ?E; reflexivity | exact I]);
    bool_goal.
- destruct d; cbv [cast representable kind_of wrap truth int_lo int_hi width fexact prec]; consts;
    try (destruct ((re =? 0) && (im =? 0)); reflexivity);
    try (destruct (Z.abs re <=? _) eqn:E; [rewrite ?E; reflexivity | exact I]);
    try (destruct ((Z.abs re <=? _) && (Z.abs im <=? _)) eqn:E; [exact E | exact I]);
    bool_goal.
Qed.

(* promotion loses nothing, except 64-bit integers sent to a float / complex result *)
Definition lossless_ok (d1 d2 : dtype) : bool :=
  negb (is_intkind d1 && (width d1 =? 64) && is_inexact (promote d1 d2)).

Lemma cast_lossless d1 d2 v :
  representable d1 v = true -> lossless_ok d1 d2 = true ->
  representable (promote d1 d2) (cast (promote d1 d2) v) = true /\
  same_number (cast (promote d1 d2) v) v = true.
Proof.
intros H L; destruct d1, d2; try discriminate L;
  match goal with |- context [promote ?a ?b] =>
    let P := eval vm_compute in (promote a b) in change (promote a b) with P end;
  destruct v; try discriminate H; range_hyp H;
  cbv [cast representable same_number to_cplx kind_of wrap truth int_lo int_hi width fexact prec]; consts;
  repeat (progress (abs_true; rewrite ?andb_true_l; cbv beta iota));
  try (destruct (Z.eqb_spec z 0); bool_goal; fail);
  bool_goal.
Qed.

(* ... and that exception is real: int64 with uint64 gives float64, which cannot hold 2^53+1 *)
Lemma cast_lossless_fails :
  representable I64 (VZ (2 ^ 53 + 1)) = true /\ promote I64 U64 = F64 /\
  cast (promote I64 U64) (VZ (2 ^ 53 + 1)) = Inexact.
Proof. vm_compute. repeat split. Qed.

(* ---- arithmetic in a fixed dtype ---------------------------------------------------------- *)
(* integers: for ALL operands the result is the exact result wrapped into the dtype *)
Lemma arith_int op d x y :
  is_intkind d = true -> arith op d (VZ x) (VZ y) = Some (VZ (wrap d (zop op x y))).
Proof.
intros Hk. assert (K : kind_of d = KInt \/ kind_of d = KUInt)
  by (unfold is_intkind in Hk; destruct (kind_of d); try discriminate Hk; tauto).
unfold arith. rewrite !cast_int by exact Hk.
assert (E : exact_op op (VZ (wrap d x)) (VZ (wrap d y)) = VZ (zop op (wrap d x) (wrap d y))) by reflexivity.
destruct K as [K|K]; rewrite K; destruct op; rewrite E, cast_int by exact Hk; now rewrite wrap_hom.
Qed.

(* ... hence exact whenever the exact result fits *)
Lemma arith_exact op d x y :
  is_intkind d = true -> int_lo d <= zop op x y < int_hi d ->
  arith op d (VZ x) (VZ y) = Some (VZ (zop op x y)).
Proof. intros Hk Hr. rewrite arith_int by exact Hk. now rewrite wrap_in_range. Qed.

(* floats: exact while operands and result stay inside the exactly representable integers *)
Lemma arith_float op d x y :
  kind_of d = KFloat -> fexact d x = true -> fexact d y = true ->
  arith op d (VZ x) (VZ y) = Some (if fexact d (zop op x y) then VZ (zop op x y) else Inexact).
Proof.
intros K Hx Hy. unfold arith, cast. rewrite K, Hx, Hy. destruct op; reflexivity.
Qed.

Lemma arith_complex_addsub op d a b c e :
  kind_of d = KComplex -> op <> Mul ->
  fexact d a = true -> fexact d b = true -> fexact d c = true -> fexact d e = true ->
  arith op d (VC a b) (VC c e)
  = Some (match op with
          | Add => if fexact d (a + c) && fexact d (b + e) then VC (a + c) (b + e) else Inexact
          | _ => if fexact d (a - c) && fexact d (b - e) then VC (a - c) (b - e) else Inexact
          end).
Proof.
intros K Hop Ha Hb Hc He. unfold arith, cast. rewrite K, Ha, Hb, Hc, He.
destruct op; try congruence; reflexivity.
Qed.

Lemma arith_complex_mul d a b c e :
  kind_of d = KComplex ->
  fexact d a = true -> fexact d b = true -> fexact d c = true -> fexact d e = true ->
  fexact d (a * c) = true -> fexact d (b * e) = true -> fexact d (a * e) = true -> fexact d (b * c) = true ->
  arith Mul d (VC a b) (VC c e)
  = Some (if fexact d (a * c - b * e) && fexact d (a * e + b * c) then VC (a * c - b * e) (a * e + b * c) else Inexact).
Proof.
intros K Ha Hb Hc He H1 H2 H3 H4. unfold arith, cast. rewrite K, Ha, Hb, Hc, He. simpl.
unfold mul_parts_exact. rewrite H1, H2, H3, H4. simpl. rewrite ?K. reflexivity.
Qed.

(* bool: + is "or", * is "and", - is refused *)
Lemma arith_bool x y :
  arith Add B8 (VZ x) (VZ y) = Some (VZ (if (x =? 0) && (y =? 0) then 0 else 1)) /\
  arith Mul B8 (VZ x) (VZ y) = Some (VZ (if (x =? 0) || (y =? 0) then 0 else 1)) /\
  arith Sub B8 (VZ x) (VZ y) = None.
Proof.
cbv [arith cast kind_of exact_op zop truth].
destruct (Z.eqb_spec x 0), (Z.eqb_spec y 0); repeat split.
Qed.

Lemma cast_token d : cast d Inexact = Inexact /\ cast d Garbage = Garbage.
Proof. destruct d; split; reflexivity. Qed.

(* what arithmetic returns is a value of the dtype: casting it again changes nothing *)
Lemma arith_stable op d x y v : arith op d x y = Some v -> cast d v = v.
Proof.
unfold arith. destruct (kind_of d) eqn:K, op; intros E; try discriminate E;
  try (injection E as <-; apply cast_idem).
destruct (mul_parts_exact d (cast d x) (cast d y)); injection E as <-; [apply cast_idem|].
destruct (exact_op Mul (cast d x) (cast d y)); apply cast_token.
Qed.

Lemma arith_v_stable op d x y : cast d (arith_v op d x y) = arith_v op d x y.
Proof.
unfold arith_v. destruct (arith op d x y) eqn:E; [eapply arith_stable; exact E | apply cast_token].
Qed.

Lemma arith_v_some op d x y : refuses op d = false -> arith op d x y = Some (arith_v op d x y).
Proof.
unfold arith_v, arith, refuses. destruct (kind_of d), op; intros H; try discriminate H; try reflexivity.
destruct (mul_parts_exact d (cast d x) (cast d y)); reflexivity.
Qed.

Lemma zero_stable d : cast d (zero d) = zero d.
Proof. apply cast_idem. Qed.

(* ---- the write paths with the defect switches off ------------------------------------------ *)
Lemma write_fixed fd src v old : write fixed fd src v old = Val fd (cast fd v).
Proof.
unfold write; simpl. destruct (kernel_dtype fd); [now rewrite dtype_eqb_refl | now rewrite cast_idem].
Qed.

Lemma mwrite_fixed fd v old : mwrite fixed fd v old = Val fd (cast fd v).
Proof. unfold mwrite; simpl. destruct (kernel_dtype fd); reflexivity. Qed.

Lemma maccum_fixed fd v old : maccum fixed fd v old = Val fd (arith_v Add fd (read fd old) v).
Proof. unfold maccum; simpl. now rewrite orb_true_r. Qed.

Lemma map2_repeat {A B C} (f : A -> B -> C) l c :
  map2 f l (repeat c (length l)) = map (fun a => f a c) l.
Proof. induction l as [|a l IH]; simpl; [reflexivity | now rewrite IH]. Qed.

Lemma map2_map {A A' B B' C} (f : A' -> B' -> C) (g : A -> A') (h : B -> B') l1 l2 :
  map2 f (map g l1) (map h l2) = map2 (fun a b => f (g a) (h b)) l1 l2.
Proof.
revert l2; induction l1 as [|a l1 IH]; intros [|b l2]; simpl; try reflexivity. now rewrite IH.
Qed.

Lemma map_map2 {A B C D} (g : C -> D) (f : A -> B -> C) l1 l2 :
  map g (map2 f l1 l2) = map2 (fun a b => g (f a b)) l1 l2.
Proof.
revert l2; induction l1 as [|a l1 IH]; intros [|b l2]; simpl; try reflexivity. now rewrite IH.
Qed.

Lemma map2_ext {A B C} (f g : A -> B -> C) l1 l2 :
  (forall a b, f a b = g a b) -> map2 f l1 l2 = map2 g l1 l2.
Proof.
intros H; revert l2; induction l1 as [|a l1 IH]; intros [|b l2]; simpl; try reflexivity.
now rewrite H, IH.
Qed.

Lemma set_values_fresh fd src vs :
  set_values fixed fd src vs (fresh (length vs)) = map (fun v => Val fd (cast fd v)) vs.
Proof.
unfold set_values, fresh. rewrite map2_repeat. apply map_ext; intros v; apply write_fixed.
Qed.

Lemma existsb_false {A} (l : list A) : existsb (fun _ => false) l = false.
Proof. induction l; simpl; auto. Qed.

Definition arg_dtype (darg : option dtype) (dflt : dtype) : dtype :=
  match darg with Some d => d | None => dflt end.

(* from_attributes: every cell is the cast of its source coefficient, in the chosen dtype *)
Lemma from_attributes_fixed darg nk s0 v0 rest :
  let d := arg_dtype darg (common_dtype s0 (map fst rest)) in
  from_attributes fixed darg nk ((s0, v0) :: rest)
  = mkP d (map (fun sv => map (fun v => Val d (cast d v)) (snd sv)) ((s0, v0) :: rest)) false.
Proof.
unfold from_attributes, arg_dtype. f_equal.
- apply map_ext; intros [s vs]; simpl. apply set_values_fresh.
- unfold overruns; simpl. apply existsb_false.
Qed.

(* the empty coefficient list: one zero per exponent row *)
Lemma from_attributes_empty_fixed darg nk :
  from_attributes fixed darg nk [] = mkP (arg_dtype darg I64) (repeat [Val (arg_dtype darg I64) (zero (arg_dtype darg I64))] nk) false.
Proof.
unfold from_attributes, arg_dtype. cbn [q_empty_unwritten fixed]. unfold set_values, fresh. cbn [repeat map2].
rewrite write_fixed, zero_stable. reflexivity.
Qed.

(* ---- no unwritten cell --------------------------------------------------------------------- *)
Definition cell_ok (d : dtype) (c : cell) : Prop := exists v, c = Val d v.
Definition all_val (p : poly) : Prop := Forall (Forall (cell_ok (p_dtype p))) (p_cols p).

Lemma from_attributes_all_val darg nk coeffs : all_val (from_attributes fixed darg nk coeffs).
Proof.
destruct coeffs as [|[s0 v0] rest].
- rewrite from_attributes_empty_fixed. unfold all_val; simpl.
  apply Forall_forall; intros c Hc. apply repeat_spec in Hc; subst c.
  constructor; [eexists; reflexivity | constructor].
- rewrite from_attributes_fixed. unfold all_val; cbn [p_dtype p_cols].
  apply Forall_forall; intros c Hc. apply in_map_iff in Hc as [sv [<- _]].
  apply Forall_forall; intros x Hx. apply in_map_iff in Hx as [v [<- _]]. eexists; reflexivity.
Qed.

Lemma from_attributes_unclobbered darg nk coeffs : p_clobbered (from_attributes fixed darg nk coeffs) = false.
Proof.
destruct coeffs as [|[s0 v0] rest]; [now rewrite from_attributes_empty_fixed | now rewrite from_attributes_fixed].
Qed.

Lemma or_clob_all_val b p : all_val p -> all_val (or_clob b p).
Proof. intros H; exact H. Qed.

Ltac fa_val := apply or_clob_all_val; apply from_attributes_all_val.

(* Every cell of every buffer the model's paths return is a written cell of the result dtype —
   for ANY input polynomial (even one that itself holds unwritten cells) and any arguments. *)
Theorem no_unwritten :
  (forall darg nk coeffs, all_val (from_attributes fixed darg nk coeffs)) /\
  (forall s darg cols, all_val (construct fixed s darg cols)) /\
  (forall darg p, all_val (rebuild fixed darg p)) /\
  (forall p, all_val (clean fixed p)) /\
  (forall p, all_val (realign fixed p)) /\
  (forall d p, all_val (astype fixed d p)) /\
  (forall via ix p, all_val (reindex fixed via ix p)) /\
  (forall op b1 b2 p1 p2 r, dispatch2 fixed op b1 b2 p1 p2 = Some r -> all_val r) /\
  (forall sel p1 p2, all_val (select2 fixed sel p1 p2)) /\
  (forall n keys p1 p2, all_val (multiply fixed n keys p1 p2)) /\
  (forall n e p, all_val (power1 fixed n e p)) /\
  (forall groups p, all_val (sum_groups fixed groups p)) /\
  (forall re p d cols, all_val (derived fixed re p d cols)).
Proof.
repeat split; intros.
- apply from_attributes_all_val.
- apply from_attributes_all_val.
- unfold rebuild; fa_val.
- unfold clean, rebuild; fa_val.
- unfold realign; fa_val.
- unfold astype; fa_val.
- unfold reindex; fa_val.
- unfold dispatch2 in H. destruct (refuses _ _); [discriminate H|]. injection H as <-.
  apply or_clob_all_val. unfold clean, rebuild; fa_val.
- unfold select2; fa_val.
- unfold multiply; apply or_clob_all_val. unfold clean, rebuild; fa_val.
- unfold power1, rebuild; fa_val.
- unfold sum_groups; apply or_clob_all_val. unfold clean, rebuild; fa_val.
- unfold derived; apply or_clob_all_val. unfold clean, rebuild; fa_val.
Qed.

(* ---- values: closed forms for correctly built operands ------------------------------------- *)
Lemma common_dtype_same d0 (cols : list (list value)) : common_dtype d0 (map fst (map (fun c => (d0, c)) cols)) = d0.
Proof.
unfold common_dtype. induction cols as [|c cols IH]; [reflexivity|]. cbn [map fst fold_left]. now rewrite promote_idem.
Qed.

Lemma fa_cols darg nk d0 (cols : list (list value)) :
  cols <> [] ->
  from_attributes fixed darg nk (map (fun c => (d0, c)) cols)
  = mkP (arg_dtype darg d0) (map (map (fun v => Val (arg_dtype darg d0) (cast (arg_dtype darg d0) v))) cols) false.
Proof.
destruct cols as [|c cols]; [congruence|]; intros _. cbn [map]. rewrite from_attributes_fixed.
cbv zeta. rewrite common_dtype_same.
f_equal. cbn [map snd]. f_equal. now rewrite map_map.
Qed.

Lemma map_nonnil {A B} (f : A -> B) l : l <> [] -> map f l <> [].
Proof. destruct l; [congruence | discriminate]. Qed.

Lemma coefficients_fixed p :
  coefficients fixed p = map (fun c => (p_dtype p, c)) (map (map (read (p_dtype p))) (p_cols p)).
Proof. unfold coefficients; simpl. rewrite andb_false_r. now rewrite map_map. Qed.

Lemma read_good s (c : list value) : map (read s) (map (fun v => Val s (cast s v)) c) = map (cast s) c.
Proof. rewrite map_map. reflexivity. Qed.

Lemma or_clob_false p : or_clob false p = p.
Proof. destruct p; reflexivity. Qed.

(* polynomial(data of dtype s, dtype=darg): numpy's cast of the data *)
Theorem construct_fixed s darg cols :
  cols <> [] ->
  construct fixed s darg cols
  = mkP (arg_dtype darg s) (map (map (fun v => Val (arg_dtype darg s) (cast (arg_dtype darg s) (cast s v)))) cols) false.
Proof.
intros H. unfold construct.
replace (map (fun c => (s, map (cast s) c)) cols) with (map (fun c => (s, c)) (map (map (cast s)) cols))
  by now rewrite map_map.
rewrite fa_cols by (apply map_nonnil; exact H). f_equal. rewrite map_map. apply map_ext; intros c. now rewrite map_map.
Qed.

(* from_attributes on a polynomial's own attributes (polynomial(p, dtype=), clean_attributes, ...) *)
Theorem rebuild_fixed darg s cols :
  cols <> [] ->
  rebuild fixed darg (good s cols)
  = mkP (arg_dtype darg s) (map (map (fun v => Val (arg_dtype darg s) (cast (arg_dtype darg s) (cast s v)))) cols) false.
Proof.
intros H. unfold rebuild. rewrite coefficients_fixed. unfold good; cbn [p_dtype p_cols p_clobbered].
rewrite fa_cols by (do 2 apply map_nonnil; exact H). rewrite or_clob_false. f_equal.
rewrite !map_map. apply map_ext; intros c. rewrite read_good. now rewrite map_map.
Qed.

Theorem realign_good s cols : cols <> [] -> realign fixed (good s cols) = good s cols.
Proof.
intros H. unfold realign, good; cbn [p_dtype p_cols p_clobbered].
replace (map (fun c => (s, map (read s) c)) (map (map (fun v => Val s (cast s v))) cols))
  with (map (fun c => (s, c)) (map (map (cast s)) cols))
  by (rewrite !map_map; apply map_ext; intros c; now rewrite read_good).
rewrite fa_cols by (apply map_nonnil; exact H). rewrite or_clob_false. unfold arg_dtype. f_equal.
rewrite map_map. apply map_ext; intros c. rewrite map_map. apply map_ext; intros v. now rewrite cast_idem.
Qed.

(* astype: exactly numpy's cast of the stored values *)
Theorem astype_fixed d s cols :
  cols <> [] ->
  astype fixed d (good s cols) = mkP d (map (map (fun v => Val d (cast d (cast s v)))) cols) false.
Proof.
intros H. unfold astype. rewrite coefficients_fixed. unfold good; cbn [p_dtype p_cols p_clobbered].
rewrite map_map. cbn [snd].
replace (map (fun x => (d, map (cast d) x)) (map (map (read s)) (map (map (fun v => Val s (cast s v))) cols)))
  with (map (fun c => (d, c)) (map (map (fun v => cast d (cast s v))) cols))
  by (rewrite !map_map; apply map_ext; intros c; rewrite read_good; now rewrite map_map).
rewrite fa_cols by (apply map_nonnil; exact H). rewrite or_clob_false. unfold arg_dtype. f_equal.
rewrite map_map. apply map_ext; intros c. rewrite map_map. apply map_ext; intros v. now rewrite cast_idem.
Qed.

(* indexing / shape functions: element j of the result is the (re-cast) element ix[j] *)
Theorem reindex_fixed via ix s cols :
  cols <> [] ->
  reindex fixed via ix (good s cols)
  = mkP s (map (fun c => map (fun i => Val s (cast s (nth i (map (cast s) c) Garbage))) ix) cols) false.
Proof.
intros H. unfold reindex.
assert (E : (if via then coefficients fixed (good s cols)
             else map (fun c => (p_dtype (good s cols), map (read (p_dtype (good s cols))) c)) (p_cols (good s cols)))
            = map (fun c => (s, c)) (map (map (cast s)) cols)).
{ destruct via; [rewrite coefficients_fixed|]; unfold good; cbn [p_dtype p_cols];
    rewrite !map_map; apply map_ext; intros c; now rewrite read_good. }
rewrite E. rewrite map_map. cbn [fst snd].
replace (map (fun x => (s, gather Garbage ix x)) (map (map (cast s)) cols))
  with (map (fun c => (s, c)) (map (fun c => gather Garbage ix (map (cast s) c)) cols))
  by (rewrite !map_map; reflexivity).
rewrite fa_cols by (apply map_nonnil; exact H). unfold good; cbn [p_clobbered]. rewrite or_clob_false.
unfold arg_dtype. f_equal. rewrite map_map. apply map_ext; intros c. unfold gather. now rewrite map_map.
Qed.

(* + and - between dtypes: numpy's arithmetic in the promoted dtype on the stored values *)
Theorem dispatch2_fixed op d1 d2 cs1 cs2 :
  cs1 <> [] -> cs2 <> [] ->
  dispatch2 fixed op false false (good d1 cs1) (good d2 cs2)
  = if refuses op (promote d1 d2) then None
    else Some (mkP (promote d1 d2)
                 (map2 (map2 (fun x y => Val (promote d1 d2) (arith_v op (promote d1 d2) (cast d1 x) (cast d2 y)))) cs1 cs2)
                 false).
Proof.
intros H1 H2. unfold dispatch2, broadcasted. rewrite !realign_good by assumption.
unfold good at 1 2; cbn [p_dtype]. destruct (refuses op (promote d1 d2)); [reflexivity|]. f_equal.
unfold good; cbn [p_cols p_clobbered p_dtype]. cbn [orb]. rewrite or_clob_false.
set (d := promote d1 d2).
unfold clean, rebuild. rewrite coefficients_fixed. cbn [p_dtype p_cols p_clobbered].
rewrite or_clob_false.
destruct cs1 as [|c1 cs1]; [congruence|]. destruct cs2 as [|c2 cs2]; [congruence|].
rewrite fa_cols by (cbn; discriminate). unfold arg_dtype. f_equal.
rewrite !map_map. rewrite map2_map. rewrite map_map2. apply map2_ext; intros a b.
unfold assigned. rewrite !map_map. rewrite map2_map. rewrite map_map2. apply map2_ext; intros x y.
cbn [read]. now rewrite !arith_v_stable.
Qed.

(* one product column: the first product is set, the following ones are accumulated by numpy's + *)
Definition prod_of (d : dtype) (p1 p2 : poly) (ij : nat * nat) : list value :=
  product d (p_dtype p1) (p_dtype p2) (nth (fst ij) (p_cols p1) []) (nth (snd ij) (p_cols p2) []).

Lemma mul_column_fixed d p1 p2 n ij rest :
  length (prod_of d p1 p2 ij) = n ->
  mul_column fixed d p1 p2 n (ij :: rest)
  = map (Val d) (fold_left (fun acc ij' => map2 (fun v a => arith_v Add d a v) (prod_of d p1 p2 ij') acc) rest
                           (map (cast d) (prod_of d p1 p2 ij))).
Proof.
intros Hn.
change (mul_column fixed d p1 p2 n (ij :: rest))
  with (fold_left (fun c ij' => add_values fixed d (prod_of d p1 p2 ij') c) rest
                  (mset_values fixed d (prod_of d p1 p2 ij) (fresh n))).
assert (E0 : mset_values fixed d (prod_of d p1 p2 ij) (fresh n) = map (Val d) (map (cast d) (prod_of d p1 p2 ij))).
{ unfold mset_values, fresh. rewrite <- Hn, map2_repeat, map_map. apply map_ext; intros v. apply mwrite_fixed. }
rewrite E0. generalize (map (cast d) (prod_of d p1 p2 ij)) as acc. induction rest as [|kl rest IH]; intros acc; [reflexivity|].
cbn [fold_left]. rewrite <- IH. f_equal.
unfold add_values. rewrite <- (map_id (prod_of d p1 p2 kl)) at 1. rewrite map2_map, map_map2. apply map2_ext; intros v a.
now rewrite maccum_fixed.
Qed.

(* Python scalars: with the switch off the scalar takes numpy's weak result dtype, and an integer
   that does not fit is refused (OverflowError) *)
Lemma scalar_dtype_fixed d k z :
  scalar_dtype fixed d k z
  = if is_intkind (promote_weak d k) && negb (representable (promote_weak d k) (scalar_value k z)) then None
    else Some (promote_weak d k).
Proof. reflexivity. Qed.

Lemma scalar_result_dtype d k z sd :
  scalar_dtype fixed d k z = Some sd -> promote d sd = promote_weak d k.
Proof.
rewrite scalar_dtype_fixed. destruct (_ && _); [discriminate|]. intros [= <-]. apply promote_weak_absorb.
Qed.

(* broadcasting keeps the dtype *)
Lemma bcast_dtype_fixed b d : bcast_dtype fixed b d = d.
Proof. unfold bcast_dtype; simpl. now rewrite andb_false_r. Qed.

(* ---- the switches describe real defects: witnesses ----------------------------------------- *)
Definition only (n : nat) : quirks :=
  mkQ (Nat.eqb n 0) (Nat.eqb n 1) (Nat.eqb n 2) (Nat.eqb n 3) (Nat.eqb n 4) (Nat.eqb n 5) (Nat.eqb n 6).

Lemma refuted_kernel_only :
  p_cols (from_attributes (only 1) None 1 [(I32, [VZ 1; VZ 2; VZ 3])]) = [[Unwritten; Unwritten; Unwritten]] /\
  p_cols (from_attributes shipped None 1 [(I32, [VZ 1; VZ 2; VZ 3])]) = [[Unwritten; Unwritten; Unwritten]].
Proof. split; reflexivity. Qed.

Lemma refuted_no_cast :
  from_attributes (only 0) (Some F64) 1 [(I64, [VZ 3])] = mkP F64 [[Raw I64 (VZ 3)]] false /\
  observe F64 (Raw I64 (VZ 3)) = OAny /\
  p_clobbered (from_attributes (only 0) (Some I8) 1 [(I64, [VZ 1; VZ 2])]) = true.
Proof. repeat split. Qed.

Lemma refuted_mul_kernel_only :
  (* the product cell is never written; the final clean copies whatever the buffer held *)
  p_cols (multiply (only 2) 1 [[(0%nat, 0%nat)]] (good I32 [[VZ 2]]) (good I32 [[VZ 3]])) = [[Val I32 Garbage]] /\
  mul_column (only 2) I32 (good I32 [[VZ 2]]) (good I32 [[VZ 3]]) 1 [(0%nat, 0%nat)] = [Unwritten] /\
  p_cols (multiply fixed 1 [[(0%nat, 0%nat)]] (good I32 [[VZ 2]]) (good I32 [[VZ 3]])) = [[Val I32 (VZ 6)]].
Proof. repeat split; vm_compute; reflexivity. Qed.

Lemma refuted_empty_unwritten :
  from_attributes (only 3) None 1 [] = mkP I64 [[Unwritten]] false /\
  from_attributes fixed None 1 [] = mkP I64 [[Val I64 (VZ 0)]] false.
Proof. split; reflexivity. Qed.

(* a zero-size array (no cells) comes back as a scalar (one cell) *)
Lemma refuted_size0_scalar :
  p_cols (clean (only 4) (good F64 [[]])) = [[Val F64 (VZ 0)]] /\
  p_cols (clean shipped (good F64 [[]])) = [[Unwritten]] /\
  p_cols (clean fixed (good F64 [[]])) = [[]].
Proof. repeat split; vm_compute; reflexivity. Qed.

Lemma refuted_bcast_int :
  option_map p_dtype (dispatch2 (only 5) Add true false (good U32 [[VZ 5; VZ 5]]) (good U32 [[VZ 1; VZ 2]])) = Some I64 /\
  option_map p_dtype (dispatch2 fixed Add true false (good U32 [[VZ 5; VZ 5]]) (good U32 [[VZ 1; VZ 2]])) = Some U32.
Proof. split; vm_compute; reflexivity. Qed.

Lemma refuted_strong_scalars :
  scalar_dtype (only 6) U32 PyInt 1 = Some I64 /\ scalar_dtype fixed U32 PyInt 1 = Some U32 /\
  scalar_dtype (only 6) U8 PyInt 300 = Some I64 /\ scalar_dtype fixed U8 PyInt 300 = None.
Proof. repeat split. Qed.
