(* EvalP.v — calling a polynomial array with numeric arguments evaluates every element (C02). *)
From mathcomp Require Import all_ssreflect all_algebra.
From SsrMultinomials Require Import mpoly.
From NP Require Import Base Poly Query Eval Abs Align QueryP.
Set Implicit Arguments. Unset Strict Implicit. Unset Printing Implicit Defensive.
Import GRing.Theory.
Local Open Scope ring_scope.

Section EvalP.
Variable (n : nat) (R : comRingType).
Implicit Types (p : parr R) (bound : seq (carg R)).

Definition dflt_arg : carg R := ANum [::] [::].

(* the point at which element j of the broadcast arguments evaluates the polynomial *)
Definition point (ns : seq nat) bound (s : seq nat) (j : nat) : 'I_n -> R :=
  fun v => num_at s (nth dflt_arg bound (index (nat_of_ord v) ns)) j.

Lemma prod_over_names (ns : seq nat) (r : seq nat) (f : nat -> R) :
  uniq ns -> all (fun v => v < n)%N ns -> size r = size ns ->
  \prod_(i < n) f i ^+ expo ns r i = \prod_(v <- ns) f v ^+ expo ns r v.
Proof.
move=> un lt sr.
rewrite -(big_mkord xpredT (fun v => f v ^+ expo ns r v)) /index_iota subn0.
rewrite (bigID (mem ns)) /= [X in _ * X]big1 ?mulr1; last first.
  by move=> v vn; rewrite /expo nth_default ?expr0 // sr leqNgt index_mem.
rewrite -big_filter; apply: perm_big; apply: uniq_perm; rewrite ?filter_uniq ?iota_uniq // => v.
rewrite mem_filter mem_iota add0n /=; case vin: (v \in ns) => //=.
by rewrite (allP lt).
Qed.

Lemma prod_zip_names (ns r : seq nat) bound s j :
  uniq ns -> size r = size ns -> size bound = size ns ->
  foldr *%R 1 [seq num_at s ea.2 j ^+ ea.1 | ea <- zip r bound]
  = \prod_(v <- ns) num_at s (nth dflt_arg bound (index v ns)) j ^+ expo ns r v.
Proof.
move=> un sr sb; rewrite foldrE big_map.
rewrite (big_nth (0%N, dflt_arg)) [RHS](big_nth 0%N) size_zip sr sb minnn.
rewrite big_nat_cond [RHS]big_nat_cond; apply: eq_bigr => k; rewrite andbT => /andP[_ lt].
by rewrite nth_zip ?sr ?sb //= /expo index_uniq.
Qed.

Lemma meval_absT ns p' i (t : term R) (nu : 'I_n -> R) :
  (absT n ns i t).@[nu] = nth 0 t.2 i * \prod_(v < n) nu v ^+ expo ns t.1 v.
Proof. by rewrite /absT mevalZ mevalX; congr (_ * _); apply: eq_bigr => v _; rewrite mnmE. Qed.

Theorem call_numeric_spec p bound s :
  wfb p -> all (fun v => v < n)%N (names p) -> size bound = size (names p) ->
  bshapes [seq arg_shape a | a <- bound] = Some s ->
  exists2 vals, call_numeric p bound = Ok (shape p ++ s, vals) &
    forall i j, (i < psize p)%N -> (j < prodn s)%N ->
      nth 0 vals (i * prodn s + j) = (absE n p i).@[point (names p) bound s j].
Proof.
move=> wp ltn sb bs; rewrite /call_numeric bs; eexists; first by [].
move=> i j lti ltj; have [_ _ _ wid [_ _ un]] := wfbP wp.
rewrite nth_flatten_blocks //; last first.
  by apply/allP => b /mapP[i' _ ->]; rewrite size_map size_iota.
rewrite (nth_map 0%N) ?size_iota // nth_iota // add0n.
rewrite (nth_map 0%N) ?size_iota // nth_iota // add0n.
rewrite foldrE big_map /absE /absL raddf_sum /=.
rewrite big_seq_cond [RHS]big_seq_cond; apply: eq_bigr => t; rewrite andbT => tin.
have [rin _] := mem_zip tin.
have sr : size t.1 = size (names p) by apply/eqP; move/allP: wid; apply.
rewrite (meval_absT _ p) (@prod_zip_names (names p)) //; congr (_ * _).
by rewrite (@prod_over_names (names p) t.1
          (fun v => num_at s (nth dflt_arg bound (index v (names p))) j)).
Qed.

(* argument binding: unknown and doubly supplied names are rejected *)
Theorem bind_unknown ns args (kwargs : seq (nat * carg R)) :
  has (fun k => k \notin ns) (unzip1 kwargs) -> bind ns args kwargs = Err TypeError.
Proof. by rewrite /bind => h; case: ifP => // _; rewrite h. Qed.

Lemma has_zip_nth (A B : Type) (P : pred (A * B)) (d1 : A) (d2 : B) (xs : seq A) (ys : seq B) k :
  (k < size xs)%N -> (k < size ys)%N -> P (nth d1 xs k, nth d2 ys k) -> has P (zip xs ys).
Proof.
elim: xs ys k => [|x xs IH] [|y ys] [|k] //=; first by move=> _ _ ->.
by move=> lx ly pk; rewrite (IH _ _ lx ly pk) orbT.
Qed.

Theorem bind_double ns args (kwargs : seq (nat * carg R)) k :
  (k < size args)%N -> (k < size ns)%N -> nth 0%N ns k \in unzip1 kwargs ->
  bind ns args kwargs = Err TypeError.
Proof.
move=> la ln kin; rewrite /bind.
by rewrite (@has_zip_nth _ _ (fun an : option (carg R) * nat => an.2 \in unzip1 kwargs) None 0%N args ns k).
Qed.

Theorem bind_ok ns args (kwargs : seq (nat * carg R)) :
  ~~ has (fun an : option (carg R) * nat => an.2 \in unzip1 kwargs) (zip args ns) ->
  ~~ has (fun k => k \notin ns) (unzip1 kwargs) ->
  exists b, bind ns args kwargs = Ok b /\ size b = size ns.
Proof.
move=> /negbTE h1 /negbTE h2; rewrite /bind h1 h2; eexists; split; first by [].
by rewrite size_map.
Qed.

End EvalP.
