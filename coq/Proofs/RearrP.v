(* RearrP.v — both wrapper skeletons move whole polynomial elements, for EVERY index map (C09). *)
From mathcomp Require Import all_ssreflect all_algebra.
From SsrMultinomials Require Import mpoly.
From NP Require Import Base Poly Rearr Abs Clean Shape Align WfP MonomialP.
Set Implicit Arguments. Unset Strict Implicit. Unset Printing Implicit Defensive.
Import GRing.Theory.
Local Open Scope ring_scope.

Section RearrP.
Variable (n : nat) (R : comRingType).
Implicit Types (p q r : parr R) (ps : seq (parr R)) (o : opts).

(* what a slot of an index map denotes *)
Definition slot p (s : option nat) : {mpoly R[n]} := if s is Some i then absE n p i else 0.

Lemma size_ogather sigma (c : seq R) : size (ogather sigma c) = size sigma.
Proof. by rewrite /ogather size_map. Qed.

Lemma nth_ogather sigma (c : seq R) j : (j < size sigma)%N ->
  nth 0 (ogather sigma c) j = if nth None sigma j is Some i then nth 0 c i else 0.
Proof. by move=> lt; rewrite /ogather (nth_map None). Qed.

Lemma absL_ogather ns sigma j rs (cs : seq (seq R)) : (j < size sigma)%N ->
  absL n ns j (zip rs [seq ogather sigma c | c <- cs])
  = if nth None sigma j is Some i then absL n ns i (zip rs cs) else 0.
Proof.
move=> lt; elim: rs cs => [|r rs IH] [|c cs] /=; rewrite ?absL_nil; try by case: (nth _ _ _) => [i|]; rewrite ?absL_nil.
rewrite !absL_cons IH /absT /= nth_ogather //.
by case: (nth None sigma j) => [i|]; rewrite ?absL_cons // scale0r addr0.
Qed.

(* ---- M2: one re-arrangement applied to the whole storage -------------------------------- *)
Theorem prearr_spec o s sigma p r :
  wfb p -> prearr o s sigma p = Ok r ->
  [/\ wfb r, shape r = s &
      forall j, (j < prodn s)%N -> absE n r j = slot p (nth None sigma j)].
Proof.
move=> wp; rewrite /prearr; case: eqP => // ssz cl.
have [_ _ _ _ [_ npos _]] := wfbP wp.
have csz : all (fun c => size c == prodn s) [seq ogather sigma c | c <- cols p].
  by apply/allP => c /mapP[c' _ ->]; rewrite size_ogather ssz.
split; first exact: (from_attributes_wf csz npos cl).
  by case: (from_attributes_absE n 0 cl).
move=> j lt; case: (from_attributes_absE n j cl) => -> _.
by rewrite absL_ogather ?ssz.
Qed.

(* it never fails on a well-formed array and an index map of the right length *)
Theorem prearr_total o s sigma p :
  wfb p -> size sigma = prodn s -> exists r, prearr o s sigma p = Ok r.
Proof.
move=> wp ssz; rewrite /prearr ssz eqxx /= /clean /=.
have [srs rpos urs wid [_ _ un]] := wfbP wp.
by apply: from_attributes_total => //; rewrite size_map.
Qed.

(* indeterminate names: kept as they are when names are retained (the default), otherwise a
   sub-tuple of them (the denotation is the same either way, by prearr_spec) *)
Theorem prearr_names o s sigma p r :
  prearr o s sigma p = Ok r ->
  if o_retn o then names r = names p else exists m, names r = mask m (names p).
Proof.
rewrite /prearr; case: ifP => // _; rewrite /clean /from_attributes /=.
case: ifP => // _; case: [seq _ | c <- cols p] => [|c0 cs] //.
case: ifP => // _; case: ifP => // _.
case: (o_retn o) => /=; case: ifP => // _ [<-] //=.
by eexists.
Qed.

(* the identity map (reshape, ravel, flatten, expand_dims, atleast_1d..3d): same elements, new shape *)
Lemma nth_sigma_id m j : (j < m)%N -> nth None (sigma_id m) j = Some j.
Proof. by move=> lt; rewrite /sigma_id (nth_map 0%N) ?size_iota // nth_iota. Qed.

Corollary preshape_spec o s p r :
  wfb p -> prearr o s (sigma_id (psize p)) p = Ok r ->
  [/\ wfb r, shape r = s & forall j, (j < prodn s)%N -> absE n r j = absE n p j].
Proof.
move=> wp cl; have [wr sr er] := prearr_spec wp cl; split=> // j lt.
rewrite er //; move: cl; rewrite /prearr /sigma_id size_map size_iota; case: eqP => // e _.
by rewrite -/(sigma_id _) nth_sigma_id // e.
Qed.

(* broadcasting (broadcast_arrays, full, full_like): numpy's index rule, proved in Shape.v *)
Corollary pbroadcast_spec o t p r :
  wfb p -> prearr o t (sigma_bcast (shape p) t) p = Ok r ->
  [/\ wfb r, shape r = t & forall j, (j < prodn t)%N -> absE n r j = absE n p (bidx (shape p) t j)].
Proof.
move=> wp cl; have [wr sr er] := prearr_spec wp cl; split=> // j lt.
by rewrite er // /sigma_bcast (nth_map 0%N) ?size_iota // nth_iota.
Qed.

(* transpose with an axis permutation: the element at result multi-index ix is the input's
   element at the permuted multi-index *)
Corollary ptranspose_spec o perm p r :
  wfb p -> prearr o (perm_shape (shape p) perm) (sigma_transpose (shape p) perm) p = Ok r ->
  [/\ wfb r, shape r = perm_shape (shape p) perm &
      forall j, (j < prodn (perm_shape (shape p) perm))%N ->
        absE n r j = absE n p (ravel (shape p) (unperm perm (unravel (perm_shape (shape p) perm) j)))].
Proof.
move=> wp cl; have [wr sr er] := prearr_spec wp cl; split=> // j lt.
by rewrite er // /sigma_transpose (nth_map 0%N) ?size_iota // nth_iota.
Qed.

(* ---- M1: align the exponents of all operands, then join column by column --------------------- *)
Theorem pjoin_spec o s tau ps r :
  all (@wfb R) ps -> pjoin o s tau ps = Ok r ->
  [/\ wfb r, shape r = s &
      forall j, (j < prodn s)%N ->
        absE n r j = absE n (nth (pnil R) ps (nth (0%N, 0%N) tau j).1) (nth (0%N, 0%N) tau j).2].
Proof.
move=> wps; rewrite /pjoin; case: ps wps => [|p0 ps0] // wps.
set ps := p0 :: ps0 in wps *.
case: eqP => // tsz; case: ifP => // /negbFE tok.
cbv zeta; rewrite align_exponsE.
set F := fun p => align_rows (grows ps) (anames ps p).
have p0in : p0 \in ps by rewrite mem_head.
have fact p : p \in ps -> [/\ wfb (F p), names (F p) = cnames ps, rows (F p) = grows ps,
                              shape (F p) = shape p & forall i, absE n (F p) i = absE n p i].
  by move=> pin; have [w nq rq sq eq] := align_expons_elem n wps pin.
have [w0 n0 r0 s0 e0] := fact _ p0in.
have -> : head (pnil0 R) [seq F p | p <- ps] = F p0 by [].
rewrite n0 r0; set cs := [seq jcol _ tau k | k <- _] => cl.
have csz : all (fun c => size c == prodn s) cs.
  by apply/allP => c /mapP[k _ ->]; rewrite /jcol size_map tsz.
have npos : (0 < size (cnames ps))%N by rewrite -n0; have [_ _ _ _ [_ ? _]] := wfbP w0.
split; first exact: (from_attributes_wf csz npos cl).
  by case: (from_attributes_absE n 0 cl).
move=> j lt; case: (from_attributes_absE n j cl) => -> _.
set t := nth _ tau j.
have tin : t \in tau by apply: mem_nth; rewrite tsz.
have lt1 : (t.1 < size ps)%N by move/allP: tok; apply.
have pj : nth (pnil R) ps t.1 \in ps by apply: mem_nth.
have [wj nj rj sj ej] := fact _ pj.
rewrite /absL /cs zip_map_iota -ej absE_index // nj rj /index_iota subn0.
apply: eq_big_seq => k; rewrite mem_iota add0n => /andP[_ ltk].
rewrite /absT [_.2]/= [_.1]/= /jcol (nth_map (0%N, 0%N)) ?tsz // -/t.
rewrite /cell -[F p0 :: _]/(map F ps).
by rewrite (nth_map (pnil R)).
Qed.

(* the result carries the union of the operands' names in index order (when names are retained) *)
Theorem pjoin_names o s tau ps r :
  o_retn o -> pjoin o s tau ps = Ok r -> names r = cnames ps.
Proof.
move=> rn; rewrite /pjoin; case: ps => [|p0 ps0] //.
set ps := p0 :: ps0.
case: ifP => // _; case: ifP => // _; cbv zeta; rewrite align_exponsE.
have -> : head (pnil0 R) [seq align_rows (grows ps) (anames ps p) | p <- ps]
          = align_rows (grows ps) (anames ps p0) by [].
rewrite /clean /from_attributes /= rn.
case: ifP => // _; case: [seq _ | k <- _] => [|c0 cs] //.
case: ifP => // _; case: ifP => // _; case: ifP => // _ [<-] /=.
rewrite /anames /cnames; case same: (allsame ps) => //.
by rewrite names_align_names.
Qed.

(* concatenation along the first axis as an index map: operand k's block follows operand k-1's *)
Lemma nth_tau_concat0 (sizes : seq nat) k i :
  (k < size sizes)%N -> (i < nth 0%N sizes k)%N ->
  nth (0%N, 0%N) (tau_concat0 sizes) (sumn (take k sizes) + i) = (k, i).
Proof.
rewrite /tau_concat0.
have gen (off : nat) : forall k, (k < size sizes)%N -> (i < nth 0%N sizes k)%N ->
    nth (0%N, 0%N) (flatten [seq [seq (ki.1, i0) | i0 <- iota 0 ki.2] | ki <- zip (iota off (size sizes)) sizes])
        (sumn (take k sizes) + i) = (off + k, i)%N.
  elim: sizes off => [|m ms IH] off [|k'] //= ltk lti.
  - by rewrite add0n nth_cat size_map size_iota lti (nth_map 0%N) ?size_iota // nth_iota // add0n addn0.
  - rewrite nth_cat size_map size_iota -addnA ltnNge leq_addr /= addKn.
    by rewrite (IH off.+1 k') // addSnnS.
by move=> ltk lti; rewrite (gen 0%N k ltk lti) add0n.
Qed.

End RearrP.
