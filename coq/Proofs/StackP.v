(* StackP.v — joining arrays along a new first axis (numpoly.concatenate of 1-slices, used by
   gradient/hessian, stack, compose): element (j, i) of the result is element i of operand j. *)
From mathcomp Require Import all_ssreflect all_algebra.
From SsrMultinomials Require Import mpoly.
From NP Require Import Base Poly Deriv Abs Clean Shape Align Arith MonomialP QueryP DerivP.
Set Implicit Arguments. Unset Strict Implicit. Unset Printing Implicit Defensive.
Import GRing.Theory.
Local Open Scope ring_scope.

Section Stack.
Variable (n : nat) (R : comRingType).
Implicit Types (p q : parr R) (ps : seq (parr R)) (o : opts).

Lemma size_flatten_blocks (m : nat) (blocks : seq (seq R)) :
  all (fun b => size b == m) blocks -> size (flatten blocks) = (size blocks * m)%N.
Proof.
elim: blocks => [|b bs IH] //= /andP[/eqP sb al].
by rewrite size_cat sb IH // mulSn.
Qed.

Lemma pstack0E o ps : (0 < size ps)%N ->
  pstack0 o ps =
  let p0 := head (pnil R) ps in
  if ~~ all (fun p => shape p == shape p0) ps then Err ValueError else
  let qs := align_expons ps in
  let q0 := head p0 qs in
  clean o (Parr (names q0) (size ps :: shape p0) (rows q0)
             [seq flatten [seq nth [::] (cols q) k | q <- qs] | k <- iota 0 (size (rows q0))]).
Proof. by case: ps. Qed.

Theorem pstack0_spec o ps sh r :
  all (@wfb R) ps -> all (fun p => shape p == sh) ps -> pstack0 o ps = Ok r ->
  [/\ wfb r, shape r = size ps :: sh &
      forall j i, (j < size ps)%N -> (i < prodn sh)%N ->
        absE n r (j * prodn sh + i) = absE n (nth (pnil R) ps j) i].
Proof.
move=> wps shs; case: (posnP (size ps)) => [/size0nil -> //|pos].
rewrite pstack0E //; set p0 := head _ ps; cbv zeta.
have p0in : p0 \in ps by rewrite /p0; case: (ps) pos => //= a l _; rewrite mem_head.
have sp0 : shape p0 = sh by apply/eqP; move/allP: shs; apply.
have -> : all (fun p => shape p == shape p0) ps by rewrite sp0.
rewrite [~~ true]/= align_exponsE.
set F := fun p => align_rows (grows ps) (anames ps p).
have fact p : p \in ps -> [/\ wfb (F p), names (F p) = cnames ps, rows (F p) = grows ps,
                              shape (F p) = sh & forall i, absE n (F p) i = absE n p i].
  move=> pin; have [w nq rq sq eq] := align_expons_elem n wps pin; split=> //.
  by rewrite sq; apply/eqP; move/allP: shs; apply.
have [w0 n0 r0 s0 e0] := fact _ p0in.
have -> : head p0 [seq F p | p <- ps] = F p0.
  by rewrite /p0; case: (ps) pos.
rewrite n0 r0 sp0; set cs := [seq flatten _ | k <- _]; move=> cl.
have blocks k : (k < size (grows ps))%N ->
    all (fun b => size b == prodn sh) [seq nth [::] (cols q) k | q <- [seq F p | p <- ps]].
  move=> lt; apply/allP => b /mapP[q /mapP[p pin ->] ->].
  have [wq _ rq sq _] := fact _ pin; have [sz _ _ _ [csz _ _]] := wfbP wq.
  by rewrite -sq -/(psize _); move/allP: csz; apply; rewrite mem_nth // -sz rq.
have csz : all (fun c => size c == prodn (size ps :: sh)) cs.
  apply/allP => c /mapP[k]; rewrite mem_iota add0n => /andP[_ lt] ->.
  by rewrite (size_flatten_blocks (blocks _ lt)) !size_map.
have npos : (0 < size (cnames ps))%N by rewrite -n0; have [_ _ _ _ [_ ? _]] := wfbP w0.
split; first exact: (from_attributes_wf csz npos cl).
  by case: (from_attributes_absE n 0 cl).
move=> j i ltj lti; case: (from_attributes_absE n (j * prodn sh + i) cl) => -> _.
rewrite /absL /cs zip_map_iota.
have pj : nth (pnil R) ps j \in ps by apply: mem_nth.
have [wj nj rj sj ej] := fact _ pj.
rewrite -ej absE_index // nj rj /index_iota subn0.
apply: eq_big_seq => k; rewrite mem_iota add0n => /andP[_ ltk].
rewrite /absT [_.2]/= [_.1]/= nth_flatten_blocks ?blocks //.
by rewrite (nth_map (pnil R)) ?size_map // (nth_map (pnil R)).
Qed.

(* ---- gradient ------------------------------------------------------------------------------ *)
Lemma rseq_map A B (f : A -> res B) (xs : seq A) (ys : seq B) :
  rseq [seq f x | x <- xs] = Ok ys ->
  size ys = size xs /\ forall d d' k, (k < size xs)%N -> f (nth d xs k) = Ok (nth d' ys k).
Proof.
elim: xs ys => [|x xs IH] ys /=; first by move=> [<-].
case ex: (f x) => [y|] //=; case er: (rseq _) => [ys'|] //= [<-] /=.
have [sz h] := IH _ er; split; first by rewrite sz.
by move=> d d' [|k] //= lt; apply: h.
Qed.

Theorem gradient_spec o p (vs : seq 'I_n) r :
  wfb p -> names p = [seq nat_of_ord v | v <- vs] -> gradient o p = Ok r ->
  [/\ wfb r, shape r = size (names p) :: shape p &
      forall (v0 : 'I_n) j i, (j < size vs)%N -> (i < psize p)%N ->
        absE n r (j * psize p + i) = (absE n p i)^`M(nth v0 vs j)].
Proof.
move=> wp np; rewrite /gradient np -map_comp.
case er: (rseq _) => [ds|] //= es.
have [szd hd] := rseq_map er.
have vin (v : 'I_n) : v \in vs -> nat_of_ord v \in names p by move=> vi; rewrite np; apply: map_f.
have dfact j (v0 : 'I_n) : (j < size vs)%N ->
    [/\ wfb (nth (pnil R) ds j), shape (nth (pnil R) ds j) = shape p &
        forall i, absE n (nth (pnil R) ds j) i = (absE n p i)^`M(nth v0 vs j)].
  move=> lt; have := hd v0 (pnil R) j lt; rewrite /= => ed.
  have vj : nat_of_ord (nth v0 vs j) \in names p by apply: vin; apply: mem_nth.
  have [w s e] := @derivative_spec n R o p [:: nth v0 vs j] _ wp (introT andP (conj vj isT)) ed.
  by split.
have wds : all (@wfb R) ds.
  apply/(all_nthP (pnil R)) => j; rewrite szd => lt.
  case: vs np er szd hd vin dfact lt => [|v0 vs'] //= np er szd hd vin dfact lt.
  by have [] := dfact j v0 lt.
have sds : all (fun d => shape d == shape p) ds.
  apply/(all_nthP (pnil R)) => j; rewrite szd => lt.
  case: vs np er szd hd vin dfact lt => [|v0 vs'] //= np er szd hd vin dfact lt.
  by have [_ -> _] := dfact j v0 lt.
have [wr sr vr] := pstack0_spec wds sds es.
split=> //; first by rewrite sr szd ?np ?size_map.
move=> v0 j i ltj lti; rewrite vr ?szd //.
by have [_ _ ->] := dfact j v0 ltj.
Qed.

End Stack.
