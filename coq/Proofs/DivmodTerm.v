(* DivmodTerm.v — the division loop terminates (C05): well-founded descent of the largest dividend
   monomial divisible by the divisor's leading monomial, in numpy.lexsort order. *)
From mathcomp Require Import all_ssreflect all_algebra.
From NP Require Import Base Divmod DivmodP.
Set Implicit Arguments. Unset Strict Implicit. Unset Printing Implicit Defensive.
Import GRing.Theory.

Section LexWf.
Variable (A : Type) (R : A -> A -> Prop).
Hypothesis wfR : well_founded R.

Inductive lexl : seq A -> seq A -> Prop :=
  | lexl_hd x y a b : R x y -> size a = size b -> lexl (x :: a) (y :: b)
  | lexl_tl x a b : lexl a b -> lexl (x :: a) (x :: b).

Lemma lexl_size a b : lexl a b -> size a = size b.
Proof. by elim=> [x y a' b' _ /= ->|x a' b' _ /= ->]. Qed.

Lemma lexl_inv l x a : lexl l (x :: a) ->
  (exists y b, [/\ l = y :: b, R y x & size b = size a]) \/ (exists b, l = x :: b /\ lexl b a).
Proof.
move=> h; inversion h as [x' y' a' b' r s e1 e2|x' a' b' lab e1 e2]; subst.
- by left; exists x', a'.
- by right; exists a'.
Qed.

Lemma acc_cons n (IHn : forall l, size l = n -> Acc lexl l) x :
  Acc R x -> forall a, size a = n -> Acc lexl (x :: a).
Proof.
intros accx; induction accx as [x _ IHx]; intros a sa.
pose proof (IHn a sa) as acca; revert sa; induction acca as [a _ IHa]; intros sa.
constructor; intros l hl.
destruct (lexl_inv hl) as [[y [b [-> ryx sb]]]|[b [-> lba]]].
- Timeout 20 apply IHx; [exact ryx | congruence].
- Timeout 20 apply IHa; [exact lba | rewrite (lexl_size lba); exact sa].
Qed.

Lemma acc_lexl n : forall l, size l = n -> Acc lexl l.
Proof.
induction n as [|n IHn]; intros l sl.
- destruct l as [|x a]; [|discriminate sl].
  constructor; intros y h; inversion h.
- destruct l as [|x a]; [discriminate sl|].
  apply (acc_cons IHn (wfR x)); simpl in sl; congruence.
Qed.
End LexWf.

(* ---- the boolean order of the model on lists of one length ------------------------------------ *)
Lemma lexlt_lexl a b : size a = size b -> lexlt a b -> lexl (fun x y : nat => (x < y)%N) a b.
Proof.
elim: a b => [|x a IH] [|y b] //= [sab] /orP[lt|/andP[/eqP -> lt]].
- by apply: lexl_hd.
- by apply: lexl_tl; apply: IH.
Qed.

Lemma lexlt_irr a : lexlt a a = false.
Proof. by elim: a => [|x a IH] //=; rewrite ltnn eqxx IH. Qed.

Lemma lexlt_trans b a c : size a = size b -> size b = size c -> lexlt a b -> lexlt b c -> lexlt a c.
Proof.
elim: a b c => [|x a IH] [|y b] [|z c] //= [sab] [sbc].
case/orP => [xy|/andP[/eqP -> ab]]; case/orP => [yz|/andP[/eqP <- bc]].
- by rewrite (ltn_trans xy yz).
- by rewrite xy.
- by rewrite yz.
- by rewrite eqxx (IH b c) ?orbT.
Qed.

Lemma lexlt_total a b : size a = size b -> [|| lexlt a b, a == b | lexlt b a].
Proof.
elim: a b => [|x a IH] [|y b] //= [sab].
rewrite eqseq_cons; case: (ltngtP x y) => //= _.
exact: IH.
Qed.

Definition padd2 (a d : seq nat) := [seq (x.1 + x.2)%N | x <- zip a d].
Lemma lexlt_padd2 a b d : size a = size d -> size b = size d -> lexlt a b -> lexlt (padd2 a d) (padd2 b d).
Proof.
elim: a b d => [|x a IH] [|y b] [|z d] //= [sa] [sb] /orP[xy|/andP[/eqP -> ab]].
- by rewrite ltn_add2r xy.
- by rewrite eqxx (IH _ _ sa sb ab) orbT.
Qed.

Lemma padd2_inj a b d : size a = size d -> size b = size d -> padd2 a d = padd2 b d -> a = b.
Proof.
elim: a b d => [|x a IH] [|y b] [|z d] //= [sa] [sb] [/eqP].
by rewrite eqn_add2r => /eqP -> /(IH _ _ sa sb) ->.
Qed.

Lemma size_padd2 a d : size a = size d -> size (padd2 a d) = size d.
Proof. by move=> s; rewrite /padd2 size_map size_zip s minnn. Qed.

Lemma rev_padd2 a d : size a = size d -> rev (padd2 a d) = padd2 (rev a) (rev d).
Proof. by move=> s; rewrite /padd2 -map_rev rev_zip. Qed.

(* ---- monomials of one width --------------------------------------------------------------------- *)
Lemma madd_padd2 a d : size a = size d -> madd a d = padd2 a d.
Proof.
move=> s; rewrite /madd /padd2 s maxnn.
apply: (@eq_from_nth _ 0%N); first by rewrite !size_map size_iota size_zip s minnn.
move=> k; rewrite size_map size_iota => lt.
rewrite (nth_map 0%N) ?size_iota // nth_iota // add0n.
by rewrite (nth_map (0%N, 0%N)) ?size_zip ?s ?minnn // nth_zip.
Qed.

Lemma size_madd a d : size a = size d -> size (madd a d) = size d.
Proof. by move=> s; rewrite madd_padd2 // size_padd2. Qed.

Lemma size_msub a d : size a = size d -> size (msub a d) = size d.
Proof. by move=> s; rewrite /msub size_map size_iota s maxnn. Qed.

Lemma mlt_irr a : mlt a a = false.
Proof. exact: lexlt_irr. Qed.

Lemma mlt_trans b a c : size a = size b -> size b = size c -> mlt a b -> mlt b c -> mlt a c.
Proof. by move=> sab sbc; apply: lexlt_trans; rewrite !size_rev. Qed.

Lemma mlt_total a b : size a = size b -> [|| mlt a b, a == b | mlt b a].
Proof.
move=> s; have := @lexlt_total (rev a) (rev b); rewrite !size_rev => /(_ s).
by rewrite /mlt (inj_eq (can_inj (@revK _))).
Qed.

Lemma mlt_madd a b d : size a = size d -> size b = size d -> mlt a b -> mlt (madd a d) (madd b d).
Proof.
move=> sa sb; rewrite /mlt !madd_padd2 // !rev_padd2 //.
by apply: lexlt_padd2; rewrite !size_rev.
Qed.

Lemma madd_inj a b d : size a = size d -> size b = size d -> madd a d = madd b d -> a = b.
Proof. by move=> sa sb; rewrite !madd_padd2 //; apply: padd2_inj. Qed.

Lemma mdivides_size a b : mdivides a b -> size a = size b.
Proof. by elim: a b => [|x a IH] [|y b] //= /andP[_ /IH ->]. Qed.

Lemma nth_madd' a b k : nth 0%N (madd a b) k = (nth 0%N a k + nth 0%N b k)%N.
Proof.
rewrite /madd; case: (ltnP k (maxn (size a) (size b))) => [lt|ge].
  by rewrite (nth_map 0%N) ?size_iota // nth_iota.
rewrite nth_default ?size_map ?size_iota //.
by move: ge; rewrite geq_max => /andP[ga gb]; rewrite !nth_default.
Qed.

Lemma nth_msub a b k : nth 0%N (msub a b) k = (nth 0%N a k - nth 0%N b k)%N.
Proof.
rewrite /msub; case: (ltnP k (maxn (size a) (size b))) => [lt|ge].
  by rewrite (nth_map 0%N) ?size_iota // nth_iota.
rewrite nth_default ?size_map ?size_iota //.
by move: ge; rewrite geq_max => /andP[ga gb]; rewrite !nth_default.
Qed.

Lemma mdivides_nth a b k : mdivides a b -> (nth 0%N a k <= nth 0%N b k)%N.
Proof.
elim: a b k => [|x a IH] [|y b] [|k] //= /andP[le dv] //.
exact: IH.
Qed.

Lemma madd_msub e2 m : mdivides e2 m -> madd (msub m e2) e2 = m.
Proof.
move=> dv; have s := mdivides_size dv.
apply: (@eq_from_nth _ 0%N); first by rewrite size_madd ?size_msub.
by move=> k _; rewrite nth_madd' nth_msub subnK // mdivides_nth.
Qed.

(* ---- well-foundedness of the monomial order on monomials of one width --------------------------- *)
From Coq Require Import Wf_nat.

Lemma wf_ltn : well_founded (fun x y : nat => (x < y)%N).
Proof. by apply: (well_founded_lt_compat _ id) => x y /ltP. Qed.

Definition mltD (D : nat) (a b : mono) : Prop := [/\ size a = D, size b = D & mlt a b].

Lemma acc_mltD D b : size b = D -> Acc (mltD D) b.
Proof.
move=> sb.
have acc : Acc (lexl (fun x y : nat => (x < y)%N)) (rev b).
  by apply: (acc_lexl wf_ltn (n := D)); rewrite size_rev.
move: {-2}(rev b) acc (erefl (rev b)) sb => l acc.
induction acc as [l _ IH] in b |- *; intros e sb.
constructor; intros a [sa _ lt].
apply: (IH (rev a)) => //.
by rewrite -e; apply: lexlt_lexl => //; rewrite !size_rev sa sb.
Qed.

(* ---- the maximum of a list of monomials of one width ------------------------------------------------ *)
Lemma mmax_nil (l : seq mono) : (mmax l == None) = (l == [::]).
Proof. by case: l => [|m l] //=; case: (mmax l) => [x|] //; case: ifP. Qed.

Lemma mmax_some D (l : seq mono) x :
  all (fun m => size m == D) l -> mmax l = Some x -> x \in l /\ forall y, y \in l -> ~~ mlt x y.
Proof.
elim: l x => [|m l IH] x //= /andP[/eqP sm al].
case e: (mmax l) => [x0|].
  have [x0in x0max] := IH _ al e.
  have sx0 : size x0 = D by apply/eqP; move/allP: al; apply.
  case: ifP => [lt [<-]|nlt [<-]].
  - split; first by rewrite mem_head.
    move=> y; rewrite inE => /orP[/eqP ->|yin]; first by rewrite mlt_irr.
    apply/negP => my; have := x0max _ yin; rewrite (mlt_trans (b := m)) // ?sx0 ?sm //.
    by apply/esym/eqP; move/allP: al; apply.
  - split; first by rewrite inE x0in orbT.
    by move=> y; rewrite inE => /orP[/eqP ->|/x0max] //; rewrite nlt.
move=> [<-]; move: e => /eqP; rewrite mmax_nil => /eqP ->.
by split; [rewrite mem_head | move=> y; rewrite inE => /eqP ->; rewrite mlt_irr].
Qed.

(* ---- coefficients and supports ---------------------------------------------------------------------- *)
Section Coef.
Variable F : fieldType.
Local Open Scope ring_scope.
Implicit Types (p q g : spoly F) (m d : mono).

Definition wp (D : nat) p := all (fun t : mono * F => size t.1 == D) p.

Lemma coef_at_cat p q m : coef_at (p ++ q) m = coef_at p m + coef_at q m.
Proof.
elim: p => [|t p IH] /=; first by rewrite add0r.
by case: ifP => _; rewrite IH ?addrA.
Qed.

Lemma coef_at_notin p m : m \notin unzip1 p -> coef_at p m = 0.
Proof.
elim: p => [|t p IH] //=; rewrite inE negb_or eq_sym => /andP[/negbTE -> nin].
exact: IH.
Qed.

Lemma mem_support p m : (m \in support p) = (coef_at p m != 0).
Proof.
rewrite /support mem_filter mem_undup.
case cz: (coef_at p m == 0) => //=.
by apply/idP; apply/negPn/negP => nin; rewrite coef_at_notin // eqxx in cz.
Qed.

Lemma support_uniq p : uniq (support p).
Proof. by rewrite /support filter_uniq // undup_uniq. Qed.

Lemma coef_at_tab (s : seq mono) (f : mono -> F) m :
  uniq s -> coef_at [seq (m', f m') | m' <- s] m = if m \in s then f m else 0.
Proof.
elim: s => [|x s IH] //= /andP[xnin us]; rewrite inE IH // [m == x]eq_sym.
case: (x =P m) => [e|_] //=.
by rewrite -e (negbTE xnin) addr0.
Qed.

Lemma coef_at_norm p m : coef_at (norm p) m = coef_at p m.
Proof.
rewrite /norm coef_at_tab ?support_uniq // mem_support.
by case: eqP => [->|].
Qed.

Lemma support_norm p m : (m \in support (norm p)) = (m \in support p).
Proof. by rewrite !mem_support coef_at_norm. Qed.

Lemma wp_norm D p : wp D p -> wp D (norm p).
Proof.
move=> w; apply/allP => t /mapP[m]; rewrite /support mem_filter mem_undup => /andP[_ /mapP[t' tin ->]] -> /=.
by move/allP: w; apply.
Qed.

Lemma wp_support D p m : wp D p -> m \in support p -> size m = D.
Proof.
move=> w; rewrite /support mem_filter mem_undup => /andP[_ /mapP[t tin ->]].
by apply/eqP; move/allP: w; apply.
Qed.

Lemma wp_sscale D (k : F) d g : wp D g -> size d = D -> wp D (sscale k d g).
Proof.
move=> w sd; apply/allP => t /mapP[t' tin ->] /=.
by rewrite size_madd ?sd //; apply/eqP; move/allP: w; apply.
Qed.

Lemma wp_cat D p q : wp D (p ++ q) = wp D p && wp D q.
Proof. by rewrite /wp all_cat. Qed.

(* the coefficient of a shifted and scaled polynomial *)
Lemma coef_at_sscale D (k : F) d g m :
  wp D g -> size d = D -> size m = D -> coef_at (sscale k d g) (madd m d) = k * coef_at g m.
Proof.
move=> w sd sm; elim: g w => [|t g IH] /= => [_|/andP[/eqP st w]]; first by rewrite mulr0.
have -> : (madd t.1 d == madd m d) = (t.1 == m).
  apply/eqP/eqP => [|->] //; apply: madd_inj; by rewrite ?st ?sm ?sd.
by case: ifP => _; rewrite IH // mulrDr.
Qed.

Lemma coef_at_sscale_img D (k : F) d g m' :
  wp D g -> size d = D -> coef_at (sscale k d g) m' != 0 ->
  exists m, [/\ m' = madd m d, size m = D & coef_at g m != 0].
Proof.
move=> w sd nz.
have : m' \in unzip1 (sscale k d g) by apply/negPn/negP => /coef_at_notin e; rewrite e eqxx in nz.
rewrite /sscale /unzip1 -map_comp => /mapP[t tin e]; exists t.1.
have st : size t.1 = D by apply/eqP; move/allP: w; apply.
split=> //; move: nz; rewrite e /= (coef_at_sscale k w sd st).
by apply: contraNneq => ->; rewrite mulr0.
Qed.

End Coef.

(* ---- the measure: per element, the largest dividend monomial divisible by the divisor's leading one ---- *)
Lemma madd_comm a b : madd a b = madd b a.
Proof.
apply: (@eq_from_nth _ 0%N); first by rewrite /madd !size_map !size_iota maxnC.
by move=> k _; rewrite !nth_madd' addnC.
Qed.

Lemma first_some_some (A : eqType) B (f : A -> option B) (l : seq A) x y :
  first_some f l = Some (x, y) -> x \in l /\ f x = Some y.
Proof.
elim: l => [|z l IH] //=; case fz: (f z) => [b|]; last by move=> /IH [xin fx]; rewrite inE xin orbT.
by move=> [<- <-]; rewrite mem_head.
Qed.

Lemma mem_zip2 (S T : eqType) (s1 : seq S) (s2 : seq T) (t : S * T) :
  t \in zip s1 s2 -> t.1 \in s1 /\ t.2 \in s2.
Proof.
elim: s1 s2 => [|x s1 IH] [|y s2] //=; rewrite !inE.
case/orP => [/eqP ->|/IH [-> ->]] /=; first by rewrite !eqxx.
by rewrite !orbT.
Qed.

Section LexPointwise.
Variables (A : eqType) (B : Type) (R : B -> B -> Prop) (f g : A -> B).
Lemma lexl_pointwise (l : seq A) :
  (forall x, x \in l -> f x = g x \/ R (f x) (g x)) ->
  (exists2 x, x \in l & R (f x) (g x)) -> lexl R (map f l) (map g l).
Proof.
elim: l => [|x l IH] all_ [x0 x0in r0]; first by rewrite in_nil in x0in.
have sz : size (map f l) = size (map g l) by rewrite !size_map.
case: (all_ x (mem_head _ _)) => [e|r]; last exact: lexl_hd.
move: x0in; rewrite inE => /orP[/eqP ex|x0in].
  by apply: lexl_hd => //; rewrite -ex.
rewrite /= e; apply: lexl_tl; apply: IH; last by exists x0.
by move=> y yin; apply: all_; rewrite inE yin orbT.
Qed.
End LexPointwise.

Section Term.
Variable F : fieldType.
Local Open Scope ring_scope.
Implicit Types (e : elem F) (es : seq (elem F)).

Definition we (D : nat) e := [&& wp D (e_q e), wp D (e_d e) & wp D (e_g e)].
Definition divs (e2 : mono) e : seq mono := [seq m <- support (e_d e) | mdivides e2 m].
Definition mu e : option mono := if lead (e_g e) is Some e2 then mmax (divs e2 e) else None.

Definition olt (D : nat) (x y : option mono) : Prop :=
  match x, y with
  | None, Some b => size b = D
  | Some a, Some b => mltD D a b
  | _, None => False
  end.

Lemma wf_olt D : well_founded (olt D).
Proof.
have accN : Acc (olt D) None by constructor; intros y; destruct y.
have accS b : Acc (mltD D) b -> Acc (olt D) (Some b).
  induction 1 as [b _ IH]; constructor; intros y; destruct y as [a|]; intros h.
  - exact: IH.
  - exact: accN.
intros x; destruct x as [b|]; last exact: accN.
case: (size b =P D) => [sb|nsb]; first exact: accS (acc_mltD sb).
by constructor; intros y; destruct y as [a|]; [intros [_ sb _]|intros sb].
Qed.

Lemma divs_width D e (e2 : mono) : we D e -> all (fun m => size m == D) (divs e2 e).
Proof.
move=> /and3P[_ wd _]; apply/allP => m; rewrite mem_filter => /andP[_ /(wp_support wd) ->].
exact: eqxx.
Qed.

Lemma lead_in D e (e2 : mono) : we D e -> lead (e_g e) = Some e2 ->
  [/\ e2 \in support (e_g e), size e2 = D & forall m, m \in support (e_g e) -> ~~ mlt e2 m].
Proof.
move=> /and3P[_ _ wg] le.
have wd : all (fun m => size m == D) (support (e_g e)).
  by apply/allP => m /(wp_support wg) ->.
have [ein emax] := mmax_some wd le.
by split=> //; apply: (wp_support wg).
Qed.


(* what a candidate is *)
Definition Lsel (e2 : mono) es : seq mono :=
  [seq m <- flatten [seq support (e_d e) | e <- es & lead (e_g e) == Some e2] | mdivides e2 m].

Lemma candidate_spec D es (e2 e1 : mono) :
  all (we D) es -> candidate es = Some (e2, e1) ->
  [/\ e1 \in Lsel e2 es, forall m, m \in Lsel e2 es -> ~~ mlt e1 m & size e1 = D].
Proof.
move=> wes; rewrite /candidate => fs; have [_] := first_some_some fs.
rewrite /pick_e1 -/(Lsel e2 es) => pe.
have wd : all (fun m => size m == D) (Lsel e2 es).
  apply/allP => m; rewrite mem_filter => /andP[_ /flattenP[s /mapP[e]]].
  rewrite mem_filter => /andP[_ ein] -> min.
  by have /and3P[_ wdd _] := allP wes _ ein; rewrite (wp_support wdd min).
have [ein emax] := mmax_some wd pe.
by split=> //; apply/eqP; move/allP: wd; apply.
Qed.

Lemma divs_sub_Lsel (e2 : mono) es e : e \in es -> lead (e_g e) = Some e2 -> {subset divs e2 e <= Lsel e2 es}.
Proof.
move=> ein le m; rewrite /divs /Lsel mem_filter => /andP[dvm hm]; rewrite mem_filter dvm /=.
apply/flattenP; exists (support (e_d e)); last exact: hm.
by apply/mapP; exists e => //; rewrite mem_filter le eqxx.
Qed.

(* an element that takes part in the iteration: its measure strictly decreases *)
Lemma participant_decrease D es e (e2 e1 : mono) :
  all (we D) es -> candidate es = Some (e2, e1) -> e \in es ->
  lead (e_g e) = Some e2 -> coef_at (e_d e) e1 != 0 ->
  olt D (mu (step_elem e2 e1 e)) (mu e).
Proof.
move=> wes cand ein le c1nz.
have w := allP wes _ ein; have /and3P[wq wd wg] := w.
have [e1L e1max se1] := candidate_spec wes cand.
have [e2in se2 e2max] := lead_in w le.
have dv : mdivides e2 e1 by move: e1L; rewrite mem_filter => /andP[].
have e1divs : e1 \in divs e2 e by rewrite mem_filter dv mem_support.
(* the measure before: Some e1 *)
have mu_e : mu e = Some e1.
  rewrite /mu le; case em: (mmax (divs e2 e)) => [x|]; last first.
    by move/eqP: em; rewrite mmax_nil => /eqP em; rewrite em in e1divs.
  have [xin xmax] := mmax_some (divs_width e2 w) em.
  have sx : size x = D by apply/eqP; move/allP: (divs_width e2 w); apply.
  have := mlt_total (a := x) (b := e1); rewrite sx se1 => /(_ erefl).
  rewrite (negbTE (xmax _ e1divs)) (negbTE (e1max _ (divs_sub_Lsel ein le xin))) orbF /=.
  by move/eqP => ->.
(* the step *)
rewrite mu_e /step_elem le eqxx c1nz /= /mu /= le.
set k := _ / _; set dl := msub e1 e2.
have sdl : size dl = D by rewrite /dl size_msub ?se1 ?se2.
have e1E : madd e2 dl = e1 by rewrite madd_comm /dl madd_msub.
have c2nz : coef_at (e_g e) e2 != 0 by rewrite -mem_support.
have zero_e1 : coef_at (e_d e ++ sscale (- k) dl (e_g e)) e1 = 0.
  rewrite coef_at_cat -{2}e1E (coef_at_sscale _ wg sdl se2) /k mulNr.
  by rewrite -mulrA mulVf // mulr1 subrr.
have claim m' : m' \in [seq m <- support (norm (e_d e ++ sscale (- k) dl (e_g e))) | mdivides e2 m] ->
    size m' = D /\ mlt m' e1.
  rewrite mem_filter support_norm mem_support coef_at_cat => /andP[dvm nz].
  have ne1 : m' != e1.
    by apply: contraNneq nz => ->; rewrite -coef_at_cat zero_e1.
  case dz: (coef_at (e_d e) m' == 0).
    move: nz; rewrite (eqP dz) add0r => /(coef_at_sscale_img wg sdl) [m0 [em0 sm0 gnz]].
    have m0in : m0 \in support (e_g e) by rewrite mem_support.
    have ne2 : m0 != e2 by apply: contraNneq ne1 => eq02; rewrite em0 eq02 e1E.
    have lt0 : mlt m0 e2.
      have := mlt_total (a := m0) (b := e2); rewrite sm0 se2 => /(_ erefl).
      by rewrite (negbTE ne2) (negbTE (e2max _ m0in)) !orbF.
    by rewrite em0 -e1E; split; [rewrite size_madd ?sm0 ?sdl | apply: mlt_madd; rewrite ?sm0 ?se2 ?sdl].
  have min : m' \in divs e2 e by rewrite mem_filter dvm mem_support dz.
  have sm : size m' = D by apply/eqP; move/allP: (divs_width e2 w); apply.
  split=> //; have := mlt_total (a := m') (b := e1); rewrite sm se1 => /(_ erefl).
  by rewrite (negbTE ne1) (negbTE (e1max _ (divs_sub_Lsel ein le min))) !orbF.
rewrite /divs /=; case em: (mmax _) => [x|] //=.
have wd' : all (fun m => size m == D) [seq m <- support (norm (e_d e ++ sscale (- k) dl (e_g e))) | mdivides e2 m].
  by apply/allP => m' /claim [-> _].
have [xin _] := mmax_some wd' em.
by have [sx ltx] := claim _ xin; split.
Qed.


(* width is preserved *)
Lemma we_step D es e (e2 e1 : mono) :
  all (we D) es -> candidate es = Some (e2, e1) -> e \in es -> we D (step_elem e2 e1 e).
Proof.
move=> wes cand ein; have w := allP wes _ ein; have /and3P[wq wd wg] := w.
rewrite /step_elem; case: ifP => // /andP[/eqP le _].
have [_ _ se1] := candidate_spec wes cand; have [_ se2 _] := lead_in w le.
have sdl : size (msub e1 e2) = D by rewrite size_msub ?se1 ?se2.
rewrite /we /= wg andbT; apply/andP; split; apply: wp_norm.
- by rewrite /wp /= sdl eqxx.
- by rewrite wp_cat wd wp_sscale.
Qed.

(* every iteration makes the list of measures decrease in the lexicographic order *)
Lemma step_decreases D es (e2 e1 : mono) :
  all (we D) es -> candidate es = Some (e2, e1) ->
  lexl (olt D) [seq mu (step_elem e2 e1 e) | e <- es] [seq mu e | e <- es].
Proof.
move=> wes cand.
apply: (lexl_pointwise (R := olt D) (f := fun e => mu (step_elem e2 e1 e)) (g := mu)).
  move=> e ein; rewrite {1}/step_elem.
  case le: (lead (e_g e) == Some e2) => /=; last by left.
  case c1: (coef_at (e_d e) e1 != 0); last by left.
  right; have := participant_decrease wes cand ein (eqP le) c1.
  by rewrite /step_elem le c1.
have [e1L _ _] := candidate_spec wes cand.
move: e1L; rewrite mem_filter => /andP[_ /flattenP[s /mapP[e]]].
rewrite mem_filter => /andP[/eqP le ein] -> e1in.
exists e => //; apply: (participant_decrease wes cand ein le).
by rewrite -mem_support.
Qed.

(* ---- termination ------------------------------------------------------------------------------------- *)
Theorem run_terminates D es : all (we D) es -> exists fuel es', run fuel es = Ok es'.
Proof.
move=> wes.
have acc : Acc (lexl (olt D)) [seq mu e | e <- es].
  exact: (acc_lexl (wf_olt D) (n := size [seq mu e | e <- es])).
move: {-2}[seq mu e | e <- es] acc (erefl [seq mu e | e <- es]) wes => l acc.
induction acc as [l _ IH] in es |- *; intros el wes.
case cand: (candidate es) => [[e2 e1]|]; last by exists 1%N, es; rewrite /= cand.
have wes1 : all (we D) [seq step_elem e2 e1 e | e <- es].
  by apply/allP => e' /mapP[e ein ->]; apply: (we_step wes cand).
have lt := step_decreases wes cand; rewrite el in lt.
have [fuel [es' r]] := IH _ lt [seq step_elem e2 e1 e | e <- es] (esym (map_comp mu (step_elem e2 e1) es)) wes1.
by exists fuel.+1, es'; rewrite /= cand.
Qed.


(* a larger budget gives the same result: the while-loop of the code is [run] with enough fuel *)
Lemma run_more fuel es es' k : run fuel es = Ok es' -> run (fuel + k) es = Ok es'.
Proof.
elim: fuel es => [|fuel IH] es //=.
by case: (candidate es) => [[e2 e1]|] //; apply: IH.
Qed.

Theorem divmod_terminates D (fs gs : seq (spoly F)) :
  all (wp D) fs -> all (wp D) gs -> exists fuel out, divmod fuel fs gs = Ok out.
Proof.
move=> wfs wgs.
have wes : all (we D) (start fs gs).
  apply/allP => e /mapP[[f g] /mem_zip2 [fin gin] ->]; rewrite /we /=.
  by rewrite !wp_norm //; [move/allP: wgs; apply | move/allP: wfs; apply].
have [fuel [es' r]] := run_terminates wes.
by exists fuel, [seq (e_q e, e_d e) | e <- es']; rewrite /divmod r.
Qed.

End Term.
