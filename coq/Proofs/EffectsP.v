(* EffectsP.v — soundness of the effect analysis of Model/Effects.v (C17).
   Main results: [run_sound] (every execution of an analysed program, under every choice list and
   every fuel, writes only fresh buffers or buffers of atoms the analysis lists, and returns only
   such buffers), [summary_sound] (hence the summaries checked by [table_ok] are sound, recursion
   included: the induction is on the fuel of the interpreter), [safe_sound] and [frame]. *)
From Coq Require Import List Arith Bool PeanoNat Lia.
From NP Require Import Effects.
Import ListNotations.

(* ---- finite sets as lists ------------------------------------------------------------------- *)
Lemma mem_In a l : mem a l = true <-> In a l.
Proof.
  induction l as [|b l IH]; simpl; [split; [discriminate|tauto]|].
  rewrite orb_true_iff, IH, Nat.eqb_eq. split; intros [H|H]; auto.
Qed.

Lemma union_In a l1 l2 : In a (union l1 l2) <-> In a l1 \/ In a l2.
Proof.
  induction l1 as [|b l1 IH]; simpl; [tauto|].
  destruct (mem b (union l1 l2)) eqn:E.
  - rewrite IH. split; [tauto|]. intros [[->|H]|H]; auto. apply IH, mem_In, E.
  - simpl. rewrite IH. tauto.
Qed.

Lemma subset_incl l1 l2 : subset l1 l2 = true -> incl l1 l2.
Proof. unfold subset. rewrite forallb_forall. intros H a Ha. apply mem_In, H, Ha. Qed.

Lemma incl_union_l l1 l2 : incl l1 (union l1 l2).
Proof. intros a H. apply union_In. auto. Qed.
Lemma incl_union_r l1 l2 : incl l2 (union l1 l2).
Proof. intros a H. apply union_In. auto. Qed.

(* ---- abstract environments ---------------------------------------------------------------- *)
Notation dflt := (@nil atom, @nil atom).

Lemma nth_set_nth l x v y : nth y (set_nth l x v) dflt = if Nat.eqb y x then v else nth y l dflt.
Proof.
  revert l y. induction x as [|x IH]; intros [|a l] [|y]; simpl; try reflexivity.
  - destruct y; reflexivity.
  - rewrite IH. destruct (Nat.eqb y x); [reflexivity|]. destruct y; reflexivity.
  - apply IH.
Qed.

Lemma get_set A x v y : get (set A x v) y = if Nat.eqb y x then v else get A y.
Proof. unfold get, set. simpl. apply nth_set_nth. Qed.

Definition acc_le (A B : astate) : Prop :=
  incl (awr A) (awr B) /\ incl (aro A) (aro B) /\ incl (are A) (are B).
Definition env_le (A B : astate) : Prop :=
  forall x, incl (fst (get A x)) (fst (get B x)) /\ incl (snd (get A x)) (snd (get B x)).
Definition leq (A B : astate) : Prop := env_le A B /\ acc_le A B.

Lemma leq_refl A : leq A A.
Proof. repeat split; apply incl_refl. Qed.

Lemma leq_trans A B C : leq A B -> leq B C -> leq A C.
Proof.
  intros [e1 (a1 & b1 & c1)] [e2 (a2 & b2 & c2)].
  split; [|repeat split; eapply incl_tran; eauto].
  intros x. destruct (e1 x), (e2 x). split; eapply incl_tran; eauto.
Qed.

Lemma leq_env_spec l1 l2 x :
  leq_env l1 l2 = true ->
  incl (fst (nth x l1 dflt)) (fst (nth x l2 dflt)) /\ incl (snd (nth x l1 dflt)) (snd (nth x l2 dflt)).
Proof.
  revert l2 x. induction l1 as [|[o1 e1] l1 IH]; intros l2 x; simpl.
  - intros _. destruct x; simpl; split; intros a [].
  - destruct l2 as [|[o2 e2] l2]; rewrite !andb_true_iff; intros [[Ho He] Hl].
    + destruct x; simpl.
      * split; apply subset_incl; assumption.
      * specialize (IH [] x Hl). destruct x; simpl in *; exact IH.
    + destruct x; simpl.
      * split; apply subset_incl; assumption.
      * apply IH, Hl.
Qed.

Lemma leqb_leq A B : leqb A B = true -> leq A B.
Proof.
  unfold leqb. rewrite !andb_true_iff. intros [[[He Hw] Hro] Hre].
  split; [|repeat split; apply subset_incl; assumption].
  intros x. apply leq_env_spec, He.
Qed.

Lemma join_env_spec l1 l2 x :
  incl (fst (nth x l1 dflt)) (fst (nth x (join_env l1 l2) dflt)) /\
  incl (snd (nth x l1 dflt)) (snd (nth x (join_env l1 l2) dflt)) /\
  incl (fst (nth x l2 dflt)) (fst (nth x (join_env l1 l2) dflt)) /\
  incl (snd (nth x l2 dflt)) (snd (nth x (join_env l1 l2) dflt)).
Proof.
  revert l2 x. induction l1 as [|[o1 e1] l1 IH]; intros l2 x; simpl.
  - repeat split; try apply incl_refl; destruct x; simpl; intros a [].
  - destruct l2 as [|[o2 e2] l2].
    + repeat split; try apply incl_refl; destruct x; simpl; intros a [].
    + destruct x; simpl.
      * repeat split; (apply incl_union_l || apply incl_union_r).
      * apply IH.
Qed.

Lemma leq_join_l A B : leq A (join A B).
Proof.
  split; [intros x; destruct (join_env_spec (aenv A) (aenv B) x) as (?&?&?&?); auto|].
  repeat split; simpl; apply incl_union_l.
Qed.
Lemma leq_join_r A B : leq B (join A B).
Proof.
  split; [intros x; destruct (join_env_spec (aenv A) (aenv B) x) as (?&?&?&?); auto|].
  repeat split; simpl; apply incl_union_r.
Qed.

Lemma an_loop_spec body fuel A A' :
  an_loop body fuel A = Some A' -> leq A A' /\ exists B, body A' = Some B /\ leqb B A' = true.
Proof.
  revert A. induction fuel as [|f IH]; intros A; simpl; destruct (body A) as [B|] eqn:EB; try discriminate.
  - destruct (leqb B A) eqn:E; [|discriminate]. intros [= <-]. split; [apply leq_refl|eauto].
  - destruct (leqb B A) eqn:E.
    + intros [= <-]. split; [apply leq_refl|eauto].
    + intros H. apply IH in H. destruct H as [H1 H2]. split; [|exact H2].
      eapply leq_trans; [apply leq_join_l|exact H1].
Qed.

Lemma an_loop_fix body A B fuel : body A = Some B -> leqb B A = true -> an_loop body fuel A = Some A.
Proof. intros H1 H2. destruct fuel; simpl; rewrite H1, H2; reflexivity. Qed.

Arguments an_loop : simpl never.

Lemma subst_In A args S c : In c (subst A args S) <-> exists a, In a S /\ In c (subst1 A args a).
Proof.
  induction S as [|a S IH]; simpl; [split; [tauto|intros (a & [] & _)]|].
  rewrite union_In, IH. split.
  - intros [H|(a' & H1 & H2)]; eauto.
  - intros (a' & [<-|H1] & H2); eauto.
Qed.

Lemma arefs_In A rs c : In c (arefs A rs) <-> exists r, In r rs /\ In c (aref A r).
Proof.
  induction rs as [|r rs IH]; simpl; [split; [tauto|intros (r & [] & _)]|].
  rewrite union_In, IH. split.
  - intros [H|(r' & H1 & H2)]; eauto.
  - intros (r' & [<-|H1] & H2); eauto.
Qed.

(* the accumulated effects only grow along the analysis *)
Scheme instr_mut := Induction for instr Sort Prop
  with prog_mut := Induction for prog Sort Prop.
Combined Scheme instr_prog_mutind from instr_mut, prog_mut.

Lemma acc_le_refl A : acc_le A A.
Proof. repeat split; apply incl_refl. Qed.
Lemma acc_le_trans A B C : acc_le A B -> acc_le B C -> acc_le A C.
Proof. intros (a1&b1&c1) (a2&b2&c2). repeat split; eapply incl_tran; eauto. Qed.

Lemma an_acc_mono sums :
  (forall i A A', an_i sums i A = Some A' -> acc_le A A') /\
  (forall p A A', an_p sums p A = Some A' -> acc_le A A').
Proof.
  apply instr_prog_mutind; simpl.
  - intros x os es A A' [= <-]. repeat split; simpl; apply incl_refl.
  - intros x A A' [= <-]. repeat split; simpl; try apply incl_refl. apply incl_union_r.
  - intros x f args A A'. destruct (nth_error sums f); [|discriminate]. intros [= <-].
    repeat split; simpl; try apply incl_refl. apply incl_union_r.
  - intros x A A' [= <-]. repeat split; simpl; try apply incl_refl; apply incl_union_r.
  - intros A A' [= <-]. apply acc_le_refl.
  - intros p IHp q IHq A A'. destruct (an_p sums p A) as [A1|] eqn:E1; [|discriminate].
    destruct (an_p sums q A) as [A2|] eqn:E2; [|discriminate]. intros [= <-].
    eapply acc_le_trans; [apply (IHp _ _ E1)|apply leq_join_l].
  - intros p IHp A A' H. apply an_loop_spec in H. apply H.
  - intros A A' [= <-]. apply acc_le_refl.
  - intros i IHi p IHp A A'. destruct (an_i sums i A) as [A1|] eqn:E1; [|discriminate].
    intros H. eapply acc_le_trans; eauto.
Qed.

(* ---- concretisation ---------------------------------------------------------------------- *)
Section Sound.
Variables (tbl : table) (sums : summaries).
Hypothesis Htbl : table_ok tbl sums = true.

Lemma forallb2_nth {A B} (f : A -> B -> bool) l1 l2 k a b :
  forallb2 f l1 l2 = true -> nth_error l1 k = Some a -> nth_error l2 k = Some b -> f a b = true.
Proof.
  revert l2 k. induction l1 as [|x l1 IH]; intros [|y l2] [|k]; simpl; try discriminate.
  - intros H [= <-] [= <-]. apply andb_true_iff in H. apply H.
  - intros H. apply andb_true_iff in H. apply IH, H.
Qed.

(* a buffer is acceptable for a set of atoms: allocated after entry, or the buffer of one of them *)
Definition okb (vals : list value) (d0 : buf) (b : buf) (S : aset) : Prop :=
  d0 <= b \/ exists a, In a S /\ atom_buf vals d0 a = b.

Lemma okb_incl vals d0 b S S' : incl S S' -> okb vals d0 b S -> okb vals d0 b S'.
Proof. intros H [H1|(a & H1 & H2)]; [left; assumption|right; eauto]. Qed.

Definition Renv vals d0 (A : astate) (s : rstate) : Prop :=
  forall x, okb vals d0 (fst (env s x)) (fst (get A x)) /\ okb vals d0 (snd (env s x)) (snd (get A x)).

Lemma Renv_leq vals d0 A B s : leq A B -> Renv vals d0 A s -> Renv vals d0 B s.
Proof.
  intros [He _] H x. destruct (H x), (He x). split; eapply okb_incl; eauto.
Qed.

Definition post vals d0 (s : rstate) (A' : astate) (o : outcome) (s' : rstate) : Prop :=
  d0 <= next s' /\
  (o = ONorm -> Renv vals d0 A' s') /\
  (forall b, In b (wr s') -> In b (wr s) \/ okb vals d0 b (awr A')) /\
  (forall v, o = ORet v -> okb vals d0 (fst v) (aro A') /\ okb vals d0 (snd v) (are A')).

Lemma post_leq vals d0 s A B o s' : leq A B -> post vals d0 s A o s' -> post vals d0 s B o s'.
Proof.
  intros L (H1 & H2 & H3 & H4). destruct L as [Le (La & Lb & Lc)]. split; [assumption|]. split; [|split].
  - intros E. eapply Renv_leq; [split; [exact Le|repeat split; assumption]|auto].
  - intros b Hb. destruct (H3 b Hb); [auto|right; eapply okb_incl; eauto].
  - intros v E. destruct (H4 v E). split; eapply okb_incl; eauto.
Qed.

Lemma post_acc vals d0 s A B o s' :
  o <> ONorm -> acc_le A B -> post vals d0 s A o s' -> post vals d0 s B o s'.
Proof.
  intros Ho (La & Lb & Lc) (H1 & H2 & H3 & H4). split; [assumption|]. split; [tauto|]. split.
  - intros b Hb. destruct (H3 b Hb); [auto|right; eapply okb_incl; eauto].
  - intros v E. destruct (H4 v E). split; eapply okb_incl; eauto.
Qed.

Lemma pop_same s c s0 : pop s = (c, s0) -> env s0 = env s /\ next s0 = next s /\ wr s0 = wr s.
Proof. unfold pop. destruct (ch s); intros [= <- <-]; auto. Qed.

Lemma pick_cases c rs : pick c rs = New \/ In (pick c rs) rs.
Proof.
  unfold pick. destruct rs as [|r rs]; [left; simpl; destruct c; reflexivity|].
  right. apply nth_In. apply Nat.mod_upper_bound. simpl. discriminate.
Qed.

Lemma rd_ok vals d0 A s r : d0 <= next s -> Renv vals d0 A s -> okb vals d0 (rd s r) (aref A r).
Proof.
  intros Hn HR. destruct r as [|y|y]; simpl; [left; assumption| |]; apply HR.
Qed.

Lemma rd_pick_ok vals d0 A s c rs :
  d0 <= next s -> Renv vals d0 A s -> okb vals d0 (rd s (pick c rs)) (arefs A rs).
Proof.
  intros Hn HR. destruct (pick_cases c rs) as [E|Hin].
  - rewrite E. left. assumption.
  - eapply okb_incl; [|apply rd_ok; eassumption].
    intros a Ha. apply arefs_In. eauto.
Qed.

Lemma nth_map_seq (f : nat -> aval) k x : x < k -> nth x (map f (seq 0 k)) dflt = f x.
Proof.
  intros H. rewrite (nth_indep _ dflt (f 0)) by (rewrite map_length, seq_length; exact H).
  rewrite map_nth, seq_nth by exact H. reflexivity.
Qed.

Lemma get_ainit k x : get (ainit k) x = if x <? k then ([2 * x], [2 * x + 1]) else ([], []).
Proof.
  unfold get, ainit. simpl. destruct (x <? k) eqn:E.
  - apply Nat.ltb_lt in E. apply (nth_map_seq (fun i => ([2 * i], [2 * i + 1]))). exact E.
  - apply Nat.ltb_ge in E. apply nth_overflow. rewrite map_length, seq_length. exact E.
Qed.

Lemma atom_own vals d x : atom_buf vals d (2 * x) = fst (nth x vals (d, d)).
Proof.
  unfold atom_buf. rewrite Nat.div2_double.
  replace (Nat.even (2 * x)) with true; [reflexivity|].
  symmetry. rewrite Nat.even_mul. reflexivity.
Qed.

Lemma atom_elem vals d x : atom_buf vals d (2 * x + 1) = snd (nth x vals (d, d)).
Proof.
  unfold atom_buf. replace (2 * x + 1) with (S (2 * x)) by lia. rewrite Nat.div2_succ_double.
  replace (Nat.even (S (2 * x))) with false; [reflexivity|].
  symmetry. rewrite Nat.even_succ. rewrite <- Nat.negb_even, Nat.even_mul. reflexivity.
Qed.

(* the entry state of a function satisfies its initial abstract state *)
Lemma Renv_entry vals d k w c : length vals <= k -> Renv vals d (ainit k) (entry vals d w c).
Proof.
  intros Hl x. unfold entry, entry_env. simpl. rewrite get_ainit.
  destruct (x <? k) eqn:E; simpl.
  - split; right; eexists; (split; [left; reflexivity|]); [apply atom_own|apply atom_elem].
  - apply Nat.ltb_ge in E. rewrite nth_overflow by lia. simpl. split; left; lia.
Qed.

Lemma nth_error_firstn {A} k (l : list A) j y : nth_error (firstn k l) j = Some y -> nth_error l j = Some y.
Proof.
  revert l j. induction k as [|k IH]; intros [|a l] [|j]; simpl; try discriminate; auto.
Qed.

(* a buffer acceptable for the callee (entered with the argument values of the call site) is
   acceptable for the caller, for the callee's atoms seen from the call site *)
Lemma okb_callee vals d0 A s k args b S :
  d0 <= next s -> Renv vals d0 A s ->
  okb (map (env s) (firstn k args)) (next s) b S -> okb vals d0 b (subst A args S).
Proof.
  intros Hn HR [H|(a & Ha & Hb)]; [left; lia|].
  unfold atom_buf in Hb.
  destruct (nth_error (firstn k args) (Nat.div2 a)) as [y|] eqn:Ey.
  - assert (Hv : nth (Nat.div2 a) (map (env s) (firstn k args)) (next s, next s) = env s y).
    { apply nth_error_nth. apply map_nth_error. exact Ey. }
    rewrite Hv in Hb. apply nth_error_firstn in Ey.
    assert (Hs : forall c, In c (if Nat.even a then fst (get A y) else snd (get A y)) -> In c (subst A args S)).
    { intros c Hc. apply subst_In. exists a. split; [assumption|]. unfold subst1. rewrite Ey. exact Hc. }
    destruct (HR y) as [Ho He].
    destruct (Nat.even a); subst b.
    + destruct Ho as [Ho|(a' & H1 & H2)]; [left; assumption|right; eauto].
    + destruct He as [He|(a' & H1 & H2)]; [left; assumption|right; eauto].
  - apply nth_error_None in Ey.
    rewrite nth_overflow in Hb by (rewrite map_length; exact Ey).
    simpl in Hb. left. destruct (Nat.even a); simpl in Hb; lia.
Qed.

Definition sound_p (n : nat) : Prop :=
  forall vals d0 p s A A' o s',
    an_p sums p A = Some A' -> run_p tbl n p s = (o, s') ->
    d0 <= next s -> Renv vals d0 A s -> post vals d0 s A' o s'.
Definition sound_i (n : nat) : Prop :=
  forall vals d0 i s A A' o s',
    an_i sums i A = Some A' -> run_i tbl n i s = (o, s') ->
    d0 <= next s -> Renv vals d0 A s -> post vals d0 s A' o s'.

Lemma post_stop vals d0 s s' A o :
  o = OExc -> d0 <= next s -> next s' = next s -> wr s' = wr s -> post vals d0 s A o s'.
Proof.
  intros -> Hn En Ew. split; [lia|]. split; [discriminate|]. split; [|discriminate].
  intros b Hb. left. congruence.
Qed.

Lemma sound_step n : sound_p n -> sound_i n -> sound_p (S n) /\ sound_i (S n).
Proof.
  intros IHp IHi. split.
  - (* programs *)
    intros vals d0 p s A A' o s' Han Hrun Hn HR. destruct p as [|i p']; simpl in Han, Hrun.
    + injection Han as <-. injection Hrun as <- <-.
      split; [assumption|]. split; [auto|]. split; [auto|discriminate].
    + destruct (an_i sums i A) as [A1|] eqn:E1; [|discriminate].
      destruct (pop s) as [c s0] eqn:Epop. destruct (pop_same _ _ _ Epop) as (Ee & En & Ew).
      destruct (Nat.eqb c 1).
      { injection Hrun as <- <-. apply post_stop; auto. }
      destruct (run_i tbl n i s0) as [o1 s1] eqn:Eri.
      assert (HR0 : Renv vals d0 A s0) by (intros x; rewrite Ee; apply HR).
      assert (P1 : post vals d0 s0 A1 o1 s1) by (eapply IHi; eauto; lia).
      assert (Hacc : acc_le A1 A') by (eapply (proj2 (an_acc_mono sums)); eauto).
      destruct o1.
      * destruct P1 as (Q1 & Q2 & Q3 & Q4).
        assert (P2 : post vals d0 s1 A' o s') by (eapply IHp; eauto).
        destruct P2 as (R1 & R2 & R3 & R4). split; [assumption|]. split; [assumption|]. split; [|assumption].
        intros b Hb. destruct (R3 b Hb) as [Hb1|Hb1]; [|auto].
        destruct (Q3 b Hb1) as [Hb0|Hb0]; [left; congruence|].
        right. eapply okb_incl; [apply Hacc|exact Hb0].
      * injection Hrun as <- <-.
        eapply post_acc in P1; [|discriminate|exact Hacc].
        destruct P1 as (Q1 & Q2 & Q3 & Q4). split; [assumption|]. split; [assumption|]. split; [|assumption].
        intros b Hb. destruct (Q3 b Hb); [left; congruence|auto].
      * injection Hrun as <- <-.
        eapply post_acc in P1; [|discriminate|exact Hacc].
        destruct P1 as (Q1 & Q2 & Q3 & Q4). split; [assumption|]. split; [assumption|]. split; [|assumption].
        intros b Hb. destruct (Q3 b Hb); [left; congruence|auto].
  - (* instructions *)
    intros vals d0 i s A A' o s' Han Hrun Hn HR. destruct i; simpl in Han, Hrun.
    + (* Assign *)
      injection Han as <-.
      destruct (pop s) as [co s1] eqn:E1. destruct (pop s1) as [ce s2] eqn:E2.
      destruct (pop_same _ _ _ E1) as (Ee1 & En1 & Ew1). destruct (pop_same _ _ _ E2) as (Ee2 & En2 & Ew2).
      injection Hrun as <- <-. simpl.
      assert (HR2 : Renv vals d0 A s2) by (intros y; rewrite Ee2, Ee1; apply HR).
      assert (Hn2 : d0 <= next s2) by lia.
      split; [simpl; lia|]. split; [|split; [|discriminate]].
      * intros _ y. simpl. rewrite get_set. unfold upd. destruct (Nat.eqb y x).
        { simpl. split; apply rd_pick_ok; assumption. }
        { apply HR2. }
      * simpl. intros b Hb. left. congruence.
    + (* Write *)
      injection Han as <-. injection Hrun as <- <-. simpl.
      split; [assumption|]. split; [|split; [|discriminate]].
      * intros _ y. apply HR.
      * simpl. intros b [<-|Hb]; [|auto]. right.
        eapply okb_incl; [apply incl_union_l|]. apply HR.
    + (* Call *)
      destruct (nth_error sums f) as [sm|] eqn:Esm; [|discriminate]. injection Han as <-.
      destruct (nth_error tbl f) as [fd|] eqn:Efd.
      2:{ injection Hrun as <- <-. apply post_stop; auto. }
      pose proof (forallb2_nth _ _ _ _ _ _ Htbl Efd Esm) as Hc. unfold consistent in Hc.
      destruct (analyse sums fd) as [Af|] eqn:EAf; [|discriminate].
      apply andb_true_iff in Hc. destruct Hc as [Hc Hre]. apply andb_true_iff in Hc. destruct Hc as [Hw Hro].
      apply subset_incl in Hw. apply subset_incl in Hro. apply subset_incl in Hre.
      set (vals' := map (env s) (firstn (f_arity fd) args)) in *.
      destruct (run_p tbl n (f_body fd) (entry vals' (next s) (wr s) (ch s))) as [o1 s1] eqn:Erun.
      assert (P1 : post vals' (next s) (entry vals' (next s) (wr s) (ch s)) Af o1 s1).
      { eapply IHp; [exact EAf|exact Erun|simpl; lia|].
        apply Renv_entry. unfold vals'. rewrite map_length, firstn_length. lia. }
      destruct P1 as (Q1 & Q2 & Q3 & Q4). simpl in Q3.
      assert (Hwr : forall b, In b (wr s1) -> In b (wr s) \/
                 okb vals d0 b (union (subst A args (s_w sm)) (awr A))).
      { intros b Hb. destruct (Q3 b Hb) as [H|H]; [auto|]. right.
        eapply okb_incl; [apply incl_union_l|].
        eapply okb_callee; eauto. eapply okb_incl; [exact Hw|exact H]. }
      assert (Hfresh : forall y v, d0 <= fst v -> d0 <= snd v ->
                 okb vals d0 (fst (upd (env s) x v y))
                   (fst (get (set (AState (aenv A) (union (subst A args (s_w sm)) (awr A)) (aro A) (are A)) x
                             (subst A args (s_ro sm), subst A args (s_re sm))) y)) /\
                 okb vals d0 (snd (upd (env s) x v y))
                   (snd (get (set (AState (aenv A) (union (subst A args (s_w sm)) (awr A)) (aro A) (are A)) x
                             (subst A args (s_ro sm), subst A args (s_re sm))) y))).
      { intros y v H1 H2. rewrite get_set. unfold upd. destruct (Nat.eqb y x); simpl.
        - split; left; assumption.
        - apply HR. }
      destruct o1 as [|v|].
      * (* callee fell off its end *)
        injection Hrun as <- <-. unfold post; simpl. split; [lia|]. split; [|split; [exact Hwr|discriminate]].
        intros _ y. simpl. apply Hfresh; simpl; lia.
      * (* callee returned v *)
        injection Hrun as <- <-. unfold post; simpl. split; [lia|]. split; [|split; [exact Hwr|discriminate]].
        intros _ y. simpl. rewrite get_set. unfold upd. destruct (Nat.eqb y x); simpl; [|apply HR].
        destruct (Q4 v eq_refl) as [Ho He]. split.
        { eapply okb_callee; eauto. eapply okb_incl; [exact Hro|exact Ho]. }
        { eapply okb_callee; eauto. eapply okb_incl; [exact Hre|exact He]. }
      * (* callee raised *)
        destruct (pop (RState (env s) (next s1) (wr s1) (ch s1))) as [c s2] eqn:Epop.
        destruct (pop_same _ _ _ Epop) as (Ee & En & Ew). simpl in Ee, En, Ew.
        destruct (Nat.eqb c 0).
        { injection Hrun as <- <-. unfold post. rewrite En, Ew. split; [lia|]. split; [discriminate|]. split; [|discriminate].
          exact Hwr. }
        { injection Hrun as <- <-. unfold post; simpl. split; [lia|]. split; [|split; [exact Hwr|discriminate]].
          intros _ y. simpl. apply Hfresh; simpl; lia. }
    + (* Return *)
      injection Han as <-. injection Hrun as <- <-.
      split; [assumption|]. split; [discriminate|]. split; [auto|].
      intros v [= <-]. simpl. destruct (HR x) as [Ho He].
      split; (eapply okb_incl; [apply incl_union_l|]); assumption.
    + (* Raise *)
      injection Han as <-. injection Hrun as <- <-. apply post_stop; auto.
    + (* If *)
      destruct (an_p sums p A) as [A1|] eqn:E1; [|discriminate].
      destruct (an_p sums q A) as [A2|] eqn:E2; [|discriminate]. injection Han as <-.
      destruct (pop s) as [c s1] eqn:Epop. destruct (pop_same _ _ _ Epop) as (Ee & En & Ew).
      assert (HR1 : Renv vals d0 A s1) by (intros y; rewrite Ee; apply HR).
      assert (Hw : forall A0 o s', post vals d0 s1 A0 o s' -> post vals d0 s A0 o s').
      { intros A0 o0 s0 (Q1 & Q2 & Q3 & Q4). split; [assumption|]. split; [assumption|]. split; [|assumption].
        intros b Hb. destruct (Q3 b Hb); [left; congruence|auto]. }
      apply Hw. destruct (Nat.eqb c 0).
      * eapply post_leq; [apply leq_join_l|]. eapply IHp; eauto. lia.
      * eapply post_leq; [apply leq_join_r|]. eapply IHp; eauto. lia.
    + (* Loop *)
      pose proof (an_loop_spec _ _ _ _ Han) as (HL & B & EB & ELB).
      destruct (pop s) as [c s1] eqn:Epop. destruct (pop_same _ _ _ Epop) as (Ee & En & Ew).
      assert (HR1 : Renv vals d0 A' s1).
      { eapply Renv_leq; [exact HL|]. intros y. rewrite Ee. apply HR. }
      assert (Hw : forall A0 o s', post vals d0 s1 A0 o s' -> post vals d0 s A0 o s').
      { intros A0 o0 s0 (Q1 & Q2 & Q3 & Q4). split; [assumption|]. split; [assumption|]. split; [|assumption].
        intros b Hb. destruct (Q3 b Hb); [left; congruence|auto]. }
      apply Hw. destruct (Nat.eqb c 0).
      * injection Hrun as <- <-. split; [lia|]. split; [auto|]. split; [auto|discriminate].
      * destruct (run_p tbl n p s1) as [o1 s2] eqn:Erun.
        assert (P1 : post vals d0 s1 A' o1 s2).
        { eapply post_leq; [apply leqb_leq; exact ELB|]. eapply IHp; eauto. lia. }
        destruct o1.
        { destruct P1 as (Q1 & Q2 & Q3 & Q4).
          assert (P2 : post vals d0 s2 A' o s').
          { eapply IHi; [|exact Hrun|assumption|auto]. simpl. eapply an_loop_fix; eauto. }
          destruct P2 as (R1 & R2 & R3 & R4). split; [assumption|]. split; [assumption|]. split; [|assumption].
          intros b Hb. destruct (R3 b Hb) as [Hb1|Hb1]; [|auto]. apply Q3. exact Hb1. }
        { injection Hrun as <- <-. exact P1. }
        { injection Hrun as <- <-. exact P1. }
Qed.

Lemma sound_all n : sound_p n /\ sound_i n.
Proof.
  induction n as [|n [IHp IHi]]; [|apply sound_step; assumption].
  split.
  - intros vals d0 p s A A' o s' _ Hrun Hn _. simpl in Hrun. injection Hrun as <- <-. apply post_stop; auto.
  - intros vals d0 i s A A' o s' _ Hrun Hn _. simpl in Hrun. injection Hrun as <- <-. apply post_stop; auto.
Qed.

(* Every execution of an analysed program: written buffers and the returned value are covered *)
Theorem run_sound n vals d0 p s A A' o s' :
  an_p sums p A = Some A' -> run_p tbl n p s = (o, s') -> d0 <= next s -> Renv vals d0 A s ->
  (forall b, In b (wr s') -> In b (wr s) \/ okb vals d0 b (awr A')) /\
  (forall v, o = ORet v -> okb vals d0 (fst v) (aro A') /\ okb vals d0 (snd v) (are A')).
Proof.
  intros H1 H2 H3 H4. destruct (proj1 (sound_all n) _ _ _ _ _ _ _ _ H1 H2 H3 H4) as (_ & _ & Q3 & Q4). auto.
Qed.

(* Summaries are sound: whatever function f does when entered with any argument values (aliased in
   any way), under any choices, to any depth of (possibly recursive) calls, is within its summary *)
Theorem summary_sound f fd sm n vals d0 c o s' :
  nth_error tbl f = Some fd -> nth_error sums f = Some sm -> length vals <= f_arity fd ->
  run_p tbl n (f_body fd) (entry vals d0 [] c) = (o, s') ->
  (forall b, In b (wr s') -> okb vals d0 b (s_w sm)) /\
  (forall v, o = ORet v -> okb vals d0 (fst v) (s_ro sm) /\ okb vals d0 (snd v) (s_re sm)).
Proof.
  intros Efd Esm Hl Hrun.
  pose proof (forallb2_nth _ _ _ _ _ _ Htbl Efd Esm) as Hc. unfold consistent in Hc.
  destruct (analyse sums fd) as [Af|] eqn:EAf; [|discriminate].
  apply andb_true_iff in Hc. destruct Hc as [Hc Hre]. apply andb_true_iff in Hc. destruct Hc as [Hw Hro].
  apply subset_incl in Hw. apply subset_incl in Hro. apply subset_incl in Hre.
  destruct (run_sound n vals d0 _ _ _ _ _ _ EAf Hrun) as [Q3 Q4]; [simpl; lia|apply Renv_entry; assumption|].
  split.
  - intros b Hb. destruct (Q3 b Hb) as [[]|H]. eapply okb_incl; eauto.
  - intros v Hv. destruct (Q4 v Hv). split; eapply okb_incl; eauto.
Qed.

(* A function accepted by [safe] writes nothing but fresh buffers and its declared output targets *)
Theorem safe_sound f fd sm n vals d0 c o s' :
  nth_error tbl f = Some fd -> nth_error sums f = Some sm -> declared fd sm = true ->
  length vals <= f_arity fd ->
  run_p tbl n (f_body fd) (entry vals d0 [] c) = (o, s') ->
  forall b, In b (wr s') -> d0 <= b \/ exists a, In a (f_outs fd) /\ atom_buf vals d0 a = b.
Proof.
  intros Efd Esm Hd Hl Hrun b Hb.
  destruct (summary_sound _ _ _ _ _ _ _ _ _ Efd Esm Hl Hrun) as [Hw _].
  eapply okb_incl; [apply subset_incl; exact Hd|]. apply Hw, Hb.
Qed.

(* The frame property: all argument buffers exist before the call (are below d0); then a buffer of
   an argument that is not shared with a declared output target is not written *)
Theorem frame f fd sm n vals d0 c o s' :
  nth_error tbl f = Some fd -> nth_error sums f = Some sm -> declared fd sm = true ->
  length vals <= f_arity fd ->
  run_p tbl n (f_body fd) (entry vals d0 [] c) = (o, s') ->
  forall b, b < d0 -> (forall a, In a (f_outs fd) -> atom_buf vals d0 a <> b) -> ~ In b (wr s').
Proof.
  intros Efd Esm Hd Hl Hrun b Hlt Hno Hin.
  destruct (safe_sound _ _ _ _ _ _ _ _ _ Efd Esm Hd Hl Hrun b Hin) as [H|(a & Ha & Hb)]; [lia|].
  exact (Hno a Ha Hb).
Qed.

End Sound.

(* From the Boolean check over the accepted functions to the facts the theorems need *)
Lemma all_safe_declared tbl sums (acc : fname -> bool) :
  forallb (fun f => match nth_error tbl f, nth_error sums f with
                    | Some fd, Some sm => safe sums fd sm
                    | _, _ => false
                    end) (filter acc (seq 0 (length tbl))) = true ->
  forall f fd, nth_error tbl f = Some fd -> acc f = true ->
  exists sm, nth_error sums f = Some sm /\ consistent sums fd sm = true /\ declared fd sm = true.
Proof.
  intros H f fd Efd Hacc. rewrite forallb_forall in H.
  assert (Hin : In f (filter acc (seq 0 (length tbl)))).
  { apply filter_In. split; [|exact Hacc]. apply in_seq. split; [lia|].
    simpl. apply nth_error_Some. congruence. }
  specialize (H f Hin). rewrite Efd in H. destruct (nth_error sums f) as [sm|]; [|discriminate].
  exists sm. unfold safe in H. apply andb_true_iff in H. tauto.
Qed.
