(* ConstP.v — constant polynomial arrays stay constant and carry the numeric values (C11). *)
From mathcomp Require Import all_ssreflect all_algebra.
From SsrMultinomials Require Import mpoly.
From NP Require Import Base Poly Order Compare Query Rearr Reduce Const Abs Clean Shape Align WfP Arith QueryP.
Set Implicit Arguments. Unset Strict Implicit. Unset Printing Implicit Defensive.
Import GRing.Theory.
Local Open Scope ring_scope.

Section ConstP.
Variable (R : comRingType).
Implicit Types (o : opts) (s : seq nat) (v : seq R).

Lemma rm_coefs_const D v : rm_coefs D [:: ([:: 0%N], v)] = [:: ([:: 0%N], v)].
Proof. by rewrite /rm_coefs /= /keep_term /= orbT. Qed.

Lemma from_attributes_const rc rn s v :
  from_attributes rc rn [:: 0%N] s [:: [:: 0%N]] [:: v] = Ok (pconst s v).
Proof.
rewrite /from_attributes /=.
have -> : (if rc then [:: ([:: 0%N], v)] else rm_coefs 1 [:: ([:: 0%N], v)]) = [:: ([:: 0%N], v)].
  by case: rc => //; rewrite rm_coefs_const.
by case: rn.
Qed.

Lemma clean_pconst o s v : clean o (pconst s v) = Ok (pconst s v).
Proof. exact: from_attributes_const. Qed.

Lemma dispatch1_const o f s v : dispatch1 o f (pconst s v) = Ok (pconst s (map f v)).
Proof. exact: from_attributes_const. Qed.

Lemma isconstant_pconst s v : isconstant (pconst s v).
Proof. by []. Qed.

Lemma tonumpy_pconst s v : tonumpy (pconst s v) = Ok (s, v).
Proof. by []. Qed.

Lemma align_const2 o s u v :
  align_polys o [:: pconst s u; pconst s v] = Ok [:: pconst s u; pconst s v].
Proof.
rewrite /align_polys /align_shapes /= bshape_nil bshape_refl /align_shape1 /= eqxx /=.
rewrite /align_expons /=.
have -> : global_rows [:: [:: [:: 0%N]]; [:: [:: 0%N]]] = [:: [:: 0%N]] by [].
by rewrite /align_rows /colof /=.
Qed.

Lemma dispatch2_const o f s u v :
  dispatch2 o f (pconst s u) (pconst s v) = Ok (pconst s (zipw f u v)).
Proof. by rewrite /dispatch2 align_const2 /=; exact: from_attributes_const. Qed.


(* re-arrangements, joins of one operand, and linear reductions of constants are constants *)
Lemma prearr_const o s sigma t v : size sigma = prodn s ->
  prearr o s sigma (pconst t v) = Ok (pconst s (ogather sigma v)).
Proof. by move=> e; rewrite /prearr e eqxx /=; exact: from_attributes_const. Qed.

Lemma plinear_const o s W t v : size W = prodn s ->
  plinear o s W (pconst t v) = Ok (pconst s [seq wsum wj v | wj <- W]).
Proof. by move=> e; rewrite /plinear e eqxx /=; exact: from_attributes_const. Qed.

(* the numeric value of a constant array is its only column; it denotes constants *)
Lemma absE_pconst n s v i : absE n (pconst s v) i = (nth 0 v i)%:MP_[n].
Proof.
rewrite /absE /absL /terms /= big_seq1 /absT /=.
have -> : mon n [:: 0%N] [:: 0%N] = 0%MM by apply/mnmP => k; rewrite mnmE /expo /=; case: (_ == _); rewrite mnm0E.
by rewrite mpolyX0 -mul_mpolyC mulr1.
Qed.

(* numeric division: a successful call means the guarded operands were constant *)
Lemma pnumdiv_guard g o f (a b : parr R) r :
  pnumdiv g o f a b = Ok r ->
  exists a' b', [/\ align_polys o [:: a; b] = Ok [:: a'; b'],
                    g_divisor_const g -> isconstant b' & g_dividend_const g -> isconstant a'].
Proof.
rewrite /pnumdiv; case ea: (align_polys o [:: a; b]) => [ps|] //=.
case: ps ea => [|a' [|b' [|c l]]] //= ea.
case: ifP => // /negbT; rewrite negb_or !negb_and !negbK => /andP[h1 h2] _.
exists a', b'; split=> //.
- by move=> gd; move: h1; rewrite gd.
- by move=> gd; move: h2; rewrite gd.
Qed.

Lemma pnumdiv_refuses g o f (a b a' b' : parr R) :
  align_polys o [:: a; b] = Ok [:: a'; b'] ->
  (g_divisor_const g && ~~ isconstant b') || (g_dividend_const g && ~~ isconstant a') ->
  pnumdiv g o f a b = Err FeatureNotSupported.
Proof. by move=> ea h; rewrite /pnumdiv ea /= h. Qed.

Lemma pnumdiv_const g o f s u v :
  pnumdiv g o f (pconst s u) (pconst s v) = Ok (pconst s (zipw f u v)).
Proof.
rewrite /pnumdiv align_const2 /= !andbF /=.
exact: from_attributes_const.
Qed.
End ConstP.

Section ConstCmp.
Variable (R : realDomainType).
Implicit Types (o : opts) (s : seq nat) (u v : seq R).

Definition verdict (code : cmp_code) (x y : R) : bool :=
  if bexp_eval (cc_mask code) (x != 0) (y != 0) (x != y) then cfun (cc_loop code) x y
  else if cc_init code is Some c then cfun c x y else false.

Lemma nth_mapiota (f : nat -> bool) m i : (i < m)%N -> nth false [seq f k | k <- iota 0 m] i = f i.
Proof. by move=> lt; rewrite (nth_map 0%N) ?size_iota // nth_iota. Qed.

Lemma glexsort_one g r : glexsort g r [:: [:: 0%N]] = [:: 0%N].
Proof. by case: g; case: r. Qed.

Lemma pcompare_const code o s u v :
  pcompare code o (pconst s u) (pconst s v)
  = Ok (s, [seq verdict code (nth 0 u i) (nth 0 v i) | i <- iota 0 (prodn s)]).
Proof.
rewrite /pcompare /aligned2 align_const2 /= /sort_order /= glexsort_one /cmp_cols /= /psize /=.
congr (Ok (_, _)); apply/eq_in_map => i; rewrite mem_iota add0n => /andP[_ lt].
rewrite /verdict /cell /=; case: ifP => // _.
by rewrite (nth_map 0%N) ?size_iota // nth_iota.
Qed.

(* for the four shipped comparison loops the verdict on constants is the numeric comparison *)
Lemma verdict_shipped x y :
  [/\ verdict code_gt x y = (y < x), verdict code_ge x y = (y <= x),
      verdict code_lt x y = (x < y) & verdict code_le x y = (x <= y)].
Proof. by rewrite /verdict /=; split; case: ifP. Qed.

Lemma pequal_const o s u v :
  pequal o (pconst s u) (pconst s v) = Ok (s, [seq nth 0 u i == nth 0 v i | i <- iota 0 (prodn s)]).
Proof.
rewrite /pequal /aligned2 align_const2 /= /psize /=.
by congr (Ok (_, _)); apply/eq_map => i; rewrite /= andbT.
Qed.

(* maximum / minimum of constants *)
Lemma pselect_const code o s u v :
  pselect code o (pconst s u) (pconst s v)
  = Ok (pconst s [seq (if verdict code (nth 0 u i) (nth 0 v i) then nth 0 u i else nth 0 v i) | i <- iota 0 (prodn s)]).
Proof.
rewrite /pselect /aligned2 align_const2 /= /sort_order /= glexsort_one /cmp_cols /= /psize /=.
rewrite -[RHS](from_attributes_const (o_retc o) (o_retn o)) /clean /=.
congr (from_attributes _ _ _ _ _ [:: _]); apply/eq_in_map => i; rewrite mem_iota add0n => /andP[_ lt].
rewrite /cell /= nth_mapiota // /verdict /cell /=.
by rewrite nth_mapiota.
Qed.
End ConstCmp.
