(* MonomialP.v — monomial(...) is the array whose i-th element is the single monomial with the
   i-th generated exponent (C18). *)
From mathcomp Require Import all_ssreflect all_algebra.
From SsrMultinomials Require Import mpoly.
From NP Require Import Base Poly Abs Align.
Set Implicit Arguments. Unset Strict Implicit. Unset Printing Implicit Defensive.
Import GRing.Theory.
Local Open Scope ring_scope.

Section Monomial.
Variable (n : nat) (R : comRingType).

Lemma zip_map_iota (ix : seq (seq nat)) (f : nat -> seq R) (F : term R -> {mpoly R[n]}) :
  \sum_(t <- zip ix [seq f k | k <- iota 0 (size ix)]) F t
  = \sum_(k <- iota 0 (size ix)) F (nth [::] ix k, f k).
Proof.
rewrite -{1}(mkseq_nth [::] ix) /mkseq.
elim: (iota 0 (size ix)) => [|k l IH] /=; first by rewrite !big_nil.
by rewrite !big_cons IH.
Qed.

Theorem pmonomial_spec ns ix i :
  (i < size ix)%N -> absE n (@pmonomial R ns ix) i = 'X_[mon n ns (nth [::] ix i)].
Proof.
move=> lt; rewrite /absE /absL /pmonomial /terms /= zip_map_iota.
rewrite (bigD1_seq i) ?iota_uniq ?mem_iota //=.
rewrite /absT /= (nth_map 0%N) ?size_iota // nth_iota // add0n eqxx scale1r.
rewrite big1_seq ?addr0 // => k /andP[ki _].
by rewrite (nth_map 0%N) ?size_iota // nth_iota // add0n eq_sym (negbTE ki) scale0r.
Qed.

Theorem pmonomial_wf ns ix :
  (0 < size ix)%N -> uniq ix -> all (fun r => size r == size ns) ix ->
  (0 < size ns)%N -> uniq ns -> wfb (@pmonomial R ns ix).
Proof.
move=> pos ui wid npos un; apply: wfbI => //=; rewrite ?size_map ?size_iota //.
by apply/allP => c /mapP[k _ ->]; rewrite size_map size_iota /psize /= muln1.
Qed.

End Monomial.
