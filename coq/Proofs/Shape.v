(* Shape.v — facts about flat indexing and numpy broadcasting (nat arithmetic only). *)
From mathcomp Require Import all_ssreflect.
From NP Require Import Base.
Set Implicit Arguments. Unset Strict Implicit. Unset Printing Implicit Defensive.

Lemma size_unravel s i : size (unravel s i) = size s.
Proof. by elim: s i => [|d s IH] i //=; rewrite IH. Qed.

Lemma ravel_unravel s i : i < prodn s -> ravel s (unravel s i) = i.
Proof.
elim: s i => [|d s IH] i /=; first by rewrite ltnS leqn0 => /eqP.
case P0: (prodn s) => [|P]; first by rewrite muln0.
move=> _; rewrite IH ?P0 ?ltn_pmod //.
by rewrite -divn_eq.
Qed.

(* every component of an unravelled in-range index is below its dimension *)
Lemma unravel_bound s i : i < prodn s ->
  all (fun dk => dk.2 < dk.1) (zip s (unravel s i)).
Proof.
elim: s i => [|d s IH] i //= lt.
case P0: (prodn s) lt => [|P]; first by rewrite muln0.
move=> lt; rewrite -P0 IH ?P0 ?ltn_pmod // andbT.
by rewrite ltn_divLR // mulnC.
Qed.

Lemma pin_id s ix : size ix = size s ->
  all (fun dk => dk.2 < dk.1) (zip s ix) -> pin s ix = ix.
Proof.
elim: s ix => [|d s IH] [|k ix] //= [sz] /andP[lt al].
rewrite /pin /= -/(pin s ix) IH //.
by case: eqP lt => // ->; rewrite ltnS leqn0 => /eqP ->.
Qed.

Lemma pin_unravel s i : i < prodn s -> pin s (unravel s i) = unravel s i.
Proof. by move=> lt; rewrite pin_id ?size_unravel // unravel_bound. Qed.

Theorem bidx_id s i : i < prodn s -> bidx s s i = i.
Proof. by move=> lt; rewrite /bidx subnn drop0 pin_unravel // ravel_unravel. Qed.

Lemma bdim_refl a : bdim a a = Some a.
Proof. by rewrite /bdim eqxx. Qed.

Lemma bshape_rev_refl s : bshape_rev s s = Some s.
Proof. by elim: s => [|d s IH] //=; rewrite bdim_refl IH. Qed.

Theorem bshape_refl s : bshape s s = Some s.
Proof. by rewrite /bshape bshape_rev_refl /= revK. Qed.

Lemma bshape_nil s : bshape s [::] = Some s.
Proof.
rewrite /bshape /= -[in RHS](revK s).
by case: (rev s) => [|x r].
Qed.

Lemma bshape_nil_l s : bshape [::] s = Some s.
Proof. by rewrite /bshape /= revK. Qed.

Lemma bdimC a b : bdim a b = bdim b a.
Proof.
rewrite /bdim [b == a]eq_sym; case: (altP (a =P b)) => [->|ne] //.
case: (altP (a =P 1)) => [a1|_]; case: (altP (b =P 1)) => [b1|_] //.
by move: ne; rewrite a1 b1 eqxx.
Qed.

Lemma bshape_revC a b : bshape_rev a b = bshape_rev b a.
Proof.
elim: a b => [|x a IH] [|y b] //=.
by rewrite bdimC IH.
Qed.

Theorem bshapeC a b : bshape a b = bshape b a.
Proof. by rewrite /bshape bshape_revC. Qed.

Lemma bshapes2 a b : bshapes [:: a; b] = bshape a b.
Proof. by rewrite /= bshape_nil. Qed.
