(* HessTotal.v — stacks of partials and the Hessian never fail because of an option setting (C15, C06). *)
From mathcomp Require Import all_ssreflect all_algebra zify.
From SsrMultinomials Require Import mpoly.
From NP Require Import Base Poly Deriv Abs Clean Shape Align WfP Arith MonomialP QueryP DerivP StackP HessP DerivTotal.
Set Implicit Arguments. Unset Strict Implicit. Unset Printing Implicit Defensive.
Import GRing.Theory.
Local Open Scope ring_scope.

Section HessTotal.
Variable (n : nat) (R : comRingType).
Implicit Types (p q : parr R) (o : opts).

Lemma dstack_total o q (vs : seq 'I_n) :
  wfb q -> all (fun v : 'I_n => nat_of_ord v \in names q) vs -> (0 < size vs)%N ->
  exists r, rbind (rseq [seq derivative o q [:: nat_of_ord v] | v <- vs]) (pstack0 o) = Ok r.
Proof.
move=> wq vin vpos.
have [ds [eds szd alld]] : exists ds, [/\ rseq [seq derivative o q [:: nat_of_ord v] | v <- vs] = Ok ds, size ds = size vs
                                        & all (fun d => wfb d && (shape d == shape q)) ds].
  elim: (vs) vin {vpos} => [|v l IH] /=; first by exists [::].
  move=> /andP[vv vl].
  have [d ed] := @derivative_total n R o q [:: v] wq (introT andP (conj vv isT)).
  have [wd sd _] := @derivative_spec n R o q [:: v] d wq (introT andP (conj vv isT)) ed.
  have [ds [eds szd alld]] := IH vl.
  exists (d :: ds); rewrite /= in ed *; rewrite ed eds /=; split=> //; first by rewrite szd.
  by rewrite wd sd eqxx.
rewrite eds /=; apply: (@pstack0_total n R o ds (shape q)).
- by rewrite szd.
- by apply/allP => d /(allP alld) /andP[].
- by apply/allP => d /(allP alld) /andP[].
Qed.

(* the Hessian never fails, whatever the options *)
Theorem hessian_total o p (vs : seq 'I_n) :
  wfb p -> names p = [seq nat_of_ord v | v <- vs] -> exists r, hessian o p = Ok r.
Proof.
move=> wp np; rewrite /hessian.
have [g eg] := gradient_total o wp np; rewrite eg /=.
have [wg sg vg] := gradient_spec wp np eg.
have [_ _ _ _ [_ npos _]] := wfbP wp.
set ns := union_names _; set g' := align_names ns g.
have sub : {subset names g <= ns} by move=> v; apply: mem_union_names; rewrite inE eqxx.
have subp : {subset names p <= ns} by move=> v; apply: mem_union_names; rewrite !inE eqxx orbT.
have uns : uniq ns by apply: uniq_union_names.
have wg' : wfb g' by apply: wfb_align_names.
have ng' : names g' = ns by apply: names_align_names.
rewrite np -map_comp.
apply: dstack_total => //.
  by apply/allP => v vi; rewrite ng'; apply: subp; rewrite np; apply: map_f.
by move: npos; rewrite np size_map.
Qed.
End HessTotal.
