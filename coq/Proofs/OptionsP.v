(* OptionsP.v — global options are scoped, restored on every exit path, updated atomically (C14).
   All statements are about [exec good_code]; the bridge lemma (Bridge/BridgeOptions.v) shows that
   the code facts extracted from the current option.py are [good_code]. *)
From mathcomp Require Import all_ssreflect.
From NP Require Import Options.
Set Implicit Arguments. Unset Strict Implicit. Unset Printing Implicit Defensive.

Definition keys (s : store) : seq nat := unzip1 s.

(* ---- association-list facts --------------------------------------------------------- *)
Lemma keys_upd s k v : has_key s k -> keys (upd s k v) = keys s.
Proof.
rewrite /has_key /keys; elim: s => [|[k' v'] s IH] //=.
rewrite inE eq_sym; case: eqP => [-> _|_ /= /IH ->] //.
Qed.

Lemma keys_update s kw : all_valid s kw -> keys (update s kw) = keys s.
Proof.
rewrite /update /all_valid; elim: kw s => [|[k v] kw IH] s //= /andP[hk al].
rewrite IH ?keys_upd //.
by apply/allP => kv /(allP al); rewrite /has_key -/(keys _) -/(keys _) keys_upd.
Qed.

Lemma upd_cat_notin pre s k v :
  k \notin keys pre -> upd (pre ++ s) k v = pre ++ upd s k v.
Proof.
elim: pre => [|[k' v'] pre IH] //=; rewrite inE negb_or eq_sym => /andP[/negbTE -> /IH ->] //.
Qed.

Lemma update_restore_pre pre s t :
  keys s = keys t -> uniq (keys pre ++ keys t) -> update (pre ++ s) t = pre ++ t.
Proof.
rewrite /update; elim: t s pre => [|[k v] t IH] [|[k0 v0] s] pre //=.
case=> k0k kst; rewrite cat_uniq /= => /and3P[upre /norP[knot hnot] /andP[kt ut]].
rewrite upd_cat_notin; last by rewrite -k0k in knot *; move: knot; rewrite k0k.
rewrite /= k0k eqxx -cat_rcons -[pre ++ (k, v) :: t]cat_rcons; apply: IH => //.
have -> : keys (rcons pre (k, v)) = rcons (keys pre) k by rewrite /keys /unzip1 map_rcons.
rewrite cat_uniq rcons_uniq knot upre ut /= andbT.
apply/hasPn => x xin; rewrite /= mem_rcons inE negb_or.
have -> /= : x != k by apply: contraNneq kt => <-.
by move/hasPn: hnot => /(_ x xin).
Qed.

Lemma update_restore s t : keys s = keys t -> uniq (keys t) -> update s t = t.
Proof. by move=> ks ut; have := @update_restore_pre [::] s t ks ut. Qed.

Lemma lookup_upd s k v k' :
  lookup (upd s k v) k' = if k == k' then Some v else lookup s k'.
Proof.
elim: s => [|[k0 v0] s IH] /=; first by case: eqP.
case: (altP (k0 =P k)) => [->|ne] /=; first by case: eqP.
by rewrite IH; case: (altP (k0 =P k')) => // <-; rewrite eq_sym (negbTE ne).
Qed.

(* only the given options change *)
Lemma lookup_update_other s kw k :
  k \notin unzip1 kw -> lookup (update s kw) k = lookup s k.
Proof.
rewrite /update; elim: kw s => [|[k0 v0] kw IH] s //=.
by rewrite inE negb_or => /andP[ne /IH ->]; rewrite lookup_upd eq_sym (negbTE ne).
Qed.

(* ... and they take the given values *)
Lemma lookup_update_given s kw k v :
  uniq (unzip1 kw) -> (k, v) \in kw -> lookup (update s kw) k = Some v.
Proof.
rewrite /update; elim: kw s => [|[k0 v0] kw IH] s //= /andP[k0n un].
rewrite inE => /orP[/eqP [-> ->]|kin]; last exact: IH.
by rewrite -/(update _ kw) lookup_update_other // lookup_upd eqxx.
Qed.

(* ---- nested induction over programs ---------------------------------------------------- *)
Fixpoint allProp (Q : prog -> Prop) (ps : seq prog) : Prop :=
  if ps is p :: ps' then Q p /\ allProp Q ps' else True.

Section ProgInd.
Variable P : prog -> Prop.
Hypothesis HSet : forall kw, P (PSet kw).
Hypothesis HGet : forall k v, P (PGetMut k v).
Hypothesis HDef : forall k v, P (PDefMut k v).
Hypothesis HRaise : P PRaise.
Hypothesis HBlock : forall kw body, allProp P body -> P (PBlock kw body).
Hypothesis HTry : forall body, allProp P body -> P (PTry body).

Fixpoint prog_ind' (p : prog) : P p :=
  let all_ind := fix all_ind (ps : seq prog) : allProp P ps :=
    match ps with [::] => I | p :: ps' => conj (prog_ind' p) (all_ind ps') end in
  match p with
  | PSet kw => HSet kw
  | PGetMut k v => HGet k v
  | PDefMut k v => HDef k v
  | PRaise => HRaise
  | PBlock kw body => HBlock kw (all_ind body)
  | PTry body => HTry (all_ind body)
  end.
End ProgInd.

(* ---- the invariant: key set and defaults never change -------------------------------------- *)
Section Good.
Variables (K : seq nat) (D : store).
Hypothesis uK : uniq K.
Notation ex := (exec good_code).

Definition inv (x : ostate) : Prop := keys (st x) = K /\ df x = D.

Lemma set_good x kw :
  set_options good_code x kw
  = if all_valid (st x) kw then (OState (update (st x) kw) (df x), false) else (x, true).
Proof. by rewrite /set_options /= /put /=. Qed.

Lemma set_inv x kw : inv x -> inv (set_options good_code x kw).1.
Proof.
move=> [kx dx]; rewrite set_good; case: ifP => // av.
by split=> //=; rewrite keys_update.
Qed.

Lemma fold_inv body acc :
  allProp (fun p => forall x, inv x -> inv (r_state (ex p x))) body ->
  inv (r_state acc) -> inv (r_state (foldl (seq_step ex) acc body)).
Proof.
elim: body acc => [|p body IH] acc //= [hp hb] ia.
by apply: IH => //; rewrite /seq_step; case: ifP => //= _; apply: hp.
Qed.

Lemma restore_inv x x2 : inv x -> inv x2 -> (set_options good_code x2 (st x)).1 = x.
Proof.
move=> [kx dx] [k2 d2]; rewrite set_good.
have -> : all_valid (st x2) (st x).
  by apply/allP => kv kin; rewrite /has_key -/(keys _) k2 -kx; apply: map_f.
rewrite /= update_restore ?kx ?k2 // -d2 in dx *.
by case: x kx dx => s d /= _ ->.
Qed.

Theorem exec_inv p x : inv x -> inv (r_state (ex p x)).
Proof.
elim/prog_ind': p x => [kw|k v|k v||kw body IH|body IH] x ix //=.
- by have := set_inv kw ix; case: (set_options _ _ _).
- have := set_inv kw ix; case E: (set_options _ _ _) => [x1 e] /= i1.
  case: e E => E //=.
  set r := foldl _ _ _.
  have i2 : inv (r_state r) by apply: fold_inv.
  by rewrite (restore_inv ix i2).
- by apply: fold_inv.
Qed.

(* the block theorem: whatever happens inside, and however the block is left *)
Theorem block_restores kw body x :
  inv x -> r_state (ex (PBlock kw body) x) = x.
Proof.
move=> ix /=; rewrite set_good; case: ifP => av //=.
set x1 := OState _ _; set r := foldl _ _ _.
have i1 : inv x1 by case: ix => kx dx; split=> //=; rewrite keys_update.
have i2 : inv (r_state r).
  apply: fold_inv => //.
  by elim: body {r} => [|p body IHb] //=; split=> // y; apply: exec_inv.
by rewrite (restore_inv ix i2).
Qed.

(* inside the block exactly the given options are set *)
Theorem enter_sets_exactly kw body x :
  all_valid (st x) kw ->
  head (snap TOk x) (r_trace (ex (PBlock kw body) x))
    = snap TOk (OState (update (st x) kw) (df x)).
Proof.
move=> av /=; rewrite set_good av /=.
set x1 := OState _ _.
have H : forall acc, (exists tr, r_trace acc = snap TOk x1 :: tr) ->
    exists tr, r_trace (foldl (seq_step ex) acc body) = snap TOk x1 :: tr.
  elim: body => [|p body IHb] acc //= [tr etr]; apply: IHb.
  by rewrite /seq_step; case: ifP => _ /=; [exists tr | rewrite etr /=; eexists].
by have [|tr ->] := H (ORes x1 false [:: snap TOk x1]); first by exists [::].
Qed.

(* unknown option: KeyError, nothing changes, no block is entered, nothing is left pending *)
Theorem invalid_key_atomic kw body x :
  ~~ all_valid (st x) kw ->
  ex (PSet kw) x = ORes x false [:: snap TKeyError x] /\
  ex (PBlock kw body) x = ORes x false [:: snap TKeyError x].
Proof. by move=> /negbTE av /=; rewrite set_good av. Qed.

Theorem get_detached k v x :
  ex (PGetMut k v) x = ORes x false [:: snap TOk x] /\
  ex (PDefMut k v) x = ORes x false [:: snap TOk x].
Proof. by []. Qed.

(* whole histories *)
Theorem history_inv ps x : inv x -> inv (r_state (exec_seq good_code ps x)).
Proof.
move=> ix; apply: fold_inv => //.
by elim: ps => [|p ps IHp] //=; split=> // y; apply: exec_inv.
Qed.

End Good.

Theorem defaults_constant ps x :
  uniq (keys (st x)) -> df (r_state (exec_seq good_code ps x)) = df x.
Proof. by move=> u; have [] := @history_inv (keys (st x)) (df x) u ps x (conj erefl erefl). Qed.

Theorem keys_constant ps x :
  uniq (keys (st x)) -> keys (st (r_state (exec_seq good_code ps x))) = keys (st x).
Proof. by move=> u; have [] := @history_inv (keys (st x)) (df x) u ps x (conj erefl erefl). Qed.
