(* ProxyP.v — sortable_proxy returns a permutation that orders the elements by leading exponent, then by leading
   coefficient (C19). *)
From mathcomp Require Import all_ssreflect all_algebra zify.
From SsrMultinomials Require Import mpoly.
From NP Require Import Base Poly Order Compare Proxy OrderP Abs Align CompareP CompareTop MonomialP QueryP.
Set Implicit Arguments. Unset Strict Implicit. Unset Printing Implicit Defensive.
Import GRing.Theory Num.Theory Order.Theory.
Local Open Scope ring_scope.

(* ---- ranks for a strict total order on positions 0..n-1 ---- *)
Section Rank.
Variables (n : nat) (lt : rel nat).
Hypothesis irr : forall a, lt a a = false.
Hypothesis tr : transitive lt.
Hypothesis tot : forall a b, (a < n)%N -> (b < n)%N -> a != b -> lt a b || lt b a.
Definition rk a := count (fun j => lt j a) (iota 0 n).

Lemma rk_mono a b : (a < n)%N -> lt a b -> (rk a < rk b)%N.
Proof.
move=> la ab; rewrite /rk.
pose q := fun j => lt j a; pose d := fun j => lt j b && ~~ lt j a.
have e1 : count (fun j => lt j b) (iota 0 n) = count (predU q d) (iota 0 n).
  by apply: eq_count => j; rewrite /= /q /d; case ja : (lt j a); rewrite ?andbT //= (tr ja ab).
have e2 : count (predI q d) (iota 0 n) = 0%N.
  by rewrite (@eq_count _ _ pred0) ?count_pred0 // => j; rewrite /= /q /d; case: (lt j a); rewrite ?andbF.
have := count_predUI q d (iota 0 n); rewrite e2 addn0 -e1 => ->.
rewrite -[X in (X < _)%N]addn0 ltn_add2l -has_count; apply/hasP; exists a; first by rewrite mem_iota.
by rewrite /d ab irr.
Qed.

Lemma rk_lt a b : (a < n)%N -> (b < n)%N -> (rk a < rk b)%N = lt a b.
Proof.
move=> la lb; case ab : (lt a b); first exact: rk_mono.
case: (eqVneq a b) => [->|ne]; first by rewrite ltnn.
have := tot la lb ne; rewrite ab /= => /(rk_mono lb) h.
by apply/negbTE; rewrite -leqNgt ltnW.
Qed.

Lemma rk_inj a b : (a < n)%N -> (b < n)%N -> rk a = rk b -> a = b.
Proof.
move=> la lb e; apply/eqP; apply/negPn/negP => ne.
by case/orP: (tot la lb ne) => h; [have := rk_mono la h | have := rk_mono lb h]; rewrite e ltnn.
Qed.

Lemma rk_bound a : (a < n)%N -> (rk a < n)%N.
Proof.
move=> la; rewrite /rk -[X in (_ < X)%N](size_iota 0 n) -(count_predC (fun j => lt j a) (iota 0 n)).
rewrite -[X in (X < _)%N]addn0 ltn_add2l -has_count; apply/hasP; exists a; first by rewrite mem_iota.
by rewrite /= irr.
Qed.

Lemma rk_perm : perm_eq [seq rk a | a <- iota 0 n] (iota 0 n).
Proof.
have un : uniq [seq rk a | a <- iota 0 n].
  rewrite map_inj_in_uniq ?iota_uniq // => a b; rewrite !mem_iota /= !add0n; exact: rk_inj.
have sub : {subset [seq rk a | a <- iota 0 n] <= iota 0 n}.
  by move=> x /mapP[a]; rewrite !mem_iota /= !add0n => la ->; apply: rk_bound.
have [_ eqi] := uniq_min_size un sub (eq_leq (esym (size_map _ _))).
exact: uniq_perm un (iota_uniq 0 n) eqi.
Qed.
End Rank.

(* ---- order by value, then by position ---- *)
Section VLt.
Variables (d : unit) (T : orderType d) (key : nat -> T).
Definition vlt a b := (key a < key b)%O || ((key a == key b) && (a < b)%N).

Lemma vlt_irr a : vlt a a = false.
Proof. by rewrite /vlt ltxx ltnn andbF. Qed.

Lemma vlt_trans : transitive vlt.
Proof.
move=> b a c /orP[ab|/andP[/eqP eab lab]] /orP[bc|/andP[/eqP ebc lbc]]; rewrite /vlt.
- by rewrite (lt_trans ab bc).
- by rewrite -ebc ab.
- by rewrite eab bc.
- by rewrite eab ebc eqxx ltxx (ltn_trans lab lbc).
Qed.

Lemma vlt_tot n a b : (a < n)%N -> (b < n)%N -> a != b -> vlt a b || vlt b a.
Proof.
move=> _ _ ne; rewrite /vlt; case: (ltgtP (key a) (key b)) => //= _.
by rewrite -neq_ltn.
Qed.
End VLt.

Lemma maxs_ge (P : seq nat) i : (nth 0%N P i <= maxs P)%N.
Proof.
elim: P i => [|x P IH] [|i] //=; first exact: leq_maxl.
by apply: leq_trans (IH i) _; apply: leq_maxr.
Qed.

(* in a filter of iota, earlier means smaller *)
Lemma index_filter_iota (a : pred nat) n i j :
  i \in filter a (iota 0 n) -> j \in filter a (iota 0 n) ->
  (index i (filter a (iota 0 n)) < index j (filter a (iota 0 n)))%N = (i < j)%N.
Proof.
set s := filter a _ => iin jin.
have srt : sorted ltn s by apply: sorted_filter (iota_ltn_sorted 0 n); apply: ltn_trans.
have un : uniq s by rewrite filter_uniq ?iota_uniq.
have mono x y : x \in s -> y \in s -> (x < y)%N -> (index x s < index y s)%N.
  move=> xin yin xy.
  have := @sorted_ltn_nth _ ltn ltn_trans 0%N s srt.
  case: (ltngtP (index x s) (index y s)) => // [lt|e].
    move=> /(_ (index y s) (index x s)); rewrite !inE !index_mem yin xin => /(_ isT isT lt).
    by rewrite !nth_index // => /ltn_trans /(_ xy); rewrite ltnn.
  by move: xy; rewrite -(nth_index 0%N xin) e nth_index // ltnn.
case: (ltngtP i j) => [lt|gt|->]; rewrite ?ltnn //; first exact: mono.
by apply/negbTE; rewrite -leqNgt ltnW // mono.
Qed.

Section Main.
Variable R : realDomainType.
Variables (p : parr R) (L : seq (seq nat)) (sz : nat).
Hypothesis urows : uniq (rows p).
Let N := size (rows p).

(* the stored row an element's leading exponent refers to (N if it is not a stored row), its coefficient there *)
Definition grp i := index (nth [::] L i) (rows p).
Definition coef i : R := cell (cols p) (grp i) i.
Definition inG i j := (coef i < coef j) || ((coef i == coef j) && (i < j)%N).

Lemma grpE i idx : (idx < N)%N -> (nth [::] L i == nth [::] (rows p) idx) = (grp i == idx).
Proof.
move=> lt; rewrite /grp; apply/eqP/eqP => [->|e]; first by rewrite index_uniq.
by rewrite -e nth_index // -index_mem e.
Qed.

Definition Inv (done : seq nat) (P : seq nat) : Prop :=
  [/\ size P = sz,
      forall i, (i < sz)%N -> (grp i \in done) = (0 < nth 0%N P i)%N &
      forall i j, (i < sz)%N -> (j < sz)%N -> grp i \in done -> grp j \in done ->
        (nth 0%N P i < nth 0%N P j)%N
        = if grp i == grp j then inG i j else (index (grp i) done < index (grp j) done)%N].

Lemma inv0 : Inv [::] (nseq sz 0%N).
Proof. by split=> [|i lt|i j _ _]; rewrite ?size_nseq // nth_nseq if_same. Qed.

Lemma inv_step done P idx :
  (idx < N)%N -> idx \notin done -> Inv done P -> Inv (rcons done idx) (proxy_step p L P idx).
Proof.
move=> lt nin [sP pos ord]; rewrite /proxy_step sP.
set ind := [seq i <- iota 0 sz | _]; set vals := [seq _ | i <- ind]; set M := maxs P.
have inE' i : (i < sz)%N -> (i \in ind) = (grp i == idx).
  by move=> li; rewrite mem_filter mem_iota /= add0n li andbT grpE.
have nthP' i : (i < sz)%N ->
    nth 0%N [seq (if i \in ind then srank vals (index i ind) + M + 1 else nth 0 P i)%N | i <- iota 0 sz] i
    = (if grp i == idx then srank vals (index i ind) + M + 1 else nth 0 P i)%N.
  by move=> li; rewrite (nth_map 0%N) ?size_iota // nth_iota // add0n inE'.
have memd k : (k \in rcons done idx) = (k == idx) || (k \in done) by rewrite mem_rcons inE.
have idxd k : k \in done -> index k (rcons done idx) = index k done.
  by move=> kin; rewrite -cats1 index_cat kin.
have idxi : index idx (rcons done idx) = size done.
  by rewrite -cats1 index_cat (negbTE nin) /= eqxx addn0.
split; first by rewrite size_map size_iota.
- move=> i li; rewrite nthP' // memd; case: eqP => [_|_] /=; first by rewrite addn1.
  exact: pos.
move=> i j li lj; rewrite !nthP' // !memd.
have sv : size vals = size ind by rewrite size_map.
have rkE a b : a \in ind -> b \in ind ->
    (srank vals (index a ind) < srank vals (index b ind))%N = inG a b.
  move=> ain bin.
  have la : (index a ind < size vals)%N by rewrite sv index_mem.
  have lb : (index b ind < size vals)%N by rewrite sv index_mem.
  rewrite (@rk_lt (size vals) (vlt (nth 0 vals)) (@vlt_irr _ _ _) (@vlt_trans _ _ _)
                  (@vlt_tot _ _ _ (size vals))) //.
  rewrite /vlt /inG !(nth_map 0%N) -?sv // !nth_index // index_filter_iota //.
  have ga : grp a = idx by apply/eqP; rewrite -inE' //; move: ain; rewrite mem_filter mem_iota => /andP[_ /andP[]].
  have gb : grp b = idx by apply/eqP; rewrite -inE' //; move: bin; rewrite mem_filter mem_iota => /andP[_ /andP[]].
  by rewrite /coef ga gb.
case gi : (grp i == idx); case gj : (grp j == idx) => /= di dj.
- have iin : i \in ind by rewrite inE' // gi.
  have jin : j \in ind by rewrite inE' // gj.
  by rewrite (eqP gi) (eqP gj) eqxx !ltn_add2r rkE.
- have ne : (grp i == grp j) = false by rewrite (eqP gi) eq_sym gj.
  rewrite ne (eqP gi) idxi idxd // [RHS]ltnNge index_size /=.
  by have := maxs_ge P j; rewrite -/M; lia.
- have ne : (grp i == grp j) = false by rewrite (eqP gj) gi.
  rewrite ne (eqP gj) idxi idxd // index_mem di.
  by have := maxs_ge P i; rewrite -/M; lia.
- by rewrite !idxd //; apply: ord.
Qed.

Lemma inv_fold order done P :
  uniq (done ++ order) -> all (fun k => k < N)%N order -> Inv done P ->
  Inv (done ++ order) (foldl (proxy_step p L) P order).
Proof.
elim: order done P => [|idx o IH] done P /=; first by rewrite cats0.
rewrite -cat_rcons => un /andP[lt al] inv; apply: IH => //.
apply: inv_step => //.
by move: un; rewrite cat_uniq rcons_uniq => /andP[/andP[]].
Qed.

Definition stored i := (grp i < N)%N.

(* the raw proxy after the whole loop, and the final ranks *)
Theorem proxy_final order P i j :
  perm_eq order (iota 0 N) -> Inv order P -> (i < sz)%N -> (j < sz)%N ->
  (nrank P i < nrank P j)%N
  = if stored i && stored j
    then (if grp i == grp j then inG i j else (index (grp i) order < index (grp j) order)%N)
    else if stored j then true else if stored i then false else (i < j)%N.
Proof.
move=> pe [sP pos ord] li lj.
have nrE a : nrank P a = rk sz (vlt (nth 0%N P)) a.
  by rewrite /nrank /rk sP; apply: eq_count => b; rewrite /vlt ltEnat.
rewrite !nrE (@rk_lt sz (vlt (nth 0%N P)) (@vlt_irr _ _ _) (@vlt_trans _ _ _) (@vlt_tot _ _ _ sz)) //.
have st a : stored a = (grp a \in order) by rewrite (perm_mem pe) mem_iota.
rewrite /vlt ltEnat /= !st.
case di : (grp i \in order); case dj : (grp j \in order) => /=.
- rewrite ord //.
  set X := if _ then _ else _.
  case: (eqVneq i j) => [e|ne].
    by rewrite /X e eqxx ltnn andbF orbF /inG ltxx ltnn andbF.
  case e : (nth 0%N P i == nth 0%N P j); last by rewrite orbF.
  have : (nth 0%N P i < nth 0%N P j)%N || (nth 0%N P j < nth 0%N P i)%N.
    rewrite !ord // [grp j == grp i]eq_sym; case: ifP => [_|neg].
      exact: (@vlt_tot _ _ coef sz).
    rewrite -neq_ltn; apply/eqP => e'.
    by have := congr1 (nth 0%N order) e'; rewrite !nth_index // => /eqP; rewrite neg.
  by rewrite (eqP e) ltnn.
- have := pos j lj; rewrite dj => /esym/negbT; rewrite -eqn0Ngt => /eqP ->.
  by rewrite ltn0 /= eqn0Ngt -pos // di.
- have := pos i li; rewrite di => /esym/negbT; rewrite -eqn0Ngt => /eqP ->.
  by rewrite -pos // dj.
- have := pos i li; rewrite di => /esym/negbT; rewrite -eqn0Ngt => /eqP ->.
  have := pos j lj; rewrite dj => /esym/negbT; rewrite -eqn0Ngt => /eqP ->.
  by rewrite ltnn eqxx.
Qed.
End Main.

(* ---- sortable_proxy on a well-formed array ---- *)
Section Top.
Variable R : realDomainType.
Variables (g r : bool) (p : parr R).
Hypothesis wp : wfb p.
Let N := size (rows p).
Let sz := psize p.
Let L := lead_exponent g r p.
Let order := glexsort g r (rows p).
Let row k := nth [::] (rows p) k.
Let res := sortable_proxy g r p.

Let urows : uniq (rows p). Proof. by have [_ _ u _ _] := wfbP wp. Qed.
Let operm : perm_eq order (iota 0 N). Proof. exact: glexsort_perm. Qed.

Lemma proxy_inv : Inv p L sz order (proxy_raw g r p).
Proof.
rewrite /proxy_raw -/L -/order -[order]cat0s.
apply: inv_fold; rewrite ?cat0s //; last exact: inv0.
- by rewrite (perm_uniq operm) iota_uniq.
- by apply/allP => k; rewrite (perm_mem operm) mem_iota.
Qed.

Lemma size_raw : size (proxy_raw g r p) = sz. Proof. by case: proxy_inv. Qed.

Lemma nth_res i : (i < sz)%N -> nth 0%N res i = nrank (proxy_raw g r p) i.
Proof. by move=> li; rewrite /res /sortable_proxy (nth_map 0%N) ?size_iota // nth_iota. Qed.

(* a permutation of 0 .. size-1 *)
Theorem sortable_proxy_perm : perm_eq res (iota 0 sz).
Proof.
rewrite /res /sortable_proxy -/sz.
have -> : [seq nrank (proxy_raw g r p) i | i <- iota 0 sz]
        = [seq rk sz (vlt (nth 0%N (proxy_raw g r p))) i | i <- iota 0 sz].
  by apply: eq_map => a; rewrite /nrank /rk size_raw; apply: eq_count => b; rewrite /vlt ltEnat.
exact: (rk_perm (@vlt_irr _ _ _) (@vlt_trans _ _ _) (@vlt_tot _ _ _ sz)).
Qed.

(* the order of the result, for any two elements *)
Theorem sortable_proxy_order i j : (i < sz)%N -> (j < sz)%N ->
  (nth 0%N res i < nth 0%N res j)%N
  = if stored p L i && stored p L j
    then (if grp p L i == grp p L j then inG p L i j
          else (index (grp p L i) order < index (grp p L j) order)%N)
    else if stored p L j then true else if stored p L i then false else (i < j)%N.
Proof. by move=> li lj; rewrite !nth_res //; apply: proxy_final proxy_inv li lj. Qed.

(* earlier in the glexsort order = smaller monomial *)
Lemma order_index_mleq k k' : (k < N)%N -> (k' < N)%N -> k != k' ->
  (index k order < index k' order)%N = mleq g r (row k) (row k').
Proof.
move=> lk lk' ne.
have kin : k \in order by rewrite (perm_mem operm) mem_iota.
have kin' : k' \in order by rewrite (perm_mem operm) mem_iota.
have tr : transitive (fun j k => mleq g r (row j) (row k)) by move=> b a c; apply: mleq_trans.
have srt : sorted (fun j k => mleq g r (row j) (row k)) order by apply: glexsort_sorted.
have mono a b : a \in order -> b \in order -> (index a order < index b order)%N -> mleq g r (row a) (row b).
  move=> ain bin lt; have := sorted_ltn_nth tr 0%N srt.
  by move=> /(_ (index a order) (index b order)); rewrite !inE !index_mem ain bin !nth_index //; apply.
have wid a : (a < N)%N -> size (row a) = size (names p).
  by move=> la; have [_ _ _ w _] := wfbP wp; apply/eqP; move/allP: w; apply; apply: mem_nth.
apply/idP/idP => [/(mono _ _ kin kin')|le] //.
rewrite ltnNge leq_eqVlt negb_or; apply/andP; split.
  by apply/eqP => e; have := congr1 (nth 0%N order) e; rewrite !nth_index // => /eqP; rewrite eq_sym (negbTE ne).
apply/negP => /(mono _ _ kin' kin) ge.
have := mleq_anti _ le ge; rewrite !wid // => /(_ erefl) /eqP.
by rewrite nth_uniq // (negbTE ne).
Qed.

(* elements with a leading term *)
Lemma grp_lead i k : (i < sz)%N -> lead_index g r p i = Some k -> grp p L i = k /\ stored p L i.
Proof.
move=> li le; have [lk _ _] := lead_index_some le.
by rewrite /stored /grp /L lead_exponent_spec // le index_uniq.
Qed.

Theorem sortable_proxy_leading i j k k' : (i < sz)%N -> (j < sz)%N ->
  lead_index g r p i = Some k -> lead_index g r p j = Some k' ->
  (nth 0%N res i < nth 0%N res j)%N
  = if k == k'
    then (cell (cols p) k i < cell (cols p) k j) || ((cell (cols p) k i == cell (cols p) k j) && (i < j)%N)
    else mleq g r (row k) (row k').
Proof.
move=> li lj lei lej; rewrite sortable_proxy_order //.
have [gi ->] := grp_lead li lei; have [gj ->] := grp_lead lj lej; rewrite /= gi gj.
have [lk _ _] := lead_index_some lei; have [lk' _ _] := lead_index_some lej.
case: (eqVneq k k') => [e|ne]; last exact: order_index_mleq.
by rewrite /inG /coef gi gj e.
Qed.
End Top.

(* ---- argmin / argmax / amin / amax without axis ---- *)
Section Ext.
Variable R : realDomainType.
Variables (g r : bool) (p : parr R).
Hypothesis wp : wfb p.
Hypothesis pos : (0 < psize p)%N.
Let sz := psize p.
Let res := sortable_proxy g r p.

Lemma res_perm : perm_eq res (iota 0 sz). Proof. exact: sortable_proxy_perm. Qed.
Lemma res_size : size res = sz. Proof. by rewrite (perm_size res_perm) size_iota. Qed.
Lemma res_uniq : uniq res. Proof. by rewrite (perm_uniq res_perm) iota_uniq. Qed.
Lemma res_lt i : (i < sz)%N -> (nth 0%N res i < sz)%N.
Proof.
move=> li; have : nth 0%N res i \in res by apply: mem_nth; rewrite res_size.
by rewrite (perm_mem res_perm) mem_iota.
Qed.

(* the element of rank v *)
Lemma rank_pos v : (v < sz)%N -> (index v res < sz)%N /\ nth 0%N res (index v res) = v.
Proof.
move=> lv; have vin : v \in res by rewrite (perm_mem res_perm) mem_iota.
by rewrite -res_size index_mem nth_index.
Qed.

Lemma pargmin_lt : (pargmin g r p < sz)%N.
Proof. by have [] := rank_pos pos. Qed.

Theorem argmin_least j : (j < sz)%N -> j != pargmin g r p ->
  (pargmin g r p < sz)%N /\ (nth 0%N res (pargmin g r p) < nth 0%N res j)%N.
Proof.
move=> lj ne; have [li e0] := rank_pos pos; rewrite /pargmin -/res; split=> //.
rewrite e0 lt0n; apply/eqP => ej.
have ljs : (j < size res)%N by rewrite res_size.
have := index_uniq 0%N ljs res_uniq; rewrite ej => e.
by move: ne; rewrite /pargmin -/res e eqxx.
Qed.

Theorem amax_greatest j : (j < sz)%N -> j != pamax_pos g r p ->
  (pamax_pos g r p < sz)%N /\ (nth 0%N res j < nth 0%N res (pamax_pos g r p))%N.
Proof.
move=> lj ne; have lv : (sz.-1 < sz)%N by rewrite prednK.
have [li e0] := rank_pos lv; rewrite /pamax_pos -/res -/sz; split=> //.
rewrite e0; have := res_lt lj; rewrite -[X in (_ < X)%N](prednK pos) ltnS leq_eqVlt => /orP[/eqP ej|//].
have ljs : (j < size res)%N by rewrite res_size.
have := index_uniq 0%N ljs res_uniq; rewrite ej => e.
by move: ne; rewrite /pamax_pos -/res -/sz e eqxx.
Qed.

(* with leading terms: the minimum by (leading exponent, leading coefficient), first occurrence *)
Theorem argmin_spec j k0 k : (j < sz)%N -> j != pargmin g r p ->
  lead_index g r p (pargmin g r p) = Some k0 -> lead_index g r p j = Some k ->
  if k0 == k
  then (cell (cols p) k0 (pargmin g r p) < cell (cols p) k0 j)
       || ((cell (cols p) k0 (pargmin g r p) == cell (cols p) k0 j) && (pargmin g r p < j)%N)
  else mleq g r (nth [::] (rows p) k0) (nth [::] (rows p) k).
Proof.
move=> lj ne l0 lk; have [li lt] := argmin_least lj ne.
by rewrite -(sortable_proxy_leading wp li lj l0 lk).
Qed.

Theorem amax_spec j k1 k : (j < sz)%N -> j != pamax_pos g r p ->
  lead_index g r p (pamax_pos g r p) = Some k1 -> lead_index g r p j = Some k ->
  if k == k1
  then (cell (cols p) k j < cell (cols p) k (pamax_pos g r p))
       || ((cell (cols p) k j == cell (cols p) k (pamax_pos g r p)) && (j < pamax_pos g r p)%N)
  else mleq g r (nth [::] (rows p) k) (nth [::] (rows p) k1).
Proof.
move=> lj ne l1 lk; have [li lt] := amax_greatest lj ne.
by rewrite -(sortable_proxy_leading wp lj li lk l1).
Qed.
End Ext.

Section Rev.
Variable R : realDomainType.
Variables (g r : bool) (p : parr R).
Hypothesis wp : wfb p.
Hypothesis pos : (0 < psize p)%N.
Let sz := psize p.

Lemma psize_prev : psize (prev p) = sz.
Proof. by rewrite /psize /= muln1. Qed.

Lemma wfb_prev : wfb (prev p).
Proof.
have [srs rpos urs wid [csz npos un]] := wfbP wp.
apply: wfbI => //=; rewrite ?size_map //.
apply/allP => c /mapP[c0 c0in ->]; rewrite size_rev psize_prev.
by move/allP: csz; apply.
Qed.

Lemma cell_prev k i : (i < sz)%N -> cell (cols (prev p)) k i = cell (cols p) k (sz - i.+1)%N.
Proof.
move=> li; rewrite /cell /=.
have -> : nth [::] [seq rev c | c <- cols p] k = rev (nth [::] (cols p) k).
  case: (ltnP k (size (cols p))) => lk; first by rewrite (nth_map [::]).
  by rewrite !nth_default ?size_map.
have [_ _ _ _ [csz _ _]] := wfbP wp.
case: (ltnP k (size (cols p))) => lk; last by rewrite !nth_default //= ?nth_nil.
have sc : size (nth [::] (cols p) k) = sz by apply/eqP; move/allP: csz; apply; apply: mem_nth.
by rewrite nth_rev sc.
Qed.

Lemma foldl_ext (T A : Type) (f1 f2 : A -> T -> A) z s : f1 =2 f2 -> foldl f1 z s = foldl f2 z s.
Proof. by move=> e; elim: s z => [|x s IH] z //=; rewrite e IH. Qed.

Lemma lead_index_prev i : (i < sz)%N -> lead_index g r (prev p) i = lead_index g r p (sz - i.+1)%N.
Proof.
move=> li; rewrite /lead_index /=.
by apply: foldl_ext => acc k; rewrite cell_prev.
Qed.

Lemma pargmax_lt : (pargmax g r p < sz)%N.
Proof. rewrite /pargmax; move: pos; rewrite -/sz; lia. Qed.

(* the maximum by (leading exponent, leading coefficient), FIRST occurrence *)
Theorem argmax_spec j k1 k : (j < sz)%N -> j != pargmax g r p ->
  lead_index g r p (pargmax g r p) = Some k1 -> lead_index g r p j = Some k ->
  if k == k1
  then (cell (cols p) k j < cell (cols p) k (pargmax g r p))
       || ((cell (cols p) k j == cell (cols p) k (pargmax g r p)) && (pargmax g r p < j)%N)
  else mleq g r (nth [::] (rows p) k) (nth [::] (rows p) k1).
Proof.
move=> lj ne l1 lk.
have pos' : (0 < psize (prev p))%N by rewrite psize_prev.
set j' := pamax_pos g r (prev p).
have ej' : pargmax g r p = (sz.-1 - j')%N by rewrite /pargmax /j' /pamax_pos psize_prev.
have lv : ((psize (prev p)).-1 < psize (prev p))%N by rewrite prednK.
have lj' : (j' < sz)%N.
  have pe := sortable_proxy_perm g r wfb_prev.
  have sq : size (sortable_proxy g r (prev p)) = sz by rewrite (perm_size pe) size_iota psize_prev.
  by rewrite /j' /pamax_pos -sq index_mem (perm_mem pe) mem_iota.
pose j2 := (sz.-1 - j)%N.
have lj2 : (j2 < sz)%N by rewrite /j2; lia.
have ne2 : j2 != j' by apply: contraNneq ne => e; rewrite ej' -e /j2; apply/eqP; lia.
have e1 : (sz - j'.+1)%N = pargmax g r p by rewrite ej'; lia.
have e2 : (sz - j2.+1)%N = j by rewrite /j2; lia.
have l1' : lead_index g r (prev p) j' = Some k1 by rewrite lead_index_prev // e1.
have lk' : lead_index g r (prev p) j2 = Some k by rewrite lead_index_prev // e2.
have := @amax_spec _ g r (prev p) wfb_prev pos' j2 k1 k; rewrite psize_prev -/j' => /(_ lj2 ne2 l1' lk').
rewrite !cell_prev // e1 e2 /=.
have -> : (j2 < j')%N = (pargmax g r p < j)%N by rewrite ej' /j2; lia.
by [].
Qed.
End Rev.
