(* PersistP.v — pickle / copy / text round trips (C13).
   Part 1 (stdlib, lia): the header line — join/split, decimal integers, the deterministic regex
   matcher on the printed header, the search past the comment prefix, parse (print x) = x.
   Part 2 (ssreflect): __reduce__ -> rebuild, the coefficient matrix and its way back, and the
   composition of both into loadtxt (savetxt p). *)
From Coq Require Import NArith List Bool String DecimalN DecimalPos Lia.
From NP Require Import Key KeyP Persist.

Section HeaderProofs.
Local Open Scope N_scope.
Local Open Scope list_scope.

(* ---- characters ------------------------------------------------------------------------------- *)
Lemma is_space_true c : is_space c = true -> In c space_table.
Proof.
unfold is_space; rewrite existsb_exists; intros [x [Hin Hx]].
apply N.eqb_eq in Hx; subst; exact Hin.
Qed.

(* between ';' (59) and the NEL control character (133) nothing is white space or a comma *)
Lemma printable_not_space c : 45 <= c -> c < 133 -> is_space c = false /\ c <> comma.
Proof.
intros H1 H2; split; [|unfold comma; lia].
destruct (is_space c) eqn:E; [|reflexivity].
apply is_space_true in E; unfold space_table in E; simpl in E.
repeat (destruct E as [E|E]; [lia|]); destruct E.
Qed.

Definition ch_ok (c : N) : bool := negb (is_space c) && negb (c =? comma).
Definition ns_str (s : str) : bool := forallb (fun c => negb (is_space c)) s.
Definition is_nil (A : Type) (l : list A) : bool := match l with nil => true | _ => false end.
Definition tok_ok (x : str) : bool := negb (is_nil _ x) && forallb ch_ok x.
Definition toks_ok (xs : list str) : bool := negb (is_nil _ xs) && forallb tok_ok xs.

Lemma tok_ok_ns x : tok_ok x = true -> ns_str x = true /\ x <> nil.
Proof.
unfold tok_ok, ns_str; rewrite andb_true_iff; intros [Hn Hc]; split.
- rewrite forallb_forall in *; intros c Hin; specialize (Hc c Hin).
  unfold ch_ok in Hc; rewrite andb_true_iff in Hc; tauto.
- destruct x; [discriminate|congruence].
Qed.

(* ---- strip_prefix / starts_with ----------------------------------------------------------------- *)
Lemma strip_prefix_app l s : strip_prefix l (l ++ s) = Some s.
Proof. induction l as [|a l IH]; simpl; [reflexivity|]; rewrite N.eqb_refl; exact IH. Qed.

Lemma starts_with_app l s : starts_with l (l ++ s) = true.
Proof. unfold starts_with; rewrite strip_prefix_app; reflexivity. Qed.

(* ---- span_ns ------------------------------------------------------------------------------------- *)
Lemma span_ns_app g c s :
  ns_str g = true -> is_space c = true -> span_ns (g ++ c :: s) = (g, c :: s).
Proof.
induction g as [|a g IH]; simpl; intros Hg Hc; [rewrite Hc; reflexivity|].
apply andb_true_iff in Hg; destruct Hg as [Ha Hg].
apply negb_true_iff in Ha; rewrite Ha, (IH Hg Hc); reflexivity.
Qed.

Lemma rmatch_ns plus cap r g s' s :
  span_ns s = (g, s') -> (plus = true -> g <> nil) ->
  rmatch (RNs plus cap :: r) s = option_map (fun gs => if cap then g :: gs else gs) (rmatch r s').
Proof.
intros Hs Hg; simpl; rewrite Hs.
destruct plus; simpl; [|reflexivity].
destruct g; [exfalso; apply Hg; reflexivity|reflexivity].
Qed.

Lemma rmatch_lit l r s : rmatch (RLit l :: r) (l ++ s) = rmatch r s.
Proof. simpl; rewrite strip_prefix_app; reflexivity. Qed.

(* ---- join / split -------------------------------------------------------------------------------- *)
Definition sep_free (c : N) (x : str) : bool := forallb (fun y => negb (y =? c)) x.

Lemma split_sep_free c x : sep_free c x = true -> split c x = x :: nil.
Proof.
induction x as [|a x IH]; simpl; [reflexivity|].
rewrite andb_true_iff, negb_true_iff; intros [Ha Hx]; rewrite Ha, (IH Hx); reflexivity.
Qed.

Lemma split_app c x rest : sep_free c x = true -> split c (x ++ c :: rest) = x :: split c rest.
Proof.
induction x as [|a x IH]; simpl; [rewrite N.eqb_refl; reflexivity|].
rewrite andb_true_iff, negb_true_iff; intros [Ha Hx]; rewrite Ha, (IH Hx); reflexivity.
Qed.

Theorem split_join c xs :
  xs <> nil -> forallb (sep_free c) xs = true -> split c (join c xs) = xs.
Proof.
induction xs as [|x xs IH]; [congruence|]; intros _ H.
simpl in H; apply andb_true_iff in H; destruct H as [Hx Hxs].
destruct xs as [|y xs]; [simpl; apply split_sep_free; exact Hx|].
change (join c (x :: y :: xs)) with (x ++ c :: join c (y :: xs)).
rewrite split_app by exact Hx; rewrite IH; [reflexivity|congruence|exact Hxs].
Qed.

Lemma tok_ok_sep_free x : tok_ok x = true -> sep_free comma x = true.
Proof.
unfold tok_ok, sep_free; rewrite andb_true_iff; intros [_ H].
rewrite forallb_forall in *; intros c Hin; specialize (H c Hin).
unfold ch_ok in H; rewrite andb_true_iff in H; tauto.
Qed.

Lemma comma_not_space : is_space comma = false.
Proof. reflexivity. Qed.

Lemma ns_str_app a b : ns_str (a ++ b) = ns_str a && ns_str b.
Proof. unfold ns_str; apply forallb_app. Qed.

Lemma toks_ok_join xs :
  toks_ok xs = true ->
  ns_str (join comma xs) = true /\ join comma xs <> nil /\ split comma (join comma xs) = xs.
Proof.
unfold toks_ok; rewrite andb_true_iff; intros [Hn H].
assert (Hne : xs <> nil) by (destruct xs; [discriminate|congruence]).
split; [|split].
- clear Hn Hne; induction xs as [|x xs IH]; [reflexivity|].
  simpl in H; apply andb_true_iff in H; destruct H as [Hx Hxs].
  destruct (tok_ok_ns _ Hx) as [Hx1 _].
  destruct xs as [|y xs]; [exact Hx1|].
  change (join comma (x :: y :: xs)) with (x ++ comma :: join comma (y :: xs)).
  rewrite ns_str_app, Hx1.
  change (ns_str (comma :: join comma (y :: xs))) with (negb (is_space comma) && ns_str (join comma (y :: xs))).
  rewrite comma_not_space; exact (IH Hxs).
- destruct xs as [|x xs]; [congruence|].
  simpl in H; apply andb_true_iff in H; destruct H as [Hx _].
  destruct (tok_ok_ns _ Hx) as [_ Hx2].
  destruct xs; simpl; [exact Hx2|]; destruct x; [congruence|discriminate].
- apply split_join; [exact Hne|].
  rewrite forallb_forall in *; intros x Hin; apply tok_ok_sep_free; exact (H x Hin).
Qed.

(* ---- decimal integers ---------------------------------------------------------------------------- *)
Lemma undigits_digits d : undigits (digits d) = Some d.
Proof. induction d; simpl; try rewrite IHd; reflexivity. Qed.

Lemma to_uint_nonnil n : N.to_uint n <> Decimal.Nil.
Proof. destruct n; simpl; [discriminate|apply Unsigned.to_uint_nonnil]. Qed.

Lemma digits_nonnil d : d <> Decimal.Nil -> digits d <> nil.
Proof. destruct d; simpl; congruence. Qed.

Theorem parse_int_dec n : parse_int (dec n) = Some n.
Proof.
unfold parse_int, dec.
destruct (digits (N.to_uint n)) eqn:E.
- exfalso; exact (digits_nonnil _ (to_uint_nonnil n) E).
- rewrite <- E, undigits_digits; simpl; rewrite DecimalN.Unsigned.of_to; reflexivity.
Qed.

Lemma digits_ch_ok d : forallb ch_ok (digits d) = true.
Proof. induction d; simpl; try rewrite IHd; reflexivity. Qed.

Lemma dec_tok_ok n : tok_ok (dec n) = true.
Proof.
unfold tok_ok, dec; rewrite digits_ch_ok, andb_true_r.
destruct (digits (N.to_uint n)) eqn:E; [|reflexivity].
exfalso; exact (digits_nonnil _ (to_uint_nonnil n) E).
Qed.

Lemma ints_dec shape : ints (map dec shape) = Some shape.
Proof. induction shape as [|n sh IH]; simpl; [reflexivity|]; rewrite parse_int_dec, IH; reflexivity. Qed.

Lemma filter_nonempty_dec shape :
  filter (fun x : str => match x with nil => false | _ => true end) (map dec shape) = map dec shape.
Proof.
induction shape as [|n sh IH]; simpl; [reflexivity|].
destruct (dec n) eqn:E; [|rewrite IH; reflexivity].
pose proof (dec_tok_ok n) as H; rewrite E in H; discriminate.
Qed.

(* indeterminate names *)
Theorem name_idx_str k : name_idx (name_str k) = Some k.
Proof. unfold name_idx, name_str; simpl; rewrite parse_int_dec, list_eqb_refl; reflexivity. Qed.

Lemma name_tok_ok k : tok_ok (name_str k) = true.
Proof.
pose proof (dec_tok_ok k) as H; unfold tok_ok in *; simpl.
apply andb_true_iff in H; destruct H as [_ H]; rewrite H; reflexivity.
Qed.

(* ---- the printed header -------------------------------------------------------------------------- *)
Lemma fill_template v a b c :
  fill v a b c hdr_template
  = lit "numpoly:" ++ v ++ lit " names:" ++ a ++ lit " keys:" ++ b ++ lit " shape:" ++ c.
Proof. unfold fill, hdr_template; simpl flat_map; rewrite !app_nil_r; reflexivity. Qed.

Lemma span_ns_lit g l s :
  ns_str g = true -> (exists c l', l = c :: l' /\ is_space c = true) ->
  span_ns (g ++ l ++ s) = (g, l ++ s).
Proof. intros Hg [c [l' [-> Hc]]]; simpl; apply span_ns_app; assumption. Qed.

Lemma newline_space : is_space newline = true.
Proof. reflexivity. Qed.

(* the deterministic matcher on a printed header line *)
Lemma rmatch_header star v a b c rest :
  ns_str v = true -> v <> nil -> ns_str a = true -> a <> nil -> ns_str b = true -> b <> nil ->
  ns_str c = true -> (star = false -> c <> nil) ->
  rmatch (hdr_regex star)
         (lit "numpoly:" ++ v ++ lit " names:" ++ a ++ lit " keys:" ++ b ++ lit " shape:" ++ c ++ newline :: rest)
  = Some (a :: b :: c :: nil).
Proof.
intros Hv Hv' Ha Ha' Hb Hb' Hc Hc'.
unfold hdr_regex, hdr_template; simpl map.
rewrite rmatch_lit.
rewrite (rmatch_ns true false _ v (lit " names:" ++ a ++ lit " keys:" ++ b ++ lit " shape:" ++ c ++ newline :: rest));
  [|apply span_ns_lit; [exact Hv|eexists; eexists; split; reflexivity]|intros _; exact Hv'].
rewrite rmatch_lit.
rewrite (rmatch_ns true true _ a (lit " keys:" ++ b ++ lit " shape:" ++ c ++ newline :: rest));
  [|apply span_ns_lit; [exact Ha|eexists; eexists; split; reflexivity]|intros _; exact Ha'].
rewrite rmatch_lit.
rewrite (rmatch_ns true true _ b (lit " shape:" ++ c ++ newline :: rest));
  [|apply span_ns_lit; [exact Hb|eexists; eexists; split; reflexivity]|intros _; exact Hb'].
rewrite rmatch_lit.
rewrite (rmatch_ns (negb star) true _ c (newline :: rest));
  [|apply span_ns_app; [exact Hc|exact newline_space]|destruct star; [discriminate|intros _; apply Hc'; reflexivity]].
reflexivity.
Qed.

(* re.search skips a comment prefix that cannot start the pattern *)
Lemma rsearch_hit r s g : rmatch r s = Some g -> rsearch r s = Some g.
Proof. intros H; destruct s; simpl; rewrite H; reflexivity. Qed.

Lemma rsearch_cons r c s :
  rsearch r (c :: s) = match rmatch r (c :: s) with Some g => Some g | None => rsearch r s end.
Proof. reflexivity. Qed.

Lemma rsearch_skip star cs s :
  ~ In 110 cs -> rsearch (hdr_regex star) (cs ++ s) = rsearch (hdr_regex star) s.
Proof.
induction cs as [|c cs IH]; intros Hn; [reflexivity|].
assert (Hc : c <> 110) by (intros ->; apply Hn; left; reflexivity).
assert (Hcs : ~ In 110 cs) by (intros H; apply Hn; right; exact H).
change ((c :: cs) ++ s) with (c :: (cs ++ s)).
assert (Hm : rmatch (hdr_regex star) (c :: cs ++ s) = None).
{ unfold hdr_regex, hdr_template; simpl map; unfold rmatch.
  change (lit "numpoly:") with (110 :: lit "umpoly:").
  simpl strip_prefix. destruct (110 =? c) eqn:E; [apply N.eqb_eq in E; congruence|reflexivity]. }
rewrite rsearch_cons, Hm; exact (IH Hcs).
Qed.

(* ---- parse_header (print_header ...) -------------------------------------------------------------- *)
(* guard: the comment prefix contains no 'n' (so the pattern cannot start inside it), the version and
   every name / key are non-empty and free of white space and commas *)
Theorem header_roundtrip_gen star filt comments version names keys shape :
  ~ In 110 comments -> ns_str version = true -> version <> nil ->
  toks_ok names = true -> toks_ok keys = true ->
  (shape = nil -> star = true /\ filt = true) ->
  parse_header star filt comments
    (first_line comments (fill version (join comma names) (join comma keys) (join comma (map dec shape)) hdr_template))
  = HOk names keys shape.
Proof.
intros Hcm Hv Hv' Hn Hk Hs.
destruct (toks_ok_join _ Hn) as [Hn1 [Hn2 Hn3]].
destruct (toks_ok_join _ Hk) as [Hk1 [Hk2 Hk3]].
unfold parse_header, first_line.
rewrite fill_template, <- !app_assoc.
replace (comments ++ lit "numpoly:" ++ version ++ lit " names:" ++ join comma names ++ lit " keys:" ++
         join comma keys ++ lit " shape:" ++ join comma (map dec shape) ++ newline :: nil)
  with ((comments ++ lit "numpoly:") ++ version ++ lit " names:" ++ join comma names ++ lit " keys:" ++
         join comma keys ++ lit " shape:" ++ join comma (map dec shape) ++ newline :: nil)
  by (rewrite <- app_assoc; reflexivity).
rewrite starts_with_app, <- app_assoc, rsearch_skip by exact Hcm.
destruct shape as [|d sh].
- destruct (Hs eq_refl) as [-> ->].
  rewrite (rsearch_hit _ _ (join comma names :: join comma keys :: nil :: nil)).
  + simpl; rewrite Hn3, Hk3; reflexivity.
  + apply (rmatch_header true version (join comma names) (join comma keys) nil nil); auto; discriminate.
- assert (Hsh : toks_ok (map dec (d :: sh)) = true).
  { unfold toks_ok; simpl; rewrite dec_tok_ok; simpl.
    apply forallb_forall; intros x Hin; apply in_map_iff in Hin; destruct Hin as [n [<- _]]; apply dec_tok_ok. }
  destruct (toks_ok_join _ Hsh) as [Hs1 [Hs2 Hs3]].
  rewrite (rsearch_hit _ _ (join comma names :: join comma keys :: join comma (map dec (d :: sh)) :: nil)).
  + rewrite Hs3, Hn3, Hk3.
    destruct filt; [rewrite filter_nonempty_dec|]; rewrite ints_dec; reflexivity.
  + apply rmatch_header; auto.
Qed.

End HeaderProofs.

Section HeaderTheorems.
Local Open Scope N_scope.
Local Open Scope list_scope.

(* the header savetxt prints, read back by loadtxt's parser *)
Theorem header_roundtrip star filt off comments version names rows shape :
  ~ In 110 comments -> ns_str version = true -> version <> nil ->
  toks_ok names = true -> toks_ok (map (encode_row off) rows) = true ->
  (shape = nil -> star = true /\ filt = true) ->
  parse_header star filt comments (first_line comments (print_header off version names rows shape))
  = HOk names (map (encode_row off) rows) shape.
Proof. intros; unfold print_header; apply header_roundtrip_gen; assumption. Qed.

(* keys of rows whose exponents stay below the first code point that is white space (NEL, 133) *)
Lemma small_keys_ok off rows :
  45 <= off -> rows <> nil ->
  Forall (fun r => r <> nil /\ Forall (fun e => e + off < 133) r) rows ->
  toks_ok (map (encode_row off) rows) = true.
Proof.
intros Hoff Hne H; unfold toks_ok.
destruct rows as [|r0 rows0]; [congruence|]; simpl is_nil; simpl negb; rewrite andb_true_l.
apply forallb_forall; intros k Hin; apply in_map_iff in Hin; destruct Hin as [r [<- Hr]].
rewrite Forall_forall in H; destruct (H r Hr) as [Hrn Hre].
unfold tok_ok; apply andb_true_iff; split; [destruct r; [congruence|reflexivity]|].
unfold encode_row; apply forallb_forall; intros c Hc; apply in_map_iff in Hc; destruct Hc as [e [<- He]].
rewrite Forall_forall in Hre; specialize (Hre e He).
rewrite encode_small by (rewrite two32_val; lia).
destruct (printable_not_space (e + off)) as [H1 H2]; [lia|lia|].
unfold ch_ok; rewrite H1; simpl; apply negb_true_iff, N.eqb_neq; exact H2.
Qed.

Lemma names_toks_ok ks : ks <> nil -> toks_ok (map name_str ks) = true.
Proof.
intros Hne; unfold toks_ok; destruct ks as [|k ks]; [congruence|]; simpl is_nil; simpl negb; rewrite andb_true_l.
apply forallb_forall; intros x Hin; apply in_map_iff in Hin; destruct Hin as [k' [<- _]]; apply name_tok_ok.
Qed.

(* the shipped parser fails on the header of every 0-d array: the printed shape field is empty *)
Theorem header_refuted_0d :
  parse_header false false (lit "# ")
    (first_line (lit "# ") (print_header 59 (lit "0.1.0") (name_str 0 :: name_str 1 :: nil)
                                         ((1 :: 0 :: nil) :: (0 :: 1 :: nil) :: nil) nil))
  = HFail HAssert.
Proof. vm_compute; reflexivity. Qed.

(* repairing the regex alone is not enough: int('') *)
Theorem header_refuted_0d_regex_only :
  parse_header true false (lit "# ")
    (first_line (lit "# ") (print_header 59 (lit "0.1.0") (name_str 0 :: name_str 1 :: nil)
                                         ((1 :: 0 :: nil) :: (0 :: 1 :: nil) :: nil) nil))
  = HFail HValue.
Proof. vm_compute; reflexivity. Qed.

(* general form: for EVERY 0-d array the shipped pattern does not match at the marker, whatever the
   other fields *)
Theorem header_0d_no_match_shipped version names keys :
  ns_str version = true -> version <> nil ->
  toks_ok names = true -> toks_ok keys = true ->
  forall g, rmatch (hdr_regex false)
              (fill version (join comma names) (join comma keys) nil hdr_template ++ newline :: nil) <> Some g.
Proof.
intros Hv Hv' Hn Hk g.
destruct (toks_ok_join _ Hn) as [Hn1 [Hn2 _]]; destruct (toks_ok_join _ Hk) as [Hk1 [Hk2 _]].
rewrite fill_template, <- !app_assoc.
unfold hdr_regex, hdr_template; simpl map.
rewrite rmatch_lit.
rewrite (rmatch_ns true false _ version (lit " names:" ++ join comma names ++ lit " keys:" ++ join comma keys ++ lit " shape:" ++ nil ++ newline :: nil));
  [|apply span_ns_lit; [exact Hv|eexists; eexists; split; reflexivity]|intros _; exact Hv'].
rewrite rmatch_lit.
rewrite (rmatch_ns true true _ (join comma names) (lit " keys:" ++ join comma keys ++ lit " shape:" ++ nil ++ newline :: nil));
  [|apply span_ns_lit; [exact Hn1|eexists; eexists; split; reflexivity]|intros _; exact Hn2].
rewrite rmatch_lit.
rewrite (rmatch_ns true true _ (join comma keys) (lit " shape:" ++ nil ++ newline :: nil));
  [|apply span_ns_lit; [exact Hk1|eexists; eexists; split; reflexivity]|intros _; exact Hk2].
rewrite rmatch_lit; simpl; discriminate.
Qed.

(* a key character that is white space for \S (exponent 74 -> U+0085) breaks the header whatever the
   repairs: why the round-trip theorem is guarded by toks_ok on the keys *)
Theorem header_refuted_space_key star filt :
  parse_header star filt (lit "# ")
    (first_line (lit "# ") (print_header 59 (lit "0.1.0") (name_str 0 :: nil) ((74 :: nil) :: (0 :: nil) :: nil) (2 :: nil)))
  = HFail HAssert.
Proof. destruct star, filt; vm_compute; reflexivity. Qed.

(* a first line that does not start with comments + "numpoly:" is not parsed at all *)
Theorem header_plain star filt comments line :
  starts_with (comments ++ lit "numpoly:") line = false -> parse_header star filt comments line = HPlain.
Proof. intros H; unfold parse_header; rewrite H; reflexivity. Qed.

(* the file-object path hands numpy.loadtxt every line iff the read line is chained back *)
Theorem lines_seen_all (A : Type) fileobj chain (lines : list A) :
  fileobj = false \/ chain = true -> lines_seen A fileobj chain lines = lines.
Proof. unfold lines_seen; intros [-> | ->]; [reflexivity|rewrite andb_false_r; reflexivity]. Qed.

Theorem lines_seen_refuted :
  lines_seen N true false (1 :: 2 :: 3 :: nil) = 2 :: 3 :: nil.
Proof. reflexivity. Qed.

End HeaderTheorems.

(* ================================================================================================ *)
(* Part 2 — the storage model                                                                          *)
(* ================================================================================================ *)
From mathcomp Require Import all_ssreflect all_algebra.
From SsrMultinomials Require Import mpoly.
From NP Require Import Base Poly Abs Clean Shape Align WfP.
Set Implicit Arguments. Unset Strict Implicit. Unset Printing Implicit Defensive.
Import GRing.Theory.
Local Open Scope ring_scope.

Section PersistP.
Variable (n : nat) (R : comRingType).
Implicit Types (p q : parr R) (o : opts) (f : rflags).

(* ---- from_attributes: further facts ---------------------------------------------------------------- *)
Lemma from_attributes_names rc ns sh rs (cs : seq (seq R)) q :
  from_attributes rc true ns sh rs cs = Ok q -> names q = ns.
Proof.
rewrite /from_attributes; case: ifP => // _; case: cs => [|c0 cs] //.
by case: ifP => // _; case: ifP => // _ /=; case: ifP => // _ [<-].
Qed.

Lemma keep_fallback D m : keep_term (nseq D 0%N, zeros R m).
Proof.
rewrite /keep_term /=; apply/orP; right; apply/hasPn => e.
by rewrite mem_nseq => /andP[_ /eqP ->]; rewrite eqxx.
Qed.

Lemma all_keep_rm_coefs D (ts : seq (term R)) : all (@keep_term R) (rm_coefs D ts).
Proof.
rewrite /rm_coefs; case E: (filter _ ts) => [|t l]; first by rewrite /= keep_fallback.
by rewrite -E filter_all.
Qed.

(* rebuilding a well-formed polynomial is the identity when nothing would be dropped *)
Lemma from_attributes_id rc p :
  wfb p -> rc || all (@keep_term R) (terms p) ->
  from_attributes rc true (names p) (shape p) (rows p) (cols p) = Ok p.
Proof.
move=> wp; case: rc => /=; first by move=> _; apply: roundtrip_retain.
move=> ak; have [srs rpos urs wid [csz npos un]] := wfbP wp.
have zs : size (zip (rows p) (cols p)) = size (rows p) by rewrite size_zip srs minnn.
have fE : filter (@keep_term R) (zip (rows p) (cols p)) = zip (rows p) (cols p) by apply/all_filterP.
rewrite /from_attributes srs eqxx /=.
have cpos : (0 < size (cols p))%N by rewrite -srs.
case E: (cols p) cpos => [|c0 cs] // _; rewrite -E /rm_coefs fE.
case Z: (zip (rows p) (cols p)) => [|t l]; first by rewrite Z /= in zs; rewrite -zs in rpos.
rewrite -Z unzip1_zip ?srs // unzip2_zip ?srs // wid un urs /=.
by case: p {wp srs rpos urs wid csz npos un E Z zs fE ak} => ? ? ? ?.
Qed.

Lemma terms_keep_of_clean ns sh rs (cs : seq (seq R)) q :
  size rs = size cs -> from_attributes false true ns sh rs cs = Ok q -> all (@keep_term R) (terms q).
Proof. by move=> srs /(clean_rows_exact srs) [-> _]; apply: all_keep_rm_coefs. Qed.

(* ---- __reduce__ / rebuild ------------------------------------------------------------------------- *)
Lemma reduce_attrs f p : (0 < psize p)%N -> wfb p ->
  head [::] (unzip1 (pk_cols (reduce f p))) = shape p /\ unzip2 (pk_cols (reduce f p)) = cols p.
Proof.
move=> pos wp; have [srs rpos _ _ _] := wfbP wp.
rewrite /reduce /= eqn0Ngt pos /=; split.
  by case: (cols p) srs rpos => [|c cs] //= ->.
by rewrite /unzip2 -map_comp map_id_in.
Qed.

Lemma pickle_roundtripE o f p : (0 < psize p)%N -> wfb p ->
  pickle_roundtrip o f p
  = from_attributes (flag (o_retc o) (rf_rc f)) (flag (o_retn o) (rf_rn f)) (names p) (shape p) (rows p) (cols p).
Proof. by move=> pos wp; have [hs hc] := reduce_attrs f pos wp; rewrite /pickle_roundtrip /rebuild hs hc. Qed.

(* whatever the flags and options: unpickling succeeds, gives a well-formed array of the same shape
   denoting the same polynomials *)
Theorem reduce_rebuild o f p :
  wfb p -> (0 < psize p)%N ->
  exists q, [/\ pickle_roundtrip o f p = Ok q, wfb q, shape q = shape p &
                forall i, absE n q i = absE n p i].
Proof.
move=> wp pos; rewrite pickle_roundtripE //.
have [srs rpos urs wid [csz npos un]] := wfbP wp.
have [q Eq] := from_attributes_total (flag (o_retc o) (rf_rc f)) (flag (o_retn o) (rf_rn f)) (shape p) srs rpos urs wid un.
exists q; split=> //; first exact: (from_attributes_wf csz npos Eq).
  by case: (from_attributes_absE n 0 Eq).
by move=> i; case: (from_attributes_absE n i Eq).
Qed.

(* names survive whenever the effective retain_names flag is on *)
Theorem reduce_rebuild_names o f p q :
  wfb p -> (0 < psize p)%N -> flag (o_retn o) (rf_rn f) ->
  pickle_roundtrip o f p = Ok q -> names q = names p.
Proof. by move=> wp pos rn; rewrite pickle_roundtripE // rn => /from_attributes_names. Qed.

(* exact reproduction: with retain_coefficients on, or when the storage has no redundant term *)
Theorem reduce_rebuild_exact o f p :
  wfb p -> (0 < psize p)%N -> flag (o_retn o) (rf_rn f) ->
  flag (o_retc o) (rf_rc f) || all (@keep_term R) (terms p) ->
  pickle_roundtrip o f p = Ok p.
Proof. by move=> wp pos rn rc; rewrite pickle_roundtripE // rn; apply: from_attributes_id. Qed.

(* and only then: with retain_coefficients off the result never has a redundant term *)
Theorem reduce_rebuild_exact_iff o f p :
  wfb p -> (0 < psize p)%N -> flag (o_retn o) (rf_rn f) -> flag (o_retc o) (rf_rc f) = false ->
  (pickle_roundtrip o f p = Ok p <-> all (@keep_term R) (terms p)).
Proof.
move=> wp pos rn rc; split; last by move=> ak; apply: reduce_rebuild_exact => //; rewrite ak orbT.
have [srs _ _ _ _] := wfbP wp.
by rewrite pickle_roundtripE // rn rc; apply: terms_keep_of_clean.
Qed.

(* the buffer copy *)
Theorem pcopy_id p : pcopy p = p.
Proof. by case: p => ns sh rs cs; rewrite /pcopy /=; congr Parr; rewrite -[RHS]map_id; apply: eq_map => c; rewrite map_id. Qed.

End PersistP.

(* ---- the coefficient matrix and its way back ------------------------------------------------------- *)
Section TextP.
Variable (n : nat) (R : comRingType).
Implicit Types (p q : parr R) (o : opts) (m : seq (seq R)).

Lemma columnE (d : R) k m : column d k m = [seq nth d r k | r <- m].
Proof. by elim: m => [|r m IH] //=; rewrite IH. Qed.

Lemma size_to_matrix p : size (to_matrix p) = psize p.
Proof. by rewrite /to_matrix size_map size_iota. Qed.

Lemma to_matrix_width p : all (fun r => size r == size (cols p)) (to_matrix p).
Proof. by apply/allP => r /mapP[i _ ->]; rewrite size_map. Qed.

(* reading the matrix column by column gives back the coefficient columns *)
Lemma columns_to_matrix p :
  all (fun c => size c == psize p) (cols p) ->
  [seq column 0 k (to_matrix p) | k <- iota 0 (size (cols p))] = cols p.
Proof.
move=> csz; rewrite -[RHS](mkseq_nth [::]) /mkseq; apply/eq_in_map => k; rewrite mem_iota add0n => /andP[_ lt].
rewrite columnE /to_matrix -map_comp.
have /eqP sk : size (nth [::] (cols p) k) == psize p by move/allP: csz; apply; apply: mem_nth.
rewrite -[RHS](mkseq_nth 0) sk /mkseq; apply: eq_map => i /=.
by rewrite (nth_map [::]).
Qed.

Lemma flatten_heads m : all (fun r => size r == 1%N) m -> flatten m = [seq head 0 r | r <- m].
Proof. by elim: m => [|[|x [|y r]] m IH] //= /IH ->. Qed.

Lemma ldata_squeeze m : ldata (np_squeeze m) = flatten m.
Proof.
case: m => [|r0 [|r1 m]] //.
  by case: r0 => [|x [|y r]] //=; rewrite cats0.
rewrite /np_squeeze; case: ifP => [al|_]; last by case: (r0) => [|x [|y r]].
by rewrite [RHS](flatten_heads al); case: (r0) => [|x [|y r]].
Qed.

Lemma chunk_flatten k m fuel :
  (0 < k)%N -> all (fun r => size r == k) m -> (size m <= fuel)%N -> chunk fuel k (flatten m) = m.
Proof.
move=> kpos; elim: m fuel => [|r m IH] fuel /=; first by case: fuel.
case/andP => /eqP sr al; case: fuel => [|fuel] // le /=.
case E: (r ++ flatten m) => [|x s].
  by move: kpos; rewrite -sr; case: (r) E.
by rewrite -E take_size_cat // drop_size_cat // IH.
Qed.

Lemma size_flatten_const k m : all (fun r => size r == k) m -> size (flatten m) = (size m * k)%N.
Proof. by elim: m => [|r m IH] //= /andP[/eqP sr /IH]; rewrite size_cat sr mulSn => ->. Qed.

(* unstructured_to_structured on what numpy.loadtxt returns for the written matrix *)
Lemma to_struct_ravel p :
  wfb p -> (0 < psize p)%N ->
  to_struct true (size (rows p)) (np_squeeze (to_matrix p)) = Ok ([:: psize p], cols p).
Proof.
move=> wp pos; have [srs rpos _ _ [csz _ _]] := wfbP wp.
have wid := to_matrix_width p; rewrite -srs in wid.
rewrite /to_struct ldata_squeeze (size_flatten_const wid) size_to_matrix.
rewrite (gtn_eqF rpos) modnMl eqxx /=.
rewrite chunk_flatten //; last by rewrite size_to_matrix leq_pmulr.
by rewrite size_to_matrix srs columns_to_matrix.
Qed.

Lemma to_struct_shipped p :
  wfb p -> (0 < psize p)%N -> (1 < size (rows p))%N ->
  exists sh1, to_struct false (size (rows p)) (np_squeeze (to_matrix p)) = Ok (sh1, cols p) /\ prodn sh1 = psize p.
Proof.
move=> wp pos n2; have [srs rpos _ _ [csz _ _]] := wfbP wp.
have wid := to_matrix_width p; rewrite -srs in wid.
have cE := columns_to_matrix csz; rewrite -srs in cE.
have sm := size_to_matrix p.
case E: (to_matrix p) sm wid cE => [|r0 [|r1 m]] sm wid cE; first by rewrite -sm in pos.
- (* one element: a single line of >= 2 numbers *)
  have /eqP sr0 : size r0 == size (rows p) by move: wid; rewrite /= andbT.
  have -> : np_squeeze [:: r0] = L1 r0 by case: (r0) sr0 n2 => [|x [|y r]] //= <-.
  exists [::]; rewrite /= sr0 eqxx; split; last by rewrite -sm.
  congr (Ok (_, _)); rewrite -cE /=.
  rewrite -[LHS]map_id -{1}(mkseq_nth 0 r0) sr0 /mkseq -!map_comp.
  by apply: eq_map => k /=.
- (* several elements, several terms *)
  have nall : all (fun r => size r == 1%N) [:: r0, r1 & m] = false.
    by move: wid => /= /andP[/eqP -> _]; rewrite (gtn_eqF n2).
  have -> : np_squeeze [:: r0, r1 & m] = L2 [:: r0, r1 & m] by rewrite /np_squeeze nall; case: (r0) => [|x [|y r]].
  exists [:: psize p]; rewrite /to_struct wid -sm cE; split=> //.
  by rewrite /= muln1.
Qed.

(* the shipped conversion rejects every single-term array *)
Lemma to_struct_single p :
  wfb p -> (0 < psize p)%N -> size (rows p) = 1%N ->
  to_struct false (size (rows p)) (np_squeeze (to_matrix p)) = Err ValueError.
Proof.
move=> wp pos n1; have [srs _ _ _ _] := wfbP wp.
have wid := to_matrix_width p; rewrite -srs n1 in wid.
have sm := size_to_matrix p; rewrite n1.
case E: (to_matrix p) sm wid => [|r0 [|r1 m]] sm wid; first by rewrite -sm in pos.
- by move: wid; rewrite /= andbT; case: (r0) => [|x [|y r]].
- have -> : np_squeeze [:: r0, r1 & m] = L1 [seq head 0 r | r <- [:: r0, r1 & m]].
    by rewrite /np_squeeze wid; case: (r0) => [|x [|y r]].
  by rewrite /to_struct /=.
Qed.

Lemma wfb_reshape p sh : wfb p -> prodn sh = psize p -> wfb (Parr (names p) sh (rows p) (cols p)).
Proof.
move=> wp ps; have [srs rpos urs wid [csz npos un]] := wfbP wp.
by apply: wfbI => //=; rewrite /psize /= ps.
Qed.

(* polynomial(struct, names) followed by reshape(array, shape), from the columns of p *)
Lemma load_from_cols o p sh1 :
  wfb p -> prodn sh1 = psize p ->
  exists q, [/\ rbind (from_attributes (o_retc o) (o_retn o) (names p) sh1 (rows p) (cols p)) (fun p1 =>
                  if prodn (shape p) != prodn sh1 then Err ValueError
                  else from_attributes (o_retc o) (o_retn o) (names p1) (shape p) (rows p1) (cols p1)) = Ok q,
                wfb q, shape q = shape p, forall i, absE n q i = absE n p i &
                (o_retn o -> names q = names p) /\
                (o_retn o -> o_retc o || all (@keep_term R) (terms p) -> q = p)].
Proof.
move=> wp ps; have [srs rpos urs wid [csz npos un]] := wfbP wp.
set rc := o_retc o; set rn := o_retn o.
have csz1 : all (fun c => size c == prodn sh1) (cols p) by rewrite ps.
have [p1 E1] := from_attributes_total rc rn sh1 srs rpos urs wid un.
have w1 : wfb p1 := from_attributes_wf csz1 npos E1.
have [_ s1] := from_attributes_absE n 0 E1.
have [srs1 rpos1 urs1 wid1 [csz1' npos1 un1]] := wfbP w1.
have [q E2] := from_attributes_total rc rn (shape p) srs1 rpos1 urs1 wid1 un1.
have csz2 : all (fun c => size c == prodn (shape p)) (cols p1).
  by move: csz1'; rewrite /psize s1 ps.
exists q; rewrite E1 /= -/(psize p) ps eqxx; split=> //.
- exact: (from_attributes_wf csz2 npos1 E2).
- by case: (from_attributes_absE n 0 E2).
- move=> i; case: (from_attributes_absE n i E2) => -> _.
  by case: (from_attributes_absE n i E1) => e1 _; exact: e1.
split.
- by move=> rnT; move: E1 E2; rewrite rnT => /from_attributes_names <- /from_attributes_names.
- move=> rnT keep; move: E1 E2; rewrite rnT.
  have wp1 := wfb_reshape wp ps.
  rewrite (from_attributes_id (p := Parr (names p) sh1 (rows p) (cols p))) // => -[<-] /=.
  by rewrite (from_attributes_id wp keep) => -[].
Qed.

(* savetxt's matrix, read back and rebuilt: same shape, same polynomials; names kept when retain_names
   is on; the identical object when nothing is redundant *)
Theorem flatten_unflatten o ravel p :
  wfb p -> (0 < psize p)%N -> ravel || (1 < size (rows p))%N ->
  exists q, [/\ text_roundtrip o ravel p = Ok q, wfb q, shape q = shape p,
                forall i, absE n q i = absE n p i &
                (o_retn o -> names q = names p) /\
                (o_retn o -> o_retc o || all (@keep_term R) (terms p) -> q = p)].
Proof.
move=> wp pos guard; rewrite /text_roundtrip /load_poly.
case: ravel guard => [_|n2].
  rewrite to_struct_ravel //=.
  by apply: load_from_cols => //=; rewrite muln1.
have [sh1 [-> ps]] := to_struct_shipped wp pos n2.
exact: load_from_cols.
Qed.

(* without the reshape(-1, nkeys) the round trip fails for EVERY single-term array *)
Theorem flatten_unflatten_single_refuted o p :
  wfb p -> (0 < psize p)%N -> size (rows p) = 1%N -> text_roundtrip o false p = Err ValueError.
Proof. by move=> wp pos n1; rewrite /text_roundtrip /load_poly to_struct_single. Qed.

End TextP.

(* ---- the whole text path: loadtxt (savetxt p) -------------------------------------------------------- *)
Section WholeP.
Variable (n : nat) (R : comRingType).
Implicit Types (p q : parr R) (o : opts).

Lemma lmapE A B (f : A -> B) (s : seq A) : List.map f s = map f s.
Proof. by elim: s => //= x s ->. Qed.

Lemma opt_all_some A (xs : seq A) : opt_all [seq Some x | x <- xs] = Some xs.
Proof. by elim: xs => //= x xs ->. Qed.

Lemma names_roundtrip (ns : seq nat) :
  omap (map N.to_nat) (opt_all [seq name_idx s | s <- [seq name_str (N.of_nat k) | k <- ns]]) = Some ns.
Proof.
rewrite -map_comp (eq_map (f2 := fun k => Some (N.of_nat k))); last by move=> k; exact: name_idx_str.
rewrite (map_comp Some) opt_all_some /= -map_comp; congr Some.
by rewrite -[RHS]map_id; apply: eq_map => k /=; rewrite Nnat.Nat2N.id.
Qed.

Lemma nat_names_ok (ns : seq nat) : (0 < size ns)%N -> toks_ok [seq name_str (N.of_nat k) | k <- ns] = true.
Proof.
move=> pos; rewrite (map_comp name_str) -lmapE; apply: names_toks_ok.
by case: ns pos.
Qed.

Definition nrows (rs : seq (seq nat)) : seq (seq N) := [seq [seq N.of_nat e | e <- r] | r <- rs].

Lemma rows_roundtrip off (rs : seq (seq nat)) :
  List.Forall (bounded off) (nrows rs) ->
  [seq [seq N.to_nat e | e <- decode_row off k] | k <- List.map (encode_row off) (nrows rs)] = rs.
Proof.
rewrite lmapE /nrows => Hb; rewrite -!map_comp -[RHS]map_id; apply/eq_in_map => r rin /=.
have br : bounded off [seq N.of_nat e | e <- r].
  by move/List.Forall_forall: Hb; apply; apply/(@List.in_map _ _ (fun r => [seq N.of_nat e | e <- r])); elim: (rs) rin => //= a l IH; rewrite inE => /orP[/eqP ->|/IH]; [left|right].
rewrite decode_encode_row // -map_comp -[RHS]map_id; apply: eq_map => e /=.
by rewrite Nnat.Nat2N.id.
Qed.

Lemma shape_roundtrip (sh : seq nat) : [seq N.to_nat d | d <- [seq N.of_nat d | d <- sh]] = sh.
Proof. by rewrite -map_comp -[RHS]map_id; apply: eq_map => d /=; rewrite Nnat.Nat2N.id. Qed.

(* reading what savetxt wrote: the header parses back to the names, exponent rows and shape of p, and the
   numeric part is rebuilt by text_roundtrip.  Guards: the comment prefix contains no 'n'; the version
   string is a non-empty run of non-space characters; every key character is neither white space nor a
   comma and fits uint32; a 0-d shape needs the repaired regex and split. *)
Theorem loadtxt_savetxt o fx off version comments p :
  ~ List.In 110%num comments -> ns_str version = true -> version <> nil ->
  toks_ok (List.map (encode_row off) (nrows (rows p))) = true ->
  List.Forall (bounded off) (nrows (rows p)) ->
  (shape p = [::] -> fx_star fx && fx_filter fx) ->
  wfb p ->
  loadtxt_model o fx off comments (savetxt_header off version comments p) (np_squeeze (to_matrix p))
  = match text_roundtrip o (fx_ravel fx) p with Ok q => LdPoly q | Err e => LdErr e end.
Proof.
move=> Hc Hv Hv' Hk Hb Hs wp; have [_ _ _ _ [_ npos _]] := wfbP wp.
rewrite /loadtxt_model /savetxt_header header_roundtrip //; first last.
- by case: (shape p) Hs => // /(_ erefl) /andP[-> ->].
- exact: nat_names_ok.
have := names_roundtrip (names p).
case: (opt_all _) => // idx [->].
by rewrite rows_roundtrip // shape_roundtrip /text_roundtrip; case: (load_poly _ _ _ _ _ _).
Qed.

End WholeP.
