(* DivmodCutTerm.v — the division loop TERMINATES for every cut-off (C05).

   With a cut-off the term that is cancelled is no longer the largest divisible one, so the measure of DivmodTerm.v (the
   largest divisible monomial of each element) need not decrease.  The measure used here is, per element, the whole SET
   of dividend monomials that the divisor's leading monomial divides, as a strictly descending list; a step removes the
   cancelled monomial from the set and only adds smaller ones, which decreases the list in the lexicographic order; that
   order is well-founded on strictly descending lists over a well-order (it is the order of Cantor normal forms). *)
From mathcomp Require Import all_ssreflect all_algebra.
From NP Require Import Base Divmod DivmodP DivmodTerm DivmodCut.

Set Implicit Arguments. Unset Strict Implicit. Unset Printing Implicit Defensive.
Import Order.POrderTheory GRing.Theory Num.Theory.

(* ---- strictly descending lists of width-D monomials, lexicographically ---- *)
Fixpoint llex (l' l : seq mono) : bool :=
  match l', l with
  | _, [::] => false
  | [::], _ :: _ => true
  | x :: t', y :: t => mlt x y || ((x == y) && llex t' t)
  end.

Definition dsorted (D : nat) (l : seq mono) : bool :=
  all (fun m => size m == D) l && pairwise (fun a b => mlt b a) l.

Definition dlt (D : nat) (l' l : seq mono) : Prop := [/\ dsorted D l', dsorted D l & llex l' l].

Lemma dsorted_cons D x t : dsorted D (x :: t) = [&& size x == D, all (fun m => mlt m x) t & dsorted D t].
Proof. by rewrite /dsorted /= -!andbA; do !bool_congr. Qed.

Definition hd_below (x : mono) (l : seq mono) : bool := if l is y :: _ then mlt y x else true.

Lemma acc_dlt_nil D : Acc (dlt D) [::].
Proof. by constructor=> l' [_ _]; case: l'. Qed.

Lemma acc_dlt_cons D x : size x = D ->
  forall t, dsorted D (x :: t) -> Acc (dlt D) (x :: t).
Proof.
move=> sx; have accx := acc_mltD sx.
induction accx as [x _ IHx] in sx |- *.
(* every descending list that starts below x is accessible *)
have below l : dsorted D l -> hd_below x l -> Acc (dlt D) l.
  case: l => [|y t] ds lt; first exact: acc_dlt_nil.
  have sy : size y = D by move: ds; rewrite dsorted_cons => /and3P[/eqP].
  by apply: (IHx y) => //; split.
move=> t ds.
have dst : dsorted D t by move: ds; rewrite dsorted_cons => /and3P[].
have hdt : hd_below x t.
  by case: t ds {dst} => [|y t'] //; rewrite dsorted_cons /= => /and3P[_ /andP[]].
have acct := below t dst hdt.
induction acct as [t _ IHt] in ds, dst, hdt |- *.
constructor=> l' [ds' _ lx].
case: l' ds' lx => [|y t'] ds' lx; first exact: acc_dlt_nil.
move: lx => /= /orP[lt|/andP[/eqP exy lx]]; first exact: below.
rewrite exy in ds' *.
have dst' : dsorted D t' by move: ds'; rewrite dsorted_cons => /and3P[].
have hdt' : hd_below x t'.
  by case: t' ds' {dst' lx} => [|z t''] //; rewrite dsorted_cons /= => /and3P[_ /andP[]].
by apply: IHt.
Qed.

Lemma wf_dlt D : well_founded (dlt D).
Proof.
move=> l; case ds: (dsorted D l); last by constructor=> l' [_]; rewrite ds.
case: l ds => [|x t] ds; first exact: acc_dlt_nil.
by apply: acc_dlt_cons => //; move: ds; rewrite dsorted_cons => /and3P[/eqP].
Qed.

(* ---- the order in terms of sets: equal above x, x only in the larger one ---- *)
Lemma dsorted_width D l m : dsorted D l -> m \in l -> size m = D.
Proof. by move=> /andP[/allP h _] /h /eqP. Qed.

Lemma dsorted_notin D y t : dsorted D (y :: t) -> y \notin t.
Proof.
rewrite dsorted_cons => /and3P[_ /allP ty _]; apply/negP => /ty.
by rewrite mlt_irr.
Qed.

Lemma llex_sets D l' l x : dsorted D l' -> dsorted D l -> x \in l -> x \notin l' ->
  (forall m, mlt x m -> (m \in l') = (m \in l)) -> llex l' l.
Proof.
elim: l l' => [|y t IH] l' ds' ds // xin xnin same.
case: l' ds' xnin same => [|y' t'] // ds' xnin same.
have sx := dsorted_width ds xin.
have sy : size y = D by apply: (dsorted_width ds); rewrite mem_head.
have sy' : size y' = D by apply: (dsorted_width ds'); rewrite mem_head.
move: (ds) (ds'); rewrite !dsorted_cons => /and3P[_ /allP ty dst] /and3P[_ /allP ty' dst'].
have le_y m : m \in y :: t -> ~~ mlt y m.
  rewrite inE => /orP[/eqP ->|mt]; first by rewrite mlt_irr.
  have sm : size m = D by apply: (dsorted_width dst).
  apply/negP => lt'; have := mlt_trans (a := m) (b := y) (c := m); rewrite sm sy mlt_irr.
  by move=> /(_ erefl erefl (ty _ mt) lt').
have le_y' m : m \in y' :: t' -> ~~ mlt y' m.
  rewrite inE => /orP[/eqP ->|mt]; first by rewrite mlt_irr.
  have sm : size m = D by apply: (dsorted_width dst').
  apply/negP => lt'; have := mlt_trans (a := m) (b := y') (c := m); rewrite sm sy' mlt_irr.
  by move=> /(_ erefl erefl (ty' _ mt) lt').
rewrite /=; case: (eqVneq y x) => [eyx|nyx].
- have ny'x : y' != x by apply: contraNneq xnin => <-; rewrite mem_head.
  have := mlt_total (a := y') (b := x); rewrite sy' sx => /(_ erefl).
  rewrite (negbTE ny'x) /= => /orP[lt|gt]; first by rewrite eyx lt.
  have := same _ gt; rewrite mem_head => /esym yin.
  by have := le_y _ yin; rewrite eyx gt.
- have xt : x \in t by move: xin; rewrite inE eq_sym (negbTE nyx).
  have ltxy : mlt x y := ty _ xt.
  have yin' : y \in y' :: t' by rewrite (same _ ltxy) mem_head.
  have eyy : y' = y.
    have := mlt_total (a := y) (b := y'); rewrite sy sy' => /(_ erefl) /or3P[lt|/eqP -> //|gt].
    + have ltxy' : mlt x y' by apply: (mlt_trans (b := y)); rewrite ?sx ?sy ?sy'.
      have := same _ ltxy'; rewrite mem_head => /esym y'in.
      by have := le_y _ y'in; rewrite lt.
    + by have := le_y' _ yin'; rewrite gt.
  rewrite eyy mlt_irr eqxx /=; rewrite eyy in ds' xnin same ty'.
  apply: IH => //.
  + by move: xnin; rewrite inE negb_or => /andP[].
  + move=> m ltxm; have := same _ ltxm; rewrite !inE.
    case: (eqVneq m y) => [->|_] //= _.
    by rewrite (negbTE (dsorted_notin ds)) (negbTE (dsorted_notin ds')).
Qed.

(* ---- sort_desc gives a strictly descending list ---- *)
Lemma pairwise_rev_ (T : Type) (r : rel T) s : pairwise r (rev s) = pairwise (fun a b => r b a) s.
Proof. by elim: s => [|x s IH] //; rewrite rev_cons pairwise_rcons pairwise_cons IH all_rev. Qed.

Section SortDesc.
Variable D : nat.
Let P : pred mono := fun m => size m == D.
Let leT : rel mono := fun a b => ~~ mlt b a.

Lemma leT_total_in : {in P &, total leT}.
Proof.
move=> a b /eqP sa /eqP sb; rewrite /leT -negb_and; apply/negP => /andP[ba ab].
by have := mlt_trans (a := a) (b := b) (c := a); rewrite sa sb mlt_irr => /(_ erefl erefl ab ba).
Qed.

Lemma leT_trans_in : {in P & &, transitive leT}.
Proof.
move=> y x z /eqP sy /eqP sx /eqP sz; rewrite /leT => nyx nzy; apply/negP => zx.
have := mlt_total (a := x) (b := y); rewrite sx sy (negbTE nyx) orbF => /(_ erefl) /orP[xy|/eqP exy].
- by have := mlt_trans (a := z) (b := x) (c := y); rewrite sz sx sy (negbTE nzy) => /(_ erefl erefl zx xy).
- by move: nzy; rewrite -exy zx.
Qed.

Lemma strict_pairwise s : all P s -> uniq s -> pairwise leT s -> pairwise mlt s.
Proof.
elim: s => [|x s IH] //= /andP[px ps] /andP[xs us] /andP[lx pw].
rewrite IH // andbT; apply/allP => y yin.
have py := allP ps _ yin; have := allP lx _ yin; rewrite /leT => nyx.
have := mlt_total (a := x) (b := y); rewrite (eqP px) (eqP py) (negbTE nyx) orbF => /(_ erefl) /orP[//|/eqP exy].
by move: xs; rewrite exy yin.
Qed.

Lemma sort_desc_dsorted l : all P l -> dsorted D (sort_desc l).
Proof.
move=> pl; rewrite /dsorted /sort_desc all_rev all_sort.
have pu : all P (undup l) by apply/allP => m; rewrite mem_undup; move/allP: pl; apply.
rewrite pu /= pairwise_rev_.
have ps : all P (sort leT (undup l)) by rewrite all_sort.
have -> : pairwise (fun a b : mono => mlt a b) (sort leT (undup l)) = pairwise mlt (sort leT (undup l)) by [].
apply: strict_pairwise => //; first by rewrite sort_uniq undup_uniq.
by rewrite -(sorted_pairwise_in leT_trans_in) //; apply: (sort_sorted_in leT_total_in).
Qed.

Lemma mem_sort_desc l m : (m \in sort_desc l) = (m \in l).
Proof. by rewrite /sort_desc mem_rev mem_sort mem_undup. Qed.
End SortDesc.

(* ---- the measure and the step ---- *)
Section CutTerm.
Variable F : fieldType.
Local Open Scope ring_scope.
Implicit Types (e : elem F) (es : seq (elem F)).

Definition ms e : seq mono := if lead (e_g e) is Some e2 then sort_desc (divs e2 e) else [::].

Lemma ms_dsorted D e : we D e -> dsorted D (ms e).
Proof.
by move=> w; rewrite /ms; case: (lead _) => [e2|] //; apply: sort_desc_dsorted; apply: divs_width.
Qed.

(* width is preserved by a step at any pair of width-D monomials *)
Lemma we_step_any D e (e2 e1 : mono) : we D e -> size e1 = D -> we D (step_elem e2 e1 e).
Proof.
move=> w se1; have /and3P[wq wd wg] := w.
rewrite /step_elem; case: ifP => // /andP[/eqP le _].
have [_ se2 _] := lead_in w le.
have sdl : size (msub e1 e2) = D by rewrite size_msub ?se1 ?se2.
rewrite /we /= wg andbT; apply/andP; split; apply: wp_norm.
- by rewrite /wp /= sdl eqxx.
- by rewrite wp_cat wd wp_sscale.
Qed.

(* an element that takes part in a step at (e2, e1), e2 | e1: its set of divisible monomials loses e1 and only gains
   smaller ones - whatever e1 is (it need not be the largest divisible monomial) *)
Lemma participant_decrease_any D e (e2 e1 : mono) :
  we D e -> size e1 = D -> mdivides e2 e1 ->
  lead (e_g e) = Some e2 -> coef_at (e_d e) e1 != 0 ->
  dlt D (ms (step_elem e2 e1 e)) (ms e).
Proof.
move=> w se1 dv le c1nz; have /and3P[wq wd wg] := w.
have w' : we D (step_elem e2 e1 e) by apply: we_step_any.
split; [exact: ms_dsorted | exact: ms_dsorted |].
have [e2in se2 e2max] := lead_in w le.
have e1divs : e1 \in divs e2 e by rewrite mem_filter dv mem_support.
rewrite /ms /step_elem le eqxx c1nz /= le.
set k := _ / _; set dl := msub e1 e2.
have sdl : size dl = D by rewrite /dl size_msub ?se1 ?se2.
have e1E : madd e2 dl = e1 by rewrite madd_comm /dl madd_msub.
have c2nz : coef_at (e_g e) e2 != 0 by rewrite -mem_support.
set d' := e_d e ++ sscale (- k) dl (e_g e).
have zero_e1 : coef_at d' e1 = 0.
  rewrite /d' coef_at_cat -{2}e1E (coef_at_sscale _ wg sdl se2) /k mulNr.
  by rewrite -mulrA mulVf // mulr1 subrr.
(* the image of the divisor under the shift lies at or below e1 *)
have img_le m : coef_at (sscale (- k) dl (e_g e)) m != 0 -> ~~ mlt e1 m.
  move=> /(coef_at_sscale_img wg sdl) [m0 [em0 sm0 gnz]].
  have m0in : m0 \in support (e_g e) by rewrite mem_support.
  case: (eqVneq m0 e2) => [e02|ne2]; first by rewrite em0 e02 e1E mlt_irr.
  have lt0 : mlt m0 e2.
    have := mlt_total (a := m0) (b := e2); rewrite sm0 se2 => /(_ erefl).
    by rewrite (negbTE ne2) (negbTE (e2max _ m0in)) !orbF.
  have ltm : mlt m e1 by rewrite em0 -e1E; apply: mlt_madd; rewrite ?sm0 ?se2 ?sdl.
  have sm : size m = D by rewrite em0 size_madd ?sm0 ?sdl.
  apply/negP => gt; have := mlt_trans (a := m) (b := e1) (c := m); rewrite sm se1 mlt_irr.
  by move=> /(_ erefl erefl ltm gt).
rewrite /divs /=; apply: (@llex_sets D _ _ e1).
- apply: sort_desc_dsorted; apply/allP => m; rewrite mem_filter support_norm => /andP[_ min].
  have wd' : wp D d' by rewrite /d' wp_cat wd wp_sscale.
  by rewrite (wp_support wd' min).
- by apply: sort_desc_dsorted; apply: (divs_width e2 w).
- by rewrite mem_sort_desc.
- by rewrite mem_sort_desc mem_filter support_norm mem_support zero_e1 eqxx andbF.
- move=> m gt; rewrite !mem_sort_desc !(mem_filter (mdivides e2)) support_norm !mem_support /d' coef_at_cat.
  have -> : coef_at (sscale (- k) dl (e_g e)) m = 0.
    by apply/eqP/negPn/negP => /img_le; rewrite gt.
  by rewrite addr0.
Qed.
End CutTerm.

(* ---- termination for every search that only proposes pairs (e2, e1) with e2 | e1 at which some element takes part ---- *)
Section WithTerm.
Variable F : fieldType.
Local Open Scope ring_scope.
Implicit Types (e : elem F) (es : seq (elem F)).

Definition good_search (D : nat) (cand : seq (elem F) -> option (mono * mono)) : Prop :=
  forall es (e2 e1 : mono), all (we D) es -> cand es = Some (e2, e1) ->
    [/\ size e1 = D, mdivides e2 e1 &
        exists2 e, e \in es & (lead (e_g e) == Some e2) && (coef_at (e_d e) e1 != 0)].

Variables (D : nat) (cand : seq (elem F) -> option (mono * mono)).
Hypothesis good : good_search D cand.

Lemma step_decreases_any es (e2 e1 : mono) :
  all (we D) es -> cand es = Some (e2, e1) ->
  lexl (dlt D) [seq ms (step_elem e2 e1 e) | e <- es] [seq ms e | e <- es].
Proof.
move=> wes cd; have [se1 dv [e0 e0in /andP[/eqP le0 c0]]] := good wes cd.
apply: (lexl_pointwise (R := dlt D) (f := fun e => ms (step_elem e2 e1 e)) (g := @ms F)).
  move=> e ein; rewrite {1}/step_elem.
  case le: (lead (e_g e) == Some e2) => /=; last by left.
  case c1: (coef_at (e_d e) e1 != 0); last by left.
  right; have := participant_decrease_any (allP wes _ ein) se1 dv (eqP le) c1.
  by rewrite /step_elem le c1.
by exists e0 => //; apply: participant_decrease_any => //; apply: (allP wes).
Qed.

Theorem run_with_terminates es : all (we D) es -> exists fuel es', run_with cand fuel es = Ok es'.
Proof.
move=> wes.
have acc : Acc (lexl (dlt D)) [seq ms e | e <- es].
  exact: (acc_lexl (@wf_dlt D) (n := size [seq ms e | e <- es])).
move: {-2}[seq ms e | e <- es] acc (erefl [seq ms e | e <- es]) wes => l acc.
induction acc as [l _ IH] in es |- *; intros el wes.
case cd: (cand es) => [[e2 e1]|]; last by exists 1%N, es; rewrite /= cd.
have [se1 _ _] := good wes cd.
have wes1 : all (we D) [seq step_elem e2 e1 e | e <- es].
  by apply/allP => e' /mapP[e ein ->]; apply: we_step_any => //; apply: (allP wes).
have lt := step_decreases_any wes cd; rewrite el in lt.
have [fuel [es' r]] := IH _ lt [seq step_elem e2 e1 e | e <- es] (esym (map_comp (@ms F) (step_elem e2 e1) es)) wes1.
by exists fuel.+1, es'; rewrite /= cd.
Qed.

Theorem divmod_with_terminates (fs gs : seq (spoly F)) :
  all (wp D) fs -> all (wp D) gs -> exists fuel out, divmod_with cand fuel fs gs = Ok out.
Proof.
move=> wfs wgs.
have wes : all (we D) (start fs gs).
  apply/allP => e /mapP[[f g] /mem_zip2 [fin gin] ->]; rewrite /we /=.
  by rewrite !wp_norm //; [move/allP: wgs; apply | move/allP: wfs; apply].
have [fuel [es' r]] := run_with_terminates wes.
by exists fuel, [seq (e_q e, e_d e) | e <- es']; rewrite /divmod_with r.
Qed.
End WithTerm.

(* ---- the search with a cut-off is such a search, for every cut-off ---- *)
Section CutIsGood.
Variables (F : numFieldType) (eps : F) (D : nat).

Lemma candidate_cut_good : good_search D (candidate_cut eps).
Proof.
move=> es e2 e1 wes; rewrite /candidate_cut => fs; have [_] := first_some_some fs.
rewrite /pick_e1_cut => pe.
set L := [seq m <- _ | _] in pe.
have wd : all (fun m => size m == D) L.
  apply/allP => m; rewrite mem_filter => /andP[_ /flattenP[s /mapP[e]]].
  rewrite mem_filter => /andP[_ ein] -> min.
  by have /and3P[_ wdd _] := allP wes _ ein; rewrite (wp_support wdd min).
have [ein _] := mmax_some wd pe.
have se1 : size e1 = D by apply/eqP; move/allP: wd; apply.
move: ein; rewrite mem_filter => /andP[/andP[dv _] /flattenP[s /mapP[e]]].
rewrite mem_filter => /andP[le ein] -> e1in; split=> //.
by exists e => //; rewrite le /= -mem_support.
Qed.

(* TERMINATION FOR EVERY CUT-OFF *)
Theorem divmod_cut_terminates (fs gs : seq (spoly F)) :
  all (wp D) fs -> all (wp D) gs -> exists fuel out, divmod_cut eps fuel fs gs = Ok out.
Proof. exact: (divmod_with_terminates candidate_cut_good). Qed.
End CutIsGood.
