(* ReduceP.v — reductions and linear algebra are finite sums and products of elements (C10). *)
From mathcomp Require Import all_ssreflect all_algebra.
From SsrMultinomials Require Import mpoly.
From NP Require Import Base Poly Rearr Reduce Abs Clean Shape Align WfP Arith RearrP.
Set Implicit Arguments. Unset Strict Implicit. Unset Printing Implicit Defensive.
Import GRing.Theory.
Local Open Scope ring_scope.

Section ReduceP.
Variable (n : nat) (R : comRingType).
Implicit Types (p q r a b x y : parr R) (o : opts).

(* ---- operands of one common shape ------------------------------------------------------------ *)
Lemma ss_bin (op : {mpoly R[n]} -> {mpoly R[n]} -> {mpoly R[n]}) (pop : opts -> parr R -> parr R -> res (parr R)) o x y r s :
  (forall a b r', wfb a -> wfb b -> pop o a b = Ok r' ->
     exists2 s, bshape (shape a) (shape b) = Some s &
       [/\ wfb r', shape r' = s &
           forall i, (i < prodn s)%N ->
             absE n r' i = op (absE n a (bidx (shape a) s i)) (absE n b (bidx (shape b) s i))]) ->
  wfb x -> wfb y -> shape x = s -> shape y = s -> pop o x y = Ok r ->
  [/\ wfb r, shape r = s & forall i, (i < prodn s)%N -> absE n r i = op (absE n x i) (absE n y i)].
Proof.
move=> spec wx wy sx sy e.
have [s' bs [wr sr vr]] := spec _ _ _ wx wy e.
move: bs; rewrite sx sy bshape_refl => -[ss]; rewrite -ss in sr vr.
by split=> // i lt; rewrite vr // sx sy !bidx_id.
Qed.

Lemma ss_mul o x y r s : wfb x -> wfb y -> shape x = s -> shape y = s -> pmul o x y = Ok r ->
  [/\ wfb r, shape r = s & forall i, (i < prodn s)%N -> absE n r i = absE n x i * absE n y i].
Proof. by move=> wx wy sx sy e; apply: (ss_bin _ wx wy sx sy e) => a b r'; apply: pmul_spec. Qed.

Lemma ss_add o x y r s : wfb x -> wfb y -> shape x = s -> shape y = s -> padd o x y = Ok r ->
  [/\ wfb r, shape r = s & forall i, (i < prodn s)%N -> absE n r i = absE n x i + absE n y i].
Proof. by move=> wx wy sx sy e; apply: (ss_bin _ wx wy sx sy e) => a b r'; apply: padd_spec. Qed.

Lemma ss_sub o x y r s : wfb x -> wfb y -> shape x = s -> shape y = s -> psub o x y = Ok r ->
  [/\ wfb r, shape r = s & forall i, (i < prodn s)%N -> absE n r i = absE n x i - absE n y i].
Proof. by move=> wx wy sx sy e; apply: (ss_bin (op := fun u v => u - v) _ wx wy sx sy e) => a b r'; apply: psub_spec. Qed.

(* ---- linear column functions: sum, cumsum, mean, diff, ediff1d --------------------------------- *)
Lemma wsum_scale (wj : seq (nat * R)) (c : seq R) (X : {mpoly R[n]}) :
  wsum wj c *: X = \sum_(iw <- wj) (iw.2 * nth 0 c iw.1) *: X.
Proof.
elim: wj => [|iw wj IH] /=; first by rewrite big_nil scale0r.
by rewrite big_cons scalerDl IH.
Qed.

Lemma absL_linear ns (W : seq (seq (nat * R))) j rs (cs : seq (seq R)) : (j < size W)%N ->
  absL n ns j (zip rs [seq [seq wsum wj c | wj <- W] | c <- cs])
  = \sum_(iw <- nth [::] W j) iw.2 *: absL n ns iw.1 (zip rs cs).
Proof.
move=> lt; elim: rs cs => [|r rs IH] [|c cs] /=; rewrite ?absL_nil;
  try by rewrite big1 // => iw _; rewrite absL_nil scaler0.
rewrite absL_cons IH {1}/absT /= (nth_map [::]) // wsum_scale -big_split /=.
by apply: eq_bigr => iw _; rewrite absL_cons scalerDr /absT /= scalerA.
Qed.

Theorem plinear_spec o s W p r :
  wfb p -> plinear o s W p = Ok r ->
  [/\ wfb r, shape r = s &
      forall j, (j < prodn s)%N -> absE n r j = \sum_(iw <- nth [::] W j) iw.2 *: absE n p iw.1].
Proof.
move=> wp; rewrite /plinear; case: eqP => // wsz cl.
have [_ _ _ _ [_ npos _]] := wfbP wp.
have csz : all (fun c => size c == prodn s) [seq [seq wsum wj c | wj <- W] | c <- cols p].
  by apply/allP => c /mapP[c' _ ->]; rewrite size_map wsz.
split; first exact: (from_attributes_wf csz npos cl).
  by case: (from_attributes_absE n 0 cl).
move=> j lt; case: (from_attributes_absE n j cl) => -> _.
by rewrite absL_linear ?wsz.
Qed.

Theorem plinear_total o s W p :
  wfb p -> size W = prodn s -> exists r, plinear o s W p = Ok r.
Proof.
move=> wp wsz; rewrite /plinear wsz eqxx /= /clean /=.
have [srs rpos urs wid [_ _ un]] := wfbP wp.
by apply: from_attributes_total => //; rewrite size_map.
Qed.

(* sum along an axis / all axes is the instance with unit weights over the fibre of j; cumsum the one
   over its prefix; diff the one with weights -1, +1: in each case *)
Corollary plinear_unit o s (F : seq (seq nat)) p r :
  wfb p -> plinear o s [seq [seq (i, 1) | i <- f] | f <- F] p = Ok r ->
  forall j, (j < prodn s)%N -> absE n r j = \sum_(i <- nth [::] F j) absE n p i.
Proof.
move=> wp cl j lt; have [_ _ ->] := plinear_spec wp cl => //.
move: cl; rewrite /plinear size_map; case: eqP => // e _.
rewrite (nth_map [::]) ?e // big_map.
by apply: eq_bigr => i _; rewrite scale1r.
Qed.

(* ---- prod --------------------------------------------------------------------------------------- *)
Lemma pslice_spec o s f p y :
  wfb p -> pslice o s f p = Ok y ->
  [/\ wfb y, shape y = s & forall j, (j < prodn s)%N -> absE n y j = absE n p (nth 0%N f j)].
Proof.
move=> wp cl; have [wy sy ey] := prearr_spec n wp cl; split=> // j lt.
rewrite ey //; move: cl; rewrite /pslice /prearr size_map; case: eqP => // e _.
by rewrite (nth_map 0%N) ?e.
Qed.

Lemma foldl_rbind_err A B (g : A -> B -> res A) e (l : seq B) :
  foldl (fun u v => rbind u (fun w => g w v)) (Err e) l = Err e.
Proof. by elim: l. Qed.

Theorem pprod_spec o s F p r :
  wfb p -> pprod o s F p = Ok r ->
  [/\ wfb r, shape r = s &
      forall j, (j < prodn s)%N -> absE n r j = \prod_(f <- F) absE n p (nth 0%N f j)].
Proof.
move=> wp; rewrite /pprod; case: F => [|f0 fs] //.
case e0: (pslice o s f0 p) => [x0|err]; last by rewrite foldl_rbind_err.
have [w0 s0 v0] := pslice_spec wp e0.
have : forall j, (j < prodn s)%N -> absE n x0 j = \prod_(f <- [:: f0]) absE n p (nth 0%N f j).
  by move=> j lt; rewrite big_seq1 v0.
rewrite -[f0 :: fs]/([:: f0] ++ fs).
elim: fs x0 [:: f0] w0 s0 {e0 v0} => [|f fs IH] x0 done w0 s0 v0 /=.
  by move=> [<-]; rewrite cats0.
case ey: (pslice o s f p) => [y|err] /=; last by rewrite foldl_rbind_err.
have [wy sy vy] := pslice_spec wp ey.
case em: (pmul o x0 y) => [m|err] /=; last by rewrite foldl_rbind_err.
have [wm sm vm] := ss_mul w0 wy s0 sy em.
rewrite -cat1s catA => /(IH m (done ++ [:: f]) wm sm); apply.
by move=> j lt; rewrite big_cat big_seq1 /= vm // v0 // vy.
Qed.

(* ---- inner / outer / matmul --------------------------------------------------------------------- *)
Theorem pbilinear_spec o sm sa sb s W a b r :
  wfb a -> wfb b -> all (all (fun iw => iw.1 < prodn sm)%N) W ->
  pbilinear o sm sa sb s W a b = Ok r ->
  [/\ wfb r, shape r = s &
      forall j, (j < prodn s)%N ->
        absE n r j = \sum_(iw <- nth [::] W j)
                        iw.2 *: (slot n a (nth None sa iw.1) * slot n b (nth None sb iw.1))].
Proof.
move=> wa wb inr; rewrite /pbilinear.
case ea: (prearr o sm sa a) => [a'|] //=; case eb: (prearr o sm sb b) => [b'|] //=.
case em: (pmul o a' b') => [m|] //= el.
have [wa' sa' va'] := prearr_spec n wa ea; have [wb' sb' vb'] := prearr_spec n wb eb.
have [wm shm vm] := ss_mul wa' wb' sa' sb' em.
have [wr sr vr] := plinear_spec wm el; split=> // j lt.
rewrite vr //; move: el; rewrite /plinear; case: eqP => // wsz _.
rewrite big_seq_cond [RHS]big_seq_cond; apply: eq_bigr => iw; rewrite andbT => iwin.
have lt1 : (iw.1 < prodn sm)%N.
  have jin : nth [::] W j \in W by apply: mem_nth; rewrite wsz.
  by move/allP: (allP inr _ jin); apply.
by rewrite vm // va' // vb'.
Qed.

(* ---- det ------------------------------------------------------------------------------------------ *)
Section Det.
Variables (o : opts) (bs : seq nat).
Definition okM (M : seq (seq (parr R))) := all (all (fun x => wfb x && (shape x == bs))) M.
Definition E (M : seq (seq (parr R))) (i : nat) (k l : nat) : {mpoly R[n]} :=
  absE n (nth (zeros_of R bs) (nth [::] M k) l) i.

Lemma okM_at M k l : okM M -> (k < size M)%N -> (l < size (nth [::] M k))%N ->
  wfb (nth (zeros_of R bs) (nth [::] M k) l) /\ shape (nth (zeros_of R bs) (nth [::] M k) l) = bs.
Proof.
move=> okm ltk ltl.
have /allP/(_ _ (mem_nth (zeros_of R bs) ltl)) /andP[w /eqP sh] := allP okm _ (mem_nth [::] ltk).
by [].
Qed.

Theorem pdet1_spec fuel (x : parr R) r :
  pdetM fuel.+1 o bs [:: [:: x]] = Ok r -> r = x.
Proof. by move=> /= [<-]. Qed.

Theorem pdet2_spec fuel (x00 x01 x10 x11 : parr R) r :
  okM [:: [:: x00; x01]; [:: x10; x11]] ->
  pdetM fuel.+1 o bs [:: [:: x00; x01]; [:: x10; x11]] = Ok r ->
  [/\ wfb r, shape r = bs &
      forall i, (i < prodn bs)%N ->
        absE n r i = absE n x00 i * absE n x11 i - absE n x10 i * absE n x01 i].
Proof.
move=> /= /and3P[/and3P[/andP[w00 /eqP s00] /andP[w01 /eqP s01] _] /and3P[/andP[w10 /eqP s10] /andP[w11 /eqP s11] _] _].
case e1: (pmul o x00 x11) => [u|] //=; case e2: (pmul o x10 x01) => [v|] //= e3.
have [wu su vu] := ss_mul w00 w11 s00 s11 e1; have [wv sv vv] := ss_mul w10 w01 s10 s01 e2.
have [wr sr vr] := ss_sub wu wv su sv e3.
by split=> // i lt; rewrite vr // vu // vv.
Qed.

End Det.

End ReduceP.
