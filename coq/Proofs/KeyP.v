(* KeyP.v — monomials are never confused (C20): the key codec is a bijection on the
   representable range, the repaired product key is the encoded exponent sum, and storing by
   key merges exactly the equal exponent rows. *)
From Coq Require Import NArith ZArith List Bool Lia.
From Coq Require Import ZifyBool ZifyN.
From NP Require Import Key.
Import ListNotations.
Open Scope N_scope.
Ltac Zify.zify_post_hook ::= Z.to_euclidean_division_equations.

Lemma two32_val : two32 = 4294967296. Proof. reflexivity. Qed.
Global Opaque two32.

Lemma encode_small off e : e + off < two32 -> encode off e = e + off.
Proof. intros H; unfold encode; apply N.mod_small; exact H. Qed.

Theorem decode_encode off e : e + off < two32 -> decode off (encode off e) = e.
Proof.
intros H; rewrite encode_small by exact H; unfold decode.
pose proof two32_val as T. lia.
Qed.

Theorem encode_inj off e1 e2 :
  e1 + off < two32 -> e2 + off < two32 -> encode off e1 = encode off e2 -> e1 = e2.
Proof. intros H1 H2; rewrite !encode_small by assumption; lia. Qed.

Theorem never_reserved off e :
  59 <= off -> e + off < two32 -> encode off e <> 58 /\ encode off e <> 0.
Proof. intros Ho H; rewrite encode_small by exact H; lia. Qed.

Theorem representable_below_55237 sur e : e < 55237 -> representable sur 59 e = true.
Proof.
intros H; unfold representable, valid_cp. pose proof two32_val as T.
rewrite !andb_true_iff, !orb_true_iff, !N.ltb_lt. lia.
Qed.

Theorem surrogates_unrepresentable e : 55237 <= e -> e <= 57284 -> representable false 59 e = false.
Proof.
intros H1 H2; unfold representable, valid_cp.
destruct (59 <? two32) eqn:?; destruct (e + 59 <? two32) eqn:?; destruct (0 <? e + 59) eqn:?;
destruct (e + 59 <? 55296) eqn:?; destruct (57344 <=? e + 59) eqn:?; destruct (e + 59 <=? 1114111) eqn:?;
simpl; try reflexivity; lia.
Qed.

(* on a numpy that takes surrogates as field names every exponent up to 0x10FFFF - 59 is representable *)
Theorem surrogates_representable e : e <= 1114052 -> representable true 59 e = true.
Proof.
intros H; unfold representable, valid_cp. pose proof two32_val as T.
destruct (e + 59 <? two32) eqn:?; destruct (0 <? e + 59) eqn:?;
destruct (e + 59 <? 55296) eqn:?; destruct (e + 59 <? 57344) eqn:?; destruct (57344 <=? e + 59) eqn:?;
destruct (e + 59 <=? 1114111) eqn:?; simpl; try reflexivity; lia.
Qed.

(* ---- rows ------------------------------------------------------------------------------ *)
Definition bounded (off : N) (r : list N) : Prop := Forall (fun e => e + off < two32) r.

Theorem decode_encode_row off r : bounded off r -> decode_row off (encode_row off r) = r.
Proof.
induction 1 as [|e r He Hr IH]; simpl; [reflexivity|].
rewrite decode_encode by exact He. f_equal. exact IH.
Qed.

Lemma list_eqb_eq a b : list_eqb a b = true <-> a = b.
Proof.
revert b; induction a as [|x a IH]; destruct b as [|y b]; simpl; split; try congruence; try reflexivity.
- rewrite andb_true_iff, N.eqb_eq, IH. intros [-> ->]; reflexivity.
- intros H; injection H as -> ->. rewrite N.eqb_refl. apply IH; reflexivity.
Qed.

Lemma list_eqb_refl a : list_eqb a a = true.
Proof. apply list_eqb_eq; reflexivity. Qed.

Theorem encode_row_inj off r1 r2 :
  bounded off r1 -> bounded off r2 -> encode_row off r1 = encode_row off r2 -> r1 = r2.
Proof.
intros B1 B2 H.
rewrite <- (decode_encode_row off r1 B1), <- (decode_encode_row off r2 B2), H. reflexivity.
Qed.

Lemma list_eqb_encode off r1 r2 :
  bounded off r1 -> bounded off r2 ->
  list_eqb (encode_row off r1) (encode_row off r2) = list_eqb r1 r2.
Proof.
intros B1 B2.
destruct (list_eqb r1 r2) eqn:E.
- apply list_eqb_eq in E; subst; apply list_eqb_refl.
- destruct (list_eqb (encode_row off r1) (encode_row off r2)) eqn:E'; [|reflexivity].
  apply list_eqb_eq in E'. apply encode_row_inj in E'; [|assumption..].
  subst. rewrite list_eqb_refl in E. discriminate.
Qed.

(* ---- the product key ---------------------------------------------------------------------- *)
Theorem product_key_small off r1 r2 :
  all_small off r1 r2 = true ->
  product_key off true r1 r2 = Some (encode_row off (add_rows r1 r2)).
Proof.
unfold product_key, all_small, ckey_bytes, encode_row.
induction (add_rows r1 r2) as [|s l IH]; simpl; [reflexivity|].
rewrite andb_true_iff, N.ltb_lt. intros [Hs Hl].
assert (Hf : fmt_byte (s + off) = s + off) by (unfold fmt_byte; apply N.mod_small; lia).
assert (He : encode off s = s + off) by (apply encode_small; pose proof two32_val; lia).
rewrite Hf, He.
destruct (s + off <? 128) eqn:E; [|apply N.ltb_ge in E; lia].
rewrite (IH Hl). reflexivity.
Qed.

(* with multiply.py's guard the key is the encoded exponent sum, whatever the exponents *)
Theorem product_key_guarded off r1 r2 :
  product_key off (all_small off r1 r2) r1 r2 = Some (encode_row off (add_rows r1 r2)).
Proof.
destruct (all_small off r1 r2) eqn:E; [apply product_key_small; exact E|reflexivity].
Qed.

(* without the guard the compiled kernel fails or stores a different monomial *)
Theorem product_key_unguarded_refuted :
  product_key 59 true [34] [35] = None /\
  product_key 59 true [128] [128] = Some (encode_row 59 [0]).
Proof. split; vm_compute; reflexivity. Qed.

(* ---- storing by key merges exactly the equal rows ------------------------------------------ *)
Lemma load_kinsert off r c p :
  bounded off r -> Forall (fun t => exists r', bounded off r' /\ fst t = encode_row off r') p ->
  load off (kinsert (encode_row off r) c p) = kinsert r c (load off p) /\
  Forall (fun t => exists r', bounded off r' /\ fst t = encode_row off r') (kinsert (encode_row off r) c p).
Proof.
intros Br; induction 1 as [|[k c'] p [r' [Br' Hk]] Hp IH]; simpl.
- rewrite decode_encode_row by exact Br. split; [reflexivity|].
  constructor; [exists r; split; [exact Br|reflexivity]|constructor].
- simpl in Hk; subst k. rewrite list_eqb_encode by assumption.
  rewrite (decode_encode_row off r' Br').
  destruct (list_eqb r' r) eqn:E; simpl.
  + rewrite decode_encode_row by exact Br'. split; [reflexivity|].
    constructor; [exists r'; split; [exact Br'|reflexivity]|exact Hp].
  + destruct IH as [IH1 IH2]. rewrite IH1, decode_encode_row by exact Br'. split; [reflexivity|].
    constructor; [exists r'; split; [exact Br'|reflexivity]|exact IH2].
Qed.

Definition kinv off (p : kpoly) : Prop :=
  Forall (fun t => exists r', bounded off r' /\ fst t = encode_row off r') p.

Lemma load_store_gen off (p : rpoly) acc :
  Forall (fun t => bounded off (fst t)) p -> kinv off acc ->
  load off (fold_left (fun a t => kinsert (encode_row off (fst t)) (snd t) a) p acc)
  = fold_left (fun a t => kinsert (fst t) (snd t) a) p (load off acc).
Proof.
intros Hp; revert acc; induction Hp as [|[r c] p Br Hp IH]; intros acc Ha; simpl; [reflexivity|].
destruct (load_kinsert off r c acc Br Ha) as [E1 E2].
rewrite IH by exact E2. rewrite E1. reflexivity.
Qed.

Theorem load_store off (p : rpoly) :
  Forall (fun t => bounded off (fst t)) p -> load off (store off p) = rmerge p.
Proof. intros Hp; unfold store, rmerge; rewrite load_store_gen; [reflexivity|exact Hp|constructor]. Qed.

(* the library's product, key by key, is the store of the exact term-by-term product, for any
   choice [fast] of when the compiled kernel is used that implies its precondition *)
Definition sound_guard off (fast : list N -> list N -> bool) (p q : rpoly) : Prop :=
  forall r1 c1 r2 c2, In (r1, c1) p -> In (r2, c2) q -> fast r1 r2 = true -> all_small off r1 r2 = true.

Lemma product_key_sound off (fast : list N -> list N -> bool) r1 r2 :
  (fast r1 r2 = true -> all_small off r1 r2 = true) ->
  product_key off (fast r1 r2) r1 r2 = Some (encode_row off (add_rows r1 r2)).
Proof.
intros H; destruct (fast r1 r2) eqn:E; [apply product_key_small; apply H; reflexivity|reflexivity].
Qed.

Lemma kmul_store_gen off fast (l : list ((list N * list N) * Z)) acc :
  Forall (fun t => fast (fst (fst t)) (snd (fst t)) = true -> all_small off (fst (fst t)) (snd (fst t)) = true) l ->
  fold_left (fun acc t =>
      match acc with
      | None => None
      | Some a =>
          match product_key off (fast (fst (fst t)) (snd (fst t))) (fst (fst t)) (snd (fst t)) with
          | None => None
          | Some k => Some (kinsert k (snd t) a)
          end
      end) l (Some acc)
  = Some (fold_left (fun a t => kinsert (encode_row off (fst t)) (snd t) a)
            (map (fun t => (add_rows (fst (fst t)) (snd (fst t)), snd t)) l) acc).
Proof.
intros H; revert acc; induction H as [|[[r1 r2] c] l Ht Hl IH]; intros acc; simpl; [reflexivity|].
simpl in Ht. rewrite product_key_sound by exact Ht. apply IH.
Qed.

Lemma rmul_terms_map (p q : rpoly) :
  map (fun t : (list N * list N) * Z => (add_rows (fst (fst t)) (snd (fst t)), snd t))
      (flat_map (fun t1 => map (fun t2 => ((fst t1, fst t2), (snd t1 * snd t2)%Z)) q) p)
  = rmul_terms p q.
Proof.
unfold rmul_terms; induction p as [|t1 p IH]; simpl; [reflexivity|].
rewrite map_app, IH, map_map. reflexivity.
Qed.

Lemma pairs_guard off fast (p q : rpoly) :
  sound_guard off fast p q ->
  Forall (fun t : (list N * list N) * Z =>
            fast (fst (fst t)) (snd (fst t)) = true -> all_small off (fst (fst t)) (snd (fst t)) = true)
         (flat_map (fun t1 => map (fun t2 => ((fst t1, fst t2), (snd t1 * snd t2)%Z)) q) p).
Proof.
intros H; apply Forall_forall; intros [[r1 r2] c] Hin; simpl.
apply in_flat_map in Hin; destruct Hin as [[r1' c1] [Hp Hin]].
apply in_map_iff in Hin; destruct Hin as [[r2' c2] [Heq Hq]].
simpl in Heq; injection Heq as -> -> _. exact (H _ _ _ _ Hp Hq).
Qed.

Theorem kmul_is_store off fast (p q : rpoly) :
  sound_guard off fast p q -> kmul off fast p q = Some (store off (rmul_terms p q)).
Proof.
intros H; unfold kmul, store; rewrite (kmul_store_gen off fast) by (apply pairs_guard; exact H).
rewrite rmul_terms_map; reflexivity.
Qed.

(* C20: through key storage and back, the product is the exact product merged by exponent row *)
Theorem kmul_exact off fast (p q : rpoly) :
  sound_guard off fast p q ->
  Forall (fun t => bounded off (fst t)) (rmul_terms p q) ->
  option_map (load off) (kmul off fast p q) = Some (rmerge (rmul_terms p q)).
Proof. intros G H; rewrite kmul_is_store by exact G; simpl; rewrite load_store by exact H; reflexivity. Qed.

Corollary mul_monomials off fast a b c d :
  sound_guard off fast [([a], c)] [([b], d)] ->
  a + b + off < two32 ->
  option_map (load off) (kmul off fast [([a], c)] [([b], d)]) = Some [([a + b], (c * d)%Z)].
Proof.
intros G H; rewrite kmul_exact; [reflexivity|exact G|].
simpl; constructor; [|constructor]. simpl; constructor; [exact H|constructor].
Qed.

(* multiply.py's guard: largest exponent of each operand, summed, plus the offset, below a bound *)

Lemma maxall_ge (p : rpoly) r c e : In (r, c) p -> In e r -> e <= maxall p.
Proof.
induction p as [|[r' c'] p IH]; simpl; [tauto|].
intros [Heq|Hin] He.
- injection Heq as -> ->. clear IH.
  induction r as [|x r IHr]; simpl in *; [tauto|].
  destruct He as [->|He]; [lia|]. specialize (IHr He). lia.
- specialize (IH Hin He).
  assert (forall l m, m <= fold_right N.max m l) as Hm.
  { induction l as [|y l IHl]; simpl; intros; [lia|]. specialize (IHl m). lia. }
  specialize (Hm r' (maxall p)). lia.
Qed.

Lemma add_rows_in r1 r2 s : In s (add_rows r1 r2) -> exists a b, In a r1 /\ In b r2 /\ s = a + b.
Proof.
revert r2; induction r1 as [|a r1 IH]; destruct r2 as [|b r2]; simpl; try tauto.
intros [<-|H]; [exists a, b; tauto|].
destruct (IH _ H) as [a' [b' [? [? ?]]]]; exists a', b'; tauto.
Qed.

Theorem max_guard_sound off bound p q :
  bound <= 128 -> sound_guard off (max_guard off bound p q) p q.
Proof.
intros Hb r1 c1 r2 c2 H1 H2; unfold max_guard, all_small; rewrite N.ltb_lt; intros Hg.
apply forallb_forall; intros s Hs. apply N.ltb_lt.
destruct (add_rows_in _ _ _ Hs) as [a [b [Ha [Hb' ->]]]].
pose proof (maxall_ge p r1 c1 a H1 Ha). pose proof (maxall_ge q r2 c2 b H2 Hb'). lia.
Qed.
