(* SetDimP.v - set_dimensions (C19): growing keeps every element's polynomial; shrinking keeps exactly the
   terms that do not involve a dropped indeterminant. *)
From mathcomp Require Import all_ssreflect all_algebra.
From SsrMultinomials Require Import mpoly.
From NP Require Import Base Poly Query Abs Clean Align.
Set Implicit Arguments. Unset Strict Implicit. Unset Printing Implicit Defensive.
Import GRing.Theory.
Local Open Scope ring_scope.

Section SetDim.
Variable (n : nat) (R : comRingType).
Implicit Types (p q : parr R) (ns : seq nat) (r : seq nat).

Lemma expo_grow nsp extra ns' r k v :
  ns' =i nsp ++ extra -> size r = size nsp ->
  expo ns' (widen (nsp ++ extra) ns' (r ++ nseq k 0%N)) v = expo nsp r v.
Proof.
move=> eqi sz; rewrite /widen /expo.
case vin : (v \in ns'); last first.
  have -> : index v ns' = size ns' by apply/eqP; rewrite eqn_leq index_size leqNgt index_mem vin.
  rewrite [LHS]nth_default ?size_map //.
  have vp : v \notin nsp by apply/negP => h; move: vin; rewrite eqi mem_cat h.
  by rewrite nth_default // sz leqNgt index_mem.
rewrite (nth_map 0%N) ?index_mem //=. rewrite nth_index // index_cat.
case vp : (v \in nsp); first by rewrite nth_cat sz index_mem vp.
rewrite nth_cat sz ltnNge leq_addr /= addKn nth_nseq if_same.
by rewrite nth_default // sz leqNgt index_mem vp.
Qed.

Lemma mon_grow nsp extra ns' r k :
  ns' =i nsp ++ extra -> size r = size nsp ->
  mon n ns' (widen (nsp ++ extra) ns' (r ++ nseq k 0%N)) = mon n nsp r.
Proof. by move=> eqi sz; apply/mnmP => v; rewrite !mnmE expo_grow. Qed.

Theorem set_dimensions_grow o p d q i :
  wfb p -> (size (names p) < d)%N -> set_dimensions o p d = Ok q ->
  absE n q i = absE n p i /\ shape q = shape p.
Proof.
move=> wp lt; rewrite /set_dimensions; case: eqP lt => [->|_ lt]; first by rewrite ltnn.
rewrite lt => /from_attributes_absE -/(_ n i) [-> ->]; split=> //.
have [_ _ _ wid _] := wfbP wp.
rewrite /absE /terms; move/allP: wid.
elim: (rows p) (cols p) => [|r rs IH] [|c cs] wid //=; rewrite ?absL_nil //.
rewrite !absL_cons IH; last by move=> x xin; apply: wid; rewrite inE xin orbT.
congr (_ + _); rewrite /absT /= mon_grow //; first by move=> v; rewrite mem_sort.
by apply/eqP/wid; rewrite inE eqxx.
Qed.

Lemma expo_shrink ns r d v : uniq ns -> size r = size ns -> (d <= size ns)%N ->
  ~~ has (fun e => e != 0%N) (drop d r) -> expo (take d ns) (take d r) v = expo ns r v.
Proof.
move=> un sz le zs; rewrite /expo.
have zd k : (d <= k)%N -> nth 0%N r k = 0%N.
  move=> dk; rewrite -(subnKC dk) -nth_drop; apply/eqP; apply: contraNT zs => nz.
  apply/hasP; exists (nth 0%N (drop d r) (k - d)) => //; apply: mem_nth.
  by case: (ltnP (k - d) (size (drop d r))) => // ge; rewrite nth_default ?eqxx in nz.
have std : size (take d ns) = d by rewrite size_takel.
case vin : (v \in take d ns).
  have lti : (index v (take d ns) < d)%N by rewrite -{2}std index_mem.
  have -> : index v ns = index v (take d ns) by rewrite -{1}(cat_take_drop d ns) index_cat vin.
  by rewrite nth_take.
have -> : index v (take d ns) = d by apply/eqP; rewrite -{2}std eqn_leq index_size leqNgt index_mem vin.
rewrite [LHS]nth_default; last by rewrite size_takel // sz.
case vn : (v \in ns); last by rewrite nth_default // sz leqNgt index_mem vn.
by apply/esym/zd; rewrite -{1}(cat_take_drop d ns) index_cat vin std leq_addr.
Qed.

Lemma mon_shrink ns r d : uniq ns -> size r = size ns -> (d <= size ns)%N ->
  ~~ has (fun e => e != 0%N) (drop d r) -> mon n (take d ns) (take d r) = mon n ns r.
Proof. by move=> un sz le zs; apply/mnmP => v; rewrite !mnmE expo_shrink. Qed.

Definition kept d (t : term R) : bool := ~~ has (fun e => e != 0%N) (drop d t.1).

Theorem set_dimensions_shrink o p d q i :
  wfb p -> (d < size (names p))%N -> set_dimensions o p d = Ok q ->
  absE n q i = absL n (names p) i [seq t <- terms p | kept d t] /\ shape q = shape p.
Proof.
move=> wp lt; rewrite /set_dimensions; case: eqP lt => [->|_ lt]; first by rewrite ltnn.
rewrite ltnNge (ltnW lt) /=.
have [srs _ _ wid [_ _ un]] := wfbP wp.
set ts0 := [seq t <- terms p | _]; set ts := if ts0 is [::] then _ else _.
move=> /from_attributes_absE -/(_ n i) [-> ->]; split=> //.
have wts : all (fun t : term R => (size t.1 == size (names p)) && kept d t) ts0.
  apply/allP => t; rewrite mem_filter => /andP[-> tin]; rewrite andbT.
  by move/allP: wid; apply; move/mem_zip: tin => [].
have step (l : seq (term R)) : all (fun t : term R => (size t.1 == size (names p)) && kept d t) l ->
    absL n (take d (names p)) i (zip [seq take d t.1 | t <- l] (unzip2 l)) = absL n (names p) i l.
  elim: l => [|[r c] l IH] /=; rewrite ?absL_nil // => /andP[/andP[/eqP sz kp] al].
  by rewrite !absL_cons IH // /absT /= mon_shrink // ltnW.
rewrite /ts; case e : ts0 wts => [|t0 l] wts; last exact: step.
by rewrite /= absL_cons !absL_nil /absT /= nth_zeros scale0r addr0.
Qed.

Theorem set_dimensions_same o p : set_dimensions o p (size (names p)) = Ok p.
Proof. by rewrite /set_dimensions eqxx. Qed.
Lemma from_attributes_names_retained rc ns sh rs (cs : seq (seq R)) q :
  from_attributes rc true ns sh rs cs = Ok q -> names q = ns.
Proof.
rewrite /from_attributes; case: ifP => // _; case: cs => [|c0 cs] //.
by case: ifP => // _; case: ifP => // _ /=; case: ifP => // _ [<-].
Qed.

(* the names of the result: the first d names when shrinking; when growing, the old names and the smallest unused
   indices, in increasing order *)
Theorem set_dimensions_names o p d q :
  set_dimensions o p d = Ok q ->
  names q = if d == size (names p) then names p
            else if (size (names p) < d)%N
                 then sort leq (names p ++ fresh_names (names p) (d - size (names p)) (d + size (names p)) 0)
                 else take d (names p).
Proof.
rewrite /set_dimensions; case: eqP => [_ [->] //|_]; case: ifP => _ /from_attributes_names_retained //.
Qed.
End SetDim.
