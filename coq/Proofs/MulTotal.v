(* MulTotal.v — products, powers and whole expression trees never fail because of an option setting (C15). *)
From mathcomp Require Import all_ssreflect all_algebra.
From SsrMultinomials Require Import mpoly.
From NP Require Import Base Poly Deriv Rearr Reduce Abs Clean Shape Align WfP Arith Expr DerivP RearrP ReduceP OptIrrP.
Set Implicit Arguments. Unset Strict Implicit. Unset Printing Implicit Defensive.
Import GRing.Theory.
Local Open Scope ring_scope.

Section MulTotal.
Variable (n : nat) (R : comRingType).
Implicit Types (p q r a b : parr R) (o : opts).

Lemma size_eaddr (r1 r2 : seq nat) : size (eaddr r1 r2) = minn (size r1) (size r2).
Proof. by rewrite /eaddr size_map size_zip. Qed.

(* the product never fails on well-formed operands whose shapes broadcast, whatever the options *)
Theorem pmul_total o a b s :
  wfb a -> wfb b -> bshape (shape a) (shape b) = Some s -> exists q, pmul o a b = Ok q.
Proof.
move=> wa wb bs; rewrite /pmul bs.
set ns := union_names _; set a1 := align_names ns a; set b1 := align_names ns b.
set pairs := mul_pairs s a1 b1; set rs := sort _ _.
have uns : uniq ns by apply: uniq_union_names.
have suba : {subset names a <= ns} by move=> v; apply: mem_union_names; rewrite !inE eqxx.
have subb : {subset names b <= ns} by move=> v; apply: mem_union_names; rewrite !inE eqxx orbT.
have wa1 : wfb a1 by apply: wfb_align_names.
have wb1 : wfb b1 by apply: wfb_align_names.
have [sra posa _ wida _] := wfbP wa1; have [srb posb _ widb _] := wfbP wb1.
move: wida widb; rewrite !names_align_names => wida widb.
apply: from_attributes_total => //.
- by rewrite size_map.
- have pne : (0 < size pairs)%N.
    rewrite /pairs /mul_pairs size_allpairs /terms !size_zip -sra -srb !minnn muln_gt0 posa posb //.
  rewrite /rs size_sort; case e : (undup _) => [|x l] //.
  have : head ([::], [::]) pairs \in pairs by case: (pairs) pne => // t l _; rewrite mem_head.
  by move/(map_f (@fst _ _)); rewrite -mem_undup e.
- by rewrite sort_uniq undup_uniq.
- apply/allP => r0; rewrite mem_sort mem_undup => /mapP[[r1 c1] /allpairsP[[ta tb] /= [tain tbin [-> _]]] ->] /=.
  rewrite size_eaddr.
  have /eqP -> : size ta.1 == size ns by move/allP: wida; apply; move/mem_zip: tain => [].
  have /eqP -> : size tb.1 == size ns by move/allP: widb; apply; move/mem_zip: tbin => [].
  by rewrite minnn.
Qed.

Lemma ppow_fold_total o e x a :
  wfb a -> wfb x -> shape x = shape a -> exists q, ppow_fold o e (Ok x) a = Ok q.
Proof.
move=> wa; elim: e x => [|e IH] x wx sx /=; first by exists x.
have bs : bshape (shape x) (shape a) = Some (shape a) by rewrite sx bshape_refl.
have [y ey] := pmul_total o wx wa bs; rewrite ey /=.
have [s bs' [wy sy _]] := pmul_spec n wx wa ey.
by apply: IH => //; move: bs'; rewrite bs => -[es]; rewrite sy -es.
Qed.

Theorem ppow_total o a e : wfb a -> exists q, ppow o a e = Ok q.
Proof.
move=> wa; rewrite /ppow; have [_ _ _ _ [_ npos un]] := wfbP wa.
have s1 : size (take 1 (names a)) = 1%N by rewrite size_take; case: (size (names a)) npos => [|[|k]].
have [one e1] : exists q, from_attributes (o_retc o) (o_retn o) (take 1 (names a)) (shape a) [:: [:: 0%N]] [:: nseq (psize a) (1 : R)] = Ok q.
  apply: from_attributes_total => //=; first by rewrite s1.
  by apply: subseq_uniq un; rewrite -{2}(cat_take_drop 1 (names a)); apply: prefix_subseq.
rewrite e1 /=.
have w1 : wfb one.
  by apply: (from_attributes_wf _ _ e1); rewrite /= ?size_nseq ?eqxx // s1.
have [_ sh1] := from_attributes_absE n 0 e1.
exact: ppow_fold_total.
Qed.
Lemma agrees_shape (x1 x2 : parr R) (d : option (dval n R)) : agrees x1 d -> agrees x2 d -> shape x1 = shape x2 /\ wfb x1 /\ wfb x2.
Proof. by move=> [f1 [-> w1 _]] [f2 [[-> _] w2 _]]. Qed.

(* every expression tree over + - neg * ** that evaluates under one option record evaluates under every other *)
Theorem eval_opts_success o1 o2 (e : expr R) r1 :
  leaves_wf e -> eval o1 e = Ok r1 -> exists r2, eval o2 e = Ok r2.
Proof.
elim: e r1 => [p|a IHa|a IHa b IHb|a IHa b IHb|a IHa b IHb|a IHa k] r1 /=.
- by move=> _ _; exists p.
- move=> wl; case ea: (eval o1 a) => [x1|] //= _.
  have [x2 ea2] := IHa _ wl ea; rewrite ea2 /=.
  have [_ [_ w2]] := agrees_shape (eval_spec n wl ea) (eval_spec n wl ea2).
  exact: dispatch1_total.
- move=> /andP[wla wlb]; case ea: (eval o1 a) => [x1|] //=; case eb: (eval o1 b) => [y1|] //= er.
  have [x2 ea2] := IHa _ wla ea; have [y2 eb2] := IHb _ wlb eb; rewrite ea2 eb2 /=.
  have [sx [wx1 wx2]] := agrees_shape (eval_spec n wla ea) (eval_spec n wla ea2).
  have [sy [wy1 wy2]] := agrees_shape (eval_spec n wlb eb) (eval_spec n wlb eb2).
  have [s bs _] := padd_spec n wx1 wy1 er.
  by apply: (@dispatch2_total n R o2 _ x2 y2 s) => //; rewrite -sx -sy.
- move=> /andP[wla wlb]; case ea: (eval o1 a) => [x1|] //=; case eb: (eval o1 b) => [y1|] //= er.
  have [x2 ea2] := IHa _ wla ea; have [y2 eb2] := IHb _ wlb eb; rewrite ea2 eb2 /=.
  have [sx [wx1 wx2]] := agrees_shape (eval_spec n wla ea) (eval_spec n wla ea2).
  have [sy [wy1 wy2]] := agrees_shape (eval_spec n wlb eb) (eval_spec n wlb eb2).
  have [s bs _] := psub_spec n wx1 wy1 er.
  by apply: (@dispatch2_total n R o2 _ x2 y2 s) => //; rewrite -sx -sy.
- move=> /andP[wla wlb]; case ea: (eval o1 a) => [x1|] //=; case eb: (eval o1 b) => [y1|] //= er.
  have [x2 ea2] := IHa _ wla ea; have [y2 eb2] := IHb _ wlb eb; rewrite ea2 eb2 /=.
  have [sx [wx1 wx2]] := agrees_shape (eval_spec n wla ea) (eval_spec n wla ea2).
  have [sy [wy1 wy2]] := agrees_shape (eval_spec n wlb eb) (eval_spec n wlb eb2).
  have [s bs _] := pmul_spec n wx1 wy1 er.
  by apply: (@pmul_total o2 x2 y2 s) => //; rewrite -sx -sy.
- move=> wl; case ea: (eval o1 a) => [x1|] //= _.
  have [x2 ea2] := IHa _ wl ea; rewrite ea2 /=.
  have [_ [_ w2]] := agrees_shape (eval_spec n wl ea) (eval_spec n wl ea2).
  exact: ppow_total.
Qed.
End MulTotal.
