(* AlignIdem.v — aligning already aligned arguments changes nothing (C04). *)
From mathcomp Require Import all_ssreflect all_algebra.
From SsrMultinomials Require Import mpoly.
From NP Require Import Base Poly Order Abs Clean Shape Align OrderP.
Set Implicit Arguments. Unset Strict Implicit. Unset Printing Implicit Defensive.
Import GRing.Theory.
Local Open Scope ring_scope.

Section Idem.
Variable (n : nat) (R : comRingType).
Implicit Types (p q : parr R) (ps : seq (parr R)).

Lemma map_const_in (T : eqType) (U : Type) (f : T -> U) (c : U) (s : seq T) :
  {in s, forall x, f x = c} -> [seq f x | x <- s] = nseq (size s) c.
Proof.
elim: s => [|x s IH] //= h; rewrite h ?mem_head // IH // => y yin.
by apply: h; rewrite inE yin orbT.
Qed.

Lemma align_rows_id p : wfb p -> align_rows (rows p) p = p.
Proof.
move=> wp; have [sz _ un _ _] := wfbP wp.
rewrite /align_rows; case: p wp sz un => ns sh rs cs /= wp sz un; congr Parr.
apply: (@eq_from_nth _ [::]); first by rewrite size_map.
move=> k; rewrite size_map => lt.
by rewrite (nth_map [::]) // /colof /= index_uniq // (set_nth_default [::]) // -sz.
Qed.

Lemma undup_flatten_nseq (T : eqType) (k : nat) (s : seq T) :
  uniq s -> (0 < k)%N -> undup (flatten (nseq k s)) = s.
Proof.
move=> us; elim: k => [|[|k] IH] // _.
  by rewrite /= cats0 undup_id.
rewrite [nseq _ _]/= [flatten _]/= undup_cat IH // (_ : filter _ _ = [::]) //.
apply/eqP; rewrite -size_eq0 size_filter eqn0Ngt -has_count -all_predC.
apply/allP => x; rewrite mem_undup => xin /=; rewrite negbK.
by rewrite mem_cat xin.
Qed.

Lemma global_rows_nseq k (rs : seq (seq nat)) :
  uniq rs -> sorted lexleq rs -> (0 < k)%N -> global_rows (nseq k rs) = rs.
Proof.
move=> un so kp; rewrite /global_rows undup_flatten_nseq // sorted_sort //.
exact: lexleq_trans.
Qed.

Lemma grows_sorted ps : sorted lexleq (grows ps).
Proof. by rewrite /grows /global_rows; apply: sort_sorted; apply: lexleq_total. Qed.

Theorem align_expons_idem ps :
  all (@wfb R) ps -> (0 < size ps)%N -> align_expons (align_expons ps) = align_expons ps.
Proof.
move=> wps pos; set qs := align_expons ps.
have qsE : qs = [seq align_rows (grows ps) (anames ps p) | p <- ps] by rewrite /qs align_exponsE.
have facts q : q \in qs -> [/\ wfb q, names q = cnames ps & rows q = grows ps].
  rewrite qsE => /mapP[p pin ->].
  by have [w nq rq _ _] := align_expons_elem n wps pin.
have szq : size qs = size ps by rewrite qsE size_map.
have same : allsame qs.
  apply/allP => q qin; have [_ -> _] := facts _ qin.
  have q0in : head (pnil R) qs \in qs.
    by case: (qs) szq => [|q0 l] szq; [rewrite -szq in pos | rewrite /= mem_head].
  by have [_ -> _] := facts _ q0in.
rewrite align_exponsE.
have an q : anames qs q = q by rewrite /anames same.
have gr : grows qs = grows ps.
  rewrite /grows (@eq_map _ _ (fun q => rows (anames qs q)) (@rows R)) => [|q]; last by rewrite an.
  rewrite (@map_const_in _ _ (@rows R) (grows ps)); last by move=> q /facts [].
  by rewrite global_rows_nseq ?grows_uniq ?grows_sorted // szq.
rewrite gr -[RHS]map_id; apply/eq_in_map => q qin.
have [wq _ rq] := facts _ qin.
by rewrite an -rq align_rows_id.
Qed.

(* align_indeterminants: a second pass is the identity *)
Theorem align_names_idem ns p : align_names ns (align_names ns p) = align_names ns p.
Proof. by rewrite {1}/align_names names_align_names eqxx. Qed.

(* align_shape: the broadcast shape of equal shapes is that shape, so nothing is rebuilt *)
Theorem align_shape1_idem o s p : shape p = s -> align_shape1 o s p = Ok p.
Proof. by rewrite /align_shape1 => ->; rewrite eqxx. Qed.

End Idem.
