(* QueryP.v — leading terms, constants, decomposition (C19). *)
From mathcomp Require Import all_ssreflect all_algebra.
From SsrMultinomials Require Import mpoly.
From NP Require Import Base Poly Order Compare Query OrderP CompareP Abs Align CompareTop MonomialP.
Set Implicit Arguments. Unset Strict Implicit. Unset Printing Implicit Defensive.
Import GRing.Theory.
Local Open Scope ring_scope.

(* in a list sorted for a transitive relation, the last element dominates every element *)
Lemma sorted_last_max (T : eqType) (le : rel T) (d : T) (s : seq T) x :
  transitive le -> reflexive le -> sorted le s -> x \in s -> le x (last d s).
Proof.
move=> tr rf; elim: s d x => [|y s IH] d x //=.
rewrite inE => pth /orP[/eqP ->|xin]; last by apply: IH => //; exact: path_sorted pth.
case: s pth {IH} => [|z s] pth; first exact: rf.
have /allP h := order_path_min tr pth; apply: h; rewrite /=; exact: mem_last.
Qed.

Section Lead.
Variable R : realDomainType.
Variables (g r : bool) (p : parr R) (i : nat).
Let order := glexsort g r (rows p).
Let nz k := cell (cols p) k i != 0.
Let le j k := mleq g r (nth [::] (rows p) j) (nth [::] (rows p) k).

Lemma lead_index_last :
  lead_index g r p i = last None [seq Some k | k <- order & nz k].
Proof. by rewrite /lead_index -/order foldl_lww. Qed.

(* the zero polynomial: no leading term *)
Theorem lead_index_none :
  lead_index g r p i = None -> forall k, (k < size (rows p))%N -> cell (cols p) k i = 0.
Proof.
rewrite lead_index_last => h k lt; apply/eqP/negPn/negP => knz.
have kin : k \in [seq k <- order | nz k].
  by rewrite mem_filter /nz knz (perm_mem (glexsort_perm g r (rows p))) mem_iota.
by case: [seq k <- order | nz k] h kin => //= a l; rewrite last_map.
Qed.

(* otherwise: a stored term with non-zero coefficient that is largest in the selected order *)
Theorem lead_index_some k :
  lead_index g r p i = Some k ->
  [/\ (k < size (rows p))%N, cell (cols p) k i != 0 &
      forall j, (j < size (rows p))%N -> cell (cols p) j i != 0 -> le j k].
Proof.
rewrite lead_index_last; set f := [seq k <- order | nz k] => h.
have fne : f != [::] by case: f h.
have lastE : last k f = k.
  by case: f h fne => //= a l; rewrite last_map => -[].
have kin : k \in f by rewrite -lastE; case: f fne {h lastE} => //= a l _; rewrite mem_last.
move: (kin); rewrite mem_filter => /andP[knz kord].
split=> //; first by move: kord; rewrite (perm_mem (glexsort_perm g r (rows p))) mem_iota.
move=> j lt jnz; rewrite -lastE.
apply: (@sorted_last_max _ le k f j).
- by move=> b a c; apply: mleq_trans.
- by move=> a; apply: mleq_refl.
- apply: sorted_filter; first by move=> b a c; apply: mleq_trans.
  exact: glexsort_sorted.
- by rewrite mem_filter /nz jnz (perm_mem (glexsort_perm g r (rows p))) mem_iota.
Qed.

Theorem lead_exponent_spec : (i < psize p)%N ->
  nth [::] (lead_exponent g r p) i
  = if lead_index g r p i is Some k then nth [::] (rows p) k else nseq (size (names p)) 0%N.
Proof. by move=> lt; rewrite /lead_exponent (nth_map 0%N) ?size_iota // nth_iota. Qed.

Theorem lead_coefficient_spec : (i < psize p)%N ->
  nth 0 (lead_coefficient g r p) i
  = if lead_index g r p i is Some k then cell (cols p) k i else 0.
Proof. by move=> lt; rewrite /lead_coefficient (nth_map 0%N) ?size_iota // nth_iota. Qed.

End Lead.

Section Const.
Variable (n : nat) (R : comRingType).
Implicit Types (p : parr R).

Lemma mon_const ns row : const_row row -> mon n ns row = 0%MM.
Proof.
rewrite /const_row -all_predC => /allP h; apply/mnmP => v; rewrite mnmE mnm0E /expo.
case: (ltnP (index (v : nat) ns) (size row)) => [lt|ge]; last by rewrite nth_default.
by have /= := h _ (mem_nth 0%N lt); rewrite negbK => /eqP.
Qed.

(* a constant polynomial array denotes constants *)
Theorem isconstant_absE p i :
  isconstant p ->
  absE n p i = (\sum_(t <- terms p | const_row t.1) nth 0 t.2 i)%:MP_[n].
Proof.
move=> /allP isc; rewrite /absE /absL (bigID (fun t : term R => const_row t.1)) /=.
rewrite [X in _ + X]big1_seq ?addr0; last first.
  move=> t /andP[nc tin]; have := isc _ tin; rewrite (negbTE nc) /= => zc.
  by rewrite /absT nth_all0 // scale0r.
rewrite (big_morph _ (@mpolyCD n R) (@mpolyC0 n R)).
apply: eq_bigr => t ct.
by rewrite /absT mon_const // mpolyX0 -mul_mpolyC mulr1.
Qed.

Theorem tonumpy_spec p s v :
  tonumpy p = Ok (s, v) ->
  [/\ isconstant p, s = shape p & forall i, absE n p i = (nth 0 v i)%:MP_[n]].
Proof.
rewrite /tonumpy; case isc: (isconstant p) => //=.
case E: (filter _ _) => [|t [|t' l]] // [<- <-]; split=> // i.
- by rewrite isconstant_absE // -big_filter E big_nil nth_nseq; case: ifP.
- by rewrite isconstant_absE // -big_filter E big_cons big_nil addr0.
Qed.

(* totality: a well-formed constant array always converts (its rows are distinct and of one width: at most one of them
   is the zero row) *)
Lemma const_row_nseq (r : seq nat) : const_row r -> r = nseq (size r) 0%N.
Proof.
rewrite /const_row -all_predC => /allP h; apply: (@eq_from_nth _ 0%N); first by rewrite size_nseq.
by move=> k lk; rewrite nth_nseq lk; have /= := h _ (mem_nth 0%N lk); rewrite negbK => /eqP.
Qed.

Theorem tonumpy_constant p : wfb p -> isconstant p -> exists v, tonumpy p = Ok (shape p, v).
Proof.
move=> wp isc; rewrite /tonumpy isc /=.
case E: (filter _ _) => [|t [|t' l]]; [by eexists | by eexists | exfalso].
have [srs rpos urs wid _] := wfbP wp.
have sub : subseq [:: t.1, t'.1 & unzip1 l] (rows p).
  have -> : [:: t.1, t'.1 & unzip1 l] = unzip1 [seq t <- terms p | const_row t.1] by rewrite E.
  rewrite -[X in subseq _ X](@unzip1_zip _ _ (rows p) (cols p)) ?srs //.
  by apply: map_subseq; exact: filter_subseq.
have /= /andP[] := subseq_uniq sub urs; rewrite inE negb_or => /andP[/eqP ne _] _.
have tin : t.1 \in rows p by apply: (mem_subseq sub); rewrite mem_head.
have tin' : t'.1 \in rows p by apply: (mem_subseq sub); rewrite !inE eqxx orbT.
have cin : t \in [seq t <- terms p | const_row t.1] by rewrite E mem_head.
have cin' : t' \in [seq t <- terms p | const_row t.1] by rewrite E !inE eqxx orbT.
move: cin cin'; rewrite !mem_filter => /andP[c1 _] /andP[c2 _].
apply: ne; rewrite (const_row_nseq c1) (const_row_nseq c2).
by rewrite (eqP (allP wid _ tin)) (eqP (allP wid _ tin')).
Qed.


Theorem tonumpy_nonconstant p : ~~ isconstant p -> tonumpy p = Err FeatureNotSupported.
Proof. by rewrite /tonumpy => ->. Qed.

(* ---- decompose: one monomial per slice, slices summing to the input --------------------------- *)
Lemma nth_flatten_blocks (m : nat) (blocks : seq (seq R)) j i :
  all (fun b => size b == m) blocks -> (i < m)%N ->
  nth 0 (flatten blocks) (j * m + i) = nth 0 (nth [::] blocks j) i.
Proof.
elim: blocks j => [|b bs IH] j /=; first by rewrite !nth_nil.
move=> /andP[/eqP sb al] lt; rewrite nth_cat sb.
case: j => [|j] /=; first by rewrite mul0n add0n lt.
by rewrite mulSn -addnA ltnNge leq_addr /= addKn IH.
Qed.

Theorem decompose_slice p j i : wfb p ->
  (j < size (rows p))%N -> (i < psize p)%N ->
  absE n (decompose p) (j * psize p + i)
  = cell (cols p) j i *: 'X_[mon n (names p) (nth [::] (rows p) j)].
Proof.
move=> wp ltj lti; have [sz _ _ _ [csz _ _]] := wfbP wp.
rewrite /absE /absL /decompose /terms /= zip_map_iota /absT /=.
rewrite (bigD1_seq j) ?iota_uniq ?mem_iota //= big1_seq ?addr0.
  rewrite nth_flatten_blocks //; last first.
    apply/allP => b /mapP[j' _ ->]; case: ifP => _; last by rewrite size_nseq.
    by rewrite (allP csz) // mem_nth // -sz.
  by rewrite (nth_map 0%N) ?size_iota // nth_iota // add0n eqxx.
move=> k /andP[kj]; rewrite mem_iota add0n /= => ltk; rewrite nth_flatten_blocks //; last first.
  apply/allP => b /mapP[j' _ ->]; case: ifP => _; last by rewrite size_nseq.
  by rewrite (allP csz) // mem_nth // -sz.
rewrite (nth_map 0%N) ?size_iota // nth_iota // add0n eq_sym (negbTE kj).
by rewrite nth_zeros scale0r.
Qed.

Theorem decompose_sum p i : wfb p -> (i < psize p)%N ->
  \sum_(0 <= j < size (rows p)) absE n (decompose p) (j * psize p + i) = absE n p i.
Proof.
move=> wp lti; rewrite absE_index // big_nat_cond [RHS]big_nat_cond.
by apply: eq_bigr => j; rewrite andbT => /andP[_ ltj]; rewrite decompose_slice.
Qed.

End Const.
