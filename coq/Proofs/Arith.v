(* Arith.v — +, -, unary -, *, ** and expression trees refine {mpoly R[n]} (C01) *)
From mathcomp Require Import all_ssreflect all_algebra.
From SsrMultinomials Require Import mpoly.
From NP Require Import Base Poly Abs Clean Shape Align.
Set Implicit Arguments. Unset Strict Implicit. Unset Printing Implicit Defensive.
Import GRing.Theory.
Local Open Scope ring_scope.

Section Arith.
Variable (n : nat) (R : comRingType).
Implicit Types (p a b : parr R) (ns : seq nat) (o : opts).

Lemma absE_oob p i : wfb p -> (psize p <= i)%N -> absE n p i = 0.
Proof.
move=> wp le; have [_ _ _ _ [csz _ _]] := wfbP wp.
rewrite /absE /absL big_seq big1 // => t /mem_zip [_ tin].
by rewrite /absT nth_default ?scale0r // (eqP (allP csz _ tin)).
Qed.

(* ---- coefficient-wise functions ----------------------------------------------- *)
Lemma nth_map0 (f : R -> R) (c : seq R) i : f 0 = 0 -> nth 0 (map f c) i = f (nth 0 c i).
Proof.
move=> f0; case: (ltnP i (size c)) => lt; first exact: nth_map.
by rewrite !nth_default ?size_map.
Qed.

Lemma nth_zipw (f : R -> R -> R) (c1 c2 : seq R) i :
  f 0 0 = 0 -> size c1 = size c2 -> nth 0 (zipw f c1 c2) i = f (nth 0 c1 i) (nth 0 c2 i).
Proof.
move=> f0 sz; case: (ltnP i (size c1)) => lt.
  by rewrite /zipw (nth_map (0, 0)) ?size_zip -?sz ?minnn // nth_zip.
by rewrite !nth_default // -?sz // size_map size_zip -sz minnn.
Qed.

Lemma size_zipw (f : R -> R -> R) (c1 c2 : seq R) :
  size c1 = size c2 -> size (zipw f c1 c2) = size c1.
Proof. by move=> sz; rewrite /zipw size_map size_zip -sz minnn. Qed.

Lemma absL_zipw (f : R -> R -> R) (F : {mpoly R[n]} -> {mpoly R[n]} -> {mpoly R[n]})
    ns i rs (cas cbs : seq (seq R)) (m : nat) :
  f 0 0 = 0 -> F 0 0 = 0 ->
  (forall x y (X : {mpoly R[n]}) u v, F (x *: X + u) (y *: X + v) = f x y *: X + F u v) ->
  size rs = size cas -> size rs = size cbs ->
  all (fun c => size c == m) cas -> all (fun c => size c == m) cbs ->
  absL n ns i (zip rs [seq zipw f x.1 x.2 | x <- zip cas cbs])
  = F (absL n ns i (zip rs cas)) (absL n ns i (zip rs cbs)).
Proof.
move=> f0 F0 FE.
elim: rs cas cbs => [|r rs IH] [|ca cas] [|cb cbs] //=; rewrite ?absL_nil //.
move=> [s1] [s2] /andP[/eqP sa sas] /andP[/eqP sb sbs].
by rewrite !absL_cons IH // FE /absT /= nth_zipw // sa sb.
Qed.

Lemma zipw_colsize (f : R -> R -> R) (cas cbs : seq (seq R)) (m : nat) :
  all (fun c => size c == m) cas -> all (fun c => size c == m) cbs ->
  all (fun c => size c == m) [seq zipw f x.1 x.2 | x <- zip cas cbs].
Proof.
elim: cas cbs => [|ca cas IH] [|cb cbs] //= /andP[/eqP sa sas] /andP[/eqP sb sbs].
by rewrite IH // size_zipw ?sa ?sb // eqxx.
Qed.

(* the shape of the pair produced by align_polys on two operands *)
Lemma align_polys2 o a b ps :
  wfb a -> wfb b -> align_polys o [:: a; b] = Ok ps ->
  exists s a' b',
   [/\ bshape (shape a) (shape b) = Some s, ps = [:: a'; b'],
       [/\ wfb a', wfb b', shape a' = s, shape b' = s & names a' = names b' /\ rows a' = rows b'],
       (forall i, (i < prodn s)%N -> absE n a' i = absE n a (bidx (shape a) s i)) &
       (forall i, (i < prodn s)%N -> absE n b' i = absE n b (bidx (shape b) s i))].
Proof.
move=> wa wb; rewrite /align_polys /align_shapes bshapes2.
case bs: (bshape _ _) => [s|] //=.
case ea: (align_shape1 o s a) => [a1|] //=; case eb: (align_shape1 o s b) => [b1|] //= [<-].
have [wa1 sa1 ea1] := align_shape1P n wa ea; have [wb1 sb1 eb1] := align_shape1P n wb eb.
rewrite align_exponsE /=.
set ps1 := [:: a1; b1].
have wps : all (@wfb R) ps1 by rewrite /= wa1 wb1.
have ain : a1 \in ps1 by rewrite !inE eqxx.
have bin : b1 \in ps1 by rewrite !inE eqxx orbT.
have [wa2 na2 ra2 sa2 ea2] := align_expons_elem n wps ain.
have [wb2 nb2 rb2 sb2 eb2] := align_expons_elem n wps bin.
exists s, (align_rows (grows ps1) (anames ps1 a1)), (align_rows (grows ps1) (anames ps1 b1)).
split=> //.
- by split; rewrite ?sa2 ?sb2 ?na2 ?nb2 ?ra2 ?rb2.
- by move=> i lt; rewrite ea2 ea1.
- by move=> i lt; rewrite eb2 eb1.
Qed.

Lemma dispatch2_spec (f : R -> R -> R) (F : {mpoly R[n]} -> {mpoly R[n]} -> {mpoly R[n]})
    o a b r :
  f 0 0 = 0 -> F 0 0 = 0 ->
  (forall x y (X : {mpoly R[n]}) u v, F (x *: X + u) (y *: X + v) = f x y *: X + F u v) ->
  wfb a -> wfb b -> dispatch2 o f a b = Ok r ->
  exists2 s, bshape (shape a) (shape b) = Some s &
    [/\ wfb r, shape r = s &
        forall i, (i < prodn s)%N ->
          absE n r i = F (absE n a (bidx (shape a) s i)) (absE n b (bidx (shape b) s i))].
Proof.
move=> f0 F0 FE wa wb; rewrite /dispatch2.
case eps: (align_polys o [:: a; b]) => [ps|] //=.
have [s [a' [b' [bs -> [wa' wb' sa' sb' [nab rab]] ea' eb']]]] := align_polys2 wa wb eps.
move=> cl; exists s => //.
have [sra _ _ _ [csa npos _]] := wfbP wa'; have [srb _ _ _ [csb _ _]] := wfbP wb'.
move: csa csb; rewrite /psize sa' sb' => csa csb.
have csz := zipw_colsize f csa csb.
rewrite -{1}sa' in csz.
split; first exact: (from_attributes_wf csz npos cl).
  by case: (from_attributes_absE n 0 cl) => _ ->.
move=> i lt; case: (from_attributes_absE n i cl) => -> _.
rewrite (@absL_zipw f F _ _ _ _ _ (prodn s) f0 F0 FE) //; last by rewrite rab.
by rewrite -ea' // -eb' // /absE /terms nab rab.
Qed.

Theorem padd_spec o a b r :
  wfb a -> wfb b -> padd o a b = Ok r ->
  exists2 s, bshape (shape a) (shape b) = Some s &
    [/\ wfb r, shape r = s &
        forall i, (i < prodn s)%N ->
          absE n r i = absE n a (bidx (shape a) s i) + absE n b (bidx (shape b) s i)].
Proof.
apply: (@dispatch2_spec +%R +%R); rewrite ?addr0 // => x y X u v.
by rewrite scalerDl addrACA.
Qed.

Theorem psub_spec o a b r :
  wfb a -> wfb b -> psub o a b = Ok r ->
  exists2 s, bshape (shape a) (shape b) = Some s &
    [/\ wfb r, shape r = s &
        forall i, (i < prodn s)%N ->
          absE n r i = absE n a (bidx (shape a) s i) - absE n b (bidx (shape b) s i)].
Proof.
apply: (@dispatch2_spec (fun x y => x - y) (fun x y => x - y)); rewrite ?subr0 // => x y X u v.
by rewrite scalerBl opprD addrACA.
Qed.

Theorem dispatch2_shape_error o f a b :
  bshape (shape a) (shape b) = None -> dispatch2 o f a b = Err ValueError.
Proof. by move=> bs; rewrite /dispatch2 /align_polys /align_shapes bshapes2 bs. Qed.

Theorem pneg_spec o a r :
  wfb a -> pneg o a = Ok r ->
  [/\ wfb r, shape r = shape a & forall i, absE n r i = - absE n a i].
Proof.
move=> wa cl; have [sra _ _ _ [csa npos _]] := wfbP wa.
have csz : all (fun c => size c == prodn (shape a)) [seq map -%R c | c <- cols a].
  by apply/allP => c /mapP[c' c'in ->]; rewrite size_map (allP csa).
split; first exact: (from_attributes_wf csz npos cl).
  by case: (from_attributes_absE n 0 cl).
move=> i; case: (from_attributes_absE n i cl) => -> _.
rewrite /absE /terms /absL.
elim: (rows a) (cols a) => [|r0 rs IH] [|c cs] /=; rewrite ?big_nil ?oppr0 //.
by rewrite !big_cons IH opprD /absT /= nth_map0 ?oppr0 // scaleNr.
Qed.

(* ---- multiplication --------------------------------------------------------------- *)
Lemma partition_sum (K T : eqType) (rs : seq K) (qs : seq T) (key : T -> K)
    (F : T -> {mpoly R[n]}) :
  uniq rs -> (forall q, q \in qs -> key q \in rs) ->
  \sum_(r <- rs) \sum_(q <- qs | key q == r) F q = \sum_(q <- qs) F q.
Proof.
move=> urs; elim: qs => [|q qs IH] sub.
  by rewrite big_nil big1 // => r _; rewrite big_nil.
rewrite big_cons -IH; last by move=> q' q'in; apply: sub; rewrite inE q'in orbT.
have kin : key q \in rs by apply: sub; exact: mem_head.
have -> : F q = \sum_(r <- rs) (if key q == r then F q else 0).
  rewrite (big_rem _ kin) /= eqxx big_seq big1 ?addr0 // => r.
  by rewrite mem_rem_uniq // inE eq_sym => /andP[/negbTE ->].
by rewrite -big_split /=; apply: eq_bigr => r _; rewrite big_cons; case: ifP; rewrite ?add0r.
Qed.

Lemma size_addcols m (cls : seq (seq R)) :
  all (fun c => size c == m) cls -> size (addcols m cls) = m.
Proof.
elim: cls => [|c cls IH] /=; first by rewrite size_nseq.
by move=> /andP[/eqP sc /IH sz]; rewrite size_zipw ?sc ?sz.
Qed.

Lemma nth_addcols m (cls : seq (seq R)) i :
  all (fun c => size c == m) cls -> nth 0 (addcols m cls) i = \sum_(c <- cls) nth 0 c i.
Proof.
elim: cls => [|c cls IH] /=; first by rewrite big_nil nth_zeros.
move=> /andP[/eqP sc al]; rewrite big_cons -IH // nth_zipw ?addr0 //.
by rewrite size_addcols.
Qed.

Lemma nth_eaddr r1 r2 k : size r1 = size r2 -> nth 0%N (eaddr r1 r2) k = (nth 0%N r1 k + nth 0%N r2 k)%N.
Proof.
move=> sz; case: (ltnP k (size r1)) => lt.
  by rewrite /eaddr (nth_map (0%N, 0%N)) ?size_zip -?sz ?minnn // nth_zip.
by rewrite !nth_default // -?sz // size_map size_zip -sz minnn.
Qed.

Lemma mon_eaddr ns r1 r2 : size r1 = size r2 -> mon n ns (eaddr r1 r2) = (mon n ns r1 + mon n ns r2)%MM.
Proof. by move=> sz; apply/mnmP => v; rewrite mnmDE !mnmE /expo nth_eaddr. Qed.

Lemma mul_pairs_colsize s a b : all (fun c => size c == prodn s) (unzip2 (mul_pairs s a b)).
Proof.
apply/allP => c /mapP[t /allpairsP[[ta tb] /= [_ _ ->]] ->] /=.
by rewrite size_map size_iota.
Qed.

Lemma absL_mul_pairs ns s a b i :
  (i < prodn s)%N ->
  all (fun r => size r == size ns) (rows a) -> all (fun r => size r == size ns) (rows b) ->
  absL n ns i (mul_pairs s a b)
  = absL n ns (bidx (shape a) s i) (terms a) * absL n ns (bidx (shape b) s i) (terms b).
Proof.
move=> lt wa wb; rewrite /absL /mul_pairs big_allpairs_dep /= big_distrlr /=.
rewrite big_seq [RHS]big_seq; apply: eq_bigr => ta /mem_zip[tain _].
rewrite big_seq [RHS]big_seq; apply: eq_bigr => tb /mem_zip[tbin _].
rewrite /absT /= (nth_map 0%N) ?size_iota // nth_iota // add0n.
rewrite mon_eaddr; last by rewrite (eqP (allP wa _ tain)) (eqP (allP wb _ tbin)).
by rewrite mpolyXD -scalerAl -scalerAr scalerA.
Qed.

Theorem pmul_spec o a b r :
  wfb a -> wfb b -> pmul o a b = Ok r ->
  exists2 s, bshape (shape a) (shape b) = Some s &
    [/\ wfb r, shape r = s &
        forall i, (i < prodn s)%N ->
          absE n r i = absE n a (bidx (shape a) s i) * absE n b (bidx (shape b) s i)].
Proof.
move=> wa wb; rewrite /pmul; case bs: (bshape _ _) => [s|] //.
set ns := union_names _; set a1 := align_names ns a; set b1 := align_names ns b.
set pairs := mul_pairs s a1 b1; set rs := sort _ _; set cs := map _ rs.
move=> cl; exists s => //.
have uns : uniq ns by apply: uniq_union_names.
have suba : {subset names a <= ns} by move=> v; apply: mem_union_names; rewrite !inE eqxx.
have subb : {subset names b <= ns} by move=> v; apply: mem_union_names; rewrite !inE eqxx orbT.
have wa1 : wfb a1 by apply: wfb_align_names.
have wb1 : wfb b1 by apply: wfb_align_names.
have [_ _ _ wida [_ npos _]] := wfbP wa1; have [_ _ _ widb _] := wfbP wb1.
move: wida widb npos; rewrite !names_align_names => wida widb npos.
have pcs := mul_pairs_colsize s a1 b1.
have csz : all (fun c => size c == prodn s) cs.
  apply/allP => c /mapP[r' _ ->]; rewrite size_addcols //.
  apply/allP => c' /mapP[q]; rewrite mem_filter => /andP[_ qin] ->.
  by apply: (allP pcs); apply: map_f.
split; first exact: (from_attributes_wf csz npos cl).
  by case: (from_attributes_absE n 0 cl).
move=> i lt; case: (from_attributes_absE n i cl) => -> _.
rewrite /cs absL_zip_map.
have -> : \sum_(r0 <- rs) absT n ns i (r0, addcols (prodn s) [seq q.2 | q <- pairs & q.1 == r0])
        = \sum_(r0 <- rs) \sum_(q <- pairs | q.1 == r0) absT n ns i q.
  apply: eq_bigr => r0 _; rewrite /absT /= nth_addcols; last first.
    apply/allP => c' /mapP[q]; rewrite mem_filter => /andP[_ qin] ->.
    by apply: (allP pcs); apply: map_f.
  rewrite big_map big_filter scaler_suml; apply: eq_bigr => q /eqP <-.
  by [].
rewrite partition_sum; first last.
- by move=> q qin; rewrite /rs mem_sort mem_undup; apply: map_f.
- by rewrite /rs sort_uniq undup_uniq.
rewrite -/(absL n ns i pairs) absL_mul_pairs //.
rewrite !shape_align_names.
have <- : names a1 = ns by apply: names_align_names.
rewrite -/(absE n a1 _) {1}/a1 absE_align_names //; last by case: (wfbP wa).
have -> : names a1 = names b1 by rewrite !names_align_names.
by rewrite -/(absE n b1 _) {1}/b1 absE_align_names //; case: (wfbP wb).
Qed.

Theorem pmul_shape_error o a b :
  bshape (shape a) (shape b) = None -> pmul o a b = Err ValueError.
Proof. by move=> bs; rewrite /pmul bs. Qed.

End Arith.
