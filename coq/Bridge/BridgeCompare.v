(* BridgeCompare.v — the comparison loops read from the current sources use the comparison the
   theorems assume, and their masks select exactly the terms at which the operands differ. *)
From mathcomp Require Import all_ssreflect all_algebra.
From NP Require Import Compare CompareP CompareTop GenCompare.

Lemma mask_okP (code : cmp_code) :
  [forall a : bool, forall b : bool, forall d : bool, (d ==> a || b) ==> (bexp_eval (cc_mask code) a b d == d)] ->
  mask_ok code.
Proof. by move=> /forallP h a b d /(implyP (forallP (forallP (h a) b) d)) /eqP. Qed.

Lemma bridge_greater : code_ok gen_greater false CGt.
Proof. by split=> //; apply: mask_okP; vm_compute; apply/forallP => -[]; apply/forallP => -[]; apply/forallP => -[]. Qed.
Lemma bridge_greater_equal : code_ok gen_greater_equal true CGt.
Proof. by split=> //; apply: mask_okP; vm_compute; apply/forallP => -[]; apply/forallP => -[]; apply/forallP => -[]. Qed.
Lemma bridge_less : code_ok gen_less false CLt.
Proof. by split=> //; apply: mask_okP; vm_compute; apply/forallP => -[]; apply/forallP => -[]; apply/forallP => -[]. Qed.
Lemma bridge_less_equal : code_ok gen_less_equal true CLt.
Proof. by split=> //; apply: mask_okP; vm_compute; apply/forallP => -[]; apply/forallP => -[]; apply/forallP => -[]. Qed.
Lemma bridge_maximum : select_ok gen_maximum CGt.
Proof. by split=> //; apply: mask_okP; vm_compute; apply/forallP => -[]; apply/forallP => -[]; apply/forallP => -[]. Qed.
Lemma bridge_minimum : select_ok gen_minimum CLt.
Proof. by split=> //; apply: mask_okP; vm_compute; apply/forallP => -[]; apply/forallP => -[]; apply/forallP => -[]. Qed.

Lemma bridge_equal_folds :
  [/\ gen_equal_fold_is_and, gen_equal_pred_is_equal,
      ~~ gen_not_equal_fold_is_and & ~~ gen_not_equal_pred_is_equal].
Proof. by vm_compute. Qed.
