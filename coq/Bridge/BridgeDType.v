(* BridgeDType.v — numpy's own tables (regenerated from the installed numpy on every run) are the
   functions of Model/DType.v, and the dtype choice read from construct/from_attributes.py is
   the one the model's from_attributes makes.  (C12) *)
From Coq Require Import ZArith List Bool.
From NP Require Import DType GenDType.
Import ListNotations.
Open Scope Z_scope.

(* numpy.result_type, all 196 ordered pairs, is the kind/width rule *)
Lemma bridge_promote a b : gen_promote a b = promote a b.
Proof. destruct a, b; reflexivity. Qed.

(* NEP 50: dtype of array <op> Python scalar *)
Lemma bridge_weak d k : gen_weak d k = promote_weak d k.
Proof. destruct d, k; reflexivity. Qed.

(* numpy.sum accumulates small integers in 64 bits *)
Lemma bridge_sum d : gen_sum_dtype d = sum_dtype d.
Proof. destruct d; reflexivity. Qed.

(* numpy's astype on boundary integers is the model's cast ... *)
Lemma bridge_cast_samples :
  forallb (fun s => value_eqb (cast (fst (fst s)) (VZ (snd (fst s)))) (snd s)) gen_cast_samples = true.
Proof. vm_compute. reflexivity. Qed.

(* ... and wherever numpy rounds, the model claims nothing *)
Lemma bridge_cast_inexact :
  forallb (fun s => value_eqb (cast (fst s) (VZ (snd s))) Inexact) gen_cast_inexact = true.
Proof. vm_compute. reflexivity. Qed.

(* where polynomial_from_attributes takes the dtype from *)
Lemma bridge_from_attributes_dtype :
  gen_fa_dtype_from_first = false /\
  (forall q nk s0 v0 rest, p_dtype (from_attributes q None nk ((s0, v0) :: rest)) = common_dtype s0 (map fst rest)) /\
  (forall q nk d coeffs, p_dtype (from_attributes q (Some d) nk coeffs) = d) /\
  (forall q nk, p_dtype (from_attributes q None nk []) = gen_fa_empty_default).
Proof.
split; [reflexivity|]. split; [reflexivity|]. split; [|reflexivity].
intros q nk d [|[s0 v0] rest]; reflexivity.
Qed.

(* the switch record read from the sources is one the model knows: each field a Boolean, and the
   all-false record is the repaired code the theorems of P_C12 are about *)
Lemma bridge_quirks_fixed_iff :
  gen_quirks = fixed <->
  (q_no_cast gen_quirks || q_kernel_only gen_quirks || q_mul_kernel_only gen_quirks || q_empty_unwritten gen_quirks
   || q_size0_scalar gen_quirks || q_bcast_int gen_quirks || q_strong_scalars gen_quirks) = false.
Proof. vm_compute. split; intros H; try reflexivity; try discriminate H. Qed.
