(* BridgeKey.v — the storage-key facts read from the current sources are the ones C20 needs. *)
From Coq Require Import NArith Lia.
From NP Require Import Key GenKey.
Open Scope N_scope.

(* never ':' (58) or NUL, and single-byte for small exponents *)
Lemma bridge_key_offset : 59 <= gen_offset /\ gen_offset < 128.
Proof. vm_compute; split; [discriminate|reflexivity]. Qed.

(* the compiled byte-key kernel is only used when every key byte is below 128 *)
Lemma bridge_mul_guard : gen_guard_kind = 1 /\ gen_guard_bound <= 128.
Proof. vm_compute; split; [reflexivity|discriminate]. Qed.
