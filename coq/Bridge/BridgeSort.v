(* BridgeSort.v — glexsort.py uses a stable argsort for the degree pass (so that the two-pass
   sort is the stable sort for the graded order), and _glexindex keeps the tuples inside the
   upper ball and outside the lower one. *)
From mathcomp Require Import all_ssreflect.
From NP Require Import GenSort.

Lemma bridge_argsort_stable : gen_argsort_stable = true.
Proof. by vm_compute. Qed.

Lemma bridge_between : gen_between = 1.
Proof. by vm_compute. Qed.
