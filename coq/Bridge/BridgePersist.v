(* BridgePersist.v — the persistence facts read from the current sources (baseclass.py __reduce__,
   savetxt.py HEADER_TEMPLATE, loadtxt.py HEADER_REGEX / separators / marker, the interpreter's \s)
   are the ones the model Persist.v and the theorems of P_C13 assume. *)
From Coq Require Import NArith List Bool String.
From NP Require Import Key Persist GenPersist.
Open Scope N_scope.

(* the template savetxt fills is the modelled one *)
Lemma bridge_template : gen_template = hdr_template.
Proof. vm_compute; reflexivity. Qed.

(* the regex of loadtxt is the template with the modelled atoms; the shape group is (\S+) or (\S* )
   according to the star switch read from the source *)
Lemma bridge_regex : gen_regex = hdr_regex (fx_star gen_tfix).
Proof. vm_compute; reflexivity. Qed.

(* every literal that follows a \S group starts with a space: greedy matching with backtracking can
   only succeed with the maximal run, which is what [rmatch] takes *)
Fixpoint lits_after_groups_spaced (after_group : bool) (r : list ritem) : bool :=
  match r with
  | nil => true
  | RLit (c :: _) :: r' => (if after_group then is_space c else true) && lits_after_groups_spaced false r'
  | RLit nil :: r' => negb after_group && lits_after_groups_spaced false r'
  | RNs _ _ :: r' => negb after_group && lits_after_groups_spaced true r'
  end.
Lemma bridge_regex_deterministic : lits_after_groups_spaced false gen_regex = true.
Proof. vm_compute; reflexivity. Qed.

(* join and split use the same one-character separator, the modelled comma; the marker tested with
   startswith is the template's first literal *)
Lemma bridge_separators : gen_join_sep = comma /\ gen_split_sep = comma.
Proof. split; vm_compute; reflexivity. Qed.

Lemma bridge_marker : gen_marker = lit "numpoly:" /\ hd_error gen_template = Some (TLit gen_marker).
Proof. split; vm_compute; reflexivity. Qed.

(* \s of the running interpreter is the modelled table *)
Lemma bridge_space_table : gen_space_table = space_table.
Proof. vm_compute; reflexivity. Qed.

(* the __reduce__ flags are the shipped ones (clean coefficients, names by the global option) or the
   exact ones (retain both) — the two settings the theorems describe *)
Lemma bridge_reduce_flags : gen_reduce_flags = shipped_flags \/ gen_reduce_flags = exact_flags.
Proof. first [left; vm_compute; reflexivity | right; vm_compute; reflexivity]. Qed.
