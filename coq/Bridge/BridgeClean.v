(* BridgeClean.v — clean.py / align.py as read from the current sources are what the models of
   Poly.v assume (C03, C04, C15). *)
From mathcomp Require Import all_ssreflect.
From NP Require Import GenClean.

(* keep a term iff it has a non-zero coefficient or is the constant term *)
Lemma bridge_keep_term : forall a b : bool, kexp_eval gen_keep a b = a || ~~ b.
Proof. by case; case; vm_compute. Qed.

Lemma bridge_clean_structure :
  [/\ gen_fallback_zero_constant, gen_names_rule, gen_steps_in_order & gen_retain_defaults_from_options].
Proof. by vm_compute. Qed.

Lemma bridge_align_structure :
  [/\ gen_name_sort_numeric, gen_align_indeterminants_retains, gen_align_exponents_retains,
      gen_align_exponents_unique_rows & gen_align_shape_broadcasts].
Proof. by vm_compute. Qed.
