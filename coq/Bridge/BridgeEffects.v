(* BridgeEffects.v — the effect programs regenerated from the current /repo/numpoly (Gen/GenEffects.v)
   pass the checker of Model/Effects.v: every body is consistent with the inferred table of
   summaries, and the functions whose summary writes a parameter that is not a declared output
   target are exactly the expected ones (none on a clean tree). *)
From Coq Require Import List.
From NP Require Import Effects GenEffects.
Import ListNotations.

(* summary inference is not trusted: its result is checked below *)
Definition gen_summaries : summaries := Eval vm_compute in infer0 30 gen_table.

Lemma bridge_table_ok : table_ok gen_table gen_summaries = true.
Proof. vm_compute. reflexivity. Qed.

Lemma bridge_unsafe_funs : unsafe_funs gen_table gen_summaries = gen_expected_unsafe.
Proof. vm_compute. reflexivity. Qed.

(* the accepted functions: all of them but the expected rejections *)
Definition accepted (f : fname) : bool := negb (mem f gen_expected_unsafe).

Lemma all_safe :
  forallb (fun f => match nth_error gen_table f, nth_error gen_summaries f with
                    | Some fd, Some sm => safe gen_summaries fd sm
                    | _, _ => false
                    end)
          (filter accepted (seq 0 (length gen_table))) = true.
Proof. vm_compute. reflexivity. Qed.
