(* BridgeDispatch.v — the dispatch control flow of baseclass.py is the one C08 assumes. *)
From mathcomp Require Import all_ssreflect.
From NP Require Import Dispatch GenDispatch.

Lemma bridge_dcode : gen_dcode = good_dcode.
Proof. by vm_compute. Qed.
