(* BridgeShow.v — the facts read from the current numpoly/array_function/array_repr.py and
   array_str.py (Gen/GenShow.v, regenerated on every run) are the ones Model/Show.v hard-wires:
   display_graded / display_reverse feed glexsort's graded / reverse, display_inverse reverses the
   index list, zero coefficients are skipped, 1 and -1 are elided exactly in front of a
   non-constant monomial, the multiplication sign is written unless the text so far is "" or "-",
   the exponent is written iff it exceeds 1, the empty output falls back to the zero of the dtype.
   The rule that decides about "+" (gen_plus_rule) is one of the two the model implements; the
   theorems of Props/P_C16.v hold for both over ordered coefficients, and for PlusByText over
   complex ones. *)
From mathcomp Require Import all_ssreflect.
From NP Require Import Show GenShow.

Lemma bridge_show_code : gen_show_code = good_show_code.
Proof. by vm_compute. Qed.

Lemma bridge_plus_rule : gen_plus_rule = PlusByValue \/ gen_plus_rule = PlusByText.
Proof. by vm_compute; (left + right). Qed.
