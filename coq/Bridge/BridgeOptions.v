(* BridgeOptions.v — the facts extracted from the current numpoly/option.py (Gen/GenOptions.v,
   regenerated on every run) are the ones the C14 theorems assume. *)
From mathcomp Require Import all_ssreflect.
From NP Require Import Options GenOptions.

Lemma bridge_option_code : gen_code = good_code.
Proof. by vm_compute. Qed.

Lemma bridge_option_defaults :
  [/\ uniq (unzip1 gen_defaults), size gen_defaults = gen_nkeys & (0 < gen_nkeys)].
Proof. by vm_compute. Qed.
