(* P_C04 — Alignment changes representation only. *)
From mathcomp Require Import all_ssreflect all_algebra.
From SsrMultinomials Require Import mpoly.
From NP Require Import Base Poly Order Abs Clean Shape Align AlignIdem OrderP GenClean BridgeClean.
From NP Require Import GenSource BridgeSrcC04.
Set Implicit Arguments. Unset Strict Implicit. Unset Printing Implicit Defensive.
Import GRing.Theory.
Local Open Scope ring_scope.

Section C04.
Variable (n : nat) (R : comRingType).
Implicit Types (p q : parr R) (ps : seq (parr R)) (o : opts).

Theorem C04_model_applies :
  [/\ gen_name_sort_numeric, gen_align_indeterminants_retains, gen_align_exponents_retains,
      gen_align_exponents_unique_rows & gen_align_shape_broadcasts].
Proof. exact: bridge_align_structure. Qed.

(* align_shape: broadcast value, target shape, well-formed *)
Theorem C04_align_shape o s p q :
  wfb p -> align_shape1 o s p = Ok q ->
  [/\ wfb q, shape q = s & forall i, (i < prodn s)%N -> absE n q i = absE n p (bidx (shape p) s i)].
Proof. exact: align_shape1P. Qed.

(* align_indeterminants: same value, the common name tuple is the sorted union *)
Theorem C04_align_indeterminants ns' p i :
  {subset names p <= ns'} -> all (fun r => size r == size (names p)) (rows p) ->
  absE n (align_names ns' p) i = absE n p i /\ names (align_names ns' p) = ns'.
Proof. by move=> sub wid; split; [exact: absE_align_names | exact: names_align_names]. Qed.

Theorem C04_union_names_sorted nss : sorted leq (union_names nss) /\ uniq (union_names nss).
Proof. by split; [apply: sort_sorted; apply: leq_total | apply: uniq_union_names]. Qed.

(* align_exponents / align_polynomials on any number of operands, in argument order:
   element k of the result denotes element k of the input and all results share names and rows *)
Theorem C04_align_exponents ps :
  align_expons ps = [seq align_rows (grows ps) (anames ps p) | p <- ps].
Proof. exact: align_exponsE. Qed.

Theorem C04_align_exponents_elem ps p :
  all (@wfb R) ps -> p \in ps ->
  let q := align_rows (grows ps) (anames ps p) in
  [/\ wfb q, names q = cnames ps, rows q = grows ps, shape q = shape p &
      forall i, absE n q i = absE n p i].
Proof. exact: align_expons_elem. Qed.

Theorem C04_common_rows_sorted_unique ps : sorted lexleq (grows ps) /\ uniq (grows ps).
Proof. by split; [exact: grows_sorted | exact: grows_uniq]. Qed.

(* aligning already aligned arguments changes nothing *)
Theorem C04_idempotent ps :
  all (@wfb R) ps -> (0 < size ps)%N -> align_expons (align_expons ps) = align_expons ps.
Proof. exact: (align_expons_idem n). Qed.

Theorem C04_idempotent_names ns p : align_names ns (align_names ns p) = align_names ns p.
Proof. exact: align_names_idem. Qed.

Theorem C04_idempotent_shape o s p : shape p = s -> align_shape1 o s p = Ok p.
Proof. exact: align_shape1_idem. Qed.

End C04.

(* the aligners of /repo's align.py are still, statement by statement, the modelled ones *)
Theorem C04_sources_are_the_modelled_ones :
  all (all id) [:: gen_src_align_polynomials; gen_src_align_shape; gen_src_align_indeterminants; gen_src_align_exponents] /\
  [seq size f | f <- [:: gen_src_align_polynomials; gen_src_align_shape; gen_src_align_indeterminants; gen_src_align_exponents]]
  = [:: 3; 4; 7; 6]%N.
Proof. exact: bridge_src_C04. Qed.

Print Assumptions C04_model_applies.
Print Assumptions C04_align_shape.
Print Assumptions C04_align_indeterminants.
Print Assumptions C04_union_names_sorted.
Print Assumptions C04_align_exponents.
Print Assumptions C04_align_exponents_elem.
Print Assumptions C04_common_rows_sorted_unique.
Print Assumptions C04_idempotent.
Print Assumptions C04_idempotent_names.
Print Assumptions C04_idempotent_shape.
Print Assumptions C04_sources_are_the_modelled_ones.
