(* P_C02 — Evaluation and substitution compute the polynomial's value. *)
From mathcomp Require Import all_ssreflect all_algebra.
From SsrMultinomials Require Import mpoly.
From NP Require Import Base Poly Query Eval Abs Align EvalP.
Set Implicit Arguments. Unset Strict Implicit. Unset Printing Implicit Defensive.
Import GRing.Theory.
Local Open Scope ring_scope.

Section C02.
Variable (n : nat) (R : comRingType).
Implicit Types (p : parr R) (bound : seq (carg R)).

(* all indeterminates supplied with numbers / arrays: a plain array of shape
   poly.shape + broadcast(argument shapes) whose element (i, j) is SsrMultinomials' evaluation
   of element i at the j-th broadcast point *)
Theorem C02_numeric_evaluation p bound s :
  wfb p -> all (fun v => v < n)%N (names p) -> size bound = size (names p) ->
  bshapes [seq arg_shape a | a <- bound] = Some s ->
  exists2 vals, call_numeric p bound = Ok (shape p ++ s, vals) &
    forall i j, (i < psize p)%N -> (j < prodn s)%N ->
      nth 0 vals (i * prodn s + j) = (absE n p i).@[@point n R (names p) bound s j].
Proof. exact: call_numeric_spec. Qed.

Theorem C02_argument_shapes_must_broadcast p bound :
  bshapes [seq arg_shape a | a <- bound] = None -> call_numeric p bound = Err ValueError.
Proof. by rewrite /call_numeric => ->. Qed.

Theorem C02_unknown_name ns args (kwargs : seq (nat * carg R)) :
  has (fun k => k \notin ns) (unzip1 kwargs) -> bind ns args kwargs = Err TypeError.
Proof. exact: bind_unknown. Qed.

Theorem C02_doubly_supplied ns args (kwargs : seq (nat * carg R)) k :
  (k < size args)%N -> (k < size ns)%N -> nth 0%N ns k \in unzip1 kwargs ->
  bind ns args kwargs = Err TypeError.
Proof. exact: bind_double. Qed.

Theorem C02_otherwise_binds ns args (kwargs : seq (nat * carg R)) :
  ~~ has (fun an : option (carg R) * nat => an.2 \in unzip1 kwargs) (zip args ns) ->
  ~~ has (fun k => k \notin ns) (unzip1 kwargs) ->
  exists b, bind ns args kwargs = Ok b /\ size b = size ns.
Proof. exact: bind_ok. Qed.

End C02.

Print Assumptions C02_numeric_evaluation.
Print Assumptions C02_argument_shapes_must_broadcast.
Print Assumptions C02_unknown_name.
Print Assumptions C02_doubly_supplied.
Print Assumptions C02_otherwise_binds.
