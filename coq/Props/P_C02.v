(* P_C02 — Evaluation and substitution compute the polynomial's value. *)
From mathcomp Require Import all_ssreflect all_algebra.
From SsrMultinomials Require Import mpoly.
From NP Require Import Base Poly Query Eval Abs Align EvalP SubstP.
From NP Require Import GenSource BridgeSrcC02.
Set Implicit Arguments. Unset Strict Implicit. Unset Printing Implicit Defensive.
Import GRing.Theory.
Local Open Scope ring_scope.

Section C02.
Variable (n : nat) (R : comRingType).
Implicit Types (p : parr R) (bound : seq (carg R)).

(* all indeterminates supplied with numbers / arrays: a plain array of shape
   poly.shape + broadcast(argument shapes) whose element (i, j) is SsrMultinomials' evaluation
   of element i at the j-th broadcast point *)
Theorem C02_numeric_evaluation p bound s :
  wfb p -> all (fun v => v < n)%N (names p) -> size bound = size (names p) ->
  bshapes [seq arg_shape a | a <- bound] = Some s ->
  exists2 vals, call_numeric p bound = Ok (shape p ++ s, vals) &
    forall i j, (i < psize p)%N -> (j < prodn s)%N ->
      nth 0 vals (i * prodn s + j) = (absE n p i).@[@point n R (names p) bound s j].
Proof. exact: call_numeric_spec. Qed.

Theorem C02_argument_shapes_must_broadcast p bound :
  bshapes [seq arg_shape a | a <- bound] = None -> call_numeric p bound = Err ValueError.
Proof. by rewrite /call_numeric => ->. Qed.

Theorem C02_unknown_name ns args (kwargs : seq (nat * carg R)) :
  has (fun k => k \notin ns) (unzip1 kwargs) -> bind ns args kwargs = Err TypeError.
Proof. exact: bind_unknown. Qed.

Theorem C02_doubly_supplied ns args (kwargs : seq (nat * carg R)) k :
  (k < size args)%N -> (k < size ns)%N -> nth 0%N ns k \in unzip1 kwargs ->
  bind ns args kwargs = Err TypeError.
Proof. exact: bind_double. Qed.

Theorem C02_otherwise_binds ns args (kwargs : seq (nat * carg R)) :
  ~~ has (fun an : option (carg R) * nat => an.2 \in unzip1 kwargs) (zip args ns) ->
  ~~ has (fun k => k \notin ns) (unzip1 kwargs) ->
  exists b, bind ns args kwargs = Ok b /\ size b = size ns.
Proof. exact: bind_ok. Qed.


(* ---- partial application and polynomial arguments: substitution --------------------------------------- *)
(* Every argument may be a number / array, a polynomial array, or missing (the indeterminate stays).
   The result has shape poly.shape + broadcast(argument shapes); its element (i, j) is the sum over the
   terms of coefficient_i times the product of the argument elements (at broadcast position j) raised
   to the exponents — i.e. SsrMultinomials' composition of element i with the arguments. *)
Theorem C02_substitution o p (bound : seq (option (carg R))) r :
  wfb p -> all (fun v => v < n)%N (names p) -> size bound = size (names p) -> all (@okarg R) bound ->
  call_poly o p bound = Ok r ->
  let params := [seq as_poly va.1 va.2 | va <- zip (names p) bound] in
  exists2 s, bshapes [seq shape q | q <- params] = Some s &
    (0 < prodn s)%N ->
    [/\ wfb r, shape r = shape p ++ s &
        forall i j, (i < psize p)%N -> (j < prodn s)%N ->
          absE n r (i * prodn s + j) = (absE n p i) \mPo (sub_tuple n (names p) params s j)].
Proof. exact: call_poly_comp. Qed.

Theorem C02_substitution_terms o p (bound : seq (option (carg R))) r :
  wfb p -> size bound = size (names p) -> all (@okarg R) bound ->
  call_poly o p bound = Ok r ->
  let params := [seq as_poly va.1 va.2 | va <- zip (names p) bound] in
  exists2 s, bshapes [seq shape q | q <- params] = Some s &
    (0 < prodn s)%N ->
    [/\ wfb r, shape r = shape p ++ s &
        forall i j, (i < psize p)%N -> (j < prodn s)%N ->
          absE n r (i * prodn s + j)
          = \sum_(t <- terms p) nth 0 t.2 i *:
              \prod_(ep <- zip t.1 params) absE n ep.2 (bidx (shape ep.2) s j) ^+ ep.1].
Proof. exact: call_poly_spec. Qed.

(* evaluating in stages, or through a substituted polynomial, gives the values of evaluating at once *)
Theorem C02_staged_evaluation o p (bound : seq (option (carg R))) r (nu : 'I_n -> R) :
  wfb p -> all (fun v => v < n)%N (names p) -> size bound = size (names p) -> all (@okarg R) bound ->
  call_poly o p bound = Ok r ->
  let params := [seq as_poly va.1 va.2 | va <- zip (names p) bound] in
  exists2 s, bshapes [seq shape q | q <- params] = Some s &
    (0 < prodn s)%N ->
    forall i j, (i < psize p)%N -> (j < prodn s)%N ->
      (absE n r (i * prodn s + j)).@[nu]
      = (absE n p i).@[fun v => (sub_at n (names p) params s j v).@[nu]].
Proof. exact: call_staged. Qed.

(* an in-range index of the broadcast shape maps to an in-range index of each operand *)
Theorem C02_broadcast_index_in_range a t j : bshape a t = Some t -> (j < prodn t)%N -> (bidx a t j < prodn a)%N.
Proof. exact: bidx_lt. Qed.
End C02.

(* the /repo functions this model was written from are still, statement by statement, the modelled ones *)
Theorem C02_sources_are_the_modelled_ones :
  all (all id) [:: gen_src_call] /\ [seq size f | f <- [:: gen_src_call]] = [:: 14]%N.
Proof. exact: bridge_src_C02. Qed.

Print Assumptions C02_numeric_evaluation.
Print Assumptions C02_argument_shapes_must_broadcast.
Print Assumptions C02_unknown_name.
Print Assumptions C02_doubly_supplied.
Print Assumptions C02_otherwise_binds.
Print Assumptions C02_substitution.
Print Assumptions C02_substitution_terms.
Print Assumptions C02_staged_evaluation.
Print Assumptions C02_broadcast_index_in_range.
Print Assumptions C02_sources_are_the_modelled_ones.
