(* P_C18 — Exponent index generation and sorting are exact and platform-independent. *)
From mathcomp Require Import all_ssreflect all_algebra.
From SsrMultinomials Require Import mpoly.
From NP Require Import Base Poly Abs Order OrderP MonomialP GenSort BridgeSort.
From NP Require Import GridComplete.
Set Implicit Arguments. Unset Strict Implicit. Unset Printing Implicit Defensive.

(* the model's glexsort is the library's only if the degree pass is stable: read from the source *)
Definition lib_sort_is_model : Prop := gen_argsort_stable = true /\ gen_between = 1.
Theorem C18_model_applies : lib_sort_is_model.
Proof. by split; [exact: bridge_argsort_stable | exact: bridge_between]. Qed.

Theorem C18_glexsort_perm g r cols : perm_eq (glexsort g r cols) (iota 0 (size cols)).
Proof. exact: glexsort_perm. Qed.

Theorem C18_glexsort_sorted g r cols :
  sorted (fun i j => mleq g r (nth [::] cols i) (nth [::] cols j)) (glexsort g r cols).
Proof. exact: glexsort_sorted. Qed.

Theorem C18_glexsort_unique g r cols (s : seq nat) :
  uniq cols -> all (fun c => size c == size (head [::] cols)) cols ->
  perm_eq s (iota 0 (size cols)) ->
  sorted (fun i j => mleq g r (nth [::] cols i) (nth [::] cols j)) s ->
  s = glexsort g r cols.
Proof. exact: glexsort_unique. Qed.

Theorem C18_order_is_total g r :
  [/\ total (mleq g r), transitive (mleq g r), reflexive (mleq g r) &
      forall a b, size a = size b -> mleq g r a b -> mleq g r b a -> a = b].
Proof. split; [exact: mleq_total|exact: mleq_trans|exact: mleq_refl|exact: mleq_anti]. Qed.

Theorem C18_glexindex_no_duplicates nm0 nm1 start stop g r :
  uniq (glexindex nm0 nm1 start stop g r).
Proof. exact: glexindex_uniq. Qed.

Theorem C18_glexindex_sorted nm0 nm1 start stop g r :
  sorted (mleq g r) (glexindex nm0 nm1 start stop g r).
Proof. exact: glexindex_sorted. Qed.

Theorem C18_glexindex_members nm0 nm1 start stop g r t :
  t \in glexindex nm0 nm1 start stop g r ->
  [/\ size t = size start, all (fun x => x < maxs stop) t &
      if size start == 1 then (nth 0 start 0 <= nth 0 t 0) && (nth 0 t 0 < maxs stop)
      else cross_truncate nm1 t stop && ~~ cross_truncate nm0 t start].
Proof.
rewrite (perm_mem (glexindex_perm nm0 nm1 start stop g r)) => tin.
have [sz al] := glexindex_raw_box tin.
by split=> //; apply: glexindex_raw_test.
Qed.

(* COMPLETENESS (integer norms 0, p >= 1, inf): every tuple of the right length inside the box [0, max stop) that passes
   the final test is generated - the truncation applied after each dimension of the step-wise construction never
   removes a suffix of such a tuple.  With C18_glexindex_members: glexindex returns EXACTLY these tuples. *)
Theorem C18_glexindex_complete nm0 nm1 start stop g r t :
  (if nm1 is NP p then 0 < p else true) ->
  size start = size stop -> size t = size start -> all (fun x => x < maxs stop) t ->
  (if size start == 1 then (nth 0 start 0 <= nth 0 t 0) && (nth 0 t 0 < maxs stop)
   else cross_truncate nm1 t stop && ~~ cross_truncate nm0 t start) ->
  t \in glexindex nm0 nm1 start stop g r.
Proof.
move=> pp ss st al test; rewrite (perm_mem (glexindex_perm nm0 nm1 start stop g r)).
exact: glexindex_raw_complete.
Qed.

Theorem C18_glexindex_exactly nm0 nm1 start stop g r t :
  (if nm1 is NP p then 0 < p else true) -> size start = size stop ->
  (t \in glexindex nm0 nm1 start stop g r) =
  [&& size t == size start, all (fun x => x < maxs stop) t &
      if size start == 1 then (nth 0 start 0 <= nth 0 t 0) && (nth 0 t 0 < maxs stop)
      else cross_truncate nm1 t stop && ~~ cross_truncate nm0 t start].
Proof.
move=> pp ss; apply/idP/and3P => [tin|[/eqP st al test]]; last exact: C18_glexindex_complete.
by have [-> -> ->] := C18_glexindex_members tin.
Qed.

Theorem C18_bindex nm0 nm1 start stop hasG hasR hasI :
  bindex nm0 nm1 start stop hasG hasR hasI =
  (if hasI then rev else id) (glexindex nm0 nm1 start stop hasG (~~ hasR)).
Proof. exact: bindex_spec. Qed.

Theorem C18_monomial (n : nat) (R : comRingType) ns ix i :
  i < size ix -> absE n (@pmonomial R ns ix) i = 'X_[mon n ns (nth [::] ix i)].
Proof. exact: pmonomial_spec. Qed.

Example C18_nonvacuous :
  glexsort true false [:: [:: 2; 0]; [:: 0; 1]; [:: 1; 1]; [:: 0; 0]] = [:: 3; 1; 0; 2] /\
  glexindex (NP 1) (NP 1) [:: 0; 0] [:: 3; 3] true false
    = [:: [:: 0; 0]; [:: 1; 0]; [:: 0; 1]; [:: 2; 0]; [:: 1; 1]; [:: 0; 2]].
Proof. by vm_compute. Qed.

Print Assumptions C18_model_applies.
Print Assumptions C18_glexsort_perm.
Print Assumptions C18_glexsort_sorted.
Print Assumptions C18_glexsort_unique.
Print Assumptions C18_order_is_total.
Print Assumptions C18_glexindex_no_duplicates.
Print Assumptions C18_glexindex_sorted.
Print Assumptions C18_glexindex_members.
Print Assumptions C18_bindex.
Print Assumptions C18_monomial.
Print Assumptions C18_glexindex_complete.
Print Assumptions C18_glexindex_exactly.
