(* P_C12 — Coefficient values survive every dtype; no uninitialised memory is returned. *)
From Coq Require Import ZArith List Bool Lia.
From NP Require Import DType DTypeP.
Import ListNotations.
Open Scope Z_scope.

(* ---- numpy's promotion ---------------------------------------------------------------------- *)
Theorem C12_promote_comm a b : promote a b = promote b a.
Proof. exact (promote_comm a b). Qed.

Theorem C12_promote_idem a : promote a a = a.
Proof. exact (promote_idem a). Qed.

Theorem C12_promote_absorbs a b :
  promote a (promote a b) = promote a b /\ promote (promote a b) b = promote a b.
Proof. split; [exact (promote_absorb_l a b) | exact (promote_absorb_r a b)]. Qed.

(* associative unless a signed integer, an unsigned integer and a float/complex dtype meet *)
Theorem C12_promote_assoc_partial a b c :
  assoc_safe a b c = true -> promote (promote a b) c = promote a (promote b c).
Proof. exact (promote_assoc a b c). Qed.

(* ... and numpy really is not associative there: 28 of the 2744 ordered triples *)
Theorem C12_promote_assoc_refuted :
  length (filter assoc_fails triples) = 28%nat /\
  promote (promote I8 U8) F16 = F32 /\ promote I8 (promote U8 F16) = F16.
Proof. exact promote_assoc_failures. Qed.

(* NEP 50: next to a Python scalar the array's dtype wins; the scalar's own dtype never shows *)
Theorem C12_promote_weak d k : promote d (promote_weak d k) = promote_weak d k.
Proof. exact (promote_weak_absorb d k). Qed.

(* both arguments cast into the result without loss (except 64-bit integers sent to float64) *)
Theorem C12_cast_lossless_partial d1 d2 v :
  representable d1 v = true -> lossless_ok d1 d2 = true ->
  representable (promote d1 d2) (cast (promote d1 d2) v) = true /\
  same_number (cast (promote d1 d2) v) v = true.
Proof. exact (cast_lossless d1 d2 v). Qed.

Theorem C12_cast_lossless_refuted :
  representable I64 (VZ (2 ^ 53 + 1)) = true /\ promote I64 U64 = F64 /\
  cast (promote I64 U64) (VZ (2 ^ 53 + 1)) = Inexact.
Proof. exact cast_lossless_fails. Qed.

(* ---- casts -------------------------------------------------------------------------------- *)
Theorem C12_cast_id d v : representable d v = true -> cast d v = v.
Proof. exact (cast_id d v). Qed.

Theorem C12_cast_idem d v : cast d (cast d v) = cast d v.
Proof. exact (cast_idem d v). Qed.

(* integer casts: the unique value of the range congruent to the source modulo 2^width *)
Theorem C12_cast_wrap_spec d z :
  is_intkind d = true ->
  exists r, cast d (VZ z) = VZ r /\ int_lo d <= r < int_hi d /\ (r - z) mod 2 ^ width d = 0 /\
            forall r', int_lo d <= r' < int_hi d -> (r' - z) mod 2 ^ width d = 0 -> r' = r.
Proof. exact (cast_wrap_spec d z). Qed.

Theorem C12_cast_result_representable d v :
  match cast d v with Inexact | Garbage => True | w => representable d w = true end.
Proof. exact (cast_representable d v). Qed.

(* ---- arithmetic in the promoted dtype --------------------------------------------------------- *)
(* integers, ALL operands: exact result wrapped into the dtype *)
Theorem C12_arith_wraps op d x y :
  is_intkind d = true -> arith op d (VZ x) (VZ y) = Some (VZ (wrap d (zop op x y))).
Proof. exact (arith_int op d x y). Qed.

(* exact whenever the exact result is a value of the dtype *)
Theorem C12_arith_exact op d x y :
  is_intkind d = true -> int_lo d <= zop op x y < int_hi d ->
  arith op d (VZ x) (VZ y) = Some (VZ (zop op x y)).
Proof. exact (arith_exact op d x y). Qed.

Theorem C12_arith_float_exact op d x y :
  kind_of d = KFloat -> fexact d x = true -> fexact d y = true ->
  arith op d (VZ x) (VZ y) = Some (if fexact d (zop op x y) then VZ (zop op x y) else Inexact).
Proof. exact (arith_float op d x y). Qed.

Theorem C12_arith_complex_addsub op d a b c e :
  kind_of d = KComplex -> op <> Mul ->
  fexact d a = true -> fexact d b = true -> fexact d c = true -> fexact d e = true ->
  arith op d (VC a b) (VC c e)
  = Some (match op with
          | Add => if fexact d (a + c) && fexact d (b + e) then VC (a + c) (b + e) else Inexact
          | _ => if fexact d (a - c) && fexact d (b - e) then VC (a - c) (b - e) else Inexact
          end).
Proof. exact (arith_complex_addsub op d a b c e). Qed.

Theorem C12_arith_complex_mul d a b c e :
  kind_of d = KComplex ->
  fexact d a = true -> fexact d b = true -> fexact d c = true -> fexact d e = true ->
  fexact d (a * c) = true -> fexact d (b * e) = true -> fexact d (a * e) = true -> fexact d (b * c) = true ->
  arith Mul d (VC a b) (VC c e)
  = Some (if fexact d (a * c - b * e) && fexact d (a * e + b * c) then VC (a * c - b * e) (a * e + b * c) else Inexact).
Proof. exact (arith_complex_mul d a b c e). Qed.

Theorem C12_arith_bool x y :
  arith Add B8 (VZ x) (VZ y) = Some (VZ (if (x =? 0) && (y =? 0) then 0 else 1)) /\
  arith Mul B8 (VZ x) (VZ y) = Some (VZ (if (x =? 0) || (y =? 0) then 0 else 1)) /\
  arith Sub B8 (VZ x) (VZ y) = None.
Proof. exact (arith_bool x y). Qed.

(* ---- no unwritten cell, whatever goes in ------------------------------------------------------ *)
Theorem C12_no_unwritten :
  (forall darg nk coeffs, all_val (from_attributes fixed darg nk coeffs)) /\
  (forall s darg cols, all_val (construct fixed s darg cols)) /\
  (forall darg p, all_val (rebuild fixed darg p)) /\
  (forall p, all_val (clean fixed p)) /\
  (forall p, all_val (realign fixed p)) /\
  (forall d p, all_val (astype fixed d p)) /\
  (forall via ix p, all_val (reindex fixed via ix p)) /\
  (forall op b1 b2 p1 p2 r, dispatch2 fixed op b1 b2 p1 p2 = Some r -> all_val r) /\
  (forall sel p1 p2, all_val (select2 fixed sel p1 p2)) /\
  (forall n keys p1 p2, all_val (multiply fixed n keys p1 p2)) /\
  (forall n e p, all_val (power1 fixed n e p)) /\
  (forall groups p, all_val (sum_groups fixed groups p)) /\
  (forall re p d cols, all_val (derived fixed re p d cols)).
Proof. exact no_unwritten. Qed.

(* ---- the values: numpy's cast of the source, in the dtype the property names ---------------- *)
Theorem C12_from_attributes_values darg nk s0 v0 rest :
  let d := arg_dtype darg (common_dtype s0 (map fst rest)) in      (* the dtype argument, else numpy.result_type of all *)
  from_attributes fixed darg nk ((s0, v0) :: rest)
  = mkP d (map (fun sv => map (fun v => Val d (cast d v)) (snd sv)) ((s0, v0) :: rest)) false.
Proof. exact (from_attributes_fixed darg nk s0 v0 rest). Qed.

(* empty coefficient list: zeros, one per exponent row *)
Theorem C12_empty_is_zero darg nk :
  from_attributes fixed darg nk []
  = mkP (arg_dtype darg I64) (repeat [Val (arg_dtype darg I64) (zero (arg_dtype darg I64))] nk) false.
Proof. exact (from_attributes_empty_fixed darg nk). Qed.

Theorem C12_construct_values s darg cols :
  cols <> [] ->
  construct fixed s darg cols
  = mkP (arg_dtype darg s) (map (map (fun v => Val (arg_dtype darg s) (cast (arg_dtype darg s) (cast s v)))) cols) false.
Proof. exact (construct_fixed s darg cols). Qed.

Theorem C12_rebuild_values darg s cols :
  cols <> [] ->
  rebuild fixed darg (good s cols)
  = mkP (arg_dtype darg s) (map (map (fun v => Val (arg_dtype darg s) (cast (arg_dtype darg s) (cast s v)))) cols) false.
Proof. exact (rebuild_fixed darg s cols). Qed.

Theorem C12_astype_values d s cols :
  cols <> [] ->
  astype fixed d (good s cols) = mkP d (map (map (fun v => Val d (cast d (cast s v)))) cols) false.
Proof. exact (astype_fixed d s cols). Qed.

Theorem C12_reindex_values via ix s cols :
  cols <> [] ->
  reindex fixed via ix (good s cols)
  = mkP s (map (fun c => map (fun i => Val s (cast s (nth i (map (cast s) c) Garbage))) ix) cols) false.
Proof. exact (reindex_fixed via ix s cols). Qed.

(* + and - : numpy's arithmetic in numpy's promoted dtype, cell by cell *)
Theorem C12_addsub_values op d1 d2 cs1 cs2 :
  cs1 <> [] -> cs2 <> [] ->
  dispatch2 fixed op false false (good d1 cs1) (good d2 cs2)
  = if refuses op (promote d1 d2) then None
    else Some (mkP (promote d1 d2)
                 (map2 (map2 (fun x y => Val (promote d1 d2) (arith_v op (promote d1 d2) (cast d1 x) (cast d2 y)))) cs1 cs2)
                 false).
Proof. exact (dispatch2_fixed op d1 d2 cs1 cs2). Qed.

(* * : every product column is the first product, then numpy's += of the others *)
Theorem C12_product_column d p1 p2 n ij rest :
  length (prod_of d p1 p2 ij) = n ->
  mul_column fixed d p1 p2 n (ij :: rest)
  = map (Val d) (fold_left (fun acc ij' => map2 (fun v a => arith_v Add d a v) (prod_of d p1 p2 ij') acc) rest
                           (map (cast d) (prod_of d p1 p2 ij))).
Proof. exact (mul_column_fixed d p1 p2 n ij rest). Qed.

(* Python scalars are weak, out-of-range integers are refused *)
Theorem C12_scalar_weak d k z sd :
  scalar_dtype fixed d k z = Some sd -> sd = promote_weak d k /\ promote d sd = promote_weak d k.
Proof.
intros H. split; [|exact (scalar_result_dtype d k z sd H)].
rewrite scalar_dtype_fixed in H. destruct (_ && _); [discriminate H | now injection H].
Qed.

Theorem C12_broadcast_keeps_dtype b d : bcast_dtype fixed b d = d.
Proof. exact (bcast_dtype_fixed b d). Qed.

(* ---- each switch describes a real defect: witnesses ------------------------------------------ *)
Theorem C12_dtype_refuted_kernel_only :
  exists d vs, Forall (fun c => c = Unwritten) (concat (p_cols (from_attributes (only 1) None 1 [(d, vs)]))) /\ vs <> [].
Proof.
exists I32, [VZ 1; VZ 2; VZ 3]. split; [|discriminate].
destruct refuted_kernel_only as [E _]. rewrite E. repeat constructor.
Qed.

Theorem C12_dtype_refuted_no_cast :
  exists d s v, from_attributes (only 0) (Some d) 1 [(s, [v])] = mkP d [[Raw s v]] false /\ observe d (Raw s v) = OAny.
Proof. exists F64, I64, (VZ 3). destruct refuted_no_cast as [E [O _]]. split; assumption. Qed.

Theorem C12_dtype_refuted_no_cast_overrun :
  exists d s vs, p_clobbered (from_attributes (only 0) (Some d) 1 [(s, vs)]) = true.
Proof. exists I8, I64, [VZ 1; VZ 2]. exact (proj2 (proj2 refuted_no_cast)). Qed.

Theorem C12_dtype_refuted_mul_kernel_only :
  exists d x y, mul_column (only 2) d (good d [[x]]) (good d [[y]]) 1 [(0%nat, 0%nat)] = [Unwritten] /\
                p_cols (multiply fixed 1 [[(0%nat, 0%nat)]] (good d [[x]]) (good d [[y]])) = [[Val d (VZ 6)]].
Proof.
exists I32, (VZ 2), (VZ 3). destruct refuted_mul_kernel_only as [_ [E1 E2]]. split; assumption.
Qed.

Theorem C12_dtype_refuted_empty_unwritten :
  exists darg, p_cols (from_attributes (only 3) darg 1 []) = [[Unwritten]].
Proof. exists None. destruct refuted_empty_unwritten as [E _]. now rewrite E. Qed.

Theorem C12_dtype_refuted_size0_scalar :
  exists d, p_cols (clean (only 4) (good d [[]])) <> p_cols (clean fixed (good d [[]])) /\
            p_cols (clean shipped (good d [[]])) = [[Unwritten]].
Proof.
exists F64. destruct refuted_size0_scalar as [E1 [E2 E3]]. rewrite E1, E3. split; [discriminate | exact E2].
Qed.

Theorem C12_dtype_refuted_bcast_int :
  exists d c1 c2, option_map p_dtype (dispatch2 (only 5) Add true false (good d [c1]) (good d [c2])) <> Some (promote d d).
Proof.
exists U32, [VZ 5; VZ 5], [VZ 1; VZ 2]. destruct refuted_bcast_int as [E _]. rewrite E. discriminate.
Qed.

Theorem C12_dtype_refuted_strong_scalars :
  exists d k z, scalar_dtype (only 6) d k z <> scalar_dtype fixed d k z /\
  exists d' z', scalar_dtype fixed d' PyInt z' = None /\ scalar_dtype (only 6) d' PyInt z' <> None.
Proof.
destruct refuted_strong_scalars as [E1 [E2 [E3 E4]]].
exists U32, PyInt, 1. rewrite E1, E2. split; [discriminate|].
exists U8, 300. rewrite E3, E4. split; [reflexivity | discriminate].
Qed.

(* ---- non-vacuity ------------------------------------------------------------------------------ *)
Example C12_nonvacuous_cast :
  representable I8 (VZ (-128)) = true /\ cast U8 (VZ (-1)) = VZ 255 /\ cast I8 (VZ 128) = VZ (-128) /\
  cast I32 (VZ (2 ^ 31)) = VZ (- 2 ^ 31) /\ cast B8 (VZ 256) = VZ 1 /\ cast F16 (VZ 2049) = Inexact /\
  cast F64 (VZ (2 ^ 53)) = VZ (2 ^ 53) /\ cast C64 (VZ 3) = VC 3 0 /\ lossless_ok I32 F32 = true /\
  assoc_safe I8 I16 F32 = true /\ assoc_safe I8 U8 F16 = false.
Proof. vm_compute. repeat split. Qed.

Example C12_nonvacuous_arith :
  arith Add I8 (VZ 127) (VZ 1) = Some (VZ (-128)) /\ arith Mul U8 (VZ 16) (VZ 16) = Some (VZ 0) /\
  arith Sub U32 (VZ 0) (VZ 1) = Some (VZ (2 ^ 32 - 1)) /\ arith Add F16 (VZ 2048) (VZ 1) = Some Inexact /\
  arith Mul C64 (VC 1 2) (VC 3 4) = Some (VC (-5) 10) /\ promote I64 U64 = F64 /\ promote I8 U8 = I16.
Proof. vm_compute. repeat split. Qed.

Example C12_nonvacuous_paths :
  astype fixed I8 (good I64 [[VZ 300; VZ (-1)]; [VZ 127; VZ 128]])
    = mkP I8 [[Val I8 (VZ 44); Val I8 (VZ (-1))]; [Val I8 (VZ 127); Val I8 (VZ (-128))]] false /\
  dispatch2 fixed Add false false (good I8 [[VZ 100]]) (good U8 [[VZ 200]])
    = Some (mkP I16 [[Val I16 (VZ 300)]] false) /\
  dispatch2 fixed Sub false false (good B8 [[VZ 1]]) (good B8 [[VZ 1]]) = None /\
  p_cols (multiply fixed 1 [[(0%nat, 0%nat); (1%nat, 1%nat)]] (good I8 [[VZ 100]; [VZ 3]]) (good I8 [[VZ 2]; [VZ 20]]))
    = [[Val I8 (VZ 4)]] /\
  construct fixed I64 (Some F32) [[VZ 1; VZ 2; VZ 3]] = mkP F32 [[Val F32 (VZ 1); Val F32 (VZ 2); Val F32 (VZ 3)]] false.
Proof. vm_compute. repeat split. Qed.

Print Assumptions C12_promote_comm.
Print Assumptions C12_promote_idem.
Print Assumptions C12_promote_absorbs.
Print Assumptions C12_promote_assoc_partial.
Print Assumptions C12_promote_assoc_refuted.
Print Assumptions C12_promote_weak.
Print Assumptions C12_cast_lossless_partial.
Print Assumptions C12_cast_lossless_refuted.
Print Assumptions C12_cast_id.
Print Assumptions C12_cast_idem.
Print Assumptions C12_cast_wrap_spec.
Print Assumptions C12_cast_result_representable.
Print Assumptions C12_arith_wraps.
Print Assumptions C12_arith_exact.
Print Assumptions C12_arith_float_exact.
Print Assumptions C12_arith_complex_addsub.
Print Assumptions C12_arith_complex_mul.
Print Assumptions C12_arith_bool.
Print Assumptions C12_no_unwritten.
Print Assumptions C12_from_attributes_values.
Print Assumptions C12_empty_is_zero.
Print Assumptions C12_construct_values.
Print Assumptions C12_rebuild_values.
Print Assumptions C12_astype_values.
Print Assumptions C12_reindex_values.
Print Assumptions C12_addsub_values.
Print Assumptions C12_product_column.
Print Assumptions C12_scalar_weak.
Print Assumptions C12_broadcast_keeps_dtype.
Print Assumptions C12_dtype_refuted_kernel_only.
Print Assumptions C12_dtype_refuted_no_cast.
Print Assumptions C12_dtype_refuted_no_cast_overrun.
Print Assumptions C12_dtype_refuted_mul_kernel_only.
Print Assumptions C12_dtype_refuted_empty_unwritten.
Print Assumptions C12_dtype_refuted_size0_scalar.
Print Assumptions C12_dtype_refuted_bcast_int.
Print Assumptions C12_dtype_refuted_strong_scalars.
