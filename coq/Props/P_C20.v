(* P_C20 — Monomials are never confused, whatever the exponent size. *)
From Coq Require Import NArith ZArith List Bool Lia.
From NP Require Import Key KeyP GenKey BridgeKey.
From NP Require GenSource BridgeSrcC20.
Import ListNotations.
Open Scope N_scope.

Definition off := gen_offset.

Theorem C20_codec_roundtrip e : e + off < two32 -> decode off (encode off e) = e.
Proof. exact (decode_encode off e). Qed.

Theorem C20_encode_injective e1 e2 :
  e1 + off < two32 -> e2 + off < two32 -> encode off e1 = encode off e2 -> e1 = e2.
Proof. exact (encode_inj off e1 e2). Qed.

Theorem C20_never_reserved e : e + off < two32 -> encode off e <> 58 /\ encode off e <> 0.
Proof. destruct bridge_key_offset as [H _]; exact (never_reserved off e H). Qed.

(* every exponent below 55 000 is representable (valid field-name code point) *)
Theorem C20_representable sur e : e < 55000 -> representable sur off e = true.
Proof.
intros H; destruct bridge_key_offset as [H1 H2]; unfold representable, valid_cp, off in *.
pose proof two32_val as T.
rewrite !andb_true_iff, !orb_true_iff, !N.ltb_lt. lia.
Qed.

Theorem C20_rows_roundtrip r : bounded off r -> decode_row off (encode_row off r) = r.
Proof. exact (decode_encode_row off r). Qed.

Theorem C20_rows_injective r1 r2 :
  bounded off r1 -> bounded off r2 -> encode_row off r1 = encode_row off r2 -> r1 = r2.
Proof. exact (encode_row_inj off r1 r2). Qed.

(* when multiply.py uses the compiled kernel, as read from the source *)
Definition lib_fast (p q : rpoly) : list N -> list N -> bool :=
  if gen_guard_kind =? 1 then max_guard off gen_guard_bound p q else (fun _ _ => true).

Lemma lib_fast_sound p q : sound_guard off (lib_fast p q) p q.
Proof.
destruct bridge_mul_guard as [K B]; unfold lib_fast; rewrite K; simpl.
apply max_guard_sound; exact B.
Qed.

(* products through key storage and back: exactly the term-by-term product merged by exponent row *)
Theorem C20_product_exact (p q : rpoly) :
  Forall (fun t => bounded off (fst t)) (rmul_terms p q) ->
  option_map (load off) (kmul off (lib_fast p q) p q) = Some (rmerge (rmul_terms p q)).
Proof. intros H; apply kmul_exact; [apply lib_fast_sound|exact H]. Qed.

Theorem C20_mul_monomials a b c d :
  a + b + off < two32 ->
  option_map (load off) (kmul off (lib_fast [([a], c)] [([b], d)]) [([a], c)] [([b], d)])
  = Some [([a + b], (c * d)%Z)].
Proof. intros H; apply mul_monomials; [apply lib_fast_sound|exact H]. Qed.

(* storing and reloading any term list merges exactly the equal rows *)
Theorem C20_load_store (p : rpoly) :
  Forall (fun t => bounded off (fst t)) p -> load off (store off p) = rmerge p.
Proof. exact (load_store off p). Qed.

(* the unguarded kernel does confuse monomials: why the guard is an obligation *)
Theorem C20_unguarded_refuted :
  product_key 59 true [34] [35] = None /\ product_key 59 true [128] [128] = Some (encode_row 59 [0]).
Proof. exact product_key_unguarded_refuted. Qed.

Example C20_nonvacuous :
  bounded off [100000; 54999] /\ representable false off 54999 = true /\
  option_map (load off) (kmul off (lib_fast [([40; 70000], 3%Z)] [([60; 5], (-2)%Z)])
                              [([40; 70000], 3%Z)] [([60; 5], (-2)%Z)])
  = Some [([100; 70005], (-6)%Z)].
Proof.
split; [repeat constructor; rewrite two32_val; vm_compute; reflexivity|].
split; vm_compute; reflexivity.
Qed.

(* every binary operation merges the operands' exponent rows in align.py (numpy.unique over the rows): its four
   functions are still, statement by statement, the modelled ones (the statement is BridgeSrcC20.bridge_src_C20's) *)
Theorem C20_sources_are_the_modelled_ones :
  ltac:(let t := type of BridgeSrcC20.bridge_src_C20 in exact t).
Proof. exact BridgeSrcC20.bridge_src_C20. Qed.

Print Assumptions C20_codec_roundtrip.
Print Assumptions C20_encode_injective.
Print Assumptions C20_never_reserved.
Print Assumptions C20_representable.
Print Assumptions C20_rows_roundtrip.
Print Assumptions C20_rows_injective.
Print Assumptions C20_product_exact.
Print Assumptions C20_mul_monomials.
Print Assumptions C20_load_store.
Print Assumptions C20_unguarded_refuted.
Print Assumptions C20_sources_are_the_modelled_ones.
