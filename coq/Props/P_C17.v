(* P_C17 — Operations never modify their arguments.
   Statements are about the effect programs regenerated from every function under /repo/numpoly
   (Gen/GenEffects.v) and the checks re-established on them in Bridge/BridgeEffects.v. *)
From Coq Require Import List Arith Bool PeanoNat Lia.
From NP Require Import Effects EffectsP GenEffects BridgeEffects.
Import ListNotations.

(* ---- the general results (any table of functions, any summaries that pass the checker) ------- *)
Theorem C17_summary_sound tbl sums f fd sm n vals d0 c o s' :
  table_ok tbl sums = true ->
  nth_error tbl f = Some fd -> nth_error sums f = Some sm -> length vals <= f_arity fd ->
  run_p tbl n (f_body fd) (entry vals d0 [] c) = (o, s') ->
  (forall b, In b (wr s') -> okb vals d0 b (s_w sm)) /\
  (forall v, o = ORet v -> okb vals d0 (fst v) (s_ro sm) /\ okb vals d0 (snd v) (s_re sm)).
Proof. intros H. exact (summary_sound tbl sums H f fd sm n vals d0 c o s'). Qed.

Theorem C17_safe_sound tbl sums f fd sm n vals d0 c o s' :
  table_ok tbl sums = true ->
  nth_error tbl f = Some fd -> nth_error sums f = Some sm -> declared fd sm = true ->
  length vals <= f_arity fd ->
  run_p tbl n (f_body fd) (entry vals d0 [] c) = (o, s') ->
  forall b, In b (wr s') -> d0 <= b \/ exists a, In a (f_outs fd) /\ atom_buf vals d0 a = b.
Proof. intros H. exact (safe_sound tbl sums H f fd sm n vals d0 c o s'). Qed.

(* ---- the regenerated programs ------------------------------------------------------------- *)
(* Every function of the current tree that is not an expected rejection: whatever the argument
   values (any aliasing between them), whatever the choices (which possible source each binding
   takes, branches, iterations, the point where something raises), to any call depth: every
   buffer written is either allocated during the call or the buffer of a declared output target. *)
Theorem C17_frame f fd n vals d0 c o s' :
  nth_error gen_table f = Some fd -> accepted f = true -> length vals <= f_arity fd ->
  run_p gen_table n (f_body fd) (entry vals d0 [] c) = (o, s') ->
  forall b, In b (wr s') -> d0 <= b \/ exists a, In a (f_outs fd) /\ atom_buf vals d0 a = b.
Proof.
  intros Efd Hacc Hl Hrun.
  destruct (all_safe_declared _ _ _ all_safe f fd Efd Hacc) as (sm & Esm & _ & Hd).
  exact (safe_sound _ _ bridge_table_ok f fd sm n vals d0 c o s' Efd Esm Hd Hl Hrun).
Qed.

(* ... hence an argument buffer (all of them exist before the call: they are below d0) that is not
   shared with a declared output target keeps its contents, whether the call returns or raises *)
Theorem C17_arguments_unmodified f fd n vals d0 c o s' :
  nth_error gen_table f = Some fd -> accepted f = true -> length vals <= f_arity fd ->
  run_p gen_table n (f_body fd) (entry vals d0 [] c) = (o, s') ->
  forall b, b < d0 -> (forall a, In a (f_outs fd) -> atom_buf vals d0 a <> b) -> ~ In b (wr s').
Proof.
  intros Efd Hacc Hl Hrun b Hlt Hno Hin.
  destruct (C17_frame f fd n vals d0 c o s' Efd Hacc Hl Hrun b Hin) as [H|(a & Ha & Hb)]; [lia|].
  exact (Hno a Ha Hb).
Qed.

(* the result of a call can share memory only with what the function's summary lists *)
Theorem C17_result_sharing f fd sm n vals d0 c v s' :
  nth_error gen_table f = Some fd -> nth_error gen_summaries f = Some sm -> length vals <= f_arity fd ->
  run_p gen_table n (f_body fd) (entry vals d0 [] c) = (ORet v, s') ->
  okb vals d0 (fst v) (s_ro sm) /\ okb vals d0 (snd v) (s_re sm).
Proof.
  intros Efd Esm Hl Hrun.
  destruct (summary_sound _ _ bridge_table_ok f fd sm n vals d0 c _ s' Efd Esm Hl Hrun) as [_ H].
  exact (H v eq_refl).
Qed.

(* on the current tree the list of expected rejections is what the translator was given (empty
   unless known_findings.json names functions); everything else is accepted *)
Theorem C17_all_other_functions_accepted : unsafe_funs gen_table gen_summaries = gen_expected_unsafe.
Proof. exact bridge_unsafe_funs. Qed.

(* ---- non-vacuity and sensitivity ---------------------------------------------------------- *)
(* f0(p): t = zeros(); t[...] = 1            -- accepted
   f1(p): t = asarray(p); t[...] = 1         -- rejected, and the semantics really writes p's buffer
   f2(p, out): v = out.values; v[...] = 1    -- accepted: out is a declared target
   f3(p): f1(zeros())                        -- accepted: the callee writes its own argument, which is fresh here
   f4(p): f1(p)                              -- rejected through the callee's summary
   f5(p): t = p.copy(); loop: t[...] = 1; t = aspolynomial(p)   -- rejected: the second iteration writes p *)
Definition ex_table : table :=
  [ FDef 1 [] (pl [Alloc 1; Write 1]);
    FDef 1 [] (pl [MayAlias 1 [0]; Write 1]);
    FDef 2 [2; 3] (pl [View 2 1; Write 2]);
    FDef 1 [] (pl [Alloc 1; Call 2 1 [1]]);
    FDef 1 [] (pl [Call 1 1 [0]]);
    FDef 1 [] (pl [Alloc 1; Loop (pl [Write 1; MayAlias 1 [0]])]) ].
Definition ex_sums : summaries := Eval vm_compute in infer0 10 ex_table.

Example C17_nonvacuous :
  table_ok ex_table ex_sums = true /\ unsafe_funs ex_table ex_sums = [1; 4; 5] /\
  (forall fd sm, nth_error ex_table 0 = Some fd -> nth_error ex_sums 0 = Some sm -> safe ex_sums fd sm = true).
Proof. split; [vm_compute; reflexivity|]. split; [vm_compute; reflexivity|]. intros fd sm [= <-] [= <-]. vm_compute. reflexivity. Qed.

(* the rejected program does write the argument's buffer (5) under the choices "take the argument" *)
Example unsafe_example_writes :
  let s := snd (run_p ex_table 10 (pl [MayAlias 1 [0]; Write 1]) (entry [(5, 5)] 10 [] [0; 1; 1; 0])) in
  wr s = [5] /\ 5 < 10.
Proof. vm_compute. split; [reflexivity|lia]. Qed.

(* ... also when it happens inside a callee, and when it needs a second loop iteration *)
Example unsafe_example_writes_call_and_loop :
  In 5 (wr (snd (run_p ex_table 20 (f_body (nth 4 ex_table (FDef 0 [] Done))) (entry [(5, 5)] 10 [] [0; 0; 1; 1; 0])))) /\
  In 5 (wr (snd (run_p ex_table 20 (f_body (nth 5 ex_table (FDef 0 [] Done))) (entry [(5, 5)] 10 [] [0; 0; 0; 0; 1; 0; 0; 1; 1; 1; 0])))).
Proof. vm_compute. split; left; reflexivity. Qed.

(* with the other choices ("a fresh copy") the same program writes a fresh buffer only *)
Example safe_resolution_writes_fresh :
  wr (snd (run_p ex_table 10 (pl [MayAlias 1 [0]; Write 1]) (entry [(5, 5)] 10 [] [0; 0; 0; 0]))) = [10].
Proof. vm_compute. reflexivity. Qed.

(* the side condition of C17_arguments_unmodified is needed: f2(p, out=p) writes p's buffer *)
Example out_aliasing_argument_is_written :
  wr (snd (run_p ex_table 10 (f_body (nth 2 ex_table (FDef 0 [] Done))) (entry [(5, 5); (5, 5)] 10 [] []))) = [5].
Proof. vm_compute. reflexivity. Qed.

(* the regenerated table is not trivial: it contains in-place stores and calls *)
Fixpoint count_writes_p (p : prog) : nat :=
  match p with
  | Done => 0
  | Seq i p' => count_writes_i i + count_writes_p p'
  end
with count_writes_i (i : instr) : nat :=
  match i with
  | Write _ => 1
  | If p q => count_writes_p p + count_writes_p q
  | Loop p => count_writes_p p
  | _ => 0
  end.
Example gen_table_has_writes :
  20 <= fold_right (fun fd k => count_writes_p (f_body fd) + k) 0 gen_table /\ 100 <= length gen_table.
Proof. vm_compute. split; repeat constructor. Qed.

Print Assumptions C17_summary_sound.
Print Assumptions C17_safe_sound.
Print Assumptions C17_frame.
Print Assumptions C17_arguments_unmodified.
Print Assumptions C17_result_sharing.
Print Assumptions C17_all_other_functions_accepted.
