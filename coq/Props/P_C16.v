(* P_C16 — str/repr (and sympy export) denote exactly the polynomial.

   Model/Show.v models `_to_string` (array_repr.py; array_str/array_repr/to_sympy all print through
   it) as a token stream per array element; `eval_tokens` is a reference evaluator of the printed
   grammar over an arbitrary target algebra.  Statements are about the model; Bridge/BridgeShow.v
   ties the hard-wired facts to the current source, the correspondence check (harness/props/c16.py)
   compares the token streams with /repo's texts.

   show_denotes is stated against absE (Proofs/Abs.v): the element's value in {mpoly R[n]}. *)
From Coq Require Import ZArith.
From mathcomp Require Import all_ssreflect all_algebra ssrZ.
From SsrMultinomials Require Import mpoly.
From NP Require Import Base Poly Harness Order OrderP Abs Show ShowP.
Set Implicit Arguments. Unset Strict Implicit. Unset Printing Implicit Defensive.
Import GRing.Theory Num.Theory.
Local Open Scope ring_scope.
Delimit Scope Z_scope with CZ.

(* ---- (1) the text denotes the polynomial -------------------------------------------------------- *)
Section Denotes.
Variables (n : nat) (R : realDomainType).

(* ordered coefficients (int, float, bool): for EVERY array p with pairwise distinct names and
   exponent rows as long as the name tuple, every element i, every display setting o, and both
   rules for "+" (the shipped one and the proposed repair) *)
Theorem C16_show_denotes pr (o : dopts) (p : parr R) i :
  uniq (names p) -> all (fun r => size r == size (names p)) (rows p) ->
  eval_tokens (malg n R) (show_elem (ord_show R) pr o p i) = Some (absE n p i).
Proof. exact: show_denotes. Qed.

Corollary C16_show_denotes_wf pr (o : dopts) (p : parr R) i : wfb p ->
  eval_tokens (malg n R) (show_elem (ord_show R) pr o p i) = Some (absE n p i).
Proof. by case/and5P=> _ _ _ szs /and3P[_ _ un]; apply: show_denotes. Qed.

(* to_sympy evaluates str(p) with Python's eval over sympy symbols.  Under the recorded assumption
   that this evaluation implements the printed grammar in sympy's polynomial ring, the exported
   expression is the polynomial itself, hence polynomial(to_sympy(p)) reads back p. *)
Section Sympy.
Variable sympy_eval : seq (tok R) -> option {mpoly R[n]}.
Hypothesis sympy_implements_grammar : sympy_eval =1 eval_tokens (malg n R).
Corollary C16_sympy_roundtrip pr (o : dopts) (p : parr R) : wfb p ->
  sympy_eval (show_elem (ord_show R) pr o p 0) = Some (absE n p 0).
Proof. by move=> wf; rewrite sympy_implements_grammar; apply: C16_show_denotes_wf. Qed.
End Sympy.
End Denotes.

(* complex coefficients (Gaussian integers): with the repaired rule always; with the shipped rule
   when no coefficient of the element has a negative real part; otherwise refuted (defect D16) *)
Theorem C16_show_denotes_complex_repaired n (o : dopts) (p : parr gi_comRingType) i :
  uniq (names p) -> all (fun r => size r == size (names p)) (rows p) ->
  eval_tokens (malg n gi_comRingType) (show_elem gauss_show PlusByText o p i) = Some (absE n p i).
Proof. exact: show_denotes_gauss_text. Qed.

Theorem C16_show_denotes_complex_nonneg n (o : dopts) (p : parr gi_comRingType) i :
  uniq (names p) -> all (fun r => size r == size (names p)) (rows p) ->
  (forall k, (0 <=? gre (cell (cols p) k i))%CZ) ->
  eval_tokens (malg n gi_comRingType) (show_elem gauss_show PlusByValue o p i) = Some (absE n p i).
Proof. exact: show_denotes_gauss_value. Qed.

(* q0**2 + (-1+2j)*q0 : printed as  q0**2(-1+2j)*q0 , which is not in the grammar *)
Definition d16_witness : parr gi_comRingType :=
  Parr [:: 0%N] [::] [:: [:: 1%N]; [:: 2%N]] [:: [:: Gi (-1)%CZ 2%CZ]; [:: Gi 1%CZ 0%CZ]].

Theorem C16_show_refuted_complex n :
  wfb d16_witness /\
  eval_tokens (malg n gi_comRingType) (show_elem gauss_show PlusByValue dflt_dopts d16_witness 0) = None.
Proof.
split; first by vm_compute.
rewrite eval_refines.
by have -> : parse_terms (show_elem gauss_show PlusByValue dflt_dopts d16_witness 0) = None by vm_compute.
Qed.

(* the reference evaluator that the correspondence check runs (lists of printed terms) refines the
   one of the theorems, on every token list — not only on printed ones *)
Theorem C16_evaluator_refines n (R : comRingType) (ts : seq (tok R)) :
  eval_tokens (malg n R) ts = omap (@labs n R) (parse_terms ts).
Proof. exact: eval_refines. Qed.

(* ---- (2) which terms are printed, and in which order -------------------------------------------- *)
Section Order.
Variable R : realDomainType.
Variables (pr : plus_rule) (o : dopts) (p : parr R) (i : nat).

(* the loop walks the stored terms in glexsort's order for (display_graded, display_reverse),
   reversed under display_inverse, and skips the zero coefficients (by definition of the model) *)
Theorem C16_show_order_glexsort :
  show_terms o p i
  = [seq t <- [seq (nth [::] (rows p) k, cell (cols p) k i)
              | k <- (if d_inverse o then rev else id) (glexsort (d_graded o) (d_reverse o) (rows p))]
    | t.2 != 0].
Proof. by rewrite /show_terms /walk /disp_order; case: (d_inverse o). Qed.

(* the walked terms are exactly the stored terms of element i with a non-zero coefficient ... *)
Theorem C16_show_order_terms :
  perm_eq (show_terms o p i) [seq t <- stored_terms p i | t.2 != 0].
Proof. exact: show_terms_perm. Qed.

(* ... sorted for the monomial order selected by display_graded / display_reverse (Order.v's mleq,
   the order of glexsort: OrderP.glexsort_sorted), descending under display_inverse ... *)
Theorem C16_show_order_sorted : sorted (dle o) (unzip1 (show_terms o p i)).
Proof. exact: show_terms_sorted. Qed.

(* ... and the text consists of exactly these terms, one printed term each, in this order:
   reading the token stream back as a list of (factors, coefficient) gives the walked terms *)
Theorem C16_show_order_text :
  all (fun r => size r == size (names p)) (rows p) ->
  parse_terms (show_elem (ord_show R) pr o p i)
  = Some (if show_terms o p i is [::] then [:: ([::], 0)]
          else [seq (factors t.1 (names p), t.2) | t <- show_terms o p i]).
Proof.
move=> szs; apply: show_parses => // t _; split; [exact: ord_lex_ok | exact: ord_plus_ok].
Qed.
End Order.

(* for pairwise distinct rows of one length the order is antisymmetric (OrderP.mleq_anti), so the
   sorted arrangement is the only one: *)
Theorem C16_order_antisymmetric (o : dopts) (a b : seq nat) :
  size a = size b -> dle o a b -> dle o b a -> a = b.
Proof.
by rewrite /dle; case: ifP => _ sz ab ba; [apply: mleq_anti sz ba ab | apply: mleq_anti sz ab ba].
Qed.

(* ---- (3) the display options only permute the printed terms --------------------------------------- *)
Theorem C16_options_permute (R : comRingType) (o1 o2 : dopts) (p : parr R) i :
  perm_eq (show_terms o1 p i) (show_terms o2 p i).
Proof. exact: show_options_permute. Qed.

(* at the level of the text: the multisets of printed (factors, coefficient) pairs agree *)
Theorem C16_options_permute_text (R : realDomainType) pr (o1 o2 : dopts) (p : parr R) i :
  all (fun r => size r == size (names p)) (rows p) ->
  exists l1 l2, [/\ parse_terms (show_elem (ord_show R) pr o1 p i) = Some l1,
                    parse_terms (show_elem (ord_show R) pr o2 p i) = Some l2 & perm_eq l1 l2].
Proof.
move=> szs; rewrite !C16_show_order_text //.
have pe := show_options_permute o1 o2 p i.
do 2![eexists]; split; [reflexivity | reflexivity |].
case E1: (show_terms o1 p i) pe => [|t1 l1]; case E2: (show_terms o2 p i) => [|t2 l2] pe.
- exact: perm_refl.
- by move/perm_size: pe.
- by move/perm_size: pe.
- exact: perm_map.
Qed.

(* ---- non-vacuity ------------------------------------------------------------------------------------ *)
(* [ -q0*q1**2 + 2*q0 - 1 , 0 ] *)
Definition ex_p : parr ZO :=
  Parr [:: 0%N; 1%N] [:: 2%N] [:: [:: 0%N; 0%N]; [:: 1%N; 0%N]; [:: 1%N; 2%N]]
       [:: [:: (-1)%CZ; 0%CZ]; [:: 2%CZ; 0%CZ]; [:: (-1)%CZ; 0%CZ]].

Example C16_nonvacuous :
  [/\ wfb ex_p,
      show (ord_show ZO) PlusByValue dflt_dopts ex_p
      = [:: [:: TMinus; TName 0; TMul; TName 1; TPow; TNat 2; TPlus; TNum 2%CZ; TMul; TName 0;
                TMinus; TNum 1%CZ]; [:: TNum 0%CZ]],
      show_elem (ord_show ZO) PlusByValue (DOpts false true false) ex_p 0
      = [:: TMinus; TNum 1%CZ; TPlus; TNum 2%CZ; TMul; TName 0; TMinus; TName 0; TMul; TName 1; TPow; TNat 2],
      denotes (show_elem (ord_show ZO) PlusByValue dflt_dopts ex_p 0) ex_p 0 &
      unzip1 (show_terms dflt_dopts ex_p 0) = [:: [:: 1%N; 2%N]; [:: 1%N; 0%N]; [:: 0%N; 0%N]]].
Proof. by vm_compute. Qed.

(* the repaired rule prints the D16 witness correctly; the two rules agree on ordered coefficients *)
Example C16_repair_nonvacuous :
  denotes (show_elem gauss_show PlusByText dflt_dopts d16_witness 0) d16_witness 0
  /\ ~~ denotes (show_elem gauss_show PlusByValue dflt_dopts d16_witness 0) d16_witness 0
  /\ show (ord_show ZO) PlusByText dflt_dopts ex_p = show (ord_show ZO) PlusByValue dflt_dopts ex_p.
Proof. by vm_compute. Qed.

(* the evaluator rejects texts outside the grammar *)
Example C16_evaluator_rejects :
  [/\ parse_terms [:: TName 0; TNum 2%CZ] = None :> option (seq (lterm ZO)),
      parse_terms [:: TName 0; TPow; TName 1] = None :> option (seq (lterm ZO)),
      parse_terms [:: TNum 2%CZ; TPow; TNat 2] = None :> option (seq (lterm ZO)),
      parse_terms [:: TName 0; TPlus] = None :> option (seq (lterm ZO)) &
      parse_terms ([::] : seq (tok ZO)) = None].
Proof. by vm_compute. Qed.

Print Assumptions C16_show_denotes.
Print Assumptions C16_show_denotes_wf.
Print Assumptions C16_sympy_roundtrip.
Print Assumptions C16_show_denotes_complex_repaired.
Print Assumptions C16_show_denotes_complex_nonneg.
Print Assumptions C16_show_refuted_complex.
Print Assumptions C16_evaluator_refines.
Print Assumptions C16_show_order_glexsort.
Print Assumptions C16_show_order_terms.
Print Assumptions C16_show_order_sorted.
Print Assumptions C16_show_order_text.
Print Assumptions C16_order_antisymmetric.
Print Assumptions C16_options_permute.
Print Assumptions C16_options_permute_text.
