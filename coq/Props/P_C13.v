(* P_C13 — Pickle, copy and text save/load round-trip polynomial arrays. *)
From Coq Require Import NArith ZArith List Bool String.
From NP Require Import Key KeyP Persist GenKey BridgeKey GenPersist BridgePersist.
From mathcomp Require Import all_ssreflect all_algebra ssrZ.
From SsrMultinomials Require Import mpoly.
From NP Require Import Base Poly Harness Abs Clean Shape Align WfP PersistP.
Set Implicit Arguments. Unset Strict Implicit. Unset Printing Implicit Defensive.
Import GRing.Theory.
Local Open Scope ring_scope.

(* the facts read from baseclass.py / savetxt.py / loadtxt.py / re are the modelled ones *)
Theorem C13_model_applies :
  [/\ gen_template = hdr_template, gen_regex = hdr_regex (fx_star gen_tfix),
      lits_after_groups_spaced false gen_regex = true, gen_space_table = space_table &
      [/\ gen_join_sep = comma, gen_split_sep = comma, gen_marker = lit "numpoly:" &
          gen_reduce_flags = shipped_flags \/ gen_reduce_flags = exact_flags]].
Proof.
split; [exact: bridge_template | exact: bridge_regex | exact: bridge_regex_deterministic | exact: bridge_space_table |].
by split; [case: bridge_separators | case: bridge_separators | case: bridge_marker | exact: bridge_reduce_flags].
Qed.

Section C13.
Variable (n : nat) (R : comRingType).
Implicit Types (p q : parr R) (o : opts) (f : rflags).

(* ---- pickle ------------------------------------------------------------------------------------ *)
(* whatever flags __reduce__ passes and whatever the global options: unpickling succeeds and gives a
   well-formed array of the same shape denoting the same polynomials *)
Theorem C13_reduce_rebuild o f p :
  wfb p -> (0 < psize p)%N ->
  exists q, [/\ pickle_roundtrip o f p = Ok q, wfb q, shape q = shape p &
                forall i, absE n q i = absE n p i].
Proof. exact: reduce_rebuild. Qed.

(* names are kept whenever the effective retain_names flag (explicit, else the global option) is on *)
Theorem C13_reduce_rebuild_names o f p q :
  wfb p -> (0 < psize p)%N -> flag (o_retn o) (rf_rn f) ->
  pickle_roundtrip o f p = Ok q -> names q = names p.
Proof. exact: reduce_rebuild_names. Qed.

(* the identical object (names, shape, rows, columns) comes back when retain_coefficients is
   effectively on or no stored term is redundant ... *)
Theorem C13_reduce_rebuild_exact o f p :
  wfb p -> (0 < psize p)%N -> flag (o_retn o) (rf_rn f) ->
  flag (o_retc o) (rf_rc f) || all (@keep_term R) (terms p) ->
  pickle_roundtrip o f p = Ok p.
Proof. exact: reduce_rebuild_exact. Qed.

(* ... and only then *)
Theorem C13_reduce_rebuild_exact_iff o f p :
  wfb p -> (0 < psize p)%N -> flag (o_retn o) (rf_rn f) -> flag (o_retc o) (rf_rc f) = false ->
  (pickle_roundtrip o f p = Ok p <-> all (@keep_term R) (terms p)).
Proof. exact: reduce_rebuild_exact_iff. Qed.

(* for the flags found in the CURRENT baseclass.py: pickling is exact for every polynomial iff the
   source passes (True, True); with the shipped (False, <global>) exactly the arrays without an
   all-zero non-constant term survive unchanged (global retain_names on) *)
Theorem C13_pickle_current o p :
  wfb p -> (0 < psize p)%N -> o_retn o ->
  (pickle_roundtrip o gen_reduce_flags p = Ok p <->
   gen_reduce_flags = exact_flags \/ all (@keep_term R) (terms p)).
Proof.
move=> wp pos rn; case: bridge_reduce_flags => ->.
- rewrite reduce_rebuild_exact_iff //; split; first by right.
  by case.
- by split=> [_|_]; [left | apply: reduce_rebuild_exact].
Qed.

(* copy.copy / copy.deepcopy / .copy(): the buffer copy is the same array *)
Theorem C13_copy p : pcopy p = p.
Proof. exact: pcopy_id. Qed.

(* ---- the numeric part of a text file ----------------------------------------------------------------- *)
Theorem C13_flatten_unflatten o ravel p :
  wfb p -> (0 < psize p)%N -> ravel || (1 < size (rows p))%N ->
  exists q, [/\ text_roundtrip o ravel p = Ok q, wfb q, shape q = shape p,
                forall i, absE n q i = absE n p i &
                (o_retn o -> names q = names p) /\
                (o_retn o -> o_retc o || all (@keep_term R) (terms p) -> q = p)].
Proof. exact: flatten_unflatten. Qed.

(* the guard is exact: without reshape(-1, nkeys) EVERY single-term array fails *)
Theorem C13_single_term_refuted o p :
  wfb p -> (0 < psize p)%N -> size (rows p) = 1%N -> text_roundtrip o false p = Err ValueError.
Proof. exact: flatten_unflatten_single_refuted. Qed.

(* ---- the whole file: loadtxt (savetxt p) -------------------------------------------------------------- *)
Theorem C13_loadtxt_savetxt o fx off version comments p :
  ~ List.In 110%num comments -> ns_str version = true -> version <> nil ->
  toks_ok (List.map (encode_row off) (nrows (rows p))) = true ->
  List.Forall (bounded off) (nrows (rows p)) ->
  (shape p = [::] -> fx_star fx && fx_filter fx) ->
  wfb p ->
  loadtxt_model o fx off comments (savetxt_header off version comments p) (np_squeeze (to_matrix p))
  = match text_roundtrip o (fx_ravel fx) p with Ok q => LdPoly q | Err e => LdErr e end.
Proof. exact: loadtxt_savetxt. Qed.

(* with the switches found in the CURRENT loadtxt.py and the KEY_OFFSET found in baseclass.py: every
   array outside the two defect classes (0-d needs the repaired header parser, single-term needs the
   reshape) is read back with the same shape, the same polynomials, the same names (retain_names on) *)
Theorem C13_text_current o version comments p :
  ~ List.In 110%num comments -> ns_str version = true -> version <> nil ->
  toks_ok (List.map (encode_row gen_offset) (nrows (rows p))) = true ->
  List.Forall (bounded gen_offset) (nrows (rows p)) ->
  wfb p -> (0 < psize p)%N ->
  (shape p = [::] -> fx_star gen_tfix && fx_filter gen_tfix) ->
  fx_ravel gen_tfix || (1 < size (rows p))%N ->
  exists q, [/\ loadtxt_model o gen_tfix gen_offset comments
                  (savetxt_header gen_offset version comments p) (np_squeeze (to_matrix p)) = LdPoly q,
                wfb q, shape q = shape p, forall i, absE n q i = absE n p i &
                o_retn o -> names q = names p].
Proof.
move=> Hc Hv Hv' Hk Hb wp pos Hs Hr.
have [q [E wq sq aq [nq _]]] := flatten_unflatten n o wp pos Hr.
by exists q; split=> //; rewrite loadtxt_savetxt // E.
Qed.

End C13.

(* ---- the header line ------------------------------------------------------------------------------------- *)
Theorem C13_header_roundtrip star filt off comments version names rows shape :
  ~ List.In 110%num comments -> ns_str version = true -> version <> nil ->
  toks_ok names = true -> toks_ok (List.map (encode_row off) rows) = true ->
  (shape = nil -> star = true /\ filt = true) ->
  parse_header star filt comments (first_line comments (print_header off version names rows shape))
  = HOk names (List.map (encode_row off) rows) shape.
Proof. exact: header_roundtrip. Qed.

(* the guards hold for q<k> names and for every exponent below 74 (key code point below U+0085) *)
Theorem C13_names_ok ks : ks <> nil -> toks_ok (List.map name_str ks) = true.
Proof. exact: names_toks_ok. Qed.

Theorem C13_name_roundtrip k : name_idx (name_str k) = Some k.
Proof. exact: name_idx_str. Qed.

Theorem C13_small_keys_ok rows :
  rows <> nil -> List.Forall (fun r => r <> nil /\ List.Forall (fun e => (e + gen_offset < 133)%num) r) rows ->
  toks_ok (List.map (encode_row gen_offset) rows) = true.
Proof. by move=> ne H; apply: small_keys_ok => //; vm_compute. Qed.

(* shipped parser on a 0-d header: AssertionError; with the regex alone repaired: ValueError; and in
   general no match at the marker for ANY 0-d header *)
Theorem C13_header_refuted_0d :
  exists names rows,
    parse_header false false (lit "# ") (first_line (lit "# ") (print_header 59%num (lit "0.1.0") names rows nil))
    = HFail HAssert /\ toks_ok names = true /\ toks_ok (List.map (encode_row 59%num) rows) = true.
Proof.
exists (name_str 0%num :: name_str 1%num :: nil), ((1 :: 0 :: nil)%num :: (0 :: 1 :: nil)%num :: nil).
by split; [exact: header_refuted_0d | split; vm_compute].
Qed.

Theorem C13_header_refuted_0d_regex_only :
  parse_header true false (lit "# ")
    (first_line (lit "# ") (print_header 59%num (lit "0.1.0") (name_str 0%num :: name_str 1%num :: nil)
                                         ((1 :: 0 :: nil)%num :: (0 :: 1 :: nil)%num :: nil) nil))
  = HFail HValue.
Proof. exact: header_refuted_0d_regex_only. Qed.

Theorem C13_header_0d_no_match version names keys :
  ns_str version = true -> version <> nil -> toks_ok names = true -> toks_ok keys = true ->
  forall g, rmatch (hdr_regex false)
              (fill version (join comma names) (join comma keys) nil hdr_template ++ newline :: nil)%list <> Some g.
Proof. exact: header_0d_no_match_shipped. Qed.

(* why keys are guarded: exponent 74 is stored as U+0085, which \S does not match *)
Theorem C13_header_refuted_space_key star filt :
  parse_header star filt (lit "# ")
    (first_line (lit "# ") (print_header 59%num (lit "0.1.0") (name_str 0%num :: nil)
                                         ((74 :: nil)%num :: (0 :: nil)%num :: nil) (2 :: nil)%num))
  = HFail HAssert.
Proof. exact: header_refuted_space_key. Qed.

(* a file whose first line does not start with comments + "numpoly:" is loaded as a plain array, and
   numpy.loadtxt sees every line of it iff it came by path or the read line is chained back *)
Theorem C13_plain_header star filt comments line :
  starts_with (comments ++ lit "numpoly:")%list line = false -> parse_header star filt comments line = HPlain.
Proof. exact: header_plain. Qed.

Theorem C13_plain_lines (A : Type) fileobj chain (lines : list A) :
  fileobj = false \/ chain = true -> lines_seen A fileobj chain lines = lines.
Proof. exact: lines_seen_all. Qed.

Theorem C13_plain_fileobj_refuted :
  lines_seen N true false (1 :: 2 :: 3 :: nil)%num = (2 :: 3 :: nil)%num.
Proof. exact: lines_seen_refuted. Qed.

(* ---- refutations at the instance that is run (coefficients in Z) ---------------------------------------- *)
Delimit Scope Z_scope with CZ.
(* a closed equation decided by the VM (checked by the kernel at Qed); avoids normalising the goal's types *)
Ltac vm_refl := match goal with |- _ = ?b => vm_cast_no_check (@erefl _ b) end.
(* align_polynomials(q0, q1)[0]: exponents [[0,1],[1,0]], the first column all zero *)
Definition w_aligned : zparr := ZParr [:: 0%N; 1%N] [::] [:: [:: 0%N; 1%N]; [:: 1%N; 0%N]] [:: [:: 0%CZ]; [:: 1%CZ]].

Theorem C13_pickle_refuted :
  wfb w_aligned /\ (0 < psize w_aligned)%N /\
  pickle_roundtrip dflt_opts shipped_flags w_aligned
  = Ok (ZParr [:: 0%N; 1%N] [::] [:: [:: 1%N; 0%N]] [:: [:: 1%CZ]]).
Proof. by split; [vm_compute | split; [vm_compute | vm_refl]]. Qed.

(* [q0, 2*q0]: a single term *)
Definition w_single : zparr := ZParr [:: 0%N] [:: 2%N] [:: [:: 1%N]] [:: [:: 1%CZ; 2%CZ]].
Theorem C13_single_term_witness :
  wfb w_single /\ text_roundtrip dflt_opts false w_single = Err ValueError /\
  text_roundtrip dflt_opts true w_single = Ok w_single.
Proof. by split; [vm_compute | split; vm_refl]. Qed.

(* ---- non-vacuity ------------------------------------------------------------------------------------------ *)
(* a 2x2 array in q0, q10 with three terms satisfies every guard, and the whole path returns it *)
Definition w_poly : zparr :=
  ZParr [:: 0%N; 10%N] [:: 2%N; 2%N] [:: [:: 0%N; 0%N]; [:: 1%N; 0%N]; [:: 2%N; 3%N]]
        [:: [:: 1%CZ; 0%CZ; 0%CZ; (-1)%CZ]; [:: 0%CZ; 1%CZ; 1%CZ; 0%CZ]; [:: 0%CZ; 0%CZ; 0%CZ; 5%CZ]].

Example C13_nonvacuous :
  [/\ wfb w_poly && (0 < psize w_poly)%N, all (@keep_term ZR) (terms w_poly),
      toks_ok (List.map (encode_row gen_offset) (nrows (rows w_poly))) = true,
      List.Forall (bounded gen_offset) (nrows (rows w_poly)) &
      [/\ pickle_roundtrip dflt_opts shipped_flags w_poly = Ok w_poly,
          loadtxt_model dflt_opts shipped_tfix gen_offset (lit "# ")
            (savetxt_header gen_offset (lit "0.1.0") (lit "# ") w_poly) (np_squeeze (to_matrix w_poly)) = LdPoly w_poly &
          savetxt_header gen_offset (lit "0.1.0") (lit "# ") w_poly
          = lit "# numpoly:0.1.0 names:q0,q10 keys:;;,<;,=> shape:2,2" ++ newline :: nil]]%list.
Proof.
split.
- by vm_compute.
- by vm_compute.
- by vm_compute.
- by rewrite /nrows /=; repeat constructor; rewrite two32_val; vm_compute.
- by split; vm_refl.
Qed.

(* a 0-d array and the repaired switches: the header parses *)
Example C13_nonvacuous_0d :
  parse_header true true (lit "# ")
    (first_line (lit "# ") (print_header 59%num (lit "0.1.0") (name_str 0%num :: nil) ((1 :: nil)%num :: nil) nil))
  = HOk (name_str 0%num :: nil) ((60 :: nil)%num :: nil) nil.
Proof. by vm_compute. Qed.

Print Assumptions C13_model_applies.
Print Assumptions C13_reduce_rebuild.
Print Assumptions C13_reduce_rebuild_names.
Print Assumptions C13_reduce_rebuild_exact.
Print Assumptions C13_reduce_rebuild_exact_iff.
Print Assumptions C13_pickle_current.
Print Assumptions C13_copy.
Print Assumptions C13_flatten_unflatten.
Print Assumptions C13_single_term_refuted.
Print Assumptions C13_loadtxt_savetxt.
Print Assumptions C13_text_current.
Print Assumptions C13_header_roundtrip.
Print Assumptions C13_names_ok.
Print Assumptions C13_name_roundtrip.
Print Assumptions C13_small_keys_ok.
Print Assumptions C13_header_refuted_0d.
Print Assumptions C13_header_refuted_0d_regex_only.
Print Assumptions C13_header_0d_no_match.
Print Assumptions C13_header_refuted_space_key.
Print Assumptions C13_plain_header.
Print Assumptions C13_plain_lines.
Print Assumptions C13_plain_fileobj_refuted.
Print Assumptions C13_pickle_refuted.
Print Assumptions C13_single_term_witness.
Print Assumptions C13_nonvacuous.
