(* P_C10 — Reductions and linear algebra equal finite sums and products of elements.

   sum, cumsum, mean, diff, ediff1d apply a linear numpy function to every coefficient column:
   whatever its weights W (result j = sum of w * input i), the polynomial at j is the same linear
   combination of the input's element polynomials.  prod is the ordered product of the slices;
   inner/outer/matmul are sums of products of re-arranged operands; det IS the determinant, for every
   size and every stack of matrices.  All statements are for every shape, operand, term and name set. *)
From mathcomp Require Import all_ssreflect all_algebra.
From SsrMultinomials Require Import mpoly.
From NP Require Import Base Poly Rearr Reduce Abs Align RearrP ReduceP DetP.
From NP Require Import GenSource BridgeSrcC10.
Set Implicit Arguments. Unset Strict Implicit. Unset Printing Implicit Defensive.
Import GRing.Theory.
Local Open Scope ring_scope.

Section C10.
Variable (n : nat) (R : comRingType).
Implicit Types (p a b r : parr R) (o : opts).

Theorem C10_linear o s W p r :
  wfb p -> plinear o s W p = Ok r ->
  [/\ wfb r, shape r = s &
      forall j, (j < prodn s)%N -> absE n r j = \sum_(iw <- nth [::] W j) iw.2 *: absE n p iw.1].
Proof. exact: plinear_spec. Qed.

Theorem C10_linear_total o s W p :
  wfb p -> size W = prodn s -> exists r, plinear o s W p = Ok r.
Proof. exact: plinear_total. Qed.

(* sum over an axis / axis tuple / everything: unit weights over the fibre F_j of result index j *)
Theorem C10_sum o s (F : seq (seq nat)) p r :
  wfb p -> plinear o s [seq [seq (i, 1) | i <- f] | f <- F] p = Ok r ->
  forall j, (j < prodn s)%N -> absE n r j = \sum_(i <- nth [::] F j) absE n p i.
Proof. exact: plinear_unit. Qed.

Theorem C10_prod o s F p r :
  wfb p -> pprod o s F p = Ok r ->
  [/\ wfb r, shape r = s &
      forall j, (j < prodn s)%N -> absE n r j = \prod_(f <- F) absE n p (nth 0%N f j)].
Proof. exact: pprod_spec. Qed.

Theorem C10_bilinear o sm sa sb s W a b r :
  wfb a -> wfb b -> all (all (fun iw => iw.1 < prodn sm)%N) W ->
  pbilinear o sm sa sb s W a b = Ok r ->
  [/\ wfb r, shape r = s &
      forall j, (j < prodn s)%N ->
        absE n r j = \sum_(iw <- nth [::] W j)
                        iw.2 *: (slot n a (nth None sa iw.1) * slot n b (nth None sb iw.1))].
Proof. exact: pbilinear_spec. Qed.

Theorem C10_det1 o bs fuel (x : parr R) r : pdetM fuel.+1 o bs [:: [:: x]] = Ok r -> r = x.
Proof. exact: pdet1_spec. Qed.

Theorem C10_det2 o bs fuel (x00 x01 x10 x11 : parr R) r :
  okM bs [:: [:: x00; x01]; [:: x10; x11]] ->
  pdetM fuel.+1 o bs [:: [:: x00; x01]; [:: x10; x11]] = Ok r ->
  [/\ wfb r, shape r = bs &
      forall i, (i < prodn bs)%N ->
        absE n r i = absE n x00 i * absE n x11 i - absE n x10 i * absE n x01 i].
Proof. exact: pdet2_spec. Qed.

(* det.py on a stack (batch shape bs) of (d+1) x (d+1) matrices, EVERY size: the result at batch
   index b is the determinant (MathComp's \det, i.e. the Leibniz formula) of the matrix of element
   polynomials; proved from the first-row Laplace recursion by induction on the size, with the 1x1
   and 2x2 base cases of the code *)
Theorem C10_det o bs d p r :
  wfb p -> pdet o bs d.+1 p = Ok r ->
  [/\ wfb r, shape r = bs &
      forall t : nat, (t < prodn bs)%N ->
        absE n r t = \det (\matrix_(k < d.+1, l < d.+1) absE n p (t * (d.+1 * d.+1) + k * d.+1 + l))].
Proof. exact: pdet_spec. Qed.

Theorem C10_det_recursion o bs fuel d (M : seq (seq (parr R))) r :
  square d.+1 M -> okM bs M -> (d < fuel)%N -> pdetM fuel o bs M = Ok r ->
  [/\ wfb r, shape r = bs & forall i, (i < prodn bs)%N -> absE n r i = \det (mat n bs d.+1 M i)].
Proof. exact: pdetM_spec. Qed.
End C10.

(* the /repo functions this model was written from are still, statement by statement, the modelled ones *)
Theorem C10_sources_are_the_modelled_ones :
  all (all id) [:: gen_src_prod; gen_src__prod; gen_src_matmul; gen_src_det; gen_src_inner; gen_src_outer; gen_src_diff; gen_src_ediff1d] /\ [seq size f | f <- [:: gen_src_prod; gen_src__prod; gen_src_matmul; gen_src_det; gen_src_inner; gen_src_outer; gen_src_diff; gen_src_ediff1d]] = [:: 5; 7; 9; 10; 2; 4; 5; 10]%N.
Proof. exact: bridge_src_C10. Qed.

Print Assumptions C10_linear.
Print Assumptions C10_linear_total.
Print Assumptions C10_sum.
Print Assumptions C10_prod.
Print Assumptions C10_bilinear.
Print Assumptions C10_det1.
Print Assumptions C10_det2.
Print Assumptions C10_det.
Print Assumptions C10_det_recursion.
Print Assumptions C10_sources_are_the_modelled_ones.
