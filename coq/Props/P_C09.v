(* P_C09 — Shape functions and indexing move whole polynomial elements like numpy.

   Every listed function is (bridge lemma, regenerated from /repo on every run) an instance of one
   of two wrapper skeletons around the numpy function of the same name.  The theorems say: whatever
   index map that numpy function realises (result element j <- input element i, or a fill), the
   wrapper's result has the requested shape, is well formed, and its element j IS the polynomial
   that sits at i in the operand — for every index map, shape, operand, term/name set and option
   setting.  The concrete index maps of reshape/ravel/flatten, broadcasting, transposition and
   first-axis concatenation are given and characterised too. *)
From mathcomp Require Import all_ssreflect all_algebra.
From SsrMultinomials Require Import mpoly.
From NP Require Import Base Poly Rearr Abs Align Shape RearrP GenShape BridgeShape.
Set Implicit Arguments. Unset Strict Implicit. Unset Printing Implicit Defensive.
Import GRing.Theory.
Local Open Scope ring_scope.

Section C09.
Variable (n : nat) (R : comRingType).
Implicit Types (p r : parr R) (ps : seq (parr R)) (o : opts).

(* M2: one re-arrangement of the whole storage (reshape, transpose, moveaxis, expand_dims,
   atleast_kd, repeat, tile, split family, diag, diagonal, broadcast_arrays, choose, full,
   full_like, basic/advanced indexing, iteration, ravel, flatten, .T) *)
Theorem C09_rearrangement o s sigma p r :
  wfb p -> prearr o s sigma p = Ok r ->
  [/\ wfb r, shape r = s &
      forall j, (j < prodn s)%N ->
        absE n r j = if nth None sigma j is Some i then absE n p i else 0].
Proof. exact: prearr_spec. Qed.

Theorem C09_rearrangement_total o s sigma p :
  wfb p -> size sigma = prodn s -> exists r, prearr o s sigma p = Ok r.
Proof. exact: prearr_total. Qed.

Theorem C09_names_kept o s sigma p r :
  prearr o s sigma p = Ok r ->
  if o_retn o then names r = names p else exists m, names r = mask m (names p).
Proof. exact: prearr_names. Qed.

(* M1: joins (concatenate, stack, hstack, vstack, dstack, where) over operands with arbitrary,
   differing name and term sets *)
Theorem C09_join o s tau ps r :
  all (@wfb R) ps -> pjoin o s tau ps = Ok r ->
  [/\ wfb r, shape r = s &
      forall j, (j < prodn s)%N ->
        absE n r j = absE n (nth (pnil R) ps (nth (0%N, 0%N) tau j).1) (nth (0%N, 0%N) tau j).2].
Proof. exact: pjoin_spec. Qed.

Theorem C09_join_names o s tau ps r :
  o_retn o -> pjoin o s tau ps = Ok r -> names r = cnames ps.
Proof. exact: pjoin_names. Qed.

(* concrete index maps *)
Theorem C09_reshape o s p r :
  wfb p -> prearr o s (sigma_id (psize p)) p = Ok r ->
  [/\ wfb r, shape r = s & forall j, (j < prodn s)%N -> absE n r j = absE n p j].
Proof. exact: preshape_spec. Qed.

Theorem C09_broadcast o t p r :
  wfb p -> prearr o t (sigma_bcast (shape p) t) p = Ok r ->
  [/\ wfb r, shape r = t & forall j, (j < prodn t)%N -> absE n r j = absE n p (bidx (shape p) t j)].
Proof. exact: pbroadcast_spec. Qed.

Theorem C09_transpose o perm p r :
  wfb p -> prearr o (perm_shape (shape p) perm) (sigma_transpose (shape p) perm) p = Ok r ->
  [/\ wfb r, shape r = perm_shape (shape p) perm &
      forall j, (j < prodn (perm_shape (shape p) perm))%N ->
        absE n r j = absE n p (ravel (shape p) (unperm perm (unravel (perm_shape (shape p) perm) j)))].
Proof. exact: ptranspose_spec. Qed.

Theorem C09_concat_index (sizes : seq nat) k i :
  (k < size sizes)%N -> (i < nth 0%N sizes k)%N ->
  nth (0%N, 0%N) (tau_concat0 sizes) (sumn (take k sizes) + i) = (k, i).
Proof. exact: nth_tau_concat0. Qed.
End C09.

(* the code facts the skeleton theorems rest on, for the 26 anchored files of this tree *)
Theorem C09_every_function_is_a_skeleton :
  all good_fact gen_shape_facts /\ size gen_shape_facts = 26%N.
Proof. by split; [exact: bridge_shape_facts | case: bridge_shape_count => -> ->]. Qed.

(* non-vacuity: a 2-element array over q0,q1 re-arranged to 3 elements with a fill *)
From Coq Require Import ZArith.
From mathcomp Require Import ssrZ.
From NP Require Import Harness.
Example C09_example :
  let p := ZParr [:: 0; 1]%nat [:: 2%nat] [:: [:: 1; 0]; [:: 0; 2]]%nat [:: [:: 3; 0]; [:: 0; 5]]%Z in
  wfb p /\
  (if prearr dflt_opts [:: 3%nat] [:: Some 1%nat; None; Some 0%nat] p is Ok r
   then observe r == ([:: 3%nat], [:: [:: ([:: (1, 2)]%nat, 5%Z)]; [::]; [:: ([:: (0, 1)]%nat, 3%Z)]])
   else false).
Proof. by vm_compute. Qed.

Print Assumptions C09_rearrangement.
Print Assumptions C09_rearrangement_total.
Print Assumptions C09_names_kept.
Print Assumptions C09_join.
Print Assumptions C09_join_names.
Print Assumptions C09_reshape.
Print Assumptions C09_broadcast.
Print Assumptions C09_transpose.
Print Assumptions C09_concat_index.
Print Assumptions C09_every_function_is_a_skeleton.
