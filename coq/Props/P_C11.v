(* P_C11 — On constant polynomials every mirrored function behaves like numpy.

   A constant array is what numpoly.polynomial(ndarray) builds: names (q0,), one zero exponent row,
   one coefficient column v.  The wrappers of numpoly map such arrays to such arrays whose column is
   the numpy function's value on v — for every column function, shape and option record — so that
   tonumpy(numpoly.f(const)) = numpy.f(values); the comparison loops reduce to the numeric
   comparisons; the numeric division functions refuse non-constant divisors. *)
From mathcomp Require Import all_ssreflect all_algebra.
From SsrMultinomials Require Import mpoly.
From NP Require Import Base Poly Order Compare Query Rearr Reduce Const Abs ConstP GenConst BridgeConst.
Set Implicit Arguments. Unset Strict Implicit. Unset Printing Implicit Defensive.
Import GRing.Theory Num.Theory.
Local Open Scope ring_scope.

Section C11.
Variable R : comRingType.
Implicit Types (o : opts) (s : seq nat) (u v : seq R).

Theorem C11_constant_value s v : isconstant (pconst s v) /\ tonumpy (pconst s v) = Ok (s, v).
Proof. by split; [exact: isconstant_pconst | exact: tonumpy_pconst]. Qed.

Theorem C11_denotes_constants n s v i : absE n (pconst s v) i = (nth 0 v i)%:MP_[n].
Proof. exact: absE_pconst. Qed.

(* every function applied column-wise (rounding, absolute, negative, logical ..., any f at all) *)
Theorem C11_unary o (f : R -> R) s v : dispatch1 o f (pconst s v) = Ok (pconst s (map f v)).
Proof. exact: dispatch1_const. Qed.

Theorem C11_binary o (f : R -> R -> R) s u v :
  dispatch2 o f (pconst s u) (pconst s v) = Ok (pconst s (zipw f u v)).
Proof. exact: dispatch2_const. Qed.

(* shape functions / indexing and linear reductions (sum, cumsum, mean, diff ...) *)
Theorem C11_rearrangement o s sigma t v : size sigma = prodn s ->
  prearr o s sigma (pconst t v) = Ok (pconst s (ogather sigma v)).
Proof. exact: prearr_const. Qed.

Theorem C11_linear o s W t v : size W = prodn s ->
  plinear o s W (pconst t v) = Ok (pconst s [seq wsum wj v | wj <- W]).
Proof. exact: plinear_const. Qed.

(* numeric division: success implies the guarded operands were constant; violation is refused *)
Theorem C11_division_guard g o f (a b : parr R) r :
  pnumdiv g o f a b = Ok r ->
  exists a' b', [/\ align_polys o [:: a; b] = Ok [:: a'; b'],
                    g_divisor_const g -> isconstant b' & g_dividend_const g -> isconstant a'].
Proof. exact: pnumdiv_guard. Qed.

Theorem C11_division_refuses g o f (a b a' b' : parr R) :
  align_polys o [:: a; b] = Ok [:: a'; b'] ->
  (g_divisor_const g && ~~ isconstant b') || (g_dividend_const g && ~~ isconstant a') ->
  pnumdiv g o f a b = Err FeatureNotSupported.
Proof. exact: pnumdiv_refuses. Qed.

Theorem C11_division_of_constants g o f s u v :
  pnumdiv g o f (pconst s u) (pconst s v) = Ok (pconst s (zipw f u v)).
Proof. exact: pnumdiv_const. Qed.
End C11.

(* the guards as they are in /repo's four division files today *)
Theorem C11_shipped_division_guards : all g_divisor_const gen_guards /\ size gen_guards = 4%N.
Proof. exact: bridge_divisor_guarded. Qed.

Section C11order.
Variable R : realDomainType.
Implicit Types (o : opts) (s : seq nat) (u v : seq R).

Theorem C11_compare code o s u v :
  pcompare code o (pconst s u) (pconst s v)
  = Ok (s, [seq verdict code (nth 0 u i) (nth 0 v i) | i <- iota 0 (prodn s)]).
Proof. exact: pcompare_const. Qed.

Theorem C11_compare_is_numeric (x y : R) :
  [/\ verdict code_gt x y = (y < x), verdict code_ge x y = (y <= x),
      verdict code_lt x y = (x < y) & verdict code_le x y = (x <= y)].
Proof. exact: verdict_shipped. Qed.

Theorem C11_equal o s u v :
  pequal o (pconst s u) (pconst s v) = Ok (s, [seq nth 0 u i == nth 0 v i | i <- iota 0 (prodn s)]).
Proof. exact: pequal_const. Qed.

Theorem C11_maximum_minimum code o s u v :
  pselect code o (pconst s u) (pconst s v)
  = Ok (pconst s [seq (if verdict code (nth 0 u i) (nth 0 v i) then nth 0 u i else nth 0 v i) | i <- iota 0 (prodn s)]).
Proof. exact: pselect_const. Qed.
End C11order.

Print Assumptions C11_constant_value.
Print Assumptions C11_denotes_constants.
Print Assumptions C11_unary.
Print Assumptions C11_binary.
Print Assumptions C11_rearrangement.
Print Assumptions C11_linear.
Print Assumptions C11_division_guard.
Print Assumptions C11_division_refuses.
Print Assumptions C11_division_of_constants.
Print Assumptions C11_shipped_division_guards.
Print Assumptions C11_compare.
Print Assumptions C11_compare_is_numeric.
Print Assumptions C11_equal.
Print Assumptions C11_maximum_minimum.
