(* P_C03 — Returned polynomials are well-formed and regenerate from their attributes. *)
From mathcomp Require Import all_ssreflect all_algebra.
From SsrMultinomials Require Import mpoly.
From NP Require Import Base Poly Abs Clean Shape Align Arith Expr WfP GenClean BridgeClean.
Set Implicit Arguments. Unset Strict Implicit. Unset Printing Implicit Defensive.
Import GRing.Theory.
Local Open Scope ring_scope.

Section C03.
Variable (n : nat) (R : comRingType).
Implicit Types (p q : parr R) (o : opts).

(* the model's clean step is the one in the source *)
Theorem C03_model_applies :
  (forall a b : bool, kexp_eval gen_keep a b = a || ~~ b) /\
  [/\ gen_fallback_zero_constant, gen_names_rule, gen_steps_in_order & gen_retain_defaults_from_options].
Proof. by split; [exact: bridge_keep_term | exact: bridge_clean_structure]. Qed.

(* whatever from_attributes returns is well-formed ... *)
Theorem C03_constructed_is_wf rc rn ns sh rs (cs : seq (seq R)) q :
  all (fun c => size c == prodn sh) cs -> (0 < size ns)%N ->
  from_attributes rc rn ns sh rs cs = Ok q -> wfb q.
Proof. exact: from_attributes_wf. Qed.

(* ... denotes the same polynomial as its input, in the given shape ... *)
Theorem C03_clean_preserves_value rc rn ns sh rs (cs : seq (seq R)) q i :
  from_attributes rc rn ns sh rs cs = Ok q ->
  absE n q i = absL n ns i (zip rs cs) /\ shape q = sh.
Proof. exact: from_attributes_absE. Qed.

(* ... and is produced for every well-formed attribute triple, whatever the retain flags *)
Theorem C03_never_fails_on_wf rc rn ns sh rs (cs : seq (seq R)) :
  size rs = size cs -> (0 < size rs)%N -> uniq rs -> all (fun r => size r == size ns) rs -> uniq ns ->
  exists q, from_attributes rc rn ns sh rs cs = Ok q.
Proof. exact: from_attributes_total. Qed.

(* rebuilding from (exponents, coefficients, names) with the retain flags on is the identity *)
Theorem C03_roundtrip p :
  wfb p -> from_attributes true true (names p) (shape p) (rows p) (cols p) = Ok p.
Proof. exact: roundtrip_retain. Qed.

(* rebuilding a well-formed array from (exponents, coefficients, names) - which is also what rebuilding from todict() does:
   the dict lists the stored (exponent row, coefficient array) pairs in storage order, rows distinct - succeeds under EVERY
   setting of the retain flags, gives a well-formed array of the same shape, and every element denotes the same polynomial *)
Theorem C03_rebuild_any_flags rc rn p :
  wfb p ->
  exists q, [/\ from_attributes rc rn (names p) (shape p) (rows p) (cols p) = Ok q, wfb q, shape q = shape p
               & forall i, absE n q i = absE n p i].
Proof.
move=> wp; have [srs rpos urs wid [csz npos un]] := wfbP wp.
have [q eq] := from_attributes_total rc rn (shape p) srs rpos urs wid un.
exists q; split=> //; first exact: (from_attributes_wf csz npos eq).
- by have [_ ->] := from_attributes_absE n 0 eq.
- by move=> i; have [-> _] := from_attributes_absE n i eq.
Qed.

(* with the flags off exactly the all-zero non-constant terms go (or the zero constant stays) *)
Theorem C03_drops_exactly ns sh rs (cs : seq (seq R)) q :
  size rs = size cs -> from_attributes false true ns sh rs cs = Ok q ->
  terms q = rm_coefs (size (head [::] rs)) (zip rs cs) /\ names q = ns.
Proof. exact: clean_rows_exact. Qed.

Theorem C03_rejects_duplicate_names rc rn ns sh rs (cs : seq (seq R)) q :
  from_attributes rc rn ns sh rs cs = Ok q -> uniq ns.
Proof. exact: reject_duplicate_names. Qed.

Theorem C03_rejects_duplicate_rows ns sh rs (cs : seq (seq R)) :
  size rs = size cs -> ~~ uniq rs ->
  from_attributes true true ns sh rs cs = Err ConstructionError \/
  from_attributes true true ns sh rs cs = Err OtherError.
Proof. exact: reject_duplicate_rows. Qed.

(* invariant form: every result of every composition of the ring operators is well-formed *)
Theorem C03_results_of_expressions_wf o (e : expr R) r :
  leaves_wf e -> eval o e = Ok r -> wfb r.
Proof. by move=> wl ev; have [f [_ w _]] := eval_spec n wl ev. Qed.

End C03.

Print Assumptions C03_model_applies.
Print Assumptions C03_constructed_is_wf.
Print Assumptions C03_clean_preserves_value.
Print Assumptions C03_never_fails_on_wf.
Print Assumptions C03_roundtrip.
Print Assumptions C03_rebuild_any_flags.
Print Assumptions C03_drops_exactly.
Print Assumptions C03_rejects_duplicate_names.
Print Assumptions C03_rejects_duplicate_rows.
Print Assumptions C03_results_of_expressions_wf.
