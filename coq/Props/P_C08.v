(* P_C08 — numpy, numpoly (and method/operator) spellings reach the same function; every other
   overridable numpy function, ufunc and ufunc method is refused.  The registries, the
   reduce/accumulate maps and numpy's list of overridable callables are regenerated on every run;
   the statements quantify over those finite tables (proved by evaluation, lifted with allP). *)
From mathcomp Require Import all_ssreflect.
From NP Require Import Dispatch GenDispatch BridgeDispatch.
Set Implicit Arguments. Unset Strict Implicit. Unset Printing Implicit Defensive.

Definition C := gen_dcode.
Arguments lookup : simpl never.

Lemma verdict_eqbE a b : verdict_eqb a b -> a = b.
Proof. by case: a b => [x||] [y||] //= /eqP ->. Qed.

(* numpy.f(poly, ...) is forwarded, with its arguments, to numpoly's registered function, which is
   numpoly.f — for every registered function of numpy's override protocol *)
Theorem C08_registered_functions_forward f t :
  (f, t) \in gen_functions -> f \in gen_universe_functions ->
  array_function C gen_functions f = Forward t /\ lookup gen_same_name f = Some t.
Proof.
move=> fin uin.
have H : all (fun ft => (ft.1 \in gen_universe_functions) ==>
                (verdict_eqb (array_function C gen_functions ft.1) (Forward ft.2)
                 && (lookup gen_same_name ft.1 == Some ft.2))) gen_functions by vm_compute.
have := allP H _ fin; rewrite uin; cbn [implb fst snd] => /andP[/verdict_eqbE e1 /eqP e2].
by split.
Qed.

Theorem C08_registered_ufuncs_forward u t :
  (u, t) \in gen_ufuncs ->
  array_ufunc C gen_ufuncs gen_reduce gen_accumulate u 0 = Forward t /\ lookup gen_same_name u = Some t.
Proof.
move=> uin.
have H : all (fun ut => verdict_eqb (array_ufunc C gen_ufuncs gen_reduce gen_accumulate ut.1 0) (Forward ut.2)
                        && (lookup gen_same_name ut.1 == Some ut.2)) gen_ufuncs by vm_compute.
have := allP H _ uin; cbn [fst snd] => /andP[/verdict_eqbE e1 /eqP e2].
by split.
Qed.

(* ufunc.reduce / ufunc.accumulate reach the function registered for the mapped numpy function *)
Theorem C08_reduce_accumulate u g m :
  (m = 1 /\ (u, g) \in gen_reduce) \/ (m = 2 /\ (u, g) \in gen_accumulate) ->
  array_ufunc C gen_ufuncs gen_reduce gen_accumulate u m = array_function C gen_ufuncs g.
Proof.
have H1 : all (fun ug => verdict_eqb (array_ufunc C gen_ufuncs gen_reduce gen_accumulate ug.1 1)
                                     (array_function C gen_ufuncs ug.2)) gen_reduce by vm_compute.
have H2 : all (fun ug => verdict_eqb (array_ufunc C gen_ufuncs gen_reduce gen_accumulate ug.1 2)
                                     (array_function C gen_ufuncs ug.2)) gen_accumulate by vm_compute.
by case=> [[-> /(allP H1)]|[-> /(allP H2)]] /verdict_eqbE.
Qed.

(* everything else is refused with FeatureNotSupported: never a KeyError, never a result *)
Theorem C08_unregistered_functions_refused f :
  f \in gen_universe_functions -> lookup gen_functions f = None ->
  array_function C gen_functions f = NotSupported.
Proof. by move=> _ nf; rewrite /array_function nf /C bridge_dcode. Qed.

Theorem C08_ufunc_calls_never_keyerror u m :
  u \in gen_universe_ufuncs ->
  array_ufunc C gen_ufuncs gen_reduce gen_accumulate u m <> RaisesKeyError.
Proof.
move=> _; rewrite /C bridge_dcode /array_ufunc.
case: m => [|[|[|m]]]; cbn [d_reduce_guarded d_accumulate_guarded d_other_methods_rejected d_ufunc_membership good_dcode].
- by case: (lookup gen_ufuncs u).
- by case: (lookup gen_reduce u) => [f|] //; case: (lookup gen_ufuncs f).
- by case: (lookup gen_accumulate u) => [f|] //; case: (lookup gen_ufuncs f).
- by [].
Qed.

Theorem C08_other_methods_refused u m :
  2 < m -> array_ufunc C gen_ufuncs gen_reduce gen_accumulate u m = NotSupported.
Proof. by rewrite /C bridge_dcode; case: m => [|[|[|m]]]. Qed.

Theorem C08_unmapped_reduce_refused u :
  lookup gen_reduce u = None -> array_ufunc C gen_ufuncs gen_reduce gen_accumulate u 1 = NotSupported.
Proof. by move=> nr; rewrite /C bridge_dcode /array_ufunc /= nr. Qed.

Theorem C08_unmapped_accumulate_refused u :
  lookup gen_accumulate u = None -> array_ufunc C gen_ufuncs gen_reduce gen_accumulate u 2 = NotSupported.
Proof. by move=> nr; rewrite /C bridge_dcode /array_ufunc /= nr. Qed.

Print Assumptions C08_registered_functions_forward.
Print Assumptions C08_registered_ufuncs_forward.
Print Assumptions C08_reduce_accumulate.
Print Assumptions C08_unregistered_functions_refused.
Print Assumptions C08_ufunc_calls_never_keyerror.
Print Assumptions C08_other_methods_refused.
Print Assumptions C08_unmapped_reduce_refused.
Print Assumptions C08_unmapped_accumulate_refused.
