(* P_C01 — Ring arithmetic on polynomial arrays is exact.
   Only statements, each closed by [exact], with the axioms printed beneath. *)
From Coq Require Import ZArith.
From mathcomp Require Import all_ssreflect all_algebra ssrZ.
From SsrMultinomials Require Import mpoly.
From NP Require Import Base Poly Harness Abs Clean Shape Align Arith Expr RingLaws.
From NP Require Import GenSource BridgeSrcC01.
Set Implicit Arguments. Unset Strict Implicit. Unset Printing Implicit Defensive.
Import GRing.Theory.
Local Open Scope ring_scope.

Section C01.
Variable (n : nat) (R : comRingType).
Implicit Types (a b c : parr R) (o : opts).

(* binary operators: broadcast shape, element-wise exact value in {mpoly R[n]} *)
Theorem C01_add_refines o a b r :
  wfb a -> wfb b -> padd o a b = Ok r ->
  exists2 s, bshape (shape a) (shape b) = Some s &
    [/\ wfb r, shape r = s & forall i, (i < prodn s)%N ->
        absE n r i = absE n a (bidx (shape a) s i) + absE n b (bidx (shape b) s i)].
Proof. exact: padd_spec. Qed.

Theorem C01_sub_refines o a b r :
  wfb a -> wfb b -> psub o a b = Ok r ->
  exists2 s, bshape (shape a) (shape b) = Some s &
    [/\ wfb r, shape r = s & forall i, (i < prodn s)%N ->
        absE n r i = absE n a (bidx (shape a) s i) - absE n b (bidx (shape b) s i)].
Proof. exact: psub_spec. Qed.

Theorem C01_mul_refines o a b r :
  wfb a -> wfb b -> pmul o a b = Ok r ->
  exists2 s, bshape (shape a) (shape b) = Some s &
    [/\ wfb r, shape r = s & forall i, (i < prodn s)%N ->
        absE n r i = absE n a (bidx (shape a) s i) * absE n b (bidx (shape b) s i)].
Proof. exact: pmul_spec. Qed.

Theorem C01_neg_refines o a r :
  wfb a -> pneg o a = Ok r ->
  [/\ wfb r, shape r = shape a & forall i, absE n r i = - absE n a i].
Proof. exact: pneg_spec. Qed.

Theorem C01_pow_refines o a e r :
  wfb a -> ppow o a e = Ok r ->
  [/\ wfb r, shape r = shape a & forall i, (i < psize a)%N -> absE n r i = absE n a i ^+ e].
Proof. exact: ppow_spec. Qed.

(* shapes that do not broadcast are rejected, nothing is computed *)
Theorem C01_shape_mismatch o a b :
  bshape (shape a) (shape b) = None ->
  [/\ padd o a b = Err ValueError, psub o a b = Err ValueError & pmul o a b = Err ValueError].
Proof. by move=> bs; split; [exact: dispatch2_shape_error|exact: dispatch2_shape_error|exact: pmul_shape_error]. Qed.

(* every composition: structural induction over expression trees, no depth bound *)
Theorem C01_eval_expr_refines o (e : expr R) r :
  leaves_wf e -> eval o e = Ok r -> @agrees n R r (den n e).
Proof. exact: eval_spec. Qed.

(* commutative-ring laws *)
Theorem C01_add_comm o a b r1 r2 :
  wfb a -> wfb b -> padd o a b = Ok r1 -> padd o b a = Ok r2 -> same_value n r1 r2.
Proof. exact: padd_comm. Qed.

Theorem C01_mul_comm o a b r1 r2 :
  wfb a -> wfb b -> pmul o a b = Ok r1 -> pmul o b a = Ok r2 -> same_value n r1 r2.
Proof. exact: pmul_comm. Qed.

Theorem C01_distributive o a b c s :
  wfb a -> wfb b -> wfb c -> shape a = s -> shape b = s -> shape c = s ->
  forall bc ab ac l r,
  padd o b c = Ok bc -> pmul o a bc = Ok l ->
  pmul o a b = Ok ab -> pmul o a c = Ok ac -> padd o ab ac = Ok r -> same_value n l r.
Proof. exact: pmul_padd_distr. Qed.

Theorem C01_mul_assoc o a b c s :
  wfb a -> wfb b -> wfb c -> shape a = s -> shape b = s -> shape c = s ->
  forall ab l bc r,
  pmul o a b = Ok ab -> pmul o ab c = Ok l ->
  pmul o b c = Ok bc -> pmul o a bc = Ok r -> same_value n l r.
Proof. exact: pmul_assoc. Qed.

Theorem C01_pow_add o a s :
  wfb a -> shape a = s -> forall j k pj pk l r,
  ppow o a (j + k) = Ok l -> ppow o a j = Ok pj -> ppow o a k = Ok pk ->
  pmul o pj pk = Ok r -> same_value n l r.
Proof. exact: ppow_add. Qed.

(* broadcasting an array onto its own shape is the identity index map *)
Theorem C01_bidx_id s i : (i < prodn s)%N -> bidx s s i = i.
Proof. exact: bidx_id. Qed.

End C01.

(* ---- non-vacuity: concrete well-formed operands on which the model computes ------ *)
Delimit Scope Z_scope with CZ.
Definition exA : zparr := ZParr [:: 0%N; 2%N] [:: 2%N] [:: [:: 1%N; 0%N]; [:: 0%N; 2%N]]
                                [:: [:: 1%CZ; (-2)%CZ]; [:: 3%CZ; 0%CZ]].
Definition exB : zparr := ZParr [:: 1%N] [:: 1%N] [:: [:: 0%N]; [:: 3%N]] [:: [:: 5%CZ]; [:: (-1)%CZ]].

Example C01_nonvacuous :
  [/\ wfb exA, wfb exB, bshape (shape exA) (shape exB) = Some [:: 2%N],
      (if pmul dflt_opts exA exB is Ok r then size (rows r) == 4%N else false) &
      (if eval dflt_opts (EAdd (EMul (Leaf exA) (Leaf exB)) (EPow (Leaf exB) 2)) is Ok r
       then wfb r else false)].
Proof. by vm_compute. Qed.

(* the /repo functions this model was written from are still, statement by statement, the modelled ones *)
Theorem C01_sources_are_the_modelled_ones :
  all (all id) [:: gen_src_simple_dispatch; gen_src_multiply; gen_src_power] /\ [seq size f | f <- [:: gen_src_simple_dispatch; gen_src_multiply; gen_src_power]] = [:: 8; 10; 6]%N.
Proof. exact: bridge_src_C01. Qed.

Print Assumptions C01_add_refines.
Print Assumptions C01_sub_refines.
Print Assumptions C01_mul_refines.
Print Assumptions C01_neg_refines.
Print Assumptions C01_pow_refines.
Print Assumptions C01_shape_mismatch.
Print Assumptions C01_eval_expr_refines.
Print Assumptions C01_add_comm.
Print Assumptions C01_mul_comm.
Print Assumptions C01_distributive.
Print Assumptions C01_mul_assoc.
Print Assumptions C01_pow_add.
Print Assumptions C01_bidx_id.
Print Assumptions C01_sources_are_the_modelled_ones.
