(* P_C05 — Polynomial division TERMINATES, satisfies dividend = q * divisor + r and stops on a reduced remainder.

   Model/Divmod.v follows divmod.py (bridge lemma over its control flow, regenerated on every run):
   per element, sparse term lists for quotient, running dividend and divisor; the divisor's leading
   term in numpy.lexsort order selects the dividend term to cancel.  For every input, every array
   length and every number of iterations:
     - whenever the loop returns, dividend = q * divisor + r holds exactly, element by element;
     - it only returns when no term of r is divisible by the leading monomial of the divisor;
       hence a divisor whose leading monomial is 1 (a non-zero constant) gives r = 0 and the true
       quotient, and with one indeterminate every term of r has lower degree than the divisor. *)
From mathcomp Require Import all_ssreflect all_algebra.
From SsrMultinomials Require Import mpoly.
From NP Require Import Base Divmod DivmodP DivmodTerm DivmodExact DivmodCut DivmodCutP DivmodCutTerm GenDivmod BridgeDivmod.
Set Implicit Arguments. Unset Strict Implicit. Unset Printing Implicit Defensive.
Import GRing.Theory Num.Theory.
Local Open Scope ring_scope.

Section C05.
Variable (n : nat) (F : fieldType).

Theorem C05_identity fuel (fs gs : seq (spoly F)) out :
  size fs = size gs -> divmod fuel fs gs = Ok out ->
  size out = size fs /\
  forall i, (i < size fs)%N ->
    absS n (nth [::] fs i)
    = absS n (nth ([::], [::]) out i).1 * absS n (nth [::] gs i) + absS n (nth ([::], [::]) out i).2.
Proof. exact: divmod_identity. Qed.

(* the invariant form: every iteration keeps q * divisor + running dividend, and the divisor *)
Theorem C05_step_invariant (e2 e1 : mono) (e : elem F) :
  value n (step_elem e2 e1 e) = value n e /\ e_g (step_elem e2 e1 e) = e_g e.
Proof. exact: step_elem_value. Qed.

Theorem C05_remainder_reduced fuel (fs gs : seq (spoly F)) out i (e2 : mono) m :
  size fs = size gs -> divmod fuel fs gs = Ok out -> (i < size fs)%N ->
  lead (norm (nth [::] gs i)) = Some e2 -> m \in support (nth ([::], [::]) out i).2 -> ~~ mdivides e2 m.
Proof. exact: divmod_reduced. Qed.

Theorem C05_constant_divisor fuel (fs gs : seq (spoly F)) out i (e2 : mono) :
  size fs = size gs -> divmod fuel fs gs = Ok out -> (i < size fs)%N ->
  lead (norm (nth [::] gs i)) = Some e2 -> (forall m, mdivides e2 m) ->
  absS n (nth ([::], [::]) out i).2 = 0 /\
  absS n (nth [::] fs i) = absS n (nth ([::], [::]) out i).1 * absS n (nth [::] gs i).
Proof. exact: divmod_leading_unit. Qed.

Theorem C05_univariate_degree fuel (fs gs : seq (spoly F)) out i (b a : nat) :
  size fs = size gs -> divmod fuel fs gs = Ok out -> (i < size fs)%N ->
  lead (norm (nth [::] gs i)) = Some [:: b] -> [:: a] \in support (nth ([::], [::]) out i).2 -> (a < b)%N.
Proof. exact: divmod_univariate_degree. Qed.

(* TERMINATION: for any number of elements and any dividends/divisors whose monomials all have one
   width D (what alignment produces), some iteration budget suffices — by well-founded descent, in
   the lexicographic product over the elements, of the largest dividend monomial divisible by the
   divisor's leading monomial (numpy.lexsort order on monomials of width D is a well-order) *)
Theorem C05_terminates D (fs gs : seq (spoly F)) :
  all (wp D) fs -> all (wp D) gs -> exists fuel out, divmod fuel fs gs = Ok out.
Proof. exact: divmod_terminates. Qed.

Theorem C05_every_state_terminates D (es : seq (elem F)) :
  all (we D) es -> exists fuel es', run fuel es = Ok es'.
Proof. exact: run_terminates. Qed.

(* each iteration strictly decreases the measure (the invariant behind termination) *)
Theorem C05_iteration_decreases D (es : seq (elem F)) (e2 e1 : mono) :
  all (we D) es -> candidate es = Some (e2, e1) ->
  lexl (olt D) [seq mu (step_elem e2 e1 e) | e <- es] [seq mu e | e <- es].
Proof. exact: step_decreases. Qed.

(* the while-loop of the code is [run] with enough fuel: a larger budget gives the same result *)
Theorem C05_budget_irrelevant fuel (es es' : seq (elem F)) k :
  run fuel es = Ok es' -> run (fuel + k) es = Ok es'.
Proof. exact: run_more. Qed.

(* an exhausted budget is reported as such, never as a result *)
Theorem C05_out_of_fuel_is_an_error (es : seq (elem F)) : run 0 es = Err OutOfFuel.
Proof. by []. Qed.
(* exact multiples: if the dividend of element i is Q0 * divisor (divisor non-zero), the remainder has no term left
   and the quotient is Q0 - for every number of indeterminants, every divisor, several incomparable top terms included *)
Theorem C05_exact_multiple fuel (fs gs : seq (spoly F)) out i (e2 : mono) (Q0 : {mpoly F[n]}) :
  size fs = size gs -> all (wp n) fs -> all (wp n) gs ->
  divmod fuel fs gs = Ok out -> (i < size fs)%N ->
  lead (norm (nth [::] gs i)) = Some e2 ->
  absS n (nth [::] fs i) = Q0 * absS n (nth [::] gs i) ->
  support (nth ([::], [::]) out i).2 = [::] /\ absS n (nth ([::], [::]) out i).1 = Q0.
Proof. exact: divmod_exact. Qed.

(* why: the top terms of a product never cancel in the numpy.lexsort order *)
Theorem C05_top_terms_multiply (E G : {mpoly F[n]}) a b :
  top E a -> top G b -> (E * G)@_(a + b)%MM = E@_a * G@_b.
Proof. exact: top_coeff. Qed.

End C05.

(* ---- the cut-off of get_division_candidate (a pair whose candidate coefficient is below the cut-off in EVERY element of
   the array is skipped; Model/DivmodCut.v, run against the code with cut-offs large enough to matter) ---- *)
Section C05_cutoff.
Variables (n : nat).

(* whatever pair the search hands to the loop, dividend = q * divisor + r is kept *)
Theorem C05_identity_for_any_search (F : fieldType) (cand : seq (elem F) -> option (mono * mono)) fuel (fs gs : seq (spoly F)) out :
  size fs = size gs -> divmod_with cand fuel fs gs = Ok out ->
  size out = size fs /\
  forall i, (i < size fs)%N ->
    absS n (nth [::] fs i) = absS n (nth ([::], [::]) out i).1 * absS n (nth [::] gs i) + absS n (nth ([::], [::]) out i).2.
Proof. exact: divmod_with_identity. Qed.

(* in particular for EVERY cut-off *)
Theorem C05_identity_for_every_cutoff (F : numFieldType) (eps : F) fuel (fs gs : seq (spoly F)) out :
  size fs = size gs -> divmod_cut eps fuel fs gs = Ok out ->
  size out = size fs /\
  forall i, (i < size fs)%N ->
    absS n (nth [::] fs i) = absS n (nth ([::], [::]) out i).1 * absS n (nth [::] gs i) + absS n (nth ([::], [::]) out i).2.
Proof. exact: divmod_cut_identity. Qed.

(* the loop with a cut-off stops only when every remaining term that a leading monomial divides has a candidate
   coefficient below the cut-off in every element *)
Theorem C05_cutoff_remainder (F : numFieldType) (eps : F) fuel es es' (e : elem F) (e2 : mono) m :
  run_cut eps fuel es = Ok es' -> e \in es' -> lead (e_g e) = Some e2 -> m \in support (e_d e) -> mdivides e2 m ->
  forall e', e' \in es' -> `|cand_coef e2 m e'| < eps.
Proof. by move=> /divmod_cut_stops; exact: candidate_cut_none. Qed.

(* TERMINATION FOR EVERY CUT-OFF (whatever it skips): per element, the SET of dividend monomials that the leading monomial
   divides decreases in the lexicographic order on strictly descending lists, which is well-founded over a well-order *)
Theorem C05_terminates_for_every_cutoff (F : numFieldType) (eps : F) D (fs gs : seq (spoly F)) :
  all (wp D) fs -> all (wp D) gs -> exists fuel out, divmod_cut eps fuel fs gs = Ok out.
Proof. exact: divmod_cut_terminates. Qed.

(* ... and for every search that only proposes pairs (e2, e1), e2 | e1, at which some element takes part *)
Theorem C05_terminates_for_any_good_search (F : fieldType) D (cand : seq (elem F) -> option (mono * mono)) (fs gs : seq (spoly F)) :
  good_search D cand -> all (wp D) fs -> all (wp D) gs -> exists fuel out, divmod_with cand fuel fs gs = Ok out.
Proof. by move=> good; apply: (divmod_with_terminates good). Qed.

(* a cut-off that is not positive skips nothing: the loop is the one of Divmod.v *)
Theorem C05_cutoff_zero (F : numFieldType) (eps : F) fuel fs gs :
  eps <= 0 -> divmod_cut eps fuel fs gs = divmod fuel fs gs.
Proof. by move=> e0; exact: divmod_cut0. Qed.
End C05_cutoff.

(* the cut-off does change the result when it is large (1/4): q0^2 + q0/8 + 3 by 2 q0 + 1 *)
Example C05_cutoff_example :
  let Q := [numFieldType of rat] in
  let f : spoly Q := [:: ([:: 2%N], 1); ([:: 1%N], 1 / 8%:R); ([:: 0%N], 3%:R)] in
  let g : spoly Q := [:: ([:: 1%N], 2%:R); ([:: 0%N], 1)] in
  divmod_cut (1 / 4%:R : Q) 10 [:: f] [:: g] = Ok [:: ([:: ([:: 1%N], 1 / 2%:R)], [:: ([:: 0%N], 3%:R); ([:: 1%N], - (3%:R / 8%:R))])].
Proof. by vm_compute. Qed.

Theorem C05_control_flow_of_the_source : gen_divmod_facts = nseq 11 true.
Proof. exact: bridge_divmod_facts. Qed.

(* non-vacuity and the formerly looping input: (q0^3 + q0 q1 + 1) / (q0 + q1) = q0 rem q0^3 - q0^2 + 1 *)
Definition Q := [fieldType of rat].
Example C05_example_terminates :
  let f : spoly Q := [:: ([:: 3; 0]%N, 1); ([:: 1; 1]%N, 1); ([:: 0; 0]%N, 1)] in
  let g : spoly Q := [:: ([:: 1; 0]%N, 1); ([:: 0; 1]%N, 1)] in
  if divmod 5 [:: f] [:: g] is Ok [:: (q, r)]
  then perm_eq q [:: ([:: 1; 0]%N, 1)] && perm_eq r [:: ([:: 3; 0]%N, 1); ([:: 2; 0]%N, -1); ([:: 0; 0]%N, 1)]
  else false.
Proof. by vm_compute. Qed.

(* exact multiple, two indeterminants, divisor with incomparable top terms: (q1^2 - 2 q0)(q0 + 3) / (q1^2 - 2 q0) *)
Example C05_example_exact :
  let g : spoly Q := [:: ([:: 0; 2]%N, 1); ([:: 1; 0]%N, -2%:Q)] in
  let f : spoly Q := [:: ([:: 1; 2]%N, 1); ([:: 2; 0]%N, -2%:Q); ([:: 0; 2]%N, 3%:Q); ([:: 1; 0]%N, -6%:Q)] in
  if divmod 6 [:: f] [:: g] is Ok [:: (q, r)]
  then perm_eq q [:: ([:: 1; 0]%N, 1); ([:: 0; 0]%N, 3%:Q)] && (r == [::]) && (lead (norm g) == Some [:: 0; 2]%N)
  else false.
Proof. by vm_compute. Qed.

Print Assumptions C05_identity.
Print Assumptions C05_step_invariant.
Print Assumptions C05_remainder_reduced.
Print Assumptions C05_constant_divisor.
Print Assumptions C05_univariate_degree.
Print Assumptions C05_terminates.
Print Assumptions C05_every_state_terminates.
Print Assumptions C05_iteration_decreases.
Print Assumptions C05_budget_irrelevant.
Print Assumptions C05_out_of_fuel_is_an_error.
Print Assumptions C05_exact_multiple.
Print Assumptions C05_top_terms_multiply.
Print Assumptions C05_control_flow_of_the_source.
Print Assumptions C05_identity_for_any_search.
Print Assumptions C05_identity_for_every_cutoff.
Print Assumptions C05_cutoff_remainder.
Print Assumptions C05_cutoff_zero.
Print Assumptions C05_terminates_for_every_cutoff.
Print Assumptions C05_terminates_for_any_good_search.
Print Assumptions C05_cutoff_example.
