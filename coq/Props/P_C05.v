(* P_C05 — Polynomial division TERMINATES, satisfies dividend = q * divisor + r and stops on a reduced remainder.

   Model/Divmod.v follows divmod.py (bridge lemma over its control flow, regenerated on every run):
   per element, sparse term lists for quotient, running dividend and divisor; the divisor's leading
   term in numpy.lexsort order selects the dividend term to cancel.  For every input, every array
   length and every number of iterations:
     - whenever the loop returns, dividend = q * divisor + r holds exactly, element by element;
     - it only returns when no term of r is divisible by the leading monomial of the divisor;
       hence a divisor whose leading monomial is 1 (a non-zero constant) gives r = 0 and the true
       quotient, and with one indeterminate every term of r has lower degree than the divisor. *)
From mathcomp Require Import all_ssreflect all_algebra.
From SsrMultinomials Require Import mpoly.
From NP Require Import Base Divmod DivmodP DivmodTerm DivmodExact GenDivmod BridgeDivmod.
Set Implicit Arguments. Unset Strict Implicit. Unset Printing Implicit Defensive.
Import GRing.Theory.
Local Open Scope ring_scope.

Section C05.
Variable (n : nat) (F : fieldType).

Theorem C05_identity fuel (fs gs : seq (spoly F)) out :
  size fs = size gs -> divmod fuel fs gs = Ok out ->
  size out = size fs /\
  forall i, (i < size fs)%N ->
    absS n (nth [::] fs i)
    = absS n (nth ([::], [::]) out i).1 * absS n (nth [::] gs i) + absS n (nth ([::], [::]) out i).2.
Proof. exact: divmod_identity. Qed.

(* the invariant form: every iteration keeps q * divisor + running dividend, and the divisor *)
Theorem C05_step_invariant (e2 e1 : mono) (e : elem F) :
  value n (step_elem e2 e1 e) = value n e /\ e_g (step_elem e2 e1 e) = e_g e.
Proof. exact: step_elem_value. Qed.

Theorem C05_remainder_reduced fuel (fs gs : seq (spoly F)) out i (e2 : mono) m :
  size fs = size gs -> divmod fuel fs gs = Ok out -> (i < size fs)%N ->
  lead (norm (nth [::] gs i)) = Some e2 -> m \in support (nth ([::], [::]) out i).2 -> ~~ mdivides e2 m.
Proof. exact: divmod_reduced. Qed.

Theorem C05_constant_divisor fuel (fs gs : seq (spoly F)) out i (e2 : mono) :
  size fs = size gs -> divmod fuel fs gs = Ok out -> (i < size fs)%N ->
  lead (norm (nth [::] gs i)) = Some e2 -> (forall m, mdivides e2 m) ->
  absS n (nth ([::], [::]) out i).2 = 0 /\
  absS n (nth [::] fs i) = absS n (nth ([::], [::]) out i).1 * absS n (nth [::] gs i).
Proof. exact: divmod_leading_unit. Qed.

Theorem C05_univariate_degree fuel (fs gs : seq (spoly F)) out i (b a : nat) :
  size fs = size gs -> divmod fuel fs gs = Ok out -> (i < size fs)%N ->
  lead (norm (nth [::] gs i)) = Some [:: b] -> [:: a] \in support (nth ([::], [::]) out i).2 -> (a < b)%N.
Proof. exact: divmod_univariate_degree. Qed.

(* TERMINATION: for any number of elements and any dividends/divisors whose monomials all have one
   width D (what alignment produces), some iteration budget suffices — by well-founded descent, in
   the lexicographic product over the elements, of the largest dividend monomial divisible by the
   divisor's leading monomial (numpy.lexsort order on monomials of width D is a well-order) *)
Theorem C05_terminates D (fs gs : seq (spoly F)) :
  all (wp D) fs -> all (wp D) gs -> exists fuel out, divmod fuel fs gs = Ok out.
Proof. exact: divmod_terminates. Qed.

Theorem C05_every_state_terminates D (es : seq (elem F)) :
  all (we D) es -> exists fuel es', run fuel es = Ok es'.
Proof. exact: run_terminates. Qed.

(* each iteration strictly decreases the measure (the invariant behind termination) *)
Theorem C05_iteration_decreases D (es : seq (elem F)) (e2 e1 : mono) :
  all (we D) es -> candidate es = Some (e2, e1) ->
  lexl (olt D) [seq mu (step_elem e2 e1 e) | e <- es] [seq mu e | e <- es].
Proof. exact: step_decreases. Qed.

(* the while-loop of the code is [run] with enough fuel: a larger budget gives the same result *)
Theorem C05_budget_irrelevant fuel (es es' : seq (elem F)) k :
  run fuel es = Ok es' -> run (fuel + k) es = Ok es'.
Proof. exact: run_more. Qed.

(* an exhausted budget is reported as such, never as a result *)
Theorem C05_out_of_fuel_is_an_error (es : seq (elem F)) : run 0 es = Err OutOfFuel.
Proof. by []. Qed.
(* exact multiples: if the dividend of element i is Q0 * divisor (divisor non-zero), the remainder has no term left
   and the quotient is Q0 - for every number of indeterminants, every divisor, several incomparable top terms included *)
Theorem C05_exact_multiple fuel (fs gs : seq (spoly F)) out i (e2 : mono) (Q0 : {mpoly F[n]}) :
  size fs = size gs -> all (wp n) fs -> all (wp n) gs ->
  divmod fuel fs gs = Ok out -> (i < size fs)%N ->
  lead (norm (nth [::] gs i)) = Some e2 ->
  absS n (nth [::] fs i) = Q0 * absS n (nth [::] gs i) ->
  support (nth ([::], [::]) out i).2 = [::] /\ absS n (nth ([::], [::]) out i).1 = Q0.
Proof. exact: divmod_exact. Qed.

(* why: the top terms of a product never cancel in the numpy.lexsort order *)
Theorem C05_top_terms_multiply (E G : {mpoly F[n]}) a b :
  top E a -> top G b -> (E * G)@_(a + b)%MM = E@_a * G@_b.
Proof. exact: top_coeff. Qed.

End C05.

Theorem C05_control_flow_of_the_source : gen_divmod_facts = nseq 11 true.
Proof. exact: bridge_divmod_facts. Qed.

(* non-vacuity and the formerly looping input: (q0^3 + q0 q1 + 1) / (q0 + q1) = q0 rem q0^3 - q0^2 + 1 *)
Definition Q := [fieldType of rat].
Example C05_example_terminates :
  let f : spoly Q := [:: ([:: 3; 0]%N, 1); ([:: 1; 1]%N, 1); ([:: 0; 0]%N, 1)] in
  let g : spoly Q := [:: ([:: 1; 0]%N, 1); ([:: 0; 1]%N, 1)] in
  if divmod 5 [:: f] [:: g] is Ok [:: (q, r)]
  then perm_eq q [:: ([:: 1; 0]%N, 1)] && perm_eq r [:: ([:: 3; 0]%N, 1); ([:: 2; 0]%N, -1); ([:: 0; 0]%N, 1)]
  else false.
Proof. by vm_compute. Qed.

(* exact multiple, two indeterminants, divisor with incomparable top terms: (q1^2 - 2 q0)(q0 + 3) / (q1^2 - 2 q0) *)
Example C05_example_exact :
  let g : spoly Q := [:: ([:: 0; 2]%N, 1); ([:: 1; 0]%N, -2%:Q)] in
  let f : spoly Q := [:: ([:: 1; 2]%N, 1); ([:: 2; 0]%N, -2%:Q); ([:: 0; 2]%N, 3%:Q); ([:: 1; 0]%N, -6%:Q)] in
  if divmod 6 [:: f] [:: g] is Ok [:: (q, r)]
  then perm_eq q [:: ([:: 1; 0]%N, 1); ([:: 0; 0]%N, 3%:Q)] && (r == [::]) && (lead (norm g) == Some [:: 0; 2]%N)
  else false.
Proof. by vm_compute. Qed.

Print Assumptions C05_identity.
Print Assumptions C05_step_invariant.
Print Assumptions C05_remainder_reduced.
Print Assumptions C05_constant_divisor.
Print Assumptions C05_univariate_degree.
Print Assumptions C05_terminates.
Print Assumptions C05_every_state_terminates.
Print Assumptions C05_iteration_decreases.
Print Assumptions C05_budget_irrelevant.
Print Assumptions C05_out_of_fuel_is_an_error.
Print Assumptions C05_exact_multiple.
Print Assumptions C05_top_terms_multiply.
Print Assumptions C05_control_flow_of_the_source.
