(* P_C14 — Global options are scoped, restored on every exit path, and updated atomically.
   Statements are about the model instantiated with the facts regenerated from option.py. *)
From mathcomp Require Import all_ssreflect.
From NP Require Import Options OptionsP GenOptions BridgeOptions.
Set Implicit Arguments. Unset Strict Implicit. Unset Printing Implicit Defensive.

(* a reachable state: any history of nested programs run from the shipped defaults *)
Definition initial := OState gen_defaults gen_defaults.
Definition after (history : seq prog) : ostate := r_state (exec_seq gen_code history initial).

Lemma reachable_inv history : inv (keys gen_defaults) gen_defaults (after history).
Proof.
have [u _ _] := bridge_option_defaults.
by rewrite /after bridge_option_code; apply: history_inv.
Qed.

Theorem C14_block_restores history kw body :
  r_state (exec gen_code (PBlock kw body) (after history)) = after history.
Proof.
have [u _ _] := bridge_option_defaults.
rewrite bridge_option_code; apply: (block_restores u).
exact: reachable_inv.
Qed.

Theorem C14_enter_sets_exactly history kw body :
  let x := after history in
  all_valid (st x) kw ->
  head (snap TOk x) (r_trace (exec gen_code (PBlock kw body) x))
    = snap TOk (OState (update (st x) kw) (df x))
  /\ (forall k, k \notin unzip1 kw -> lookup (update (st x) kw) k = lookup (st x) k)
  /\ (forall k v, uniq (unzip1 kw) -> (k, v) \in kw -> lookup (update (st x) kw) k = Some v).
Proof.
move=> x av; split; first by rewrite bridge_option_code; apply: enter_sets_exactly.
by split=> [k|k v]; [apply: lookup_update_other | apply: lookup_update_given].
Qed.

Theorem C14_invalid_key_atomic history kw body :
  let x := after history in
  ~~ all_valid (st x) kw ->
  exec gen_code (PSet kw) x = ORes x false [:: snap TKeyError x] /\
  exec gen_code (PBlock kw body) x = ORes x false [:: snap TKeyError x].
Proof. by move=> x; rewrite bridge_option_code; apply: invalid_key_atomic. Qed.

Theorem C14_get_detached history k v :
  let x := after history in
  exec gen_code (PGetMut k v) x = ORes x false [:: snap TOk x] /\
  exec gen_code (PDefMut k v) x = ORes x false [:: snap TOk x].
Proof. by move=> x; rewrite bridge_option_code; apply: get_detached. Qed.

Theorem C14_defaults_constant history :
  df (after history) = gen_defaults /\ keys (st (after history)) = keys gen_defaults.
Proof. by have [] := reachable_inv history. Qed.

(* ---- non-vacuity and sensitivity: each code fact matters ------------------------------ *)
Definition kA := [:: (7, 1)].            (* retain_names := alt *)
Definition kBad := [:: (9, 1); (99, 1)]. (* a valid key followed by an unknown one *)

Example C14_nonvacuous :
  let h := [:: PBlock kA [:: PSet [:: (8, 1)]; PTry [:: PBlock [:: (9, 1)] [:: PRaise]]]; PSet kA] in
  [/\ all_valid (st (after h)) kA, ~~ all_valid (st (after h)) kBad,
      lookup (st (after h)) 7 = Some 1 & lookup (st (after h)) 8 = Some 0].
Proof. by vm_compute. Qed.

Definition differs (c : ocode) (h : seq prog) : bool :=
  run_enc c gen_defaults h != run_enc good_code gen_defaults h.

Example C14_sensitive :
  [/\ differs (OCode false true true true true 1 true true) [:: PSet kA],
      differs (OCode true false true true true 1 true true) [:: PGetMut 7 1],
      differs (OCode true true false true true 1 true true) [:: PDefMut 7 1],
      differs (OCode true true true false true 1 true true) [:: PSet kBad] &
   [/\ differs (OCode true true true true false 1 true true) [:: PSet kBad],
       differs (OCode true true true true true 0 true true) [:: PBlock kA [::]],
       differs (OCode true true true true true 1 false true) [:: PTry [:: PBlock kA [:: PRaise]]] &
       differs (OCode true true true true true 1 true false) [:: PBlock kA [::]]]].
Proof. by vm_compute. Qed.

Print Assumptions C14_block_restores.
Print Assumptions C14_enter_sets_exactly.
Print Assumptions C14_invalid_key_atomic.
Print Assumptions C14_get_detached.
Print Assumptions C14_defaults_constant.
