(* P_C15 — Option settings never change the mathematical result.

   The model functions take the option record explicitly.  For ANY two option records the ring
   operations and every expression tree over them, differentiation, re-arrangements, joins and linear
   reductions return arrays of the same shape denoting the same polynomials, and succeed under one
   record iff they succeed under the other (proved for the operations listed); the retain flags only
   decide the layout; the sort flags are not read at all by these functions (they are literally the
   same functions); and, on /repo's current source, display options are read by the printing modules
   only, sort options by the order-defined functions only, retain options by clean.py only. *)
From mathcomp Require Import all_ssreflect all_algebra.
From SsrMultinomials Require Import mpoly.
From NP Require Import Base Poly Deriv Rearr Reduce Abs Expr OptIrrP GenOptRead BridgeOptRead MulTotal DerivTotal HessTotal.
From NP Require Import Eval EvalP Persist PersistP.
Set Implicit Arguments. Unset Strict Implicit. Unset Printing Implicit Defensive.
Import GRing.Theory.
Local Open Scope ring_scope.

Section C15.
Variable (n : nat) (R : comRingType).
Implicit Types (p r a b : parr R) (o : opts) (e : expr R).

Theorem C15_expression_value o1 o2 e r1 r2 :
  leaves_wf e -> eval o1 e = Ok r1 -> eval o2 e = Ok r2 ->
  shape r1 = shape r2 /\ forall i, absE n r1 i = absE n r2 i.
Proof. exact: eval_opts_value. Qed.

Theorem C15_add_never_fails_differently o1 o2 a b r1 :
  wfb a -> wfb b -> padd o1 a b = Ok r1 -> exists r2, padd o2 a b = Ok r2.
Proof. exact: padd_opts_success. Qed.

Theorem C15_sub_never_fails_differently o1 o2 a b r1 :
  wfb a -> wfb b -> psub o1 a b = Ok r1 -> exists r2, psub o2 a b = Ok r2.
Proof. exact: psub_opts_success. Qed.

Theorem C15_neg_never_fails o a : wfb a -> exists r, pneg o a = Ok r.
Proof. by move=> wa; apply: (pneg_opts_success o o). Qed.

(* products, powers and every expression tree over + - neg * **: success does not depend on the options *)
Theorem C15_product_never_fails o a b s :
  wfb a -> wfb b -> bshape (shape a) (shape b) = Some s -> exists q, pmul o a b = Ok q.
Proof. exact: pmul_total. Qed.

Theorem C15_power_never_fails o a (k : nat) : wfb a -> exists q, ppow o a k = Ok q.
Proof. exact: ppow_total. Qed.

Theorem C15_expression_success o1 o2 (e : expr R) r1 :
  leaves_wf e -> eval o1 e = Ok r1 -> exists r2, eval o2 e = Ok r2.
Proof. exact: eval_opts_success. Qed.

(* differentiation with respect to indeterminates of the polynomial never fails, whatever the options *)
Theorem C15_derivative_never_fails o p (vs : seq 'I_n) :
  wfb p -> all (fun v : 'I_n => nat_of_ord v \in names p) vs ->
  exists r, derivative o p [seq nat_of_ord v | v <- vs] = Ok r.
Proof. exact: derivative_total. Qed.

Theorem C15_gradient_never_fails o p (vs : seq 'I_n) :
  wfb p -> names p = [seq nat_of_ord v | v <- vs] -> exists r, gradient o p = Ok r.
Proof. exact: gradient_total. Qed.

Theorem C15_hessian_never_fails o p (vs : seq 'I_n) :
  wfb p -> names p = [seq nat_of_ord v | v <- vs] -> exists r, hessian o p = Ok r.
Proof. exact: hessian_total. Qed.

(* (un)pickling never fails, whatever flags __reduce__ passes and whatever the options say, and gives back the same
   polynomials in the same shape (restated from C13) *)
Theorem C15_pickle_never_fails o f p :
  wfb p -> (0 < psize p)%N ->
  exists q, [/\ pickle_roundtrip o f p = Ok q, wfb q, shape q = shape p & forall i, absE n q i = absE n p i].
Proof. exact: reduce_rebuild. Qed.

(* evaluating at numbers: the model takes no option record at all (no option is read on that path - the read-sets below),
   and it succeeds for every well-formed array and all arguments whose shapes broadcast, with the value of every element
   at every point (restated from C02) *)
Theorem C15_numeric_call_never_fails p bound s :
  wfb p -> all (fun v => v < n)%N (names p) -> size bound = size (names p) ->
  bshapes [seq arg_shape a | a <- bound] = Some s ->
  exists2 vals, call_numeric p bound = Ok (shape p ++ s, vals) &
    forall i j, (i < psize p)%N -> (j < prodn s)%N ->
      nth 0 vals (i * prodn s + j) = (absE n p i).@[point (names p) bound s j].
Proof. exact: call_numeric_spec. Qed.

Theorem C15_retain_only_layout rc1 rn1 rc2 rn2 ns sh rs (cs : seq (seq R)) q1 q2 :
  from_attributes rc1 rn1 ns sh rs cs = Ok q1 -> from_attributes rc2 rn2 ns sh rs cs = Ok q2 ->
  shape q1 = shape q2 /\ forall i, absE n q1 i = absE n q2 i.
Proof. exact: retain_only_layout. Qed.

Theorem C15_sort_flags_unread o g h :
  [/\ padd (R:=R) (with_sort o g h) = padd o, psub (R:=R) (with_sort o g h) = psub o,
      pmul (R:=R) (with_sort o g h) = pmul o, pneg (R:=R) (with_sort o g h) = pneg o &
      [/\ clean (R:=R) (with_sort o g h) = clean o,
          prearr (R:=R) (with_sort o g h) = prearr o,
          pjoin (R:=R) (with_sort o g h) = pjoin o &
          plinear (R:=R) (with_sort o g h) = plinear o]].
Proof. exact: sort_flags_unread. Qed.

Theorem C15_sort_flags_unread_expression o g h e : eval (with_sort o g h) e = eval o e.
Proof. exact: sort_flags_unread_eval. Qed.

Theorem C15_derivative o1 o2 p (vs : seq 'I_n) r1 r2 :
  wfb p -> all (fun v : 'I_n => nat_of_ord v \in names p) vs ->
  derivative o1 p [seq nat_of_ord v | v <- vs] = Ok r1 ->
  derivative o2 p [seq nat_of_ord v | v <- vs] = Ok r2 ->
  shape r1 = shape r2 /\ forall i, absE n r1 i = absE n r2 i.
Proof. exact: derivative_opts_value. Qed.

Theorem C15_rearrangement o1 o2 s sigma p r1 :
  wfb p -> prearr o1 s sigma p = Ok r1 ->
  exists2 r2, prearr o2 s sigma p = Ok r2 & shape r1 = shape r2 /\ forall i, absE n r1 i = absE n r2 i.
Proof.
move=> wp e1; have [r2 e2] := prearr_opts_success o2 wp e1.
by exists r2 => //; apply: prearr_opts_value e1 e2.
Qed.

Theorem C15_join o1 o2 s tau (ps : seq (parr R)) r1 r2 :
  all (@wfb R) ps -> pjoin o1 s tau ps = Ok r1 -> pjoin o2 s tau ps = Ok r2 ->
  shape r1 = shape r2 /\ forall i, absE n r1 i = absE n r2 i.
Proof. exact: pjoin_opts_value. Qed.

Theorem C15_linear_reduction o1 o2 s W p r1 :
  wfb p -> plinear o1 s W p = Ok r1 ->
  exists2 r2, plinear o2 s W p = Ok r2 & shape r1 = shape r2 /\ forall i, absE n r1 i = absE n r2 i.
Proof.
move=> wp e1; have [r2 e2] := plinear_opts_success o2 wp e1.
by exists r2 => //; apply: plinear_opts_value e1 e2.
Qed.
End C15.

(* what /repo's modules read today *)
Theorem C15_option_read_sets : all read_allowed gen_option_reads.
Proof. exact: bridge_option_reads. Qed.

Print Assumptions C15_expression_value.
Print Assumptions C15_add_never_fails_differently.
Print Assumptions C15_sub_never_fails_differently.
Print Assumptions C15_neg_never_fails.
Print Assumptions C15_product_never_fails.
Print Assumptions C15_power_never_fails.
Print Assumptions C15_expression_success.
Print Assumptions C15_derivative_never_fails.
Print Assumptions C15_gradient_never_fails.
Print Assumptions C15_hessian_never_fails.
Print Assumptions C15_pickle_never_fails.
Print Assumptions C15_numeric_call_never_fails.
Print Assumptions C15_retain_only_layout.
Print Assumptions C15_sort_flags_unread.
Print Assumptions C15_sort_flags_unread_expression.
Print Assumptions C15_derivative.
Print Assumptions C15_rearrangement.
Print Assumptions C15_join.
Print Assumptions C15_linear_reduction.
Print Assumptions C15_option_read_sets.
