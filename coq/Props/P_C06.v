(* P_C06 — Derivative, gradient (and Hessian) are the formal partial derivatives. *)
From mathcomp Require Import all_ssreflect all_algebra.
From SsrMultinomials Require Import mpoly.
From NP Require Import Base Poly Deriv Abs Align Arith DerivP StackP HessP.
From NP Require Import GenSource BridgeSrcC06.
Set Implicit Arguments. Unset Strict Implicit. Unset Printing Implicit Defensive.
Import GRing.Theory.
Local Open Scope ring_scope.

Section C06.
Variable (n : nat) (R : comRingType).
Implicit Types (p a b : parr R) (o : opts) (v w : 'I_n).

(* for every option setting o: successive variables differentiate successively, and the
   result is SsrMultinomials' formal partial derivative of every element *)
Theorem C06_derivative o p (vs : seq 'I_n) r :
  wfb p -> all (fun v : 'I_n => nat_of_ord v \in names p) vs ->
  derivative o p [seq nat_of_ord v | v <- vs] = Ok r ->
  [/\ wfb r, shape r = shape p &
      forall i, absE n r i = foldl (fun acc v => acc^`M(v)) (absE n p i) vs].
Proof. exact: derivative_spec. Qed.

Theorem C06_unknown_variable o p (x : nat) : x \notin names p -> derivative o p [:: x] = Err ValueError.
Proof. exact: derivative_unknown. Qed.

Theorem C06_mixed_partials_commute o p v w r1 r2 :
  wfb p -> nat_of_ord v \in names p -> nat_of_ord w \in names p ->
  derivative o p [:: nat_of_ord v; nat_of_ord w] = Ok r1 ->
  derivative o p [:: nat_of_ord w; nat_of_ord v] = Ok r2 ->
  shape r1 = shape r2 /\ forall i, absE n r1 i = absE n r2 i.
Proof. exact: derivative_schwarz. Qed.

Theorem C06_linear o a b s v r :
  wfb a -> wfb b -> padd o a b = Ok s -> nat_of_ord v \in names s ->
  derivative o s [:: nat_of_ord v] = Ok r ->
  exists2 sh, bshape (shape a) (shape b) = Some sh &
    shape r = sh /\ forall i, (i < prodn sh)%N ->
      absE n r i = (absE n a (bidx (shape a) sh i))^`M(v) + (absE n b (bidx (shape b) sh i))^`M(v).
Proof. exact: derivative_add. Qed.

Theorem C06_product_rule o a b s v r :
  wfb a -> wfb b -> pmul o a b = Ok s -> nat_of_ord v \in names s ->
  derivative o s [:: nat_of_ord v] = Ok r ->
  exists2 sh, bshape (shape a) (shape b) = Some sh &
    shape r = sh /\ forall i, (i < prodn sh)%N ->
      let x := absE n a (bidx (shape a) sh i) in let y := absE n b (bidx (shape b) sh i) in
      absE n r i = x^`M(v) * y + x * y^`M(v).
Proof. exact: derivative_mul. Qed.

(* gradient: shape (D,) + p.shape, first partials in indeterminate order *)
Theorem C06_gradient o p (vs : seq 'I_n) r :
  wfb p -> names p = [seq nat_of_ord v | v <- vs] -> gradient o p = Ok r ->
  [/\ wfb r, shape r = size (names p) :: shape p &
      forall (v0 : 'I_n) j i, (j < size vs)%N -> (i < psize p)%N ->
        absE n r (j * psize p + i) = (absE n p i)^`M(nth v0 vs j)].
Proof. exact: gradient_spec. Qed.


(* hessian: shape (D, D) + p.shape, entry (k, j) is the second partial with respect to the j-th and then the
   k-th indeterminate — for every option record *)
Theorem C06_hessian o p (vs : seq 'I_n) r :
  wfb p -> names p = [seq nat_of_ord v | v <- vs] -> hessian o p = Ok r ->
  let D := size (names p) in
  [/\ wfb r, shape r = D :: D :: shape p &
      forall (v0 : 'I_n) k j i, (k < D)%N -> (j < D)%N -> (i < psize p)%N ->
        absE n r (k * (D * psize p) + (j * psize p + i)) = ((absE n p i)^`M(nth v0 vs j))^`M(nth v0 vs k)].
Proof. exact: hessian_spec. Qed.
End C06.

(* the /repo functions this model was written from are still, statement by statement, the modelled ones *)
Theorem C06_sources_are_the_modelled_ones :
  all (all id) [:: gen_src_derivative; gen_src_gradient; gen_src_hessian] /\ [seq size f | f <- [:: gen_src_derivative; gen_src_gradient; gen_src_hessian]] = [:: 4; 3; 4]%N.
Proof. exact: bridge_src_C06. Qed.

Print Assumptions C06_derivative.
Print Assumptions C06_unknown_variable.
Print Assumptions C06_mixed_partials_commute.
Print Assumptions C06_linear.
Print Assumptions C06_product_rule.
Print Assumptions C06_gradient.
Print Assumptions C06_hessian.
Print Assumptions C06_sources_are_the_modelled_ones.
