(* P_C07 — Comparison operators form one documented strict total order. *)
From mathcomp Require Import all_ssreflect all_algebra.
From SsrMultinomials Require Import mpoly.
From NP Require Import Base Poly Order Compare OrderP CompareP Abs Align Arith CompareTop PolyOrder CompareSem GenCompare BridgeCompare.
Set Implicit Arguments. Unset Strict Implicit. Unset Printing Implicit Defensive.
Import GRing.Theory Num.Theory.
Local Open Scope ring_scope.

Section C07.
Variable (n : nat) (R : realDomainType).
Implicit Types (a b : parr R) (o : opts).

(* 1. the operands actually compared denote the inputs (broadcast), and share names and rows *)
Theorem C07_alignment_faithful o a b a' b' :
  wfb a -> wfb b -> aligned2 o a b = Ok (a', b') -> exists s, aligned_pair n o a b a' b' s.
Proof. exact: aligned2P. Qed.

Section OnAlignment.
Variables (o : opts) (a' b' : parr R).
Hypotheses (wa : wfb a') (wb : wfb b').
Let order := sort_order o a'.
Let va i := vec order (cols a') i.
Let vb i := vec order (cols b') i.
Let verdict code i := nth false (cmp_cols code order (cols a') (cols b') (psize a')) i.
Let veq i := all (fun k => cell (cols a') k i == cell (cols b') k i) (iota 0 (size (rows a'))).
Let vne i := has (fun k => cell (cols a') k i != cell (cols b') k i) (iota 0 (size (rows a'))).

(* 2. what the six functions compute, with the loops read from the current sources *)
Theorem C07_verdicts i : (i < psize a')%N ->
  [/\ verdict gen_less i = lexlt (va i) (vb i), verdict gen_greater i = lexlt (vb i) (va i),
      verdict gen_less_equal i = ~~ lexlt (vb i) (va i), verdict gen_greater_equal i = ~~ lexlt (va i) (vb i) &
      veq i = (va i == vb i) /\ vne i = (va i != vb i)].
Proof.
exact: (verdicts o b' wa bridge_greater bridge_greater_equal bridge_less bridge_less_equal).
Qed.

(* 3. exactly one of a<b, a==b, a>b *)
Theorem C07_trichotomy i : (i < psize a')%N ->
  [|| [&& verdict gen_less i, ~~ veq i & ~~ verdict gen_greater i],
      [&& ~~ verdict gen_less i, veq i & ~~ verdict gen_greater i] |
      [&& ~~ verdict gen_less i, ~~ veq i & verdict gen_greater i]].
Proof.
exact: (trichotomy o b' wa bridge_greater bridge_greater_equal bridge_less bridge_less_equal).
Qed.

(* 4. <=, >=, != are the complements *)
Theorem C07_complements i : (i < psize a')%N ->
  [/\ verdict gen_less_equal i = ~~ verdict gen_greater i,
      verdict gen_greater_equal i = ~~ verdict gen_less i & vne i = ~~ veq i].
Proof.
exact: (complements o b' wa bridge_greater bridge_greater_equal bridge_less bridge_less_equal).
Qed.

(* 5. the documented order: coefficient vectors are read from the largest monomial down
      (graded / reverse as the sort options say) and the first difference decides *)
Theorem C07_descending :
  sorted (fun j k => mleq (o_sgraded o) (o_sreverse o) (nth [::] (rows a') k) (nth [::] (rows a') j))
         (rev order).
Proof. exact: order_descending. Qed.

Theorem C07_first_difference_decides i :
  lexlt (va i) (vb i) <->
  exists p, [/\ (p < size (va i))%N, take p (va i) = take p (vb i) & nth 0 (va i) p < nth 0 (vb i) p].
Proof. by apply: lexlt_char; rewrite /va /vb /vec !size_map. Qed.

(* 5b. THE ORDER IN TERMS OF THE POLYNOMIALS THEMSELVES.  plt ns g r A B (Proofs/PolyOrder.v) says: there is a
       monomial m at which A's coefficient is smaller than B's, and A and B have the same coefficient at every
       monomial that comes later than m in the configured monomial order (graded / reverse-lexicographic as the
       sort options say, on the exponents of the names ns).  `less` computes exactly that relation on the
       denoted polynomials, `greater` its converse; nothing in it depends on which monomials are stored, on
       their stored order, or on zero-padding added by alignment. *)
Theorem C07_less_is_polynomial_order i :
  rows a' = rows b' -> names a' = names b' -> all (fun v => v < n)%N (names a') -> (i < psize a')%N ->
  (verdict gen_less i <-> plt (names a') (o_sgraded o) (o_sreverse o) (absE n a' i) (absE n b' i)) /\
  (verdict gen_greater i <-> plt (names a') (o_sgraded o) (o_sreverse o) (absE n b' i) (absE n a' i)).
Proof.
move=> rr nn ltn lt; have [-> -> _ _ _] := C07_verdicts lt; split.
  exact: (lt_polynomial o wa wb rr nn ltn i).
have ltn' : all (fun v => v < n)%N (names b') by rewrite -nn.
have := lt_polynomial o wb wa (esym rr) (esym nn) ltn' i.
by rewrite -nn /vb /va /order /sort_order rr.
Qed.

Theorem C07_plt_unfolded ns g r (A B : {mpoly R[n]}) :
  plt ns g r A B <->
  exists m : 'X_{1..n}, A@_m < B@_m /\
    forall m' : 'X_{1..n}, mleq g r (rowof ns m) (rowof ns m') && (rowof ns m != rowof ns m') -> A@_m' = B@_m'.
Proof. by []. Qed.

(* the denoted polynomials only involve the array's own indeterminants ... *)
Theorem C07_operands_in_their_names i :
  rows a' = rows b' -> names a' = names b' -> all (fun v => v < n)%N (names a') ->
  psupp (names a') (absE n a' i) /\ psupp (names a') (absE n b' i).
Proof. by move=> rr nn ltn; split; [apply: absE_psupp_a | apply: absE_psupp_b]. Qed.

(* the same, on the stored exponent rows: the deciding row and every later stored row *)
Theorem C07_less_on_stored_monomials i :
  rows a' = rows b' -> names a' = names b' -> all (fun v => v < n)%N (names a') -> (i < psize a')%N ->
  verdict gen_less i <->
  exists k, [/\ (k < size (rows a'))%N,
      (absE n a' i)@_(mon n (names a') (nth [::] (rows a') k)) < (absE n b' i)@_(mon n (names a') (nth [::] (rows a') k)) &
      forall k', (k' < size (rows a'))%N ->
         mleq (o_sgraded o) (o_sreverse o) (nth [::] (rows a') k) (nth [::] (rows a') k')
           && (nth [::] (rows a') k != nth [::] (rows a') k') ->
         (absE n a' i)@_(mon n (names a') (nth [::] (rows a') k')) = (absE n b' i)@_(mon n (names a') (nth [::] (rows a') k'))].
Proof.
move=> rr nn ltn lt; have [-> _ _ _ _] := C07_verdicts lt.
exact: (lt_semantic o wa wb rr nn ltn i).
Qed.

(* each stored coefficient is the coefficient of the denoted polynomial at that row's monomial *)
Theorem C07_coefficient_readout i k :
  all (fun v => v < n)%N (names a') -> (k < size (rows a'))%N ->
  (absE n a' i)@_(mon n (names a') (nth [::] (rows a') k)) = cell (cols a') k i.
Proof. by move=> ltn lk; apply: coeff_readout. Qed.

(* 6. == only for identical polynomials *)
Theorem C07_equal_identical i :
  rows a' = rows b' -> names a' = names b' -> veq i -> absE n a' i = absE n b' i.
Proof.
move=> rr nn; rewrite /veq (all_cols_vec _ _ (order_perm o a')) => /eqP ev.
exact: (equal_same_value n wa wb rr nn (order_perm o a') ev).
Qed.

(* 8. maximum / minimum return the larger / smaller operand *)
Theorem C07_maximum r :
  rows a' = rows b' -> names a' = names b' -> shape a' = shape b' ->
  clean o (Parr (names a') (shape a') (rows a')
             [seq [seq (if verdict gen_maximum i then cell (cols a') k i else cell (cols b') k i)
                  | i <- iota 0 (psize a')] | k <- iota 0 (size (rows a'))]) = Ok r ->
  forall i, (i < psize a')%N ->
    absE n r i = if lexlt (vb i) (va i) then absE n a' i else absE n b' i.
Proof.
move=> rr nn ss cl i lt; have [_ _ ->] // := pselect_spec n wa wb rr nn ss cl.
have [c1 c2 c3] := bridge_maximum.
by rewrite /verdict (verdict_select_gt _ _ _ lt c3 c1 c2).
Qed.

Theorem C07_minimum r :
  rows a' = rows b' -> names a' = names b' -> shape a' = shape b' ->
  clean o (Parr (names a') (shape a') (rows a')
             [seq [seq (if verdict gen_minimum i then cell (cols a') k i else cell (cols b') k i)
                  | i <- iota 0 (psize a')] | k <- iota 0 (size (rows a'))]) = Ok r ->
  forall i, (i < psize a')%N ->
    absE n r i = if lexlt (va i) (vb i) then absE n a' i else absE n b' i.
Proof.
move=> rr nn ss cl i lt; have [_ _ ->] // := pselect_spec n wa wb rr nn ss cl.
have [c1 c2 c3] := bridge_minimum.
by rewrite /verdict (verdict_select_lt _ _ _ lt c3 c1 c2).
Qed.

End OnAlignment.

(* 7. the order on coefficient vectors is a strict total order: transitive, asymmetric *)
Theorem C07_transitive (u w z : seq R) : lexlt u w -> lexlt w z -> lexlt u z.
Proof. exact: lexlt_trans. Qed.

Theorem C07_asymmetric (u w : seq R) : lexlt u w -> ~~ lexlt w u.
Proof. exact: lexlt_asym. Qed.

(* 7b. ... and on such polynomials plt IS a strict total order: irreflexive, transitive, total - whatever
       alignment (stored monomials, padding) each individual comparison used - and adding further indeterminant
       names (a three-way alignment, a broadcast against an operand with more names) does not change it. *)
Theorem C07_polynomial_order_irreflexive ns g r (A : {mpoly R[n]}) : ~ plt ns g r A A.
Proof. exact: plt_irrefl. Qed.

Theorem C07_polynomial_order_transitive ns g r (A B C : {mpoly R[n]}) :
  psupp ns A -> psupp ns B -> psupp ns C -> plt ns g r A B -> plt ns g r B C -> plt ns g r A C.
Proof. exact: plt_trans. Qed.

Theorem C07_polynomial_order_total ns g r (A B : {mpoly R[n]}) :
  psupp ns A -> psupp ns B -> A != B -> plt ns g r A B \/ plt ns g r B A.
Proof. exact: plt_total. Qed.

Theorem C07_polynomial_order_asymmetric ns g r (A B : {mpoly R[n]}) :
  psupp ns A -> psupp ns B -> plt ns g r A B -> ~ plt ns g r B A.
Proof. exact: plt_asym. Qed.

Theorem C07_polynomial_order_more_names ns ns' g r (A B : {mpoly R[n]}) :
  uniq ns' -> subseq ns ns' -> psupp ns A -> psupp ns B -> plt ns g r A B <-> plt ns' g r A B.
Proof. exact: plt_widen. Qed.

End C07.

(* non-vacuity: 0 < x0 in this order (one indeterminant, graded reverse lexicographic) *)
Example C07_polynomial_order_example (R : realDomainType) :
  plt [:: 0%N] true true (0 : {mpoly R[1]}) 'X_ord0 /\ psupp [:: 0%N] ('X_ord0 : {mpoly R[1]}).
Proof.
split; last first.
  move=> m /forallPn [w]; rewrite negb_or inE => /andP[]; case: w => -[|w] // lw.
exists U_(ord0)%MM; rewrite mcoeff0 mcoeffX eqxx ltr01; split=> // m' /andP[_ ne].
by rewrite mcoeff0 mcoeffX; case: (U_(ord0)%MM =P m') ne => [<-|_ _ //]; rewrite eqxx.
Qed.

(* D39 (known finding): two operands that SHARE a name tuple stored out of index order are compared by storage column.
   q1 and q0, both with names (q1, q0), against the same two polynomials with names (q0, q1): the verdicts differ. *)
Theorem C07_shared_unsorted_names_refuted :
  let R := [realDomainType of int] in
  let o := Opts false true true false in
  let a  : parr R := Parr [:: 1; 0]%N [::] [:: [:: 1; 0]%N] [:: [:: 1]] in
  let b  : parr R := Parr [:: 1; 0]%N [::] [:: [:: 0; 1]%N] [:: [:: 1]] in
  let a' : parr R := Parr [:: 0; 1]%N [::] [:: [:: 0; 1]%N] [:: [:: 1]] in
  let b' : parr R := Parr [:: 0; 1]%N [::] [:: [:: 1; 0]%N] [:: [:: 1]] in
  [/\ absE 2 a 0 = absE 2 a' 0, absE 2 b 0 = absE 2 b' 0,
      pcompare gen_less o a b = Ok ([::], [:: true]) & pcompare gen_less o a' b' = Ok ([::], [:: false])].
Proof.
move=> R o a b a' b'; split; [| | by vm_compute | by vm_compute].
- rewrite /absE /absL /terms /= !big_cons !big_nil /absT /=; congr (_ *: 'X_[_] + _).
  by apply/mnmP => -[[|[|v]] lv] //; rewrite !mnmE.
- rewrite /absE /absL /terms /= !big_cons !big_nil /absT /=; congr (_ *: 'X_[_] + _).
  by apply/mnmP => -[[|[|v]] lv] //; rewrite !mnmE.
Qed.

Print Assumptions C07_alignment_faithful.
Print Assumptions C07_verdicts.
Print Assumptions C07_trichotomy.
Print Assumptions C07_complements.
Print Assumptions C07_descending.
Print Assumptions C07_first_difference_decides.
Print Assumptions C07_less_is_polynomial_order.
Print Assumptions C07_plt_unfolded.
Print Assumptions C07_operands_in_their_names.
Print Assumptions C07_polynomial_order_irreflexive.
Print Assumptions C07_polynomial_order_transitive.
Print Assumptions C07_polynomial_order_total.
Print Assumptions C07_polynomial_order_asymmetric.
Print Assumptions C07_polynomial_order_more_names.
Print Assumptions C07_polynomial_order_example.
Print Assumptions C07_less_on_stored_monomials.
Print Assumptions C07_coefficient_readout.
Print Assumptions C07_equal_identical.
Print Assumptions C07_maximum.
Print Assumptions C07_minimum.
Print Assumptions C07_transitive.
Print Assumptions C07_asymmetric.
Print Assumptions C07_shared_unsorted_names_refuted.
