(* P_C07 — Comparison operators form one documented strict total order. *)
From mathcomp Require Import all_ssreflect all_algebra.
From SsrMultinomials Require Import mpoly.
From NP Require Import Base Poly Order Compare OrderP CompareP Abs Align Arith CompareTop GenCompare BridgeCompare.
Set Implicit Arguments. Unset Strict Implicit. Unset Printing Implicit Defensive.
Import GRing.Theory Num.Theory.
Local Open Scope ring_scope.

Section C07.
Variable (n : nat) (R : realDomainType).
Implicit Types (a b : parr R) (o : opts).

(* 1. the operands actually compared denote the inputs (broadcast), and share names and rows *)
Theorem C07_alignment_faithful o a b a' b' :
  wfb a -> wfb b -> aligned2 o a b = Ok (a', b') -> exists s, aligned_pair n o a b a' b' s.
Proof. exact: aligned2P. Qed.

Section OnAlignment.
Variables (o : opts) (a' b' : parr R).
Hypotheses (wa : wfb a') (wb : wfb b').
Let order := sort_order o a'.
Let va i := vec order (cols a') i.
Let vb i := vec order (cols b') i.
Let verdict code i := nth false (cmp_cols code order (cols a') (cols b') (psize a')) i.
Let veq i := all (fun k => cell (cols a') k i == cell (cols b') k i) (iota 0 (size (rows a'))).
Let vne i := has (fun k => cell (cols a') k i != cell (cols b') k i) (iota 0 (size (rows a'))).

(* 2. what the six functions compute, with the loops read from the current sources *)
Theorem C07_verdicts i : (i < psize a')%N ->
  [/\ verdict gen_less i = lexlt (va i) (vb i), verdict gen_greater i = lexlt (vb i) (va i),
      verdict gen_less_equal i = ~~ lexlt (vb i) (va i), verdict gen_greater_equal i = ~~ lexlt (va i) (vb i) &
      veq i = (va i == vb i) /\ vne i = (va i != vb i)].
Proof.
exact: (verdicts o b' wa bridge_greater bridge_greater_equal bridge_less bridge_less_equal).
Qed.

(* 3. exactly one of a<b, a==b, a>b *)
Theorem C07_trichotomy i : (i < psize a')%N ->
  [|| [&& verdict gen_less i, ~~ veq i & ~~ verdict gen_greater i],
      [&& ~~ verdict gen_less i, veq i & ~~ verdict gen_greater i] |
      [&& ~~ verdict gen_less i, ~~ veq i & verdict gen_greater i]].
Proof.
exact: (trichotomy o b' wa bridge_greater bridge_greater_equal bridge_less bridge_less_equal).
Qed.

(* 4. <=, >=, != are the complements *)
Theorem C07_complements i : (i < psize a')%N ->
  [/\ verdict gen_less_equal i = ~~ verdict gen_greater i,
      verdict gen_greater_equal i = ~~ verdict gen_less i & vne i = ~~ veq i].
Proof.
exact: (complements o b' wa bridge_greater bridge_greater_equal bridge_less bridge_less_equal).
Qed.

(* 5. the documented order: coefficient vectors are read from the largest monomial down
      (graded / reverse as the sort options say) and the first difference decides *)
Theorem C07_descending :
  sorted (fun j k => mleq (o_sgraded o) (o_sreverse o) (nth [::] (rows a') k) (nth [::] (rows a') j))
         (rev order).
Proof. exact: order_descending. Qed.

Theorem C07_first_difference_decides i :
  lexlt (va i) (vb i) <->
  exists p, [/\ (p < size (va i))%N, take p (va i) = take p (vb i) & nth 0 (va i) p < nth 0 (vb i) p].
Proof. by apply: lexlt_char; rewrite /va /vb /vec !size_map. Qed.

(* 6. == only for identical polynomials *)
Theorem C07_equal_identical i :
  rows a' = rows b' -> names a' = names b' -> veq i -> absE n a' i = absE n b' i.
Proof.
move=> rr nn; rewrite /veq (all_cols_vec _ _ (order_perm o a')) => /eqP ev.
exact: (equal_same_value n wa wb rr nn (order_perm o a') ev).
Qed.

(* 8. maximum / minimum return the larger / smaller operand *)
Theorem C07_maximum r :
  rows a' = rows b' -> names a' = names b' -> shape a' = shape b' ->
  clean o (Parr (names a') (shape a') (rows a')
             [seq [seq (if verdict gen_maximum i then cell (cols a') k i else cell (cols b') k i)
                  | i <- iota 0 (psize a')] | k <- iota 0 (size (rows a'))]) = Ok r ->
  forall i, (i < psize a')%N ->
    absE n r i = if lexlt (vb i) (va i) then absE n a' i else absE n b' i.
Proof.
move=> rr nn ss cl i lt; have [_ _ ->] // := pselect_spec n wa wb rr nn ss cl.
have [c1 c2 c3] := bridge_maximum.
by rewrite /verdict (verdict_select_gt _ _ _ lt c3 c1 c2).
Qed.

Theorem C07_minimum r :
  rows a' = rows b' -> names a' = names b' -> shape a' = shape b' ->
  clean o (Parr (names a') (shape a') (rows a')
             [seq [seq (if verdict gen_minimum i then cell (cols a') k i else cell (cols b') k i)
                  | i <- iota 0 (psize a')] | k <- iota 0 (size (rows a'))]) = Ok r ->
  forall i, (i < psize a')%N ->
    absE n r i = if lexlt (va i) (vb i) then absE n a' i else absE n b' i.
Proof.
move=> rr nn ss cl i lt; have [_ _ ->] // := pselect_spec n wa wb rr nn ss cl.
have [c1 c2 c3] := bridge_minimum.
by rewrite /verdict (verdict_select_lt _ _ _ lt c3 c1 c2).
Qed.

End OnAlignment.

(* 7. the order on coefficient vectors is a strict total order: transitive, asymmetric *)
Theorem C07_transitive (u w z : seq R) : lexlt u w -> lexlt w z -> lexlt u z.
Proof. exact: lexlt_trans. Qed.

Theorem C07_asymmetric (u w : seq R) : lexlt u w -> ~~ lexlt w u.
Proof. exact: lexlt_asym. Qed.

End C07.

Print Assumptions C07_alignment_faithful.
Print Assumptions C07_verdicts.
Print Assumptions C07_trichotomy.
Print Assumptions C07_complements.
Print Assumptions C07_descending.
Print Assumptions C07_first_difference_decides.
Print Assumptions C07_equal_identical.
Print Assumptions C07_maximum.
Print Assumptions C07_minimum.
Print Assumptions C07_transitive.
Print Assumptions C07_asymmetric.
