(* P_C19 — Leading-term queries, decomposition and constants match the polynomial. *)
From mathcomp Require Import all_ssreflect all_algebra.
From SsrMultinomials Require Import mpoly.
From NP Require Import Base Poly Order Compare Query OrderP Abs Align QueryP Clean SetDimP Proxy ProxyP ProxyAxis ProxyAxisP GenQuery BridgeQuery.
Set Implicit Arguments. Unset Strict Implicit. Unset Printing Implicit Defensive.
Import GRing.Theory.
Local Open Scope ring_scope.

Section Lead.
Variable R : realDomainType.
Variables (g r : bool) (p : parr R) (i : nat).

(* the leading term: a stored term with non-zero coefficient, largest in the selected order *)
Theorem C19_lead_is_largest k :
  lead_index g r p i = Some k ->
  [/\ (k < size (rows p))%N, cell (cols p) k i != 0 &
      forall j, (j < size (rows p))%N -> cell (cols p) j i != 0 ->
        mleq g r (nth [::] (rows p) j) (nth [::] (rows p) k)].
Proof. exact: lead_index_some. Qed.

Theorem C19_lead_of_zero :
  lead_index g r p i = None -> forall k, (k < size (rows p))%N -> cell (cols p) k i = 0.
Proof. exact: lead_index_none. Qed.

Theorem C19_lead_exponent : (i < psize p)%N ->
  nth [::] (lead_exponent g r p) i
  = if lead_index g r p i is Some k then nth [::] (rows p) k else nseq (size (names p)) 0%N.
Proof. exact: lead_exponent_spec. Qed.

Theorem C19_lead_coefficient : (i < psize p)%N ->
  nth 0 (lead_coefficient g r p) i = if lead_index g r p i is Some k then cell (cols p) k i else 0.
Proof. exact: lead_coefficient_spec. Qed.
End Lead.

Section Const.
Variable (n : nat) (R : comRingType).
Implicit Types (p : parr R).

Theorem C19_isconstant p i :
  isconstant p -> absE n p i = (\sum_(t <- terms p | const_row t.1) nth 0 t.2 i)%:MP_[n].
Proof. exact: isconstant_absE. Qed.

Theorem C19_tonumpy p s v :
  tonumpy p = Ok (s, v) ->
  [/\ isconstant p, s = shape p & forall i, absE n p i = (nth 0 v i)%:MP_[n]].
Proof. exact: tonumpy_spec. Qed.

Theorem C19_tonumpy_rejects p : ~~ isconstant p -> tonumpy p = Err FeatureNotSupported.
Proof. exact: tonumpy_nonconstant. Qed.

(* ... and ONLY non-constants are rejected: every well-formed constant array converts, also one that stores no constant
   term at all (only retained all-zero terms; the zero array - fix D35) *)
Theorem C19_tonumpy_constant p : wfb p -> isconstant p -> exists v, tonumpy p = Ok (shape p, v).
Proof. exact: tonumpy_constant. Qed.

Theorem C19_decompose_slice p j i : wfb p ->
  (j < size (rows p))%N -> (i < psize p)%N ->
  absE n (decompose p) (j * psize p + i) = cell (cols p) j i *: 'X_[mon n (names p) (nth [::] (rows p) j)].
Proof. exact: decompose_slice. Qed.

Theorem C19_decompose_sum p i : wfb p -> (i < psize p)%N ->
  \sum_(0 <= j < size (rows p)) absE n (decompose p) (j * psize p + i) = absE n p i.
Proof. exact: decompose_sum. Qed.
(* set_dimensions: more dimensions = the same polynomials; fewer = exactly the terms without a dropped name *)
Theorem C19_set_dimensions_grow o p d q i :
  wfb p -> (size (names p) < d)%N -> set_dimensions o p d = Ok q ->
  absE n q i = absE n p i /\ shape q = shape p.
Proof. exact: set_dimensions_grow. Qed.

Theorem C19_set_dimensions_shrink o p d q i :
  wfb p -> (d < size (names p))%N -> set_dimensions o p d = Ok q ->
  absE n q i = absL n (names p) i [seq t <- terms p | ~~ has (fun e => e != 0%N) (drop d t.1)] /\ shape q = shape p.
Proof. exact: set_dimensions_shrink. Qed.

Theorem C19_set_dimensions_same o p : set_dimensions o p (size (names p)) = Ok p.
Proof. exact: set_dimensions_same. Qed.

Theorem C19_set_dimensions_names o p d q :
  set_dimensions o p d = Ok q ->
  names q = if d == size (names p) then names p
            else if (size (names p) < d)%N
                 then sort leq (names p ++ fresh_names (names p) (d - size (names p)) (d + size (names p)) 0)
                 else take d (names p).
Proof. exact: set_dimensions_names. Qed.
End Const.

Section SortProxy.
Variable R : realDomainType.
Variables (g r : bool) (p : parr R).
Hypothesis wp : wfb p.
Let res := sortable_proxy g r p.
Let L := lead_exponent g r p.

(* sortable_proxy returns a permutation of 0 .. size-1 ... *)
Theorem C19_sortable_proxy_permutation : perm_eq res (iota 0 (psize p)).
Proof. exact: sortable_proxy_perm. Qed.

(* ... that orders two elements with leading terms by leading exponent (the selected monomial order), then by
   leading coefficient, then by position *)
Theorem C19_sortable_proxy_orders_by_leading_term i j k k' :
  (i < psize p)%N -> (j < psize p)%N ->
  lead_index g r p i = Some k -> lead_index g r p j = Some k' ->
  (nth 0%N res i < nth 0%N res j)%N
  = if k == k'
    then (cell (cols p) k i < cell (cols p) k j) || ((cell (cols p) k i == cell (cols p) k j) && (i < j)%N)
    else mleq g r (nth [::] (rows p) k) (nth [::] (rows p) k').
Proof. exact: sortable_proxy_leading. Qed.

(* every pair, zero polynomials included: an element whose leading exponent (zeros for the zero polynomial) is a
   stored exponent is ranked in that exponent's group by its coefficient there; one whose leading exponent is not
   stored ranks below all others *)
Theorem C19_sortable_proxy_all_pairs i j : (i < psize p)%N -> (j < psize p)%N ->
  (nth 0%N res i < nth 0%N res j)%N
  = if stored p L i && stored p L j
    then (if grp p L i == grp p L j then inG p L i j
          else (index (grp p L i) (glexsort g r (rows p)) < index (grp p L j) (glexsort g r (rows p)))%N)
    else if stored p L j then true else if stored p L i then false else (i < j)%N.
Proof. exact: sortable_proxy_order. Qed.

Theorem C19_sortable_proxy_group_order k k' :
  (k < size (rows p))%N -> (k' < size (rows p))%N -> k != k' ->
  (index k (glexsort g r (rows p)) < index k' (glexsort g r (rows p)))%N
  = mleq g r (nth [::] (rows p) k) (nth [::] (rows p) k').
Proof. exact: order_index_mleq. Qed.
End SortProxy.

(* argmin / argmax / amin / amax without axis select an element extreme for the order of sortable_proxy; among equal
   (leading exponent, leading coefficient) argmin and argmax pick the FIRST occurrence, amax the last *)
Section Extremes.
Variable R : realDomainType.
Variables (g r : bool) (p : parr R).
Hypothesis wp : wfb p.
Hypothesis pos : (0 < psize p)%N.

Theorem C19_argmin j k0 k : (j < psize p)%N -> j != pargmin g r p ->
  lead_index g r p (pargmin g r p) = Some k0 -> lead_index g r p j = Some k ->
  if k0 == k
  then (cell (cols p) k0 (pargmin g r p) < cell (cols p) k0 j)
       || ((cell (cols p) k0 (pargmin g r p) == cell (cols p) k0 j) && (pargmin g r p < j)%N)
  else mleq g r (nth [::] (rows p) k0) (nth [::] (rows p) k).
Proof. exact: argmin_spec. Qed.

Theorem C19_argmax j k1 k : (j < psize p)%N -> j != pargmax g r p ->
  lead_index g r p (pargmax g r p) = Some k1 -> lead_index g r p j = Some k ->
  if k == k1
  then (cell (cols p) k j < cell (cols p) k (pargmax g r p))
       || ((cell (cols p) k j == cell (cols p) k (pargmax g r p)) && (pargmax g r p < j)%N)
  else mleq g r (nth [::] (rows p) k) (nth [::] (rows p) k1).
Proof. exact: argmax_spec. Qed.

Theorem C19_amax j k1 k : (j < psize p)%N -> j != pamax_pos g r p ->
  lead_index g r p (pamax_pos g r p) = Some k1 -> lead_index g r p j = Some k ->
  if k == k1
  then (cell (cols p) k j < cell (cols p) k (pamax_pos g r p))
       || ((cell (cols p) k j == cell (cols p) k (pamax_pos g r p)) && (j < pamax_pos g r p)%N)
  else mleq g r (nth [::] (rows p) k) (nth [::] (rows p) k1).
Proof. exact: amax_spec. Qed.

Theorem C19_extreme_positions_exist : (pargmin g r p < psize p)%N /\ (pargmax g r p < psize p)%N.
Proof.
by split; [exact: pargmin_lt | exact: pargmax_lt].
Qed.
End Extremes.

(* the same four functions ALONG AN AXIS work lane by lane: for EVERY lane (a non-empty list of distinct flat positions,
   whatever the shape and the axis), argmin / argmax return the place in the lane of the element with the smallest /
   largest (leading exponent, leading coefficient), the FIRST of several equal ones, and amin / amax return the element at
   the lane's place of smallest / largest rank (amax: the LAST of several equal ones) *)
Section Axis.
Variable R : realDomainType.
Variables (g r : bool) (p : parr R) (lane : seq nat).
Hypothesis wp : wfb p.
Hypothesis inl : all (fun i => (i < psize p)%N) lane.
Hypothesis ul : uniq lane.
Hypothesis ne : lane != [::].
Let res := sortable_proxy g r p.
Let amin := lane_argmin res lane.
Let amax := lane_argmax (rproxy g r p) lane.

Theorem C19_axis_positions_exist : (amin < size lane)%N /\ (amax < size lane)%N.
Proof. by split; [exact: argmin_axis_lt | exact: argmax_axis_lt]. Qed.

Theorem C19_argmin_axis t k0 k : (t < size lane)%N -> t != amin ->
  lead_index g r p (nth 0%N lane amin) = Some k0 -> lead_index g r p (nth 0%N lane t) = Some k ->
  if k0 == k
  then (cell (cols p) k0 (nth 0%N lane amin) < cell (cols p) k0 (nth 0%N lane t))
       || ((cell (cols p) k0 (nth 0%N lane amin) == cell (cols p) k0 (nth 0%N lane t))
           && (nth 0%N lane amin < nth 0%N lane t)%N)
  else mleq g r (nth [::] (rows p) k0) (nth [::] (rows p) k).
Proof. exact: argmin_axis_spec. Qed.

Theorem C19_argmax_axis t k1 k : (t < size lane)%N -> t != amax ->
  lead_index g r p (nth 0%N lane amax) = Some k1 -> lead_index g r p (nth 0%N lane t) = Some k ->
  if k == k1
  then (cell (cols p) k (nth 0%N lane t) < cell (cols p) k (nth 0%N lane amax))
       || ((cell (cols p) k (nth 0%N lane t) == cell (cols p) k (nth 0%N lane amax))
           && (nth 0%N lane amax < nth 0%N lane t)%N)
  else mleq g r (nth [::] (rows p) k) (nth [::] (rows p) k1).
Proof. exact: argmax_axis_spec. Qed.

Theorem C19_amin_axis_is_the_argmin_element :
  index (mins (lane_vals res lane)) res = nth 0%N lane amin.
Proof. exact: amin_axis_pos. Qed.

Theorem C19_amax_axis t k1 k : let a := lane_argmax res lane in
  index (maxs (lane_vals res lane)) res = nth 0%N lane a /\
  ((t < size lane)%N -> t != a ->
   lead_index g r p (nth 0%N lane a) = Some k1 -> lead_index g r p (nth 0%N lane t) = Some k ->
   if k == k1
   then (cell (cols p) k (nth 0%N lane t) < cell (cols p) k (nth 0%N lane a))
        || ((cell (cols p) k (nth 0%N lane t) == cell (cols p) k (nth 0%N lane a))
            && (nth 0%N lane t < nth 0%N lane a)%N)
   else mleq g r (nth [::] (rows p) k) (nth [::] (rows p) k1)).
Proof. by move=> a; split; [exact: amax_axis_pos | exact: amax_axis_spec]. Qed.
End Axis.

(* the hypotheses are satisfiable: the second column of a 2x2 array, along axis 0 *)
Example C19_axis_example :
  let p := Parr [:: 0%N] [:: 2; 2]%N [:: [:: 0%N]; [:: 1%N]] [:: [:: 3; 1; 0; 2]; [:: 0; 2; 5; 2]] : parr [realDomainType of int] in
  [/\ wfb p, pargmin_axis true false p [:: [:: 0; 2]; [:: 1; 3]]%N = [:: 0; 0]%N
     & pargmax_axis true false p [:: [:: 0; 2]; [:: 1; 3]]%N = [:: 1; 0]%N].
Proof. by split; vm_compute. Qed.

(* the sources these models were written from are still the modelled ones, statement by statement *)
Theorem C19_sources_are_the_modelled_ones :
  all (all id) gen_query_facts /\ [seq size f | f <- gen_query_facts] = [:: 7; 6; 7; 3; 7; 2; 4; 4; 8; 8; 5]%N.
Proof. exact: bridge_query_facts. Qed.

Print Assumptions C19_lead_is_largest.
Print Assumptions C19_lead_of_zero.
Print Assumptions C19_lead_exponent.
Print Assumptions C19_lead_coefficient.
Print Assumptions C19_isconstant.
Print Assumptions C19_tonumpy.
Print Assumptions C19_tonumpy_rejects.
Print Assumptions C19_tonumpy_constant.
Print Assumptions C19_decompose_slice.
Print Assumptions C19_decompose_sum.
Print Assumptions C19_set_dimensions_grow.
Print Assumptions C19_set_dimensions_shrink.
Print Assumptions C19_set_dimensions_same.
Print Assumptions C19_set_dimensions_names.
Print Assumptions C19_sortable_proxy_permutation.
Print Assumptions C19_sortable_proxy_orders_by_leading_term.
Print Assumptions C19_sortable_proxy_all_pairs.
Print Assumptions C19_sortable_proxy_group_order.
Print Assumptions C19_sources_are_the_modelled_ones.
Print Assumptions C19_argmin.
Print Assumptions C19_argmax.
Print Assumptions C19_amax.
Print Assumptions C19_extreme_positions_exist.
Print Assumptions C19_axis_positions_exist.
Print Assumptions C19_argmin_axis.
Print Assumptions C19_argmax_axis.
Print Assumptions C19_amin_axis_is_the_argmin_element.
Print Assumptions C19_amax_axis.
