#!/bin/bash
# usage: goal.sh File.v LINE  -- show the goal just before LINE (1-based)
f=$1; l=$2
head -n $((l-1)) $f > /tmp/_goal.v
echo "Show. Abort All." >> /tmp/_goal.v
cd /verif/coq && timeout 120 coqc -Q Model NP -Q Proofs NP -Q Props NP -Q Gen NP -Q Bridge NP -w none /tmp/_goal.v 2>&1 | tail -${3:-40}
