"""seed_round.py <N> : prepare seeded round N - one scratch worktree /tmp/sN/Cxx per property (detached checkout of /repo's
HEAD with the compiled helpers copied in) and one prompt file /tmp/sN/Cxx.prompt that contains ONLY the property text, the
protocol and one-line summaries of the changes already tried for that property (nothing else from /verif).  The sub-agents
are started by hand with "Read the file /tmp/sN/Cxx.prompt and carry out the task it describes exactly ..."; their
deliverables are confirmed and run through the checks with harness/seedtest.sh."""
import glob
import json
import os
import subprocess
import sys

N = sys.argv[1]
ROOT = f"/tmp/s{N}"
os.makedirs(ROOT, exist_ok=True)
props = {}
for line in open("/verif/properties.jsonl"):
    d = json.loads(line)
    props[d["id"]] = d
tried = {}
for mp in sorted(glob.glob("/verif/seeded/*/meta.json")):
    m = json.load(open(mp))
    tried.setdefault(m["property"], []).append(" ".join(str(m.get("summary", "")).split())[:200])
for pid, d in props.items():
    wt = f"{ROOT}/{pid}"
    if not os.path.isdir(wt):
        subprocess.check_call(["git", "-C", "/repo", "worktree", "add", "-q", "--detach", wt, "HEAD"])
        subprocess.call(f"cp /repo/numpoly/cfunctions/*.so {wt}/numpoly/cfunctions/ 2>/dev/null", shell=True)
    os.makedirs(f"{wt}/SEED/a", exist_ok=True)
    prev = "\n".join(f"  - {t}" for t in tried.get(pid, []))
    txt = f"""You are helping to test a verification effort for the Python library jonathf/numpoly (polynomial arrays on numpy structured arrays).
You get ONE semantic property of the library and your own scratch git worktree of the repository at {wt} (a detached checkout; compiled helpers are already in numpoly/cfunctions). Work ONLY inside {wt}. Do not look at or touch /repo, /verif or any other directory, do not use `git stash` (the stash is shared between worktrees), and do not commit.

PROPERTY {pid}: {d['title']}
Statement: {d['statement']}
Quantified over: {d['quantifier']['text']}
Why the existing tests cannot settle it: {d['why_tests_cant']}
Code anchors: {json.dumps(d['anchors'])}

TASK: produce ONE realistic change to the library source (the kind of thing a maintainer could plausibly commit as a refactoring, optimisation, clean-up or "bug fix": a few lines, plausible in isolation, NOT sabotage-looking, no new test-only flags, no special-casing of magic values) such that
  1. the library still imports and the existing test suite gives exactly the same pass/fail result as before the change. Run it before and after with
       cd {wt} && PYTHONPATH={wt} /venv/bin/python -m pytest -q -p no:cacheprovider 2>&1 | tail -3
     (a handful of tests already fail on the unchanged tree; the set of failing tests must stay the same);
  2. the property above is now violated for some inputs in its quantifier's domain.
Changes of this kind that were ALREADY tried for this property (do NOT repeat them or close variants; find a different file, function, code path or mechanism - helper modules that the anchored code calls into, e.g. alignment, cleaning, construction, dispatch, the ndpoly base class, option handling, are fair game as long as THIS property is what breaks; behaviour-preserving-looking rewrites of a loop, an off-by-one in an index computation, a changed default, a dropped copy, a different numpy function with subtly different semantics are typical):
{prev}
Prefer inputs that are NOT the most obvious ones (an unusual dtype, option setting, shape, spelling of the call such as numpy.X(poly) vs numpoly.X(poly) vs the method or operator, 0-d arrays, many indeterminates, views/transposes, reflected operators, keyword vs positional arguments ... whatever is natural for this property).
If, while exploring, you notice that the UNCHANGED library already violates the property on some input, say so in your report (with the input); it does not replace the deliverables.
Python to use: /venv/bin/python with PYTHONPATH={wt}.

DELIVERABLES, all under {wt}/SEED/a/ :
  - patch.diff : `git diff` of your change (source files only, relative to the worktree root, applies with `git apply` on the clean tree);
  - demo.py    : a self-contained script that prints PASS and exits 0 on the unchanged tree and prints what is wrong + exits 1 with your change applied (it should check the property on a few concrete inputs against an independent reference computation, not compare against recorded outputs of the library);
  - meta.json  : {{"property": "{pid}", "summary": "<what you changed and how it is disguised>", "needs": "<which inputs expose it>", "files": [...], "tests_before": "<last line of pytest before>", "tests_after": "<last line after>", "demo_unchanged": "PASS", "demo_changed": "FAIL"}}.
When done, leave the worktree CLEAN (git checkout -- . ; the SEED directory is untracked and stays). Verify yourself: demo on the clean tree -> PASS; `git apply SEED/a/patch.diff`, tests same as before, demo -> FAIL; then `git checkout -- .`. Try to finish within about 25 minutes.
Report briefly what you changed and which inputs expose it."""
    open(f"{ROOT}/{pid}.prompt", "w").write(txt)
print("prepared", len(props), "worktrees and prompts under", ROOT)
