#!/bin/bash
# seedtest.sh <worktree> <letter> <target-id> <check ids...> : confirm a seeded change (suite + demo with/without),
# run the given checks against the changed worktree (VERIF_REPO), store everything under /verif/seeded/<target-id>/
WT=$1; X=$2; TARGET=$3; shift 3
S=$WT/SEED/$X
OUT=/verif/seeded/$TARGET
mkdir -p $OUT
cd $WT && git checkout -q -- . && git status --short | grep -v "^??" 
DEMO0=$(cd $WT && PYTHONPATH=$WT timeout 600 /venv/bin/python $S/demo.py 2>&1 | tail -1; echo "exit=${PIPESTATUS[0]}")
git apply $S/patch.diff || { echo "PATCH DOES NOT APPLY"; exit 2; }
T1=$(cd $WT && PYTHONPATH=$WT timeout 900 /venv/bin/python -m pytest -q -p no:cacheprovider 2>&1 | tail -1)
DEMO1=$(cd $WT && PYTHONPATH=$WT timeout 600 /venv/bin/python $S/demo.py 2>&1 | tail -1; echo "exit=${PIPESTATUS[0]}")
echo "tests_after: $T1"; echo "demo unchanged: $DEMO0"; echo "demo changed: $DEMO1"
RES=""
for c in "$@"; do
  R=$(cd /verif && VERIF_REPO=$WT timeout 1500 ./check $c --tier quick 2>&1 | grep -v "^WARNING conda" | grep -E "^(VIOLATION|OK|KNOWN|#)" | head -6)
  echo "--- check $c:"; echo "$R" | cut -c1-400
  RES="$RES\n[$c] $(echo "$R" | grep -E '^(VIOLATION|OK)' | head -2 | tr '\n' ' ')\n$(echo "$R" | grep '^#' | head -2 | cut -c1-500)"
done
cd $WT && git checkout -q -- .
cp $S/patch.diff $S/demo.py $OUT/
/venv/bin/python - "$S/meta.json" "$OUT/meta.json" "$T1" "$DEMO0" "$DEMO1" "$RES" "$*" <<'PY'
import json, sys
src, dst, t1, d0, d1, res, checks = sys.argv[1:8]
m = json.load(open(src))
m["confirmed_by_me"] = {"tests_after": t1, "demo_unchanged": d0.replace("\n", " | "), "demo_changed": d1.replace("\n", " | "),
                        "ran": "harness/seedtest.sh: git apply in a scratch worktree, pytest, demo.py with and without the patch"}
m["checks_run"] = checks.split()
m["check_results"] = res.replace("\\n", "\n").strip()
m["detected_by"] = [c for c in checks.split() if f"[{c}] VIOLATION" in res.replace("\\n", "\n")]
json.dump(m, open(dst, "w"), indent=1)
print("detected_by:", m["detected_by"])
PY
