"""Shared machinery of the /verif checks.

Runs under /venv/bin/python with PYTHONPATH=/repo (see /verif/check), so that
`import numpoly` is /repo's current working tree.
"""
from __future__ import annotations

import json
import os
import random
import re
import shutil
import subprocess
import sys
import time
from fractions import Fraction

VERIF = os.path.dirname(os.path.dirname(os.path.abspath(__file__)))
COQ = os.path.join(VERIF, "coq")
REPO = os.environ.get("VERIF_REPO", "/repo")
COQ_FLAGS = ["-Q", "Model", "NP", "-Q", "Proofs", "NP", "-Q", "Props", "NP",
             "-Q", "Gen", "NP", "-Q", "Bridge", "NP", "-Q", "Cases", "NPC",
             "-w", "-notation-overridden,-ambiguous-paths,-redundant-canonical-projection,"
                   "-projection-no-head-constant,-deprecated-hint-without-locality"]
NCPU = os.cpu_count() or 4

FORBIDDEN = re.compile(
    r"\b(Admitted|admit|Axiom|Axioms|Parameter|Parameters|Conjecture|Conjectures|"
    r"Admit\s+Obligations|Unset\s+Guard\s+Checking|Unset\s+Positivity\s+Checking|"
    r"Unset\s+Universe\s+Checking|bypass_check|type-in-type|impredicative-set|"
    r"native_compute)\b")


# --------------------------------------------------------------------------
# Coq side
# --------------------------------------------------------------------------
def strip_coq_comments(text: str) -> str:
    out, depth, i = [], 0, 0
    while i < len(text):
        if text.startswith("(*", i):
            depth += 1
            i += 2
        elif text.startswith("*)", i) and depth:
            depth -= 1
            i += 2
        else:
            if not depth:
                out.append(text[i])
            i += 1
    return "".join(out)


def static_gate() -> list:
    """No Admitted/Axiom/... anywhere in the development (comments ignored).
    `Variable`/`Hypothesis` are only allowed inside a Section."""
    bad = []
    for sub in ("Model", "Proofs", "Props", "Bridge", "Gen"):
        d = os.path.join(COQ, sub)
        if not os.path.isdir(d):
            continue
        for fn in sorted(os.listdir(d)):
            if not fn.endswith(".v"):
                continue
            text = strip_coq_comments(open(os.path.join(d, fn)).read())
            for m in FORBIDDEN.finditer(text):
                bad.append(f"{sub}/{fn}: forbidden '{m.group(0)}'")
            depth = 0
            for line in text.splitlines():
                s = line.strip()
                if re.match(r"(Section|Module)\s+\w+", s) and not s.startswith("Module Type"):
                    if s.startswith("Section"):
                        depth += 1
                elif re.match(r"End\s+\w+\s*\.", s):
                    depth = max(0, depth - 1)
                elif re.match(r"(Variable|Variables|Hypothesis|Hypotheses|Context)\b", s) and depth == 0:
                    bad.append(f"{sub}/{fn}: '{s[:40]}' outside a Section")
    return bad


def make(targets, timeout=1500):
    """Full .vo build of the given targets (relative to coq/).  Returns (ok, log)."""
    if not os.path.exists(os.path.join(COQ, "Makefile")) or \
            os.path.getmtime(os.path.join(COQ, "Makefile")) < os.path.getmtime(os.path.join(COQ, "_CoqProject")):
        subprocess.run(["coq_makefile", "-f", "_CoqProject", "-o", "Makefile"], cwd=COQ,
                       capture_output=True, text=True, timeout=120)
    cmd = ["timeout", str(timeout), "make", f"-j{NCPU}"] + list(targets)
    p = subprocess.run(cmd, cwd=COQ, capture_output=True, text=True)
    return p.returncode == 0, (p.stdout + p.stderr)


def coqc_file(path, timeout=600):
    cmd = ["timeout", str(timeout), "coqc"] + COQ_FLAGS + [path]
    p = subprocess.run(cmd, cwd=COQ, capture_output=True, text=True)
    return p.returncode, p.stdout, p.stderr


def parse_nat_list(out: str, marker: str):
    """Find `marker` printed by Eval ... and parse the list of naturals after it."""
    m = re.search(re.escape(marker) + r"\s*=\s*(.*?)\s*:\s*seq nat", out, re.S)
    if not m:
        return None
    return [int(x) for x in re.findall(r"\d+", m.group(1))]


class CoqCases:
    """A set of boolean case terms evaluated by vm_compute in shards.

    Each case is a Gallina term of type bool: true iff model and implementation
    agree on that case.  `header` is the import/definition prelude."""

    def __init__(self, tag: str, header: str, shard: int = 300):
        self.tag, self.header, self.shard = tag, header, shard
        self.cases = []      # (term, meta)

    def add(self, term: str, meta):
        self.cases.append((term, meta))

    def run(self, timeout=900):
        """Returns (failed_indices, errors).  errors: shards that did not compile."""
        cdir = os.path.join(COQ, "Cases")
        os.makedirs(cdir, exist_ok=True)
        for fn in os.listdir(cdir):          # leftovers of earlier (failed) runs of this check
            if fn.startswith(f"c_{self.tag}_") or fn.startswith(f".c_{self.tag}_"):
                try:
                    os.remove(os.path.join(cdir, fn))
                except OSError:
                    pass
        files = []
        for k in range(0, len(self.cases), self.shard):
            chunk = self.cases[k:k + self.shard]
            name = f"c_{self.tag}_{os.getpid()}_{k // self.shard}"
            path = os.path.join(cdir, name + ".v")
            with open(path, "w") as fh:
                fh.write(self.header + "\n")
                for j, (term, _) in enumerate(chunk):
                    fh.write(f"Definition case_{j} : bool := {term}.\n")
                fh.write("Definition all_cases : list bool := "
                         + "".join(f"(cons case_{j} " for j in range(len(chunk))) + "nil" + ")" * len(chunk) + ".\n")
                fh.write("Fixpoint mism_ (i : nat) (l : list bool) : list nat := match l with nil => nil "
                         "| cons b l' => if b then mism_ (Datatypes.S i) l' else cons i (mism_ (Datatypes.S i) l') end.\n")
                fh.write("Eval vm_compute in mism_ O all_cases.\n")
            files.append((k, path))
        failed, errors = [], []
        procs = []
        # run shards in parallel
        pending = list(files)
        running = []
        while pending or running:
            while pending and len(running) < NCPU:
                k, path = pending.pop(0)
                cmd = ["timeout", str(timeout), "coqc"] + COQ_FLAGS + [path]
                running.append((k, path, subprocess.Popen(cmd, cwd=COQ, stdout=subprocess.PIPE,
                                                          stderr=subprocess.PIPE, text=True)))
            k, path, pr = running.pop(0)
            out, err_ = pr.communicate()
            if pr.returncode != 0:
                errors.append((k, path, (out + err_)[-3000:]))
            else:
                m = re.search(r"=\s*(.*?)\s*:\s*(?:seq|list) nat", out, re.S)
                if not m:
                    errors.append((k, path, "unparsable output: " + out[-1000:]))
                else:
                    failed += [k + int(x) for x in re.findall(r"\d+", m.group(1))]
                    for ext in (".v", ".vo", ".vok", ".vos", ".glob"):
                        try:
                            os.remove(path[:-2] + ext)
                        except OSError:
                            pass
                    try:
                        os.remove(os.path.join(cdir, "." + os.path.basename(path)[:-2] + ".aux"))
                    except OSError:
                        pass
        return sorted(failed), errors

    def eval_term(self, term: str, timeout=300) -> str:
        """Evaluate one arbitrary term (debugging / replay): returns coqc's output."""
        cdir = os.path.join(COQ, "Cases")
        name = f"d_{self.tag}_{os.getpid()}"
        path = os.path.join(cdir, name + ".v")
        with open(path, "w") as fh:
            fh.write(self.header + "\nEval vm_compute in (" + term + ").\n")
        rc, out, err_ = coqc_file(path, timeout)
        for ext in (".v", ".vo", ".vok", ".vos", ".glob"):
            try:
                os.remove(path[:-2] + ext)
            except OSError:
                pass
        try:
            os.remove(os.path.join(cdir, "." + name + ".aux"))
        except OSError:
            pass
        return out if rc == 0 else "COQC FAILED: " + (out + err_)[-2000:]


# --------------------------------------------------------------------------
# Gallina literals
# --------------------------------------------------------------------------
def cz(v) -> str:
    v = int(v)
    return f"({v})%CZ" if v < 0 else f"{v}%CZ"


def cnat(v) -> str:
    return f"{int(v)}%N"      # ssrnat's nat scope delimiter is %N under mathcomp


def cseq(items) -> str:
    items = list(items)
    return "[:: " + "; ".join(items) + "]" if items else "[::]"


def cnats(xs) -> str:
    return cseq(cnat(x) for x in xs)


def cbool(b) -> str:
    return "true" if b else "false"


# --------------------------------------------------------------------------
# Implementation side helpers (numpoly objects <-> model literals)
# --------------------------------------------------------------------------
def name_index(name: str) -> int:
    m = re.fullmatch(r"q(\d+)", name)
    if not m:
        raise ValueError(f"name outside the modelled form q<k>: {name!r}")
    return int(m.group(1))


def exact_int(x):
    """Exact integer value of a numpy/python scalar, or raise if not integral."""
    import numpy
    if isinstance(x, (bool, numpy.bool_)):
        return int(x)
    if isinstance(x, (int, numpy.integer)):
        return int(x)
    if isinstance(x, (float, numpy.floating)):
        f = float(x)
        if f != f or f in (float("inf"), float("-inf")) or f != int(f):
            raise ValueError(f"non-integral float {x!r}")
        return int(f)
    if isinstance(x, (complex, numpy.complexfloating)):
        c = complex(x)
        if c.imag != 0:
            raise ValueError(f"complex {x!r}")
        return exact_int(c.real)
    raise ValueError(f"unsupported scalar {type(x)}")


def poly_layout(p):
    """Storage-level attributes of an ndpoly as plain python data."""
    import numpy
    names = [name_index(n) for n in p.names]
    rows = [[int(e) for e in r] for r in p.exponents.tolist()]
    cols = [[exact_int(v) for v in numpy.asarray(c).ravel().tolist()] if numpy.asarray(c).dtype.kind != "c"
            else [exact_int(v) for v in numpy.asarray(c).ravel()] for c in p.coefficients]
    return {"names": names, "shape": [int(s) for s in p.shape], "rows": rows, "cols": cols}


def as_layout(x):
    """Model operand for any PolyLike: polynomials by their storage, numbers/arrays/lists as
    the constant polynomial numpoly.polynomial builds for them (names ('q0',), one zero row)."""
    import numpy
    import numpoly
    if isinstance(x, numpoly.ndpoly):
        return poly_layout(x)
    a = numpy.asarray(x)
    return {"names": [0], "shape": [int(s) for s in a.shape], "rows": [[0]],
            "cols": [[exact_int(v) for v in a.ravel().tolist()]]}


def coq_parr(lay, lit=cz) -> str:
    return ("(Parr " + cnats(lay["names"]) + " " + cnats(lay["shape"]) + " "
            + cseq(cnats(r) for r in lay["rows"]) + " "
            + cseq(cseq(lit(v) for v in c) for c in lay["cols"]) + ")")


def canon_elements(p):
    """Per flat element: sorted list of (monomial, coeff) with coeff != 0; monomial is a
    tuple of (variable index, exponent>0) sorted by variable."""
    lay = poly_layout(p)
    n = 1
    for s in lay["shape"]:
        n *= s
    out = []
    for i in range(n):
        terms = {}
        for r, c in zip(lay["rows"], lay["cols"]):
            if c[i] != 0:
                mono = tuple(sorted((v, e) for v, e in zip(lay["names"], r) if e != 0))
                terms[mono] = terms.get(mono, 0) + c[i]
        out.append(sorted((m, v) for m, v in terms.items() if v != 0))
    return lay["shape"], out


def coq_mono(m) -> str:
    return cseq(f"({cnat(v)}, {cnat(e)})" for v, e in m)


def coq_obs(shape, elements, lit=cz) -> str:
    return ("(" + cnats(shape) + ", "
            + cseq(cseq(f"({coq_mono(m)}, {lit(v)})" for m, v in el) for el in elements) + ")")


def observe_any(x):
    """Observation (shape, elements) of a polynomial or plain numeric array result."""
    import numpy
    import numpoly
    if isinstance(x, numpoly.ndpoly):
        return canon_elements(x)
    a = numpy.asarray(x)
    els = []
    for v in a.ravel().tolist():
        iv = exact_int(v)
        els.append([((), iv)] if iv != 0 else [])
    return [int(s) for s in a.shape], els


ERR_MAP = {
    "ValueError": "ValueError", "TypeError": "TypeError", "KeyError": "KeyError",
    "PolynomialConstructionError": "ConstructionError",
    "FeatureNotSupported": "FeatureNotSupported",
}


def err_enum(exc: BaseException) -> str:
    return ERR_MAP.get(type(exc).__name__, "OtherError")


# --------------------------------------------------------------------------
# Known findings, evidence, violations
# --------------------------------------------------------------------------
def load_known():
    path = os.path.join(VERIF, "known_findings.json")
    if not os.path.exists(path):
        return []
    return json.load(open(path))["findings"]


class Report:
    def __init__(self, pid: str, tier: str, seed: int, level: str = "proof"):
        self.pid, self.tier, self.seed, self.level = pid, tier, seed, level
        self.t0 = time.time()
        self.violations = []          # (what, replay dict)
        self.known_hits = []
        self.coverage = {"samples": []}
        self.assumptions = []
        self.obligations = 0
        self.discharged = 0
        self.notes = []
        self.known = [k for k in load_known() if k.get("property") == pid]

    # ---- bookkeeping -----------------------------------------------------
    def sample(self, s, cap=6):
        if len(self.coverage["samples"]) < cap:
            self.coverage["samples"].append(s)

    def violation(self, what: str, replay: dict, found_input: bool = True):
        self.violations.append((what, replay, found_input))

    def known_finding(self, fid: str, what: str):
        self.known_hits.append((fid, what))

    def match_known(self, key: str):
        """Return the known entry whose match key equals `key` (status known), else None."""
        for k in self.known:
            if k.get("status") == "known" and k.get("match") == key:
                return k
        return None

    # ---- finish ------------------------------------------------------------
    def finish(self) -> int:
        os.makedirs(os.path.join(VERIF, "evidence"), exist_ok=True)
        wall = time.time() - self.t0
        cov = dict(self.coverage)
        cov.setdefault("evaluations", 0)
        cov.setdefault("distinct_nontrivial", 0)
        if self.obligations >= 1 and self.discharged >= 1:
            cov["obligations"] = self.obligations
            cov["discharged"] = self.discharged
        else:
            # nothing was discharged on this run (a proof or bridge is broken): the run is reported through the
            # exploration counts, and the obligation counts are kept under keys the proof-level rule does not read
            cov["obligations_stated"] = self.obligations
            cov["obligations_discharged"] = self.discharged
        cov.setdefault("checker_cmd", "make -C /verif/coq (coqc 8.16.1, full .vo build) ; coqc Cases/*.v (vm_compute)")
        cov.setdefault("trusted_base", [])
        cov["known_findings_confirmed"] = [f"{a}: {b}" for a, b in self.known_hits]
        cov["notes"] = self.notes
        ev = {
            "property_id": self.pid, "tier": self.tier, "seed": self.seed, "level": self.level,
            "coverage": cov, "assumptions": self.assumptions, "wall_s": round(wall, 2),
            "violations": len(self.violations),
        }
        with open(os.path.join(VERIF, "evidence", f"{self.pid}.json"), "w") as fh:
            json.dump(ev, fh, indent=1, default=str)
        for fid, what in self.known_hits:
            print(f"KNOWN-FINDING: property={self.pid} {fid}: {what}")
        if self.violations:
            rdir = os.path.join(VERIF, "replays")
            os.makedirs(rdir, exist_ok=True)
            for n, (what, replay, found) in enumerate(self.violations[:5]):
                path = os.path.join(rdir, f"{self.pid}_{self.seed}_{n}.json")
                with open(path, "w") as fh:
                    json.dump({"property": self.pid, "what": what, "replay": replay,
                               "failing_input_found": found}, fh, indent=1, default=str)
                tail = "" if found else " no-failing-input-found"
                print(f"# {what}")
                print(f"VIOLATION property={self.pid} replay={path}{tail}")
            return 1
        print(f"OK property={self.pid} tier={self.tier} obligations={self.discharged}/{self.obligations} "
              f"evaluations={cov.get('evaluations')} wall={wall:.1f}s")
        return 0


def prove(report: Report, targets, theorem_files=None):
    """Static gate + full .vo build of the proof targets + Print Assumptions of the property
    files.  Counts obligations (statements in Props/ and Bridge/ targets).  Returns True if ok."""
    if os.environ.get("VERIF_DEV_SKIP_PROOFS"):      # development aid only, never used by MANIFEST commands
        report.notes.append("proofs skipped (VERIF_DEV_SKIP_PROOFS)")
        ok, log = make([t for t in targets if t.startswith("Gen/")] + ["Model/Harness.vo"] + [g for g in os.environ["VERIF_DEV_SKIP_PROOFS"].split(",") if g.endswith(".vo")])
        return ok
    bad = static_gate()
    if bad:
        report.violation("static gate: " + "; ".join(bad[:5]),
                         {"kind": "static-gate", "details": bad}, found_input=False)
        return False
    ok, log = make(targets)
    n_thm = 0
    for t in targets:
        src = os.path.join(COQ, t[:-1])   # .vo -> .v
        if os.path.exists(src):
            n_thm += len(re.findall(r"^\s*(Theorem|Lemma|Corollary|Example)\b",
                                    strip_coq_comments(open(src).read()), re.M))
    report.obligations += n_thm
    if not ok:
        m = re.search(r'File "([^"]+)", line (\d+)[^\n]*\n((?:.*\n){0,12})', log)
        where = f"{m.group(1)}:{m.group(2)}" if m else "unknown"
        report.coverage["broken_obligation"] = {"where": where, "log_tail": log[-2500:]}
        return False
    report.discharged += n_thm
    axioms = {}
    for t in targets:
        if not t.startswith("Props/"):
            continue
        blocks, out = assumptions_of(t[:-1])
        if blocks is None:
            report.coverage["broken_obligation"] = {"where": t, "log_tail": out}
            report.discharged -= n_thm
            return False
        closed = sum(1 for b in blocks if b.startswith("Closed"))
        ax = sorted({ln.strip().split(" :")[0] for b in blocks if b.startswith("Axioms")
                     for ln in b.splitlines()[1:] if ln and not ln.startswith(" ") and " :" in ln})
        axioms[t] = {"theorems_printed": len(blocks), "closed_under_global_context": closed, "axioms": ax}
    report.coverage["print_assumptions"] = axioms
    return True


def prove_tied(report, targets, translators):
    """Regenerate the Gen files of the given translator modules from REPO, then prove the targets.  A translator that
    raises (fail closed) or a fact that no longer holds leaves the obligation unchecked: returns False."""
    tr_ok = True
    for mod in translators:
        try:
            facts = mod.generate(REPO, COQ)
            bad = {fn: v for fn, v in (facts or {}).items() if v}
            if bad:
                report.coverage.setdefault("source_facts_changed", {}).update(bad)
        except Exception as exc:  # noqa: BLE001
            tr_ok = False
            report.notes.append(f"translator {mod.__name__.rsplit('.', 1)[-1]} failed ({type(exc).__name__}: {exc})")
    ok = prove(report, targets)
    if not tr_ok:
        report.coverage.setdefault("broken_obligation", {"where": "translator: " + report.notes[-1]})
    return ok and tr_ok


def assumptions_of(vfile: str):
    """Re-run coqc on a Props file (cheap) and return its Print Assumptions lines."""
    rc, out, err_ = coqc_file(vfile, timeout=600)
    if rc != 0:
        return None, (out + err_)[-2000:]
    blocks = re.findall(r"(Closed under the global context|Axioms:\n(?:.+\n?)+)", out)
    return blocks, out


def rng_for(seed: int, stream: str) -> random.Random:
    return random.Random(f"{seed}/{stream}")


# --------------------------------------------------------------------------
# isolation: run a function in a forked child (fresh interpreter state, hard timeout)
# --------------------------------------------------------------------------
def forked(fn, *args, timeout=60):
    """Returns ("ok", value) | ("exc", repr) | ("timeout", None) | ("died", status)."""
    import pickle
    import select
    import signal
    r, w = os.pipe()
    pid = os.fork()
    if pid == 0:
        try:
            os.close(r)
            try:
                out = ("ok", fn(*args))
            except BaseException as exc:  # noqa: BLE001
                out = ("exc", f"{type(exc).__name__}: {exc}"[:500])
            data = pickle.dumps(out)
            with os.fdopen(w, "wb") as fh:
                fh.write(data)
        finally:
            os._exit(0)
    os.close(w)
    chunks = []
    deadline = time.time() + timeout
    with os.fdopen(r, "rb") as fh:
        while True:
            left = deadline - time.time()
            if left <= 0:
                os.kill(pid, signal.SIGKILL)
                os.waitpid(pid, 0)
                return ("timeout", None)
            ready, _, _ = select.select([fh], [], [], min(left, 1.0))
            if ready:
                b = fh.read()
                chunks.append(b)
                break
    _, status = os.waitpid(pid, 0)
    data = b"".join(chunks)
    if not data:
        return ("died", status)
    return pickle.loads(data)
