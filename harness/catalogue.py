"""Operation catalogue: for every numpy function that numpoly registers, generators of valid
argument tuples.  `mk(shape)` is supplied by the caller and returns a polynomial array (general,
constant, of some dtype, ...) of the requested shape; everything random comes from `rng`.

Each entry returns (args, kwargs); polynomial arguments are produced through mk so that the same
call can be replayed with other operand kinds (constants for C11, object arrays as oracle for C09).
"""
from __future__ import annotations

import numpy


def _axis(rng, nd, allow_none=True):
    opts = list(range(-nd, nd)) + ([None] if allow_none else [])
    return rng.choice(opts) if opts else None


def _shape(rng, lo=1, hi=3):
    nd = rng.randint(lo, hi)
    return tuple(rng.choice([1, 2, 2, 3]) for _ in range(nd))


def _bpair(rng):
    s = _shape(rng, 0, 2)
    k = rng.randint(0, len(s))
    t = tuple(1 if rng.random() < 0.3 else d for d in s[len(s) - k:])
    return (s, t) if rng.random() < 0.5 else (t, s)


UNARY = ["absolute", "negative", "positive", "square", "ceil", "floor", "rint", "isfinite"]
BINARY = ["add", "subtract", "multiply", "equal", "not_equal", "greater", "greater_equal", "less", "less_equal",
          "logical_and", "logical_or", "maximum", "minimum"]
CONST_DIV = ["floor_divide", "divide", "remainder", "divmod"]       # numeric division: constants as divisors
REDUCE = ["sum", "prod", "mean", "cumsum", "all", "any", "amax", "amin", "max", "min", "argmax", "argmin", "count_nonzero"]


def entries():
    E = {}

    def reg(name):
        def deco(fn):
            E[name] = fn
            return fn
        return deco

    for nm in UNARY:
        E[nm] = (lambda rng, mk: ((mk(_shape(rng, 0, 2)),), {}))
    for nm in BINARY:
        E[nm] = (lambda rng, mk: (tuple(mk(s) for s in _bpair(rng)), {}))
    def constdiv(rng, mk):
        s, t = _bpair(rng)
        return (mk(s), mk(t, const=True, nonzero=True)), {}
    for nm in CONST_DIV:
        E[nm] = constdiv

    @reg("power")
    def _(rng, mk):
        s, t = _bpair(rng)
        e = numpy.array([rng.choice([0, 1, 2]) for _ in range(int(numpy.prod(t)) if t else 1)]).reshape(t)
        return (mk(s), e if rng.random() < 0.5 else int(rng.choice([0, 1, 2, 3]))), {}

    @reg("around")
    def _(rng, mk):
        return (mk(_shape(rng, 0, 2)),), ({"decimals": rng.choice([0, 1])} if rng.random() < 0.5 else {})
    E["round"] = E["around"]

    def reducer(kw_keepdims=True, axis_tuple=False):
        def gen(rng, mk):
            s = _shape(rng, 0, 3)
            kw = {}
            r = rng.random()
            if not s:
                pass                      # a 0-d operand: numpy accepts no axis but None
            elif r < 0.6:
                kw["axis"] = _axis(rng, len(s), allow_none=False)
                if rng.random() < 0.15:
                    kw["axis"] = rng.choice([numpy.int64, numpy.int32, numpy.intp])(kw["axis"])    # numpy accepts its own integers
            elif r < 0.75 and axis_tuple and len(s) >= 2:
                axes = rng.sample(range(len(s)), rng.randint(2, len(s)))      # any order, negative entries too
                kw["axis"] = tuple(a - len(s) if rng.random() < 0.5 else a for a in axes)
            if kw_keepdims and rng.random() < 0.3:
                kw["keepdims"] = True
            return (mk(s),), kw
        return gen
    for nm in ("sum", "prod", "mean", "all", "any", "amax", "amin", "max", "min"):
        E[nm] = reducer(True, nm in ("sum", "prod", "mean", "all", "any"))
    E["cumsum"] = reducer(False)
    def arg_reducer(rng, mk, base=reducer(False)):        # numpy.argmax / argmin take keepdims (D44), but no axis tuple
        args, kw = base(rng, mk)
        if "axis" in kw and rng.random() < 0.3:
            kw["keepdims"] = True
        return args, kw
    E["argmax"] = arg_reducer
    E["argmin"] = arg_reducer
    E["count_nonzero"] = reducer(True)       # numpy.count_nonzero takes keepdims (D42)
    E["nonzero"] = lambda rng, mk: ((mk(_shape(rng, 1, 2)),), {})

    @reg("reshape")
    def _(rng, mk):
        s = _shape(rng, 0, 3)
        n = int(numpy.prod(s)) if s else 1
        cands = [(n,), (-1,), (1, n), (n, 1)] + [()] * (n == 1) + [(a, n // a) for a in (2, 3) if n % a == 0] + [(2, -1)] * (n % 2 == 0)
        return (mk(s), rng.choice(cands)), {}

    @reg("transpose")
    def _(rng, mk):
        s = _shape(rng, 0, 3)
        kw = {}
        if rng.random() < 0.5:
            ax = list(range(len(s)))
            rng.shuffle(ax)
            kw["axes"] = tuple(ax)
        return (mk(s),), kw

    @reg("moveaxis")
    def _(rng, mk):
        s = _shape(rng, 2, 3)
        return (mk(s), _axis(rng, len(s), False), _axis(rng, len(s), False)), {}

    @reg("expand_dims")
    def _(rng, mk):
        s = _shape(rng, 0, 2)
        return (mk(s),), {"axis": rng.randint(-len(s) - 1, len(s))}

    for nm in ("atleast_1d", "atleast_2d", "atleast_3d"):
        E[nm] = lambda rng, mk: ((mk(_shape(rng, 0, 3)),), {})

    @reg("repeat")
    def _(rng, mk):
        s = _shape(rng, 0, 2)
        kw = {"axis": _axis(rng, len(s))} if s and rng.random() < 0.7 else {}
        return (mk(s), rng.choice([1, 2, 3])), kw

    @reg("tile")
    def _(rng, mk):
        return (mk(_shape(rng, 0, 2)), rng.choice([2, (2, 1), (1, 2), (2, 2), (2, 1, 1)])), {}

    def joiner(name):
        """Operands of 0-3 dimensions that differ along the axis numpy joins on (hstack: axis 1, or 0 for 1-D;
        vstack: axis 0 of the at-least-2-D operands; dstack: axis 2 of the at-least-3-D operands)."""
        def gen(rng, mk):
            lo = 1 if name == "concatenate" else 0
            s = list(_shape(rng, lo, 3))
            nd = len(s)
            k = rng.randint(2, 3)
            kw = {}
            if name == "concatenate":
                ja = 0
                if rng.random() < 0.6:
                    ja = _axis(rng, nd, False)
                    kw = {"axis": ja}
                ja %= nd
            elif name == "hstack":
                ja = None if nd == 0 else (0 if nd == 1 else 1)
            elif name == "vstack":
                ja = 0 if nd >= 2 else None
            else:   # dstack
                ja = 2 if nd >= 3 else None
            ops = []
            for _ in range(k):
                t = list(s)
                if ja is not None and rng.random() < 0.6:
                    t[ja] = rng.choice([1, 2, 3])
                ops.append(mk(tuple(t)))
            return (ops,), kw
        return gen
    E["concatenate"] = joiner("concatenate")
    E["stack"] = lambda rng, mk: (lambda s, k: (([mk(s) for _ in range(k)],), {"axis": rng.randint(-len(s) - 1, len(s))} if rng.random() < 0.6 else {}))(_shape(rng, 0, 3), rng.randint(2, 3))
    for nm in ("hstack", "vstack", "dstack"):
        E[nm] = joiner(nm)

    @reg("split")
    def _(rng, mk):
        s = list(_shape(rng, 1, 2))
        ax = rng.randrange(len(s))
        s[ax] = rng.choice([2, 4, 6])
        return (mk(tuple(s)), 2), {"axis": ax}

    @reg("array_split")
    def _(rng, mk):
        s = list(_shape(rng, 1, 2))
        ax = rng.randrange(len(s))
        s[ax] = rng.choice([3, 4, 5])
        return (mk(tuple(s)), rng.choice([2, 3, [1, 2]])), {"axis": ax}

    def splitter(axis, mindim):
        """hsplit/vsplit/dsplit on every rank numpy accepts (hsplit: 1-D arrays are split along axis 0), with a section
        count or a list of split points."""
        def gen(rng, mk):
            nd = rng.randint(mindim, 3)
            s = [rng.choice([1, 2]) for _ in range(nd)]
            s[axis if nd > axis else 0] = 4
            return (mk(tuple(s)), rng.choice([2, 2, 4, [1, 3], [2]])), {}
        return gen
    E["hsplit"] = splitter(1, 1)
    E["vsplit"] = splitter(0, 2)
    E["dsplit"] = splitter(2, 3)

    @reg("diag")
    def _(rng, mk):
        s = rng.choice([(3,), (2, 2), (3, 3), (1, 3), (2, 3)])
        return (mk(s),), ({"k": rng.choice([-1, 0, 1])} if rng.random() < 0.5 else {})

    @reg("diagonal")
    def _(rng, mk):
        s = rng.choice([(2, 2), (3, 3), (1, 3), (2, 3), (2, 2, 3)])
        return (mk(s),), ({"offset": rng.choice([-1, 0, 1])} if rng.random() < 0.5 else {})

    E["broadcast_arrays"] = lambda rng, mk: (tuple(mk(s) for s in _bpair(rng)), {})

    @reg("where")
    def _(rng, mk):
        s, t = _bpair(rng)
        shape = numpy.broadcast_shapes(s, t)
        cond = numpy.array([rng.random() < 0.5 for _ in range(int(numpy.prod(shape)) if shape else 1)]).reshape(shape)
        return (cond, mk(s), mk(t)), {}

    @reg("choose")
    def _(rng, mk):
        s = _shape(rng, 0, 2)                   # 0-d index with 0-d choices included (D34)
        n = rng.choice([2, 2, 3])
        kw = {}
        lo, hi = 0, n
        if rng.random() < 0.25:
            kw["mode"] = rng.choice(["wrap", "clip"])
            lo, hi = -2, n + 2
        idx = numpy.array([rng.randrange(lo, hi) for _ in range(int(numpy.prod(s)) if s else 1)]).reshape(s)
        return (idx, [mk(s) for _ in range(n)]), kw

    E["full"] = lambda rng, mk: ((_shape(rng, 1, 2), mk(())), {})
    E["full_like"] = lambda rng, mk: ((mk(_shape(rng, 1, 2)), mk(())), {})
    for nm in ("ones_like", "zeros_like"):
        E[nm] = lambda rng, mk: ((mk(_shape(rng, 0, 2)),), {})
    for nm in ("ones", "zeros"):
        E[nm] = None           # only dispatch through like=
    E["copyto"] = None         # has an explicit destination (C17 handles it)
    E["savetxt"] = None        # file I/O (C13)

    E["det"] = lambda rng, mk: ((mk(rng.choice([(2, 2), (3, 3), (2, 2, 2)])),), {})
    E["inner"] = lambda rng, mk: (lambda k: ((mk((k,)), mk((k,))), {}))(rng.choice([1, 2, 3]))
    E["outer"] = lambda rng, mk: ((mk((rng.choice([1, 2, 3]),)), mk((rng.choice([1, 2]),))), {})

    @reg("matmul")
    def _(rng, mk):
        a, b, c = rng.choice([1, 2, 3]), rng.choice([1, 2]), rng.choice([1, 2, 3])
        return (mk((a, b)), mk((b, c))), {}

    @reg("diff")
    def _(rng, mk):
        s = list(_shape(rng, 1, 2))
        ax = rng.randrange(len(s))
        s[ax] = rng.choice([2, 3, 4])
        kw = {"axis": ax}
        if rng.random() < 0.4:
            kw["n"] = rng.choice([1, 2])
        return (mk(tuple(s)),), kw

    @reg("ediff1d")
    def _(rng, mk):
        kw = {}
        if rng.random() < 0.3:
            kw["to_end"] = mk((1,))
        if rng.random() < 0.3:
            kw["to_begin"] = mk((1,))
        return (mk((rng.choice([2, 3, 4]),)),), kw

    E["isclose"] = lambda rng, mk: (tuple(mk(s) for s in _bpair(rng)), {})
    E["allclose"] = lambda rng, mk: (tuple(mk(s) for s in _bpair(rng)), {})
    E["common_type"] = lambda rng, mk: ((mk(()), mk((2,))), {})
    E["result_type"] = lambda rng, mk: ((mk(()), mk((2,))), {})
    E["array_repr"] = lambda rng, mk: ((mk(_shape(rng, 0, 2)),), {})
    E["array_str"] = lambda rng, mk: ((mk(_shape(rng, 0, 2)),), {})
    E["apply_along_axis"] = lambda rng, mk: ((numpy.sum, 0, mk((2, 3))), {})
    E["apply_over_axes"] = lambda rng, mk: ((numpy.sum, mk((2, 3)), [0]), {})
    return E


# method / operator spellings of registered functions: name -> callable(args, kwargs)
def method_spellings():
    import operator
    M = {
        "add": lambda a, k: operator.add(*a), "subtract": lambda a, k: operator.sub(*a),
        "multiply": lambda a, k: operator.mul(*a), "negative": lambda a, k: operator.neg(*a),
        "positive": lambda a, k: operator.pos(*a), "power": lambda a, k: operator.pow(*a),
        "equal": lambda a, k: operator.eq(*a), "not_equal": lambda a, k: operator.ne(*a),
        "greater": lambda a, k: operator.gt(*a), "greater_equal": lambda a, k: operator.ge(*a),
        "less": lambda a, k: operator.lt(*a), "less_equal": lambda a, k: operator.le(*a),
        "matmul": lambda a, k: operator.matmul(*a), "floor_divide": lambda a, k: operator.floordiv(*a),
        "absolute": lambda a, k: abs(a[0]),
    }
    # methods that ndpoly overrides or that ndarray routes through the dispatched numpy functions
    for nm in ("sum", "prod", "mean", "cumsum", "all", "any", "max", "min", "reshape", "transpose",
               "repeat", "diagonal", "round"):
        M[nm] = (lambda nm: lambda a, k: getattr(a[0], nm)(*a[1:], **k))(nm)
    M["transpose"] = lambda a, k: a[0].transpose(*([k["axes"]] if "axes" in k else []))
    M["amax"] = M["max"]
    M["amin"] = M["min"]
    M["around"] = M["round"]
    return M
