"""Exact reference arithmetic used as harness-side oracle.

* polynomials as dicts {monomial: coefficient}, monomial = tuple of (variable index, exponent > 0)
  sorted by variable (the same canonical form as core.canon_elements), coefficients int/Fraction;
* `Formal`: formal polynomial expressions in *input elements* (element ids), so that a numpy
  function applied to an object array of Formal values reveals which finite sum of products of
  input elements numpy computes at every result position.
"""
from __future__ import annotations

from fractions import Fraction


# ---- polynomials ---------------------------------------------------------------------------
def p_from_canon(el):
    return {m: c for m, c in el}


def p_canon(p):
    return sorted((m, c) for m, c in p.items() if c != 0)


def p_add(a, b, sb=1):
    out = dict(a)
    for m, c in b.items():
        out[m] = out.get(m, 0) + sb * c
    return {m: c for m, c in out.items() if c != 0}


def m_mul(m1, m2):
    d = dict(m1)
    for v, e in m2:
        d[v] = d.get(v, 0) + e
    return tuple(sorted(d.items()))


def p_mul(a, b):
    out = {}
    for m1, c1 in a.items():
        for m2, c2 in b.items():
            m = m_mul(m1, m2)
            out[m] = out.get(m, 0) + c1 * c2
    return {m: c for m, c in out.items() if c != 0}


def p_scale(a, k):
    return {m: c * k for m, c in a.items() if c * k != 0}


def p_const(k):
    return {(): k} if k != 0 else {}


# ---- formal expressions in input elements -----------------------------------------------------
class Formal:
    """sum of coef * product of element ids; `terms`: {sorted tuple of ids: Fraction}.
    Products are kept as ordered-insensitive multisets (the ring is commutative)."""
    __slots__ = ("terms",)
    __array_priority__ = 1000

    def __init__(self, terms=None):
        self.terms = terms or {}

    @staticmethod
    def elem(i):
        return Formal({(i,): Fraction(1)})

    @staticmethod
    def lift(x):
        if isinstance(x, Formal):
            return x
        return Formal({(): Fraction(x)} if x != 0 else {})

    def __add__(self, o):
        o = Formal.lift(o)
        out = dict(self.terms)
        for k, c in o.terms.items():
            out[k] = out.get(k, 0) + c
        return Formal({k: c for k, c in out.items() if c != 0})
    __radd__ = __add__

    def __neg__(self):
        return Formal({k: -c for k, c in self.terms.items()})

    def __sub__(self, o):
        return self + (-Formal.lift(o))

    def __rsub__(self, o):
        return Formal.lift(o) + (-self)

    def __mul__(self, o):
        o = Formal.lift(o)
        out = {}
        for k1, c1 in self.terms.items():
            for k2, c2 in o.terms.items():
                k = tuple(sorted(k1 + k2))
                out[k] = out.get(k, 0) + c1 * c2
        return Formal({k: c for k, c in out.items() if c != 0})
    __rmul__ = __mul__

    def __truediv__(self, o):
        return Formal({k: c / Fraction(o) for k, c in self.terms.items()})

    def __repr__(self):
        return "F(" + " + ".join(f"{c}*{list(k)}" for k, c in sorted(self.terms.items())) + ")"

    def evaluate(self, lookup):
        """lookup(id) -> polynomial dict; returns the polynomial dict (Fraction/int coefficients)."""
        out = {}
        for k, c in self.terms.items():
            t = p_const(1)
            for i in k:
                t = p_mul(t, lookup(i))
            out = p_add(out, p_scale(t, c))
        return out


def leibniz_det(M):
    """Determinant of a square list-of-lists matrix over any commutative ring (+, -, *)."""
    d = len(M)
    if d == 0:
        return 1
    if d == 1:
        return M[0][0]
    total = None
    for j in range(d):
        minor = [[row[c] for c in range(d) if c != j] for row in M[1:]]
        t = M[0][j] * leibniz_det(minor)
        if total is None:
            total = t
        else:
            total = total - t if j % 2 else total + t
    return total
