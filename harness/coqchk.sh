#!/bin/bash
# coqchk.sh : re-check every compiled property file (and everything it depends on) with Coq's independent checker and
# print the axioms the closure relies on.  Takes several minutes; output is kept in /verif/evidence/coqchk.txt.
cd /verif/coq || exit 2
mods=$(ls Props/P_C*.v | sed 's|Props/\(.*\)\.v|NP.\1|' | tr '\n' ' ')
timeout ${COQCHK_TIMEOUT:-7200} coqchk -silent -o -Q Model NP -Q Proofs NP -Q Props NP -Q Gen NP -Q Bridge NP $mods > /verif/evidence/coqchk.txt 2>&1
rc=$?
tail -15 /verif/evidence/coqchk.txt
exit $rc
