"""./check <property> [--tier quick|thorough] [--replay file]"""
from __future__ import annotations

import argparse
import importlib
import os
import sys
import traceback

sys.path.insert(0, os.path.dirname(os.path.dirname(os.path.abspath(__file__))))

from harness import core  # noqa: E402


def setup() -> int:
    """Regenerate Gen/*.v from /repo and build the whole development (full .vo)."""
    from harness import translators
    errs = translators.generate_all(core.REPO, core.COQ, fallback=True)
    for e in errs:
        print("translator:", e)
    ok, log = core.make(["-k"], timeout=3000)
    print(log[-3000:])
    if not ok:
        # a property file that does not build is reported by that property's own check (which rebuilds its
        # targets); the setup only fails when the shared model, which every check needs, is missing
        import os
        need = [os.path.join(core.COQ, "Model", "Harness.vo"), os.path.join(core.COQ, "Proofs", "Abs.vo")]
        missing = [p for p in need if not os.path.exists(p)]
        print("setup: some targets failed to build (see above); shared model " + ("MISSING: %s" % missing if missing else "is built"))
        return 1 if missing else 0
    return 0


def main() -> int:
    import warnings
    warnings.simplefilter("ignore")
    ap = argparse.ArgumentParser()
    ap.add_argument("prop")
    ap.add_argument("--tier", default=os.environ.get("VERIF_TIER", "quick"), choices=["quick", "thorough"])
    ap.add_argument("--replay", default=None)
    args = ap.parse_args()
    seed = int(os.environ.get("VERIF_SEED", "0") or 0)
    pid = args.prop.upper()
    if pid == "SETUP":
        return setup()
    mod = importlib.import_module(f"harness.props.{pid.lower()}")
    if args.replay:
        return mod.replay(args.replay)
    report = core.Report(pid, args.tier, seed)
    try:
        mod.run(report, args.tier, seed)
    except Exception:  # a crash of the machinery is never a pass
        traceback.print_exc()
        report.violation("check machinery crashed: " + traceback.format_exc()[-800:],
                         {"kind": "harness-crash"}, found_input=False)
    return report.finish()


if __name__ == "__main__":
    sys.exit(main())
