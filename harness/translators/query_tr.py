"""Fail-closed translator: numpoly/poly_function/{lead_exponent,lead_coefficient,sortable_proxy,isconstant,tonumpy,
decompose,set_dimensions}.py -> coq/Gen/GenQuery.v

Each function body is read statement by statement (docstring dropped, local names renamed in order of first binding so
that a pure renaming is not a difference) and every statement is compared with the statement the Coq model in
Model/Compare.v (lead_*), Model/Proxy.v and Model/Query.v was written from.  One boolean fact per statement; a different
number of statements, an unreadable file or a changed signature raises (fail closed).  Bridge/BridgeQuery.v proves that
all facts hold; when one does not, the C19 check goes on to search model-vs-/repo for a failing input.
"""
from __future__ import annotations

import ast
import os

GEN_NAME = "GenQuery.v"


class TranslatorError(Exception):
    pass


KEEP = {"numpy", "numpoly", "len", "zip", "int", "list", "tuple", "True", "False", "None", "range"}


def normalised(path, name):
    tree = ast.parse(open(path).read())
    fns = [n for n in tree.body if isinstance(n, ast.FunctionDef) and n.name == name]
    if len(fns) != 1:
        raise TranslatorError(f"{os.path.basename(path)}: function {name} not found exactly once")
    fn = fns[0]
    body = fn.body
    if body and isinstance(body[0], ast.Expr) and isinstance(getattr(body[0], "value", None), ast.Constant) \
            and isinstance(body[0].value.value, str):
        body = body[1:]
    params = [a.arg for a in fn.args.posonlyargs + fn.args.args]
    if fn.args.vararg:
        params.append("*" + fn.args.vararg.arg)
    params += [a.arg for a in fn.args.kwonlyargs]
    if fn.args.kwarg:
        params.append("**" + fn.args.kwarg.arg)
    # logging is not behaviour: logger set-up and logger.debug/info/warning calls are skipped
    def is_logging(st):
        if isinstance(st, ast.Assign) and isinstance(st.value, ast.Call) and ast.unparse(st.value.func) == "logging.getLogger":
            return True
        return (isinstance(st, ast.Expr) and isinstance(st.value, ast.Call) and isinstance(st.value.func, ast.Attribute)
                and st.value.func.attr in ("debug", "info", "warning") and isinstance(st.value.func.value, ast.Name)
                and st.value.func.value.id in ("logger", "log", "LOGGER"))
    body = [st for st in body if not is_logging(st)]
    stores = []
    for st in body:
        for n in sorted((x for x in ast.walk(st) if isinstance(x, ast.Name) and isinstance(x.ctx, ast.Store)),
                        key=lambda x: (x.lineno, x.col_offset)):
            if n.id not in [q.lstrip("*") for q in params] and n.id not in KEEP and n.id not in stores:
                stores.append(n.id)
    ren = {s: f"v{k}" for k, s in enumerate(stores)}

    class R(ast.NodeTransformer):
        def visit_Name(self, n):
            return ast.copy_location(ast.Name(id=ren.get(n.id, n.id), ctx=n.ctx), n)

    return params, [ast.unparse(R().visit(st)) for st in body]


# (file, function, parameters, [(fact name, statement as modelled)])
EXPECTED = [
    ("lead_exponent.py", "lead_exponent", ["poly", "graded", "reverse"], [
        ("operand_is_aspolynomial", "v0 = numpoly.aspolynomial(poly)"),
        ("shape_saved", "v1 = v0.shape"),
        ("ravel_unused", "poly = v0.ravel()"),
        ("starts_from_zeros", "v2 = numpy.zeros(v0.shape + (len(v0.names),), dtype=int)"),
        ("empty_returns_zeros", "if not v0.size:\n    return v2"),
        ("last_write_wins_in_glexsort_order",
         "for v3 in numpoly.glexsort(v0.exponents.T, graded=graded, reverse=reverse):\n"
         "    v2[v0.coefficients[v3] != 0] = v0.exponents[v3]"),
        ("returns_rows", "return v2.reshape(v1 + (len(v0.names),))"),
    ]),
    ("lead_coefficient.py", "lead_coefficient", ["poly", "graded", "reverse"], [
        ("operand_is_aspolynomial", "poly = numpoly.aspolynomial(poly)"),
        ("starts_from_zeros", "v0 = numpy.zeros(poly.shape, dtype=poly.dtype)"),
        ("empty_returns_zeros", "if not v0.size:\n    return v0"),
        ("last_write_wins_in_glexsort_order",
         "for v1 in numpoly.glexsort(poly.exponents.T, graded=graded, reverse=reverse):\n"
         "    v2 = poly.coefficients[v1]\n    v3 = v2 != 0\n    v0[v3] = v2[v3]"),
        ("scalar_unboxed", "if not poly.shape:\n    v0 = v0.item()"),
        ("returns_values", "return v0"),
    ]),
    ("sortable_proxy.py", "sortable_proxy", ["poly", "graded", "reverse"], [
        ("operand_is_aspolynomial", "poly = numpoly.aspolynomial(poly)"),
        ("coefficients_read", "v0 = poly.coefficients"),
        ("starts_from_minus_one", "v1 = numpy.tile(-1, poly.shape)"),
        ("groups_by_lead_exponent", "v2 = numpoly.lead_exponent(poly, graded=graded, reverse=reverse)"),
        ("stable_rank_in_each_group_above_all_earlier",
         "for v3 in numpoly.glexsort(poly.exponents.T, graded=graded, reverse=reverse):\n"
         "    v4 = numpy.all(v2 == poly.exponents[v3], axis=-1)\n"
         "    v5 = numpy.argsort(v0[v3][v4], kind='stable')\n"
         "    v1[v4] = numpy.argsort(v5) + numpy.max(v1) + 1"),
        ("final_ranks", "v1 = numpy.argsort(numpy.argsort(v1.ravel())).reshape(v1.shape)"),
        ("returns_ranks", "return v1"),
    ]),
    ("isconstant.py", "isconstant", ["poly"], [
        ("operand_is_aspolynomial", "poly = numpoly.aspolynomial(poly)"),
        ("no_nonzero_coefficient_on_a_nonzero_exponent",
         "for v0, v1 in zip(poly.exponents, poly.coefficients):\n    if not numpy.any(v0):\n        continue\n"
         "    if numpy.any(v1):\n        return False"),
        ("otherwise_true", "return True"),
    ]),
    ("tonumpy.py", "tonumpy", ["poly"], [
        ("operand_is_aspolynomial", "poly = numpoly.aspolynomial(poly)"),
        ("nonconstant_refused",
         "if not poly.isconstant():\n    raise numpoly.FeatureNotSupported('only constant polynomials can be converted to array.')"),
        ("zero_exponent_rows", "v0 = numpy.argwhere(numpy.all(poly.exponents == 0, -1))"),
        ("no_constant_term_is_zero", "if not v0.size:\n    return numpy.zeros(poly.shape, dtype=poly.dtype)"),
        ("the_one_zero_exponent_row", "v1 = v0.item()"),
        ("its_coefficients", "if poly.size:\n    return numpy.array(poly.coefficients[v1])"),
        ("empty", "return numpy.array([])"),
    ]),
    ("decompose.py", "decompose", ["poly"], [
        ("operand_is_aspolynomial", "poly = numpoly.aspolynomial(poly)"),
        ("one_slice_per_stored_term",
         "return numpoly.concatenate([numpoly.construct.polynomial_from_attributes(exponents=[v1], "
         "coefficients=[numpy.asarray(poly.values[v0])], names=poly.indeterminants, retain_coefficients=True, "
         "retain_names=True)[numpy.newaxis] for v0, v1 in zip(poly.keys, poly.exponents)])"),
    ]),
    ("array_function/argmin.py", "argmin", ["a", "axis", "out", "**kwargs"], [
        ("operand_is_aspolynomial", "a = numpoly.aspolynomial(a)"),
        ("options_read", "v0 = numpoly.get_options()"),
        ("ranks_of_the_array", "v1 = numpoly.sortable_proxy(a, graded=v0['sort_graded'], reverse=v0['sort_reverse'])"),
        ("numpy_argmin_of_ranks", "return numpy.argmin(v1, axis=axis, out=out, **kwargs)"),
    ]),
    ("array_function/argmax.py", "argmax", ["a", "axis", "out", "**kwargs"], [
        ("operand_is_aspolynomial", "a = numpoly.aspolynomial(a)"),
        ("options_read", "v0 = numpoly.get_options()"),
        ("ranks_of_the_reversed_array_reversed_back",
         "v1 = numpoly.sortable_proxy(a.ravel()[::-1], graded=v0['sort_graded'], reverse=v0['sort_reverse'])[::-1].reshape(a.shape)"),
        ("numpy_argmax_of_ranks", "return numpy.argmax(v1, axis=axis, out=out, **kwargs)"),
    ]),
    ("array_function/amin.py", "amin", ["a", "axis", "out", "**kwargs"], [
        ("out_ignored", "del out"),
        ("operand_is_aspolynomial", "v0 = numpoly.aspolynomial(a)"),
        ("options_read", "v1 = numpoly.get_options()"),
        ("ranks_of_the_array", "v2 = numpoly.sortable_proxy(v0, graded=v1['sort_graded'], reverse=v1['sort_reverse'])"),
        ("smallest_rank", "v3 = numpy.amin(v2, axis=axis, **kwargs)"),
        ("position_of_that_rank", "v4 = numpy.argsort(v2.ravel())[v3.ravel()]"),
        ("element_there", "out = v0.ravel()[v4]"),
        ("reshaped", "return numpoly.reshape(out, v3.shape)"),
    ]),
    ("array_function/amax.py", "amax", ["a", "axis", "out", "**kwargs"], [
        ("out_ignored", "del out"),
        ("operand_is_aspolynomial", "a = numpoly.aspolynomial(a)"),
        ("options_read", "v0 = numpoly.get_options()"),
        ("ranks_of_the_array", "v1 = numpoly.sortable_proxy(a, graded=v0['sort_graded'], reverse=v0['sort_reverse'])"),
        ("largest_rank", "v2 = numpy.amax(v1, axis=axis, **kwargs)"),
        ("position_of_that_rank", "v3 = numpy.argsort(v1.ravel())[v2.ravel()]"),
        ("element_there", "out = a.ravel()[v3]"),
        ("reshaped", "return numpoly.reshape(out, v2.shape)"),
    ]),
    ("set_dimensions.py", "set_dimensions", ["poly", "dimensions"], [
        ("operand_is_aspolynomial", "poly = numpoly.aspolynomial(poly)"),
        ("default_is_one_more", "if dimensions is None:\n    dimensions = len(poly.names) + 1"),
        ("difference", "v0 = dimensions - len(poly.names)"),
        ("grow_pads_and_sorts_names__shrink_keeps_terms_without_dropped_names",
         "if v0 > 0:\n"
         "    v1 = numpy.zeros((len(poly.exponents), v0), dtype='uint32')\n"
         "    v2 = numpy.hstack([poly.exponents, v1])\n"
         "    v3 = poly.coefficients\n"
         "    v4 = numpoly.get_options()['default_varname']\n"
         "    v5 = list(poly.names)\n"
         "    v6 = 0\n"
         "    while len(v5) < dimensions:\n"
         "        if f'{v4}{v6}' not in v5:\n"
         "            v5.append(f'{v4}{v6}')\n"
         "        v6 += 1\n"
         "    v7 = numpy.lexsort([v5])\n"
         "    v2 = v2[:, v7]\n"
         "    v8 = tuple((v5[v6] for v6 in v7))\n"
         "elif v0 < 0:\n"
         "    v7 = True ^ numpy.any(poly.exponents[:, dimensions:], -1)\n"
         "    v2 = poly.exponents[:, :dimensions]\n"
         "    v2 = v2[v7]\n"
         "    v3 = [v9 for v9, v6 in zip(poly.coefficients, v7) if v6]\n"
         "    if not v3:\n"
         "        v2 = numpy.zeros((1, dimensions), dtype='uint32')\n"
         "        v3 = [numpy.zeros(poly.shape, dtype=poly.dtype)]\n"
         "    v8 = poly.names[:dimensions]\n"
         "else:\n"
         "    return poly"),
        ("rebuilt_with_names_retained",
         "return numpoly.polynomial_from_attributes(exponents=v2, coefficients=v3, names=v8, dtype=poly.dtype, "
         "allocation=poly.allocation, retain_names=True)"),
    ]),
]


def translate(repo):
    out = []
    for fname, fn, params, stmts in EXPECTED:
        path = os.path.join(repo, "numpoly", fname if "/" in fname else os.path.join("poly_function", fname))
        got_params, got = normalised(path, fn)
        if got_params != params:
            raise TranslatorError(f"{fn}: signature {got_params}, modelled {params}")
        if len(got) != len(stmts):
            raise TranslatorError(f"{fn}: {len(got)} statements, the model was written from {len(stmts)}")
        out.append((fn, [(nm, g == want, g) for (nm, want), g in zip(stmts, got)]))
    return out


def generate(repo, coq_dir):
    facts = translate(repo)
    b = lambda x: "true" if x else "false"  # noqa: E731
    lines = ["(* GENERATED by harness/translators/query_tr.py from numpoly/poly_function/*.py - do not edit.",
             "   One fact per statement of each function: is it the statement the Coq model was written from? *)",
             "From mathcomp Require Import all_ssreflect."]
    for fn, fs in facts:
        lines.append(f"(* {fn}: " + ", ".join(nm for nm, _, _ in fs) + " *)")
        lines.append(f"Definition gen_{fn}_facts : seq bool := [:: " + "; ".join(b(ok) for _, ok, _ in fs) + "].")
    lines.append("Definition gen_query_facts : seq (seq bool) := [:: " + "; ".join(f"gen_{fn}_facts" for fn, _ in facts) + "].")
    text = "\n".join(lines) + "\n"
    path = os.path.join(coq_dir, "Gen", GEN_NAME)
    os.makedirs(os.path.dirname(path), exist_ok=True)
    if not os.path.exists(path) or open(path).read() != text:
        with open(path, "w") as fh:
            fh.write(text)
    return {fn: {nm: ok for nm, ok, _ in fs} for fn, fs in facts}
