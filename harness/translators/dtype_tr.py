"""Fail-closed translator for the dtype facts of C12  ->  coq/Gen/GenDType.v

Two sources:
  * the installed numpy (run time): the promotion table of the 14 numeric dtypes (196 ordered
    pairs, numpy.result_type), the NEP-50 result dtype next to Python scalars, the accumulator
    dtype of numpy.sum, and cast samples (astype on boundary integers);
  * /repo's Python sources, by `ast`: where polynomial_from_attributes takes the dtype from, what
    it does with an empty coefficient list, whether the coefficients are cast to the storage dtype
    and whether dtypes unknown to the compiled kernel fall back to numpy assignment
    (construct/from_attributes.py); the guard of the compiled product kernel
    (array_function/multiply.py); the array align_shape stretches with (align.py), how operands are
    converted (weak Python scalars or not); the zero-size shortcut of ndpoly.coefficients
    (baseclass.py).
Anything not recognised raises TranslatorError.
"""
from __future__ import annotations

import ast
import os
import warnings

GEN_NAME = "GenDType.v"

DT = ["bool", "int8", "int16", "int32", "int64", "uint8", "uint16", "uint32", "uint64",
      "float16", "float32", "float64", "complex64", "complex128"]
CQ = {"bool": "B8", "int8": "I8", "int16": "I16", "int32": "I32", "int64": "I64", "uint8": "U8",
      "uint16": "U16", "uint32": "U32", "uint64": "U64", "float16": "F16", "float32": "F32",
      "float64": "F64", "complex64": "C64", "complex128": "C128"}
PREC = {"float16": 11, "float32": 24, "float64": 53, "complex64": 24, "complex128": 53}
SAMPLES = [0, 1, -1, 2, 127, 128, -128, -129, 255, 256, 2047, 2048, 2049, -2049, 32767, 32768, 65535, 65536,
           2 ** 24, 2 ** 24 + 1, 2 ** 31 - 1, 2 ** 31, -(2 ** 31) - 1, 2 ** 32 - 1, 2 ** 32, 2 ** 53, 2 ** 53 + 1,
           2 ** 63 - 1, -(2 ** 63), 2 ** 63, 2 ** 64 - 1]


class TranslatorError(Exception):
    pass


def _chain(e):
    parts = []
    while isinstance(e, ast.Attribute):
        parts.append(e.attr)
        e = e.value
    if isinstance(e, ast.Name):
        parts.append(e.id)
    return ".".join(reversed(parts))


def _func(tree, name):
    fs = [n for n in ast.walk(tree) if isinstance(n, ast.FunctionDef) and n.name == name]
    if len(fs) != 1:
        raise TranslatorError(f"function {name} not found exactly once")
    return fs[0]


def _body(fn):
    body = list(fn.body)
    if body and isinstance(body[0], ast.Expr) and isinstance(body[0].value, ast.Constant) and isinstance(body[0].value.value, str):
        body = body[1:]
    return body


def _mentions(node, attr):
    return any((isinstance(n, ast.Attribute) and n.attr == attr) or (isinstance(n, ast.Name) and n.id == attr)
               for n in ast.walk(node))


# ---- numpy facts -----------------------------------------------------------------------------
def numpy_facts():
    import numpy
    facts = {}
    facts["promote"] = {(a, b): str(numpy.result_type(numpy.dtype(a), numpy.dtype(b))) for a in DT for b in DT}
    for (a, b), r in facts["promote"].items():
        if r not in CQ:
            raise TranslatorError(f"numpy.result_type({a},{b}) = {r} is outside the 14 dtypes")
        x, y = numpy.zeros(2, dtype=a), numpy.ones(2, dtype=b)
        if str((x + y).dtype) != r or str((x * y).dtype) != r:
            raise TranslatorError(f"array arithmetic {a},{b} does not have numpy.result_type's dtype")
    weak = {}
    for d in DT:
        for name, z in (("PyBool", True), ("PyInt", 1), ("PyFloat", 1.0), ("PyComplex", 1j)):
            r = str((numpy.zeros(2, dtype=d) + z).dtype)
            if r not in CQ or r != str((z * numpy.zeros(2, dtype=d)).dtype):
                raise TranslatorError(f"weak promotion {d} with {name}: {r}")
            weak[(d, name)] = r
    facts["weak"] = weak
    facts["sum"] = {d: str(numpy.sum(numpy.zeros(3, dtype=d)).dtype) for d in DT}
    exact, inexact = [], []
    with warnings.catch_warnings():
        warnings.simplefilter("ignore")
        for d in DT:
            for z in SAMPLES:
                src = numpy.array([z], dtype=object).astype("uint64" if z >= 2 ** 63 else "int64")
                r = src.astype(d)[0]
                k = numpy.dtype(d).kind
                if k in "biu":
                    exact.append((d, z, ("Z", int(r))))
                elif k == "f":
                    f = float(r)
                    if f == f and abs(f) != float("inf") and int(f) == z and abs(z) <= 2 ** PREC[d]:
                        exact.append((d, z, ("Z", z)))
                    elif f != f or abs(f) == float("inf") or int(f) != z:
                        inexact.append((d, z))
                else:
                    c = complex(r)
                    if c.imag == 0 and abs(c.real) != float("inf") and int(c.real) == z and abs(z) <= 2 ** PREC[d]:
                        exact.append((d, z, ("C", z, 0)))
                    elif abs(c.real) == float("inf") or int(c.real) != z:
                        inexact.append((d, z))
    facts["cast_exact"], facts["cast_inexact"] = exact, inexact
    return facts


# ---- source facts ----------------------------------------------------------------------------
def from_attributes_facts(repo):
    tree = ast.parse(open(os.path.join(repo, "numpoly", "construct", "from_attributes.py")).read())
    body = _body(_func(tree, "polynomial_from_attributes"))
    fn_body = list(body)
    # an optional leading `if dtype is None and len(coefficients): dtype = numpy.result_type(...)` (common dtype)
    if len(body) == 6 and isinstance(body[0], ast.If) and ast.unparse(body[0].test) == "dtype is None and len(coefficients)":
        body = body[1:]
    if len(body) != 5:
        raise TranslatorError(f"polynomial_from_attributes: {len(body)} top-level statements, expected 5")
    post, choose, alloc, write, ret = body
    if not (isinstance(post, ast.Assign) and isinstance(post.value, ast.Call) and _chain(post.value.func).endswith("postprocess_attributes")):
        raise TranslatorError("first statement is not the call of postprocess_attributes")
    if not (isinstance(ret, ast.Return) and isinstance(ret.value, ast.Name) and ret.value.id == "poly"):
        raise TranslatorError("last statement is not `return poly`")
    if not (isinstance(alloc, ast.Assign) and isinstance(alloc.value, ast.Call) and _chain(alloc.value.func) == "numpoly.ndpoly"
            and {k.arg for k in alloc.value.keywords} >= {"exponents", "shape", "names", "dtype"}):
        raise TranslatorError("allocation `poly = numpoly.ndpoly(...)` not recognised")
    for k in alloc.value.keywords:
        if k.arg == "dtype" and not (isinstance(k.value, ast.Name) and k.value.id == "dtype"):
            raise TranslatorError("ndpoly is not allocated with the chosen dtype")
        if k.arg == "shape" and not (isinstance(k.value, ast.Name) and k.value.id == "shape"):
            raise TranslatorError("ndpoly is not allocated with the chosen shape")

    def is_coeff_test(n):
        return isinstance(n, ast.If) and isinstance(n.test, ast.Name) and n.test.id == "coefficients"
    if not is_coeff_test(choose) or not is_coeff_test(write):
        raise TranslatorError("the `if coefficients:` blocks are not where they were")
    # dtype from the argument, else the common dtype (numpy.result_type) of ALL coefficients passed, computed
    # before the cleaning; the shape from the first coefficient
    pre = [n for n in fn_body if isinstance(n, ast.If) and ast.unparse(n.test) == "dtype is None and len(coefficients)"]
    common = (len(pre) == 1 and len(pre[0].body) == 1 and isinstance(pre[0].body[0], ast.Assign)
              and pre[0].body[0].targets[0].id == "dtype"
              and ast.unparse(pre[0].body[0].value).replace(" ", "").replace("\n", "")
              == "numpy.result_type(*[numpy.asarray(coefficient)forcoefficientincoefficients])"
              and pre[0].lineno < choose.lineno)
    st = choose.body
    first = (len(st) == 2 and isinstance(st[0], ast.Assign) and st[0].targets[0].id == "dtype" and isinstance(st[0].value, ast.IfExp)
             and ast.unparse(st[0].value.test) == "dtype is None" and ast.unparse(st[0].value.body) == "coefficients[0].dtype"
             and ast.unparse(st[0].value.orelse) == "dtype"
             and isinstance(st[1], ast.Assign) and st[1].targets[0].id == "shape" and ast.unparse(st[1].value) == "coefficients[0].shape")
    if not first:
        raise TranslatorError("dtype/shape choice for a non-empty coefficient list not recognised")
    dtype_common = bool(common)
    # empty list: int unless given, shape (), optionally zeros as coefficients
    se = choose.orelse
    if not (len(se) in (2, 3) and isinstance(se[0], ast.Assign) and se[0].targets[0].id == "dtype"
            and ast.unparse(se[0].value) == "dtype if dtype else int"
            and isinstance(se[1], ast.Assign) and se[1].targets[0].id == "shape" and ast.unparse(se[1].value) == "()"):
        raise TranslatorError("dtype/shape choice for an empty coefficient list not recognised")
    empty_zeros = False
    if len(se) == 3:
        s = se[2]
        if not (isinstance(s, ast.Assign) and isinstance(s.targets[0], ast.Name) and s.targets[0].id == "coefficients"
                and any(isinstance(n, ast.Call) and _chain(n.func) == "numpy.zeros" for n in ast.walk(s.value))):
            raise TranslatorError("third statement of the empty branch is not `coefficients = ... numpy.zeros ...`")
        empty_zeros = True
    # the write block
    casts, fallback, kernel_unguarded, kernel_used = False, False, False, False

    def is_kernel_call(n):
        return isinstance(n, ast.Call) and _chain(n.func) in ("numpoly.cfrom_attributes", "cfrom_attributes")

    def is_assign_loop(n):
        return (isinstance(n, ast.For) and any(isinstance(m, ast.Assign) and isinstance(m.targets[0], ast.Subscript)
                                               for m in ast.walk(n)))
    for s in write.body:
        if isinstance(s, ast.Assign) and isinstance(s.targets[0], ast.Name) and s.targets[0].id == "coefficients":
            txt = ast.unparse(s.value)
            if ("astype(poly.dtype" in txt) or ("dtype=poly.dtype" in txt):
                casts = True
            else:
                raise TranslatorError("re-binding of `coefficients` in the write block is not a cast to poly.dtype")
        elif isinstance(s, ast.If):
            guarded = _mentions(s.test, "KERNEL_DTYPES") and _mentions(s.test, "dtype")
            if not guarded:
                raise TranslatorError("conditional in the write block is not the kernel-dtype guard")
            if not any(is_kernel_call(n) for b in s.body for n in ast.walk(b)):
                raise TranslatorError("kernel-dtype guard without the kernel call")
            kernel_used = True
            if not any(is_assign_loop(b) or any(is_assign_loop(m) for m in ast.walk(b)) for b in s.orelse):
                raise TranslatorError("kernel-dtype guard without a numpy-assignment fallback")
            fallback = True
        elif isinstance(s, ast.Try) or (isinstance(s, ast.Expr) and is_kernel_call(s.value)):
            if not any(is_kernel_call(n) for n in ast.walk(s)):
                raise TranslatorError("try block in the write path without the kernel call")
            kernel_used, kernel_unguarded = True, True
        elif is_assign_loop(s):
            fallback = True
        elif isinstance(s, ast.Assign) and isinstance(s.targets[0], ast.Name) and s.targets[0].id == "values":
            pass
        else:
            raise TranslatorError(f"statement not recognised in the write block: {ast.unparse(s)[:60]}")
    if not kernel_used and not fallback:
        raise TranslatorError("no write of the coefficients found")
    return {"dtype_from_first": not dtype_common, "empty_default_int": True, "empty_zeros": empty_zeros,
            "casts": casts or (fallback and not kernel_used), "fallback": fallback and not kernel_unguarded}


def multiply_facts(repo):
    tree = ast.parse(open(os.path.join(repo, "numpoly", "array_function", "multiply.py")).read())
    fn = _func(tree, "multiply")

    def is_cmul(n):
        return isinstance(n, ast.Call) and _chain(n.func) in ("numpoly.cmultiply", "cmultiply")
    sites = [s for s in fn.body if any(is_cmul(n) for n in ast.walk(s))]
    if len(sites) != 1:
        raise TranslatorError("call site of cmultiply not found exactly once at the top level of multiply()")
    s = sites[0]
    if isinstance(s, ast.Expr):
        return {"mul_dtype_guard": False}
    if not isinstance(s, ast.If) or not any(is_cmul(n) for b in s.body for n in ast.walk(b)):
        raise TranslatorError("cmultiply is not called in the body of an if statement")
    guard = _mentions(s.test, "KERNEL_DTYPES")
    if guard and not s.orelse:
        raise TranslatorError("dtype-guarded product kernel without a fallback")
    return {"mul_dtype_guard": guard}


def align_facts(repo):
    tree = ast.parse(open(os.path.join(repo, "numpoly", "align.py")).read())
    fn = _func(tree, "align_shape")
    ones = [n for n in ast.walk(fn) if isinstance(n, ast.Call) and _chain(n.func) == "numpy.ones"]
    bto = [n for n in ast.walk(fn) if isinstance(n, ast.Call) and _chain(n.func) == "numpy.broadcast_to"]
    if len(ones) == 1:
        dt = [k.value for k in ones[0].keywords if k.arg == "dtype"]
        if len(dt) != 1 or not isinstance(dt[0], ast.Name) or dt[0].id not in ("int", "bool"):
            raise TranslatorError("dtype of the array of ones in align_shape not recognised")
        bcast_int = dt[0].id == "int"
    elif not ones and bto:
        bcast_int = False
    else:
        raise TranslatorError("how align_shape stretches the coefficients is not recognised")
    weak = []
    for name in ("align_shape", "align_indeterminants", "align_exponents"):
        f = _func(tree, name)
        conv = [s for s in _body(f) if isinstance(s, ast.Assign) and isinstance(s.targets[0], ast.Name) and s.targets[0].id == "polys_"]
        if not conv:
            raise TranslatorError(f"{name}: conversion of the operands not found")
        v = conv[0].value
        if isinstance(v, ast.ListComp) and ast.unparse(v.elt) == "numpoly.aspolynomial(poly)":
            weak.append(False)
        elif isinstance(v, ast.Call) and isinstance(v.func, ast.Name):
            helper = _func(tree, v.func.id)
            if not any(isinstance(n, ast.Call) and _chain(n.func) in ("numpy.result_type", "numpoly.result_type") for n in ast.walk(helper)):
                raise TranslatorError(f"{name}: operand conversion helper does not consult result_type")
            weak.append(True)
        else:
            raise TranslatorError(f"{name}: conversion of the operands not recognised")
    if len(set(weak)) != 1:
        raise TranslatorError("the three align functions convert operands differently")
    return {"bcast_int": bcast_int, "weak_scalars": weak[0]}


def baseclass_facts(repo):
    tree = ast.parse(open(os.path.join(repo, "numpoly", "baseclass.py")).read())
    fn = [n for n in ast.walk(tree) if isinstance(n, ast.FunctionDef) and n.name == "coefficients"]
    if len(fn) != 1:
        raise TranslatorError("ndpoly.coefficients not found")
    body = _body(fn[0])
    shortcut = False
    for s in body:
        if isinstance(s, ast.If):
            if ast.unparse(s.test) == "not self.size" and len(s.body) == 1 and isinstance(s.body[0], ast.Return) \
                    and ast.unparse(s.body[0].value) == "[]":
                shortcut = True
            else:
                raise TranslatorError("conditional in ndpoly.coefficients not recognised")
    if not any(isinstance(s, ast.Return) for s in body):
        raise TranslatorError("ndpoly.coefficients does not return")
    astype = [n for n in ast.walk(tree) if isinstance(n, ast.FunctionDef) and n.name == "astype"]
    if len(astype) != 1 or "coefficient.astype(dtype" not in ast.unparse(astype[0]) or "dtype=dtype" not in ast.unparse(astype[0]):
        raise TranslatorError("ndpoly.astype not recognised (numpy cast of the coefficients, then from_attributes(dtype=dtype))")
    return {"size0_shortcut": shortcut}


def translate(repo):
    info = {"numpy": numpy_facts()}
    info["from_attributes"] = from_attributes_facts(repo)
    info["multiply"] = multiply_facts(repo)
    info["align"] = align_facts(repo)
    info["baseclass"] = baseclass_facts(repo)
    fa = info["from_attributes"]
    info["source_switches"] = {
        "no_cast": not fa["casts"], "kernel_only": not fa["fallback"],
        "mul_kernel_only": not info["multiply"]["mul_dtype_guard"],
        "empty_unwritten": not fa["empty_zeros"], "size0_scalar": info["baseclass"]["size0_shortcut"],
        "bcast_int": info["align"]["bcast_int"], "strong_scalars": not info["align"]["weak_scalars"],
    }
    return info


def _cz(z):
    return f"({z})" if z < 0 else str(z)


def emit(info):
    np_ = info["numpy"]
    b = lambda x: "true" if x else "false"  # noqa: E731
    out = ["(* GENERATED by harness/translators/dtype_tr.py from the installed numpy and from",
           "   construct/from_attributes.py, array_function/multiply.py, align.py, baseclass.py — do not edit *)",
           "From Coq Require Import ZArith List Bool.", "From NP Require Import DType.", "Import ListNotations.",
           "Open Scope Z_scope.", "",
           "(* numpy.result_type on the installed numpy, all 196 ordered pairs *)",
           "Definition gen_promote (a b : dtype) : dtype :=", "  match a, b with"]
    for a in DT:
        for c in DT:
            out.append(f"  | {CQ[a]}, {CQ[c]} => {CQ[np_['promote'][(a, c)]]}")
    out += ["  end.", "", "(* dtype of  array + python scalar  (NEP 50) *)",
            "Definition gen_weak (d : dtype) (k : pykind) : dtype :=", "  match d, k with"]
    for d in DT:
        for k in ("PyBool", "PyInt", "PyFloat", "PyComplex"):
            out.append(f"  | {CQ[d]}, {k} => {CQ[np_['weak'][(d, k)]]}")
    out += ["  end.", "", "(* dtype of numpy.sum *)", "Definition gen_sum_dtype (d : dtype) : dtype :=", "  match d with"]
    for d in DT:
        out.append(f"  | {CQ[d]} => {CQ[np_['sum'][d]]}")
    out += ["  end.", "", "(* astype samples: (target, integer, numpy's result) *)",
            "Definition gen_cast_samples : list (dtype * Z * value) :=", "  ["]
    rows = []
    for d, z, r in np_["cast_exact"]:
        v = f"VZ {_cz(r[1])}" if r[0] == "Z" else f"VC {_cz(r[1])} {_cz(r[2])}"
        rows.append(f"   ({CQ[d]}, {_cz(z)}, {v})")
    out.append(";\n".join(rows))
    out += ["  ].", "", "(* integers numpy's cast does not keep exactly: the model must not claim a value *)",
            "Definition gen_cast_inexact : list (dtype * Z) :=", "  ["]
    out.append(";\n".join(f"   ({CQ[d]}, {_cz(z)})" for d, z in np_["cast_inexact"]))
    out += ["  ].", ""]
    fa = info["from_attributes"]
    out += ["(* polynomial_from_attributes: dtype = the argument, else the first coefficient's; an empty",
            "   list gives int and shape () *)",
            f"Definition gen_fa_dtype_from_first : bool := {b(fa['dtype_from_first'])}.",
            f"Definition gen_fa_empty_default : dtype := {'I64' if fa['empty_default_int'] else 'F64'}.",
            "(* the defect switches as the sources read today *)",
            "Definition gen_quirks : quirks :=",
            "  mkQ " + " ".join(b(info["source_switches"][k]) for k in
                                ("no_cast", "kernel_only", "mul_kernel_only", "empty_unwritten", "size0_scalar",
                                 "bcast_int", "strong_scalars")) + "."]
    return "\n".join(out) + "\n"


def generate(repo, coq_dir):
    info = translate(repo)
    path = os.path.join(coq_dir, "Gen", GEN_NAME)
    text = emit(info)
    os.makedirs(os.path.dirname(path), exist_ok=True)
    if not os.path.exists(path) or open(path).read() != text:
        with open(path, "w") as fh:
            fh.write(text)
    return {"source_switches": info["source_switches"], "from_attributes": info["from_attributes"],
            "multiply": info["multiply"], "align": info["align"], "baseclass": info["baseclass"],
            "promotion_pairs": len(info["numpy"]["promote"]), "cast_samples": len(info["numpy"]["cast_exact"]),
            "cast_inexact_samples": len(info["numpy"]["cast_inexact"])}


if __name__ == "__main__":
    import json
    import sys
    inf = translate(sys.argv[1])
    print(json.dumps({k: v for k, v in inf.items() if k != "numpy"}, indent=1))
