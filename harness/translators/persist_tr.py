"""Fail-closed translator for the persistence facts (C13):
   numpoly/baseclass.py (ndpoly.__reduce__), construct/from_attributes.py (positional signature),
   array_function/savetxt.py (HEADER_TEMPLATE, how it is filled, the matrix that is written),
   array_function/loadtxt.py (HEADER_REGEX, marker test, splits, int(), the struct conversion, the
   handling of file objects)  ->  coq/Gen/GenPersist.v

Everything is read with `ast`; the \\s table is read from the running interpreter's `re`.
Anything outside the recognised shapes raises TranslatorError."""
from __future__ import annotations

import ast
import os
import re
import string

GEN_NAME = "GenPersist.v"


class TranslatorError(Exception):
    pass


def _chain(e):
    parts = []
    while isinstance(e, ast.Attribute):
        parts.append(e.attr)
        e = e.value
    if isinstance(e, ast.Name):
        parts.append(e.id)
    else:
        return None
    return ".".join(reversed(parts))


def _const_str(e):
    return e.value if isinstance(e, ast.Constant) and isinstance(e.value, str) else None


def _parse(repo, *rel):
    return ast.parse(open(os.path.join(repo, "numpoly", *rel)).read())


def _func(tree, name):
    fs = [n for n in tree.body if isinstance(n, ast.FunctionDef) and n.name == name]
    if len(fs) != 1:
        raise TranslatorError(f"function {name} not found exactly once")
    return fs[0]


def _walk(node, pred):
    return [n for n in ast.walk(node) if pred(n)]


REDUCE_ATTRS = ["exponents", "coefficients", "names", "dtype", "allocation"]
FA_PARAMS = REDUCE_ATTRS + ["retain_coefficients", "retain_names"]


# ---------------------------------------------------------------------------------------------
def _reduce_facts(repo):
    base = _parse(repo, "baseclass.py")
    cls = [n for n in base.body if isinstance(n, ast.ClassDef) and n.name == "ndpoly"]
    if len(cls) != 1:
        raise TranslatorError("class ndpoly not found")
    red = [n for n in cls[0].body if isinstance(n, ast.FunctionDef) and n.name == "__reduce__"]
    if len(red) != 1:
        raise TranslatorError("ndpoly.__reduce__ not found")
    body = [s for s in red[0].body if not (isinstance(s, ast.Expr) and _const_str(s.value) is not None)]
    if len(body) != 1 or not isinstance(body[0], ast.Return) or not isinstance(body[0].value, ast.Tuple) \
            or len(body[0].value.elts) != 2:
        raise TranslatorError("__reduce__ is not `return (callable, args)`")
    fn, args = body[0].value.elts
    if _chain(fn) not in ("numpoly.polynomial_from_attributes", "numpoly.ndpoly.from_attributes",
                          "numpoly.construct.polynomial_from_attributes"):
        raise TranslatorError(f"__reduce__ reconstructs through {_chain(fn)!r}")
    if not isinstance(args, ast.Tuple) or not (5 <= len(args.elts) <= 7):
        raise TranslatorError("__reduce__ argument tuple not recognised")
    for want, e in zip(REDUCE_ATTRS, args.elts[:5]):
        if _chain(e) != f"self.{want}":
            raise TranslatorError(f"__reduce__ passes {_chain(e)!r} where self.{want} is expected")
    flags = []
    for e in args.elts[5:]:
        if not (isinstance(e, ast.Constant) and (e.value is None or isinstance(e.value, bool))):
            raise TranslatorError("retain flag in __reduce__ is not a literal True/False/None")
        flags.append(e.value)
    flags += [None] * (2 - len(flags))
    # the positional signature the tuple is applied to
    fa = _func(_parse(repo, "construct", "from_attributes.py"), "polynomial_from_attributes")
    params = [a.arg for a in fa.args.posonlyargs + fa.args.args]
    if params != FA_PARAMS:
        raise TranslatorError(f"polynomial_from_attributes parameters are {params}")
    # copy paths: no __copy__/__deepcopy__/copy override (numpy's buffer copy + __array_finalize__)
    names = {n.name for n in cls[0].body if isinstance(n, ast.FunctionDef)}
    if names & {"__copy__", "__deepcopy__", "copy", "__setstate__", "__getstate__", "__reduce_ex__"}:
        raise TranslatorError("ndpoly overrides a copy/pickle hook the model does not know")
    fin = [n for n in cls[0].body if isinstance(n, ast.FunctionDef) and n.name == "__array_finalize__"]
    if len(fin) != 1:
        raise TranslatorError("__array_finalize__ missing")
    taken = set()
    for s in _walk(fin[0], lambda n: isinstance(n, ast.Assign)):
        if len(s.targets) == 1 and _chain(s.targets[0]) and _chain(s.targets[0]).startswith("self.") \
                and isinstance(s.value, ast.Call) and _chain(s.value.func) == "getattr" and len(s.value.args) == 2 \
                and _const_str(s.value.args[1]) == _chain(s.targets[0])[5:]:
            taken.add(_chain(s.targets[0])[5:])
    if not {"keys", "names", "allocation", "_dtype"} <= taken:
        raise TranslatorError(f"__array_finalize__ takes over only {sorted(taken)}")
    return {"rc": flags[0], "rn": flags[1]}


# ---------------------------------------------------------------------------------------------
def _template_items(template):
    items = []
    for literal, field, spec, conv in string.Formatter().parse(template):
        if literal:
            if not re.fullmatch(r"[A-Za-z: ]+", literal):
                raise TranslatorError(f"template literal {literal!r} contains characters that are special in a regex")
            items.append(("lit", literal))
        if field is not None:
            if spec or conv or field not in ("version", "names", "keys", "shape"):
                raise TranslatorError(f"template field {field!r} not recognised")
            items.append(("field", field))
    return items


def _is_join(e, sep_out, attr):
    """`",".join(X.<attr>)` or `",".join(str(idx) for idx in X.shape)`"""
    if not (isinstance(e, ast.Call) and isinstance(e.func, ast.Attribute) and e.func.attr == "join"
            and _const_str(e.func.value) is not None and len(e.args) == 1 and not e.keywords):
        return False
    sep_out.append(_const_str(e.func.value))
    a = e.args[0]
    if attr == "shape":
        return (isinstance(a, ast.GeneratorExp) and len(a.generators) == 1 and not a.generators[0].ifs
                and _chain(a.generators[0].iter) == "X.shape" and isinstance(a.elt, ast.Call)
                and _chain(a.elt.func) == "str" and len(a.elt.args) == 1
                and isinstance(a.elt.args[0], ast.Name) and isinstance(a.generators[0].target, ast.Name)
                and a.elt.args[0].id == a.generators[0].target.id)
    return _chain(a) == f"X.{attr}"


def _savetxt_facts(repo):
    tree = _parse(repo, "array_function", "savetxt.py")
    tmpl = [n for n in tree.body if isinstance(n, ast.Assign) and len(n.targets) == 1
            and isinstance(n.targets[0], ast.Name) and n.targets[0].id == "HEADER_TEMPLATE"]
    if len(tmpl) != 1 or _const_str(tmpl[0].value) is None:
        raise TranslatorError("HEADER_TEMPLATE is not a string literal")
    template = _const_str(tmpl[0].value)
    items = _template_items(template)
    fn = _func(tree, "savetxt")
    fmt = _walk(fn, lambda n: isinstance(n, ast.Call) and _chain(n.func) == "HEADER_TEMPLATE.format")
    if len(fmt) != 1 or fmt[0].args:
        raise TranslatorError("HEADER_TEMPLATE.format(...) call in savetxt not recognised")
    kw = {k.arg: k.value for k in fmt[0].keywords}
    if set(kw) != {"version", "names", "keys", "shape"}:
        raise TranslatorError(f"savetxt fills the fields {sorted(kw)}")
    if _chain(kw["version"]) != "numpoly.__version__":
        raise TranslatorError("version field is not numpoly.__version__")
    seps = []
    for f in ("names", "keys", "shape"):
        if not _is_join(kw[f], seps, f):
            raise TranslatorError(f"field {f} is not a join over X.{f}")
    if len(set(seps)) != 1 or len(seps[0]) != 1:
        raise TranslatorError(f"join separators {seps}")
    # the matrix written: structured_to_unstructured(X.values.ravel())
    mat = _walk(fn, lambda n: isinstance(n, ast.Call) and _chain(n.func) in ("structured_to_unstructured",
                                                                            "numpy.lib.recfunctions.structured_to_unstructured"))
    if len(mat) != 1 or len(mat[0].args) != 1 or mat[0].keywords:
        raise TranslatorError("structured_to_unstructured call not recognised")
    a = mat[0].args[0]
    if not (isinstance(a, ast.Call) and isinstance(a.func, ast.Attribute) and a.func.attr == "ravel" and not a.args
            and _chain(a.func.value) == "X.values"):
        raise TranslatorError("the matrix written is not X.values.ravel()")
    # header = numpoly_header + "\n" + header   (ours first)
    ours_first = False
    for s in _walk(fn, lambda n: isinstance(n, ast.Assign)):
        v = s.value
        if isinstance(v, ast.BinOp) and isinstance(v.op, ast.Add) and isinstance(v.left, ast.BinOp) \
                and isinstance(v.left.op, ast.Add) and _const_str(v.left.right) == "\n" \
                and isinstance(v.left.left, ast.Name) and v.left.left.id == "numpoly_header" \
                and isinstance(v.right, ast.Name) and v.right.id == "header":
            ours_first = True
    if not ours_first:
        raise TranslatorError("the numpoly header is not placed on the first header line")
    # the text itself is written by numpy.savetxt with the arguments passed through
    call = _walk(fn, lambda n: isinstance(n, ast.Call) and _chain(n.func) == "numpy.savetxt")
    if len(call) != 1:
        raise TranslatorError("numpy.savetxt call not recognised")
    for k in call[0].keywords:
        if not (isinstance(k.value, ast.Name) and k.value.id == k.arg):
            raise TranslatorError(f"numpy.savetxt argument {k.arg} is not passed through")
    return {"template": template, "items": items, "join_sep": seps[0]}


REGEX_ATOMS = {r"\S+": (True, False), r"(\S+)": (True, True), r"(\S*)": (False, True), r"\S*": (False, False)}


def _loadtxt_facts(repo, template):
    tree = _parse(repo, "array_function", "loadtxt.py")
    imp = [n for n in tree.body if isinstance(n, ast.ImportFrom) and n.module == "savetxt"
           and any(a.name == "HEADER_TEMPLATE" for a in n.names)]
    if not imp:
        raise TranslatorError("loadtxt does not import HEADER_TEMPLATE from savetxt")
    rx = [n for n in tree.body if isinstance(n, ast.Assign) and len(n.targets) == 1
          and isinstance(n.targets[0], ast.Name) and n.targets[0].id == "HEADER_REGEX"]
    if len(rx) != 1:
        raise TranslatorError("HEADER_REGEX not found")
    v = rx[0].value
    if not (isinstance(v, ast.Call) and _chain(v.func) == "re.compile" and len(v.args) == 1 and not v.keywords
            and isinstance(v.args[0], ast.Call) and _chain(v.args[0].func) == "HEADER_TEMPLATE.format"
            and not v.args[0].args):
        raise TranslatorError("HEADER_REGEX is not re.compile(HEADER_TEMPLATE.format(...)) without flags")
    atoms = {}
    for k in v.args[0].keywords:
        s = _const_str(k.value)
        if s not in REGEX_ATOMS:
            raise TranslatorError(f"regex for field {k.arg}: {s!r} not recognised")
        atoms[k.arg] = s
    if set(atoms) != {"version", "names", "keys", "shape"}:
        raise TranslatorError("regex fields differ from the template fields")
    if (atoms["version"], atoms["names"], atoms["keys"]) != (r"\S+", r"(\S+)", r"(\S+)") \
            or atoms["shape"] not in (r"(\S+)", r"(\S*)"):
        raise TranslatorError(f"regex atoms {atoms}")
    # sanity: python agrees that the pattern is the template with the atoms substituted
    re.compile(template.format(**atoms))
    fn = _func(tree, "loadtxt")
    # ---- first line: path -> open/readline ; file object -> readline (+ chain back) ---------------
    top_if = [s for s in fn.body if isinstance(s, ast.If) and isinstance(s.test, ast.Call)
              and _chain(s.test.func) == "isinstance" and _chain(s.test.args[0]) == "fname"]
    if len(top_if) != 1:
        raise TranslatorError("path / file-object dispatch not recognised")
    orelse = top_if[0].orelse
    if not (orelse and isinstance(orelse[0], ast.Assign) and _chain(orelse[0].targets[0]) == "header"
            and isinstance(orelse[0].value, ast.Call) and _chain(orelse[0].value.func) == "fname.readline"):
        raise TranslatorError("file objects: header = fname.readline() not recognised")
    chain = False
    if len(orelse) == 2:
        s = orelse[1]
        if (isinstance(s, ast.Assign) and _chain(s.targets[0]) == "fname" and isinstance(s.value, ast.Call)
                and _chain(s.value.func) == "itertools.chain" and len(s.value.args) == 2
                and isinstance(s.value.args[0], ast.List) and len(s.value.args[0].elts) == 1
                and _chain(s.value.args[0].elts[0]) == "header" and _chain(s.value.args[1]) == "fname"):
            chain = True
        else:
            raise TranslatorError("file objects: statement after readline not recognised")
    elif len(orelse) != 1:
        raise TranslatorError("file objects: branch not recognised")
    wbody = top_if[0].body
    if not (len(wbody) == 1 and isinstance(wbody[0], ast.With)
            and any(isinstance(n, ast.Call) and _chain(n.func) == "src.readline" for n in ast.walk(wbody[0]))):
        raise TranslatorError("paths: with open(fname) as src: header = src.readline() not recognised")
    # ---- marker test ------------------------------------------------------------------------
    mk = [s for s in fn.body if isinstance(s, ast.If) and isinstance(s.test, ast.Call)
          and _chain(s.test.func) == "header.startswith"]
    if len(mk) != 1 or mk[0].orelse:
        raise TranslatorError("marker test not recognised")
    t = mk[0].test.args[0]
    if not (isinstance(t, ast.BinOp) and isinstance(t.op, ast.Add) and _chain(t.left) == "comments"
            and _const_str(t.right) is not None):
        raise TranslatorError("marker is not comments + literal")
    marker = _const_str(t.right)
    body = mk[0].body
    # data flow inside the block, independent of the local variable names
    assigned = {}                       # id(value node) -> target name
    for st in body:
        if isinstance(st, ast.Assign) and len(st.targets) == 1 and isinstance(st.targets[0], ast.Name):
            assigned[id(st.value)] = st.targets[0].id
    calls = [n for st in body for n in ast.walk(st) if isinstance(n, ast.Call)]

    def var_of(node):
        """name the value of `node` is bound to (directly, or through tuple()/list())"""
        if id(node) in assigned:
            return assigned[id(node)]
        for c in calls:
            if _chain(c.func) in ("tuple", "list") and len(c.args) == 1 and c.args[0] is node and id(c) in assigned:
                return assigned[id(c)]
        return None

    srch = [c for c in calls if (_chain(c.func) == "re.search" and len(c.args) == 2 and _chain(c.args[0]) == "HEADER_REGEX"
                                 and _chain(c.args[1]) == "header")
            or (_chain(c.func) == "HEADER_REGEX.search" and len(c.args) == 1 and _chain(c.args[0]) == "header")]
    if len(srch) != 1 or var_of(srch[0]) is None:
        raise TranslatorError("re.search(HEADER_REGEX, header) not recognised")
    mvar = var_of(srch[0])
    asserts = [st for st in body if isinstance(st, ast.Assert)]
    if not any(isinstance(a.test, ast.Compare) and _chain(a.test.left) == mvar and len(a.test.ops) == 1
               and isinstance(a.test.ops[0], ast.IsNot) and isinstance(a.test.comparators[0], ast.Constant)
               and a.test.comparators[0].value is None for a in asserts):
        raise TranslatorError("a failed match is not an assertion")
    grp = [c for c in calls if _chain(c.func) == f"{mvar}.groups" and not c.args]
    if len(grp) != 1 or var_of(grp[0]) is None:
        raise TranslatorError("match.groups() not recognised")
    gvar = var_of(grp[0])
    splits = {}
    for c in calls:
        if (isinstance(c.func, ast.Attribute) and c.func.attr == "split" and len(c.args) == 1 and not c.keywords
                and _const_str(c.args[0]) is not None and isinstance(c.func.value, ast.Subscript)
                and _chain(c.func.value.value) == gvar and isinstance(c.func.value.slice, ast.Constant)
                and isinstance(c.func.value.slice.value, int)):
            if c.func.value.slice.value in splits:
                raise TranslatorError("a regex group is split twice")
            splits[c.func.value.slice.value] = c
    if set(splits) != {0, 1, 2}:
        raise TranslatorError(f"splits of the groups {sorted(splits)} (expected 0, 1, 2)")
    seps = [_const_str(splits[i].args[0]) for i in (0, 1, 2)]
    nvar, kvar = var_of(splits[0]), var_of(splits[1])
    if nvar is None or kvar is None:
        raise TranslatorError("names / keys are not bound to the split of groups 0 / 1")
    comps = [n for st in body for n in ast.walk(st) if isinstance(n, ast.ListComp) and len(n.generators) == 1
             and n.generators[0].iter is splits[2]]
    if len(comps) != 1 or var_of(comps[0]) is None:
        raise TranslatorError("shape = [int(idx) for idx in groups[2].split(sep) ...] not recognised")
    sh = comps[0]
    svar = var_of(sh)
    if not (isinstance(sh.elt, ast.Call) and _chain(sh.elt.func) == "int" and len(sh.elt.args) == 1 and not sh.elt.keywords
            and isinstance(sh.elt.args[0], ast.Name) and isinstance(sh.generators[0].target, ast.Name)
            and sh.elt.args[0].id == sh.generators[0].target.id):
        raise TranslatorError("shape elements are not int(piece)")
    ifs = sh.generators[0].ifs
    if not ifs:
        filt = False
    elif len(ifs) == 1 and isinstance(ifs[0], ast.Name) and ifs[0].id == sh.generators[0].target.id:
        filt = True
    else:
        raise TranslatorError("filter of the shape comprehension not recognised")
    if len(set(seps)) != 1 or len(seps[0]) != 1:
        raise TranslatorError(f"split separators {seps}")
    # ---- struct conversion ------------------------------------------------------------------
    lt = [st for st in fn.body if isinstance(st, ast.Assign) and isinstance(st.value, ast.Call)
          and _chain(st.value.func) == "numpy.loadtxt" and len(st.targets) == 1 and isinstance(st.targets[0], ast.Name)]
    if len(lt) != 1:
        raise TranslatorError("array = numpy.loadtxt(...) not recognised")
    avar = lt[0].targets[0].id
    dts = [c for c in calls if _chain(c.func) == "numpy.dtype" and len(c.args) == 1 and isinstance(c.args[0], ast.ListComp)]
    if len(dts) != 1 or var_of(dts[0]) is None:
        raise TranslatorError("dtype = numpy.dtype([(key, array.dtype) for key in keys]) not recognised")
    dc = dts[0].args[0]
    if not (len(dc.generators) == 1 and _chain(dc.generators[0].iter) == kvar and not dc.generators[0].ifs
            and isinstance(dc.elt, ast.Tuple) and len(dc.elt.elts) == 2 and isinstance(dc.generators[0].target, ast.Name)
            and _chain(dc.elt.elts[0]) == dc.generators[0].target.id and _chain(dc.elt.elts[1]) == f"{avar}.dtype"):
        raise TranslatorError("field list of the struct dtype not recognised")
    dvar = var_of(dts[0])
    sts = [c for c in calls if _chain(c.func) in ("unstructured_to_structured", "numpy.lib.recfunctions.unstructured_to_structured")]
    if len(sts) != 1 or len(sts[0].args) != 2 or sts[0].keywords or _chain(sts[0].args[1]) != dvar or var_of(sts[0]) is None:
        raise TranslatorError("struct = unstructured_to_structured(<array>, dtype) not recognised")
    a = sts[0].args[0]
    if _chain(a) == avar:
        ravel = False
    elif (isinstance(a, ast.Call) and _chain(a.func) == f"{avar}.reshape" and len(a.args) == 2 and not a.keywords
          and isinstance(a.args[0], ast.UnaryOp) and isinstance(a.args[0].op, ast.USub)
          and isinstance(a.args[0].operand, ast.Constant) and a.args[0].operand.value == 1
          and isinstance(a.args[1], ast.Call) and _chain(a.args[1].func) == "len" and len(a.args[1].args) == 1
          and _chain(a.args[1].args[0]) == kvar):
        ravel = True
    else:
        raise TranslatorError("first argument of unstructured_to_structured not recognised")
    stvar = var_of(sts[0])
    pol = [c for c in calls if _chain(c.func) in ("numpoly.polynomial", "numpoly.aspolynomial")]
    if not (len(pol) == 1 and len(pol[0].args) == 1 and _chain(pol[0].args[0]) == stvar
            and [kw.arg for kw in pol[0].keywords] == ["names"] and _chain(pol[0].keywords[0].value) == nvar
            and var_of(pol[0]) is not None):
        raise TranslatorError("polynomial(struct, names=names) not recognised")
    rsh = [c for c in calls if _chain(c.func) in ("numpoly.reshape", f"{var_of(pol[0])}.reshape") and c is not sts[0].args[0]]
    if not (len(rsh) == 1 and not rsh[0].keywords
            and ([_chain(x) for x in rsh[0].args] == [var_of(pol[0]), svar] if _chain(rsh[0].func) == "numpoly.reshape"
                 else [_chain(x) for x in rsh[0].args] == [svar])
            and var_of(rsh[0]) is not None):
        raise TranslatorError("reshape(array, shape) not recognised")
    rets = [st for st in fn.body if isinstance(st, ast.Return)]
    if len(rets) != 1 or _chain(rets[0].value) != var_of(rsh[0]) or var_of(rsh[0]) != avar:
        raise TranslatorError("the reshaped polynomial is not what loadtxt returns")
    # numpy.loadtxt is called with ndmin passed through (default 0: squeeze)
    call = _walk(fn, lambda n: isinstance(n, ast.Call) and _chain(n.func) == "numpy.loadtxt")
    if len(call) != 1 or _chain(call[0].args[0]) != "fname":
        raise TranslatorError("numpy.loadtxt(fname, ...) not recognised")
    for kw in call[0].keywords:
        if not (isinstance(kw.value, ast.Name) and kw.value.id == kw.arg):
            raise TranslatorError(f"numpy.loadtxt argument {kw.arg} is not passed through")
    dflt = {a.arg: d for a, d in zip(reversed(fn.args.args), reversed(fn.args.defaults))}
    if not (isinstance(dflt.get("ndmin"), ast.Constant) and dflt["ndmin"].value == 0):
        raise TranslatorError("default ndmin is not 0")
    if _const_str(dflt.get("comments")) is None:
        raise TranslatorError("default comments is not a literal")
    return {"atoms": atoms, "marker": marker, "split_sep": seps[0], "filter": filt, "ravel": ravel,
            "chain": chain, "star": atoms["shape"] == r"(\S*)", "load_comments": _const_str(dflt["comments"])}


def translate(repo):
    red = _reduce_facts(repo)
    sav = _savetxt_facts(repo)
    lod = _loadtxt_facts(repo, sav["template"])
    spaces = [c for c in range(0x110000) if re.match(r"\s", chr(c))]
    first_lit = sav["items"][0]
    if first_lit != ("lit", lod["marker"]):
        raise TranslatorError(f"marker {lod['marker']!r} is not the template's first literal {first_lit!r}")
    return {"reduce": red, "template": sav["template"], "items": sav["items"], "join_sep": sav["join_sep"],
            "split_sep": lod["split_sep"], "atoms": lod["atoms"], "marker": lod["marker"],
            "star": lod["star"], "filter": lod["filter"], "ravel": lod["ravel"], "chain": lod["chain"],
            "spaces": spaces, "load_comments": lod["load_comments"]}


# ---------------------------------------------------------------------------------------------
def _coq_str(s):
    if not re.fullmatch(r"[ -!#-~]*", s):
        raise TranslatorError(f"literal {s!r} cannot be written as a Coq string")
    return f'(lit "{s}")'


def _opt_bool(v):
    return "None" if v is None else f"(Some {'true' if v else 'false'})"


def _b(v):
    return "true" if v else "false"


FIELD = {"version": "FVersion", "names": "FNames", "keys": "FKeys", "shape": "FShape"}


def emit(info):
    titems, ritems = [], []
    for kind, val in info["items"]:
        if kind == "lit":
            titems.append(f"TLit {_coq_str(val)}")
            ritems.append(f"RLit {_coq_str(val)}")
        else:
            plus, cap = REGEX_ATOMS[info["atoms"][val]]
            titems.append(f"TField {FIELD[val]}")
            ritems.append(f"RNs {_b(plus)} {_b(cap)}")
    lines = [
        "(* GENERATED by harness/translators/persist_tr.py from baseclass.py, from_attributes.py, savetxt.py,",
        "   loadtxt.py and the running interpreter's re module — do not edit *)",
        "From Coq Require Import NArith List Bool String.",
        "From NP Require Import Key Persist.",
        "Open Scope N_scope.",
        "(* HEADER_TEMPLATE = " + repr(info["template"]).replace("*)", "* )") + " *)",
        "Definition gen_template : list titem := " + " :: ".join(titems) + " :: nil.",
        "(* HEADER_REGEX = the template with " + ", ".join(f"{k}={v}" for k, v in sorted(info["atoms"].items())).replace("*)", "* )") + " *)",
        "Definition gen_regex : list ritem := " + " :: ".join(ritems) + " :: nil.",
        f"Definition gen_marker : str := {_coq_str(info['marker'])}.",
        f"Definition gen_join_sep : N := {ord(info['join_sep'])}.",
        f"Definition gen_split_sep : N := {ord(info['split_sep'])}.",
        f"Definition gen_load_comments : str := {_coq_str(info['load_comments'])}.",
        "(* code points matched by \\s *)",
        "Definition gen_space_table : list N := " + " :: ".join(str(c) for c in info["spaces"]) + " :: nil.",
        "(* positional retain_coefficients / retain_names of the __reduce__ tuple *)",
        f"Definition gen_reduce_flags : rflags := RFlags {_opt_bool(info['reduce']['rc'])} {_opt_bool(info['reduce']['rn'])}.",
        "(* star: shape group accepts ''; filter: empty pieces skipped; ravel: reshape(-1, nkeys); chain: line handed back *)",
        f"Definition gen_tfix : tfix := TFix {_b(info['star'])} {_b(info['filter'])} {_b(info['ravel'])} {_b(info['chain'])}.",
    ]
    return "\n".join(lines) + "\n"


def generate(repo, coq_dir):
    info = translate(repo)
    path = os.path.join(coq_dir, "Gen", GEN_NAME)
    text = emit(info)
    os.makedirs(os.path.dirname(path), exist_ok=True)
    if not os.path.exists(path) or open(path).read() != text:
        with open(path, "w") as fh:
            fh.write(text)
    return {k: v for k, v in info.items() if k not in ("spaces", "items")} | {"n_space_codepoints": len(info["spaces"])}


if __name__ == "__main__":
    import sys
    print(emit(translate(sys.argv[1])))
