"""Fail-closed translator for the comparison loops:
   array_function/{greater,greater_equal,less,less_equal,maximum,minimum,equal,not_equal}.py
   -> coq/Gen/GenCompare.v"""
from __future__ import annotations

import ast
import os


class TranslatorError(Exception):
    pass


NP_OPS = {"greater": "CGt", "greater_equal": "CGe", "less": "CLt", "less_equal": "CLe"}
AST_OPS = {ast.Gt: "CGt", ast.GtE: "CGe", ast.Lt: "CLt", ast.LtE: "CLe"}
FLIP = {"CGt": "CLt", "CGe": "CLe", "CLt": "CGt", "CLe": "CGe"}


def _chain(e):
    parts = []
    while isinstance(e, ast.Attribute):
        parts.append(e.attr)
        e = e.value
    if isinstance(e, ast.Name):
        parts.append(e.id)
    return ".".join(reversed(parts))


def _strip_doc(body):
    if body and isinstance(body[0], ast.Expr) and isinstance(body[0].value, ast.Constant) and isinstance(body[0].value.value, str):
        return body[1:]
    return body


class Ctx:
    def __init__(self):
        self.c1 = self.c2 = None       # names bound to x1.coefficients / x2.coefficients
        self.x1 = self.x2 = None


def _operand(e, ctx, idxvar):
    """1 / 2 for coefficients1[idx] / coefficients2[idx] (or [0] when idxvar is None)."""
    if not isinstance(e, ast.Subscript) or not isinstance(e.value, ast.Name):
        return None
    if idxvar is None:
        if not (isinstance(e.slice, ast.Constant) and e.slice.value == 0):
            return None
    elif not (isinstance(e.slice, ast.Name) and e.slice.id == idxvar):
        return None
    return 1 if e.value.id == ctx.c1 else 2 if e.value.id == ctx.c2 else None


def _cmp(e, ctx, idxvar):
    """A comparison of the two coefficient operands as a cop constructor name."""
    if isinstance(e, ast.Call) and _chain(e.func).startswith("numpy.") and _chain(e.func)[6:] in NP_OPS and len(e.args) == 2:
        op = NP_OPS[_chain(e.func)[6:]]
        a, b = _operand(e.args[0], ctx, idxvar), _operand(e.args[1], ctx, idxvar)
        for k in e.keywords:
            if k.arg is not None:
                raise TranslatorError("unexpected keyword in comparison call")
    elif isinstance(e, ast.Compare) and len(e.ops) == 1 and type(e.ops[0]) in AST_OPS:
        op = AST_OPS[type(e.ops[0])]
        a, b = _operand(e.left, ctx, idxvar), _operand(e.comparators[0], ctx, idxvar)
    else:
        raise TranslatorError(f"comparison not recognised: {ast.dump(e)[:100]}")
    if (a, b) == (1, 2):
        return op
    if (a, b) == (2, 1):
        return FLIP[op]
    raise TranslatorError("comparison operands are not the two coefficient arrays")


def _mask(e, ctx, idxvar):
    if isinstance(e, ast.BinOp) and isinstance(e.op, (ast.BitAnd, ast.BitOr)):
        c = "BAnd" if isinstance(e.op, ast.BitAnd) else "BOr"
        return f"({c} {_mask(e.left, ctx, idxvar)} {_mask(e.right, ctx, idxvar)})"
    if isinstance(e, ast.UnaryOp) and isinstance(e.op, ast.Invert):
        return f"(BNot {_mask(e.operand, ctx, idxvar)})"
    if isinstance(e, ast.Compare) and len(e.ops) == 1 and isinstance(e.ops[0], ast.NotEq):
        l, r = e.left, e.comparators[0]
        a, b = _operand(l, ctx, idxvar), _operand(r, ctx, idxvar)
        if a and isinstance(r, ast.Constant) and r.value == 0:
            return "BA" if a == 1 else "BB"
        if a and b and a != b:
            return "BD"
    raise TranslatorError(f"mask term not recognised: {ast.dump(e)[:100]}")


def _glexsort_flags(call):
    if not (isinstance(call, ast.Call) and _chain(call.func) in ("numpoly.glexsort", "glexsort")):
        raise TranslatorError("loop does not iterate over glexsort(...)")
    kw = {k.arg: k.value for k in call.keywords}
    out = {}
    for flag, key in (("graded", "sort_graded"), ("reverse", "sort_reverse")):
        v = kw.get(flag)
        if not (isinstance(v, ast.Subscript) and isinstance(v.value, ast.Name) and isinstance(v.slice, ast.Constant)
                and v.slice.value == key):
            raise TranslatorError(f"glexsort {flag}= is not options['{key}']")
        out[flag] = v.value.id
    if not (len(call.args) == 1 and _chain(call.args[0]) .endswith(".exponents.T")):
        raise TranslatorError("glexsort is not applied to the aligned exponents")
    return out


def loop_function(path, fname, selecting):
    tree = ast.parse(open(path).read())
    fn = [n for n in tree.body if isinstance(n, ast.FunctionDef) and n.name == fname]
    if len(fn) != 1:
        raise TranslatorError(f"{fname} not found")
    body = _strip_doc(fn[0].body)
    ctx = Ctx()
    init = None
    loop = None
    outvar = None
    aligned = False
    result = None
    for st in body:
        if isinstance(st, ast.Delete):
            continue
        if isinstance(st, ast.Assign) and isinstance(st.targets[0], ast.Tuple) and isinstance(st.value, ast.Call) \
                and _chain(st.value.func) == "numpoly.align_polynomials":
            names = [t.id for t in st.targets[0].elts]
            args = [a.id for a in st.value.args if isinstance(a, ast.Name)]
            if names != args or len(names) != 2:
                raise TranslatorError("alignment statement")
            ctx.x1, ctx.x2 = names
            aligned = True
        elif isinstance(st, ast.Assign) and isinstance(st.targets[0], ast.Name) and isinstance(st.value, ast.Attribute) \
                and st.value.attr == "coefficients" and isinstance(st.value.value, ast.Name):
            if st.value.value.id == ctx.x1:
                ctx.c1 = st.targets[0].id
            elif st.value.value.id == ctx.x2:
                ctx.c2 = st.targets[0].id
            else:
                raise TranslatorError("coefficients of an unknown operand")
        elif isinstance(st, ast.If) and isinstance(st.test, ast.Compare) and isinstance(st.test.ops[0], ast.Is) \
                and isinstance(st.test.left, ast.Name) and len(st.body) == 1 and isinstance(st.body[0], ast.Assign):
            outvar = st.test.left.id
            init = _cmp(st.body[0].value, ctx, None)
        elif isinstance(st, ast.If) and isinstance(st.test, ast.UnaryOp) and isinstance(st.test.op, ast.Not) \
                and len(st.body) == 1 and isinstance(st.body[0], ast.Return):
            continue        # 0-d operands: same function on ravelled arrays
        elif isinstance(st, ast.Assign) and isinstance(st.targets[0], ast.Name) and isinstance(st.value, ast.Call) \
                and _chain(st.value.func) == "numpy.zeros" and selecting:
            outvar = st.targets[0].id
            init = None
        elif isinstance(st, ast.Assign) and isinstance(st.value, ast.Call) and _chain(st.value.func) == "numpoly.get_options":
            continue
        elif isinstance(st, ast.For):
            _glexsort_flags(st.iter)
            idxvar = st.target.id
            mask = None
            for s in st.body:
                if isinstance(s, ast.Assign) and isinstance(s.targets[0], ast.Name) and s.targets[0].id == "indices":
                    mask = _mask(s.value, ctx, idxvar)
                elif isinstance(s, ast.AugAssign) and isinstance(s.target, ast.Name) and s.target.id == "indices" \
                        and isinstance(s.op, (ast.BitAnd, ast.BitOr)):
                    if mask is None:
                        raise TranslatorError("augmented mask before assignment")
                    c = "BAnd" if isinstance(s.op, ast.BitAnd) else "BOr"
                    mask = f"({c} {mask} {_mask(s.value, ctx, idxvar)})"
                elif isinstance(s, ast.Assign) and isinstance(s.targets[0], ast.Subscript) \
                        and isinstance(s.targets[0].value, ast.Name) and s.targets[0].value.id == outvar \
                        and isinstance(s.targets[0].slice, ast.Name) and s.targets[0].slice.id == "indices":
                    v = s.value
                    if not (isinstance(v, ast.Subscript) and isinstance(v.slice, ast.Name) and v.slice.id == "indices"):
                        raise TranslatorError("masked write does not select with the same mask")
                    loop = (_cmp(v.value, ctx, idxvar), mask)
                else:
                    raise TranslatorError(f"unexpected statement in the loop: {ast.dump(s)[:80]}")
        elif isinstance(st, ast.Return):
            result = st.value
        else:
            raise TranslatorError(f"unexpected statement: {ast.dump(st)[:80]}")
    if not aligned or loop is None or loop[1] is None or ctx.c1 is None or ctx.c2 is None:
        raise TranslatorError(f"{fname}: loop structure incomplete")
    if selecting:
        if not (isinstance(result, ast.Call) and _chain(result.func) == "numpoly.where" and len(result.args) == 3
                and [getattr(a, "id", None) for a in result.args] == [outvar, ctx.x1, ctx.x2]):
            raise TranslatorError(f"{fname}: result is not where(verdict, x1, x2)")
    else:
        if not (isinstance(result, ast.Name) and result.id == outvar):
            raise TranslatorError(f"{fname}: does not return the verdict array")
        if init is None:
            raise TranslatorError(f"{fname}: initial verdict missing")
    return {"init": init, "loop": loop[0], "mask": loop[1]}


def fold_function(path, fname):
    """equal / not_equal: which fold operator and which column predicate."""
    tree = ast.parse(open(path).read())
    fn = [n for n in tree.body if isinstance(n, ast.FunctionDef) and n.name == fname]
    if len(fn) != 1:
        raise TranslatorError(f"{fname} not found")
    augs = [n for n in ast.walk(fn[0]) if isinstance(n, ast.AugAssign)]
    calls = [n for n in ast.walk(fn[0]) if isinstance(n, ast.Call) and _chain(n.func) in ("numpy.equal", "numpy.not_equal")]
    if len(augs) != 1 or len(calls) != 1:
        raise TranslatorError(f"{fname}: fold structure")
    op = "and" if isinstance(augs[0].op, ast.BitAnd) else "or" if isinstance(augs[0].op, ast.BitOr) else None
    if op is None:
        raise TranslatorError(f"{fname}: fold operator")
    return {"fold": op, "pred": _chain(calls[0].func)[6:]}


def translate(repo):
    d = os.path.join(repo, "numpoly", "array_function")
    out = {}
    for f in ("greater", "greater_equal", "less", "less_equal"):
        out[f] = loop_function(os.path.join(d, f + ".py"), f, False)
    for f in ("maximum", "minimum"):
        out[f] = loop_function(os.path.join(d, f + ".py"), f, True)
    for f in ("equal", "not_equal"):
        out[f] = fold_function(os.path.join(d, f + ".py"), f)
    return out


def emit(info):
    lines = ["(* GENERATED by harness/translators/compare_tr.py from array_function/{greater,...,not_equal}.py — do not edit *)",
             "From mathcomp Require Import all_ssreflect.",
             "From NP Require Import Compare."]
    for f in ("greater", "greater_equal", "less", "less_equal", "maximum", "minimum"):
        c = info[f]
        init = f"(Some {c['init']})" if c["init"] else "None"
        lines.append(f"Definition gen_{f} : cmp_code := CmpCode {init} {c['loop']} {c['mask']}.")
    for f in ("equal", "not_equal"):
        c = info[f]
        lines.append(f"(* {f}: fold {c['fold']} over numpy.{c['pred']} *)")
        lines.append(f"Definition gen_{f}_fold_is_and : bool := {'true' if c['fold'] == 'and' else 'false'}.")
        lines.append(f"Definition gen_{f}_pred_is_equal : bool := {'true' if c['pred'] == 'equal' else 'false'}.")
    return "\n".join(lines) + "\n"


def generate(repo, coq_dir):
    info = translate(repo)
    path = os.path.join(coq_dir, "Gen", "GenCompare.v")
    text = emit(info)
    os.makedirs(os.path.dirname(path), exist_ok=True)
    if not os.path.exists(path) or open(path).read() != text:
        with open(path, "w") as fh:
            fh.write(text)
    return info


if __name__ == "__main__":
    import sys
    print(emit(translate(sys.argv[1])))
