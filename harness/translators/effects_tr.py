"""Effect translator (C17): every function and method under /repo/numpoly  ->  coq/Gen/GenEffects.v

For each function the source is parsed with `ast` and translated into a program of the effect IR
of coq/Model/Effects.v: which bindings are fresh, which may share the buffer of another object,
which statements store in place, which numpoly functions are called with which arguments.  The
analysis itself (may-point-to sets, summaries, the frame theorem) lives in Coq; this file only
*describes the code*.  What it has to be trusted for is collected in the tables below
(NUMPY, METHODS, BUILTINS, ATTRS, EXTERN, DECLARED OUTPUTS, IMMUTABLE ANNOTATIONS); they are
dumped into the evidence of every run.  Anything not listed makes the translator fail (closed).

Modelling decisions (all over-approximations of behaviour unless stated):
 * a value is (own, elem): the buffer the object writes through / the buffer of any of its elements;
 * operators, subscripts, iteration, str() and numpy functions applied to an unknown object may
   dispatch into numpoly (ndpoly dunder methods, the __array_ufunc__/__array_function__ registries):
   both the numpoly callee and the plain numpy/Python effect are emitted as alternatives;
 * `break`/`continue`/`try` are expressed by making the skipped statements optional;
 * nested functions and lambdas are inlined where they are defined, inside a loop, with their
   parameters bound to everything in scope; the enclosing function is then analysed flow-insensitively
   (every assignment weak, whole body in a loop);
 * module-level state (option store, registries) is assumed to hold no caller array.
"""
from __future__ import annotations

import ast
import importlib
import os
import sys

GEN_NAME = "GenEffects.v"


class TranslatorError(Exception):
    pass


# ==============================================================================================
# Trusted classification tables
# ==============================================================================================
# --- numpy callables ------------------------------------------------------------------------
# fresh : result shares no memory with any argument; no argument is written (except via out=)
# box   : result is a new container/array whose *elements* may be (views of) the listed arguments
# view  : result may be the argument itself or share its memory
# write0: writes its first argument (the explicit destination)
NUMPY = {
    "fresh": """zeros ones empty full arange eye identity copy concatenate stack hstack vstack dstack column_stack tile
        repeat unique sort argsort lexsort argwhere nonzero where isin any all sum prod cumsum cumprod max min amax amin
        argmax argmin mean abs absolute add subtract multiply divide true_divide floor_divide remainder mod power negative
        positive square rint ceil floor around round equal not_equal less less_equal greater greater_equal logical_and
        logical_or logical_not isfinite isclose allclose clip outer inner matmul diff ediff1d poly roots count_nonzero
        result_type common_type broadcast_shapes dtype array2string array_repr array_str get_printoptions zeros_like
        ones_like full_like empty_like divmod choose loadtxt savetxt apply_along_axis char.str_len linalg.det
        lib.recfunctions.unstructured_to_structured""".split(),
    "box": """array broadcast_arrays split array_split hsplit vsplit dsplit""".split(),
    "view": """asarray asanyarray ascontiguousarray atleast_1d atleast_2d atleast_3d broadcast_to reshape ravel transpose
        expand_dims squeeze moveaxis swapaxes diag diagonal ndarray ndarray.__getitem__ ndarray.view real imag apply_over_axes
        lib.recfunctions.structured_to_unstructured""".split(),
    "write0": """copyto put place putmask fill_diagonal ndarray.__setitem__""".split(),
}
NUMPY_KIND = {name: kind for kind, names in NUMPY.items() for name in names}

# --- methods, by name (the receiver's type is unknown) ------------------------------------------
# fresh : new immutable/independent result          copy  : new object holding the receiver's elements
# view  : result shares the receiver's buffer       elem  : result is (a view of) an element of the receiver
# mutate: in-place change of the receiver (Write), the arguments become elements of it
# reduce: numpy reduction method; may dispatch to the numpoly function of the same name; result fresh
METHODS = {
    "fresh": """index count join split format startswith endswith replace upper lower strip decode encode group groups
        readline read search match sub compile getLogger debug info warning error basicConfig StreamHandler setLevel
        addHandler version as_poly coeffs monoms is_integer argsort nonzero""".split(),
    "copy": """copy flatten tolist astype repeat difference union intersection items values keys""".split(),
    "view": """ravel reshape view squeeze transpose swapaxes diagonal""".split(),
    "elem": """item get pop""".split(),
    "mutate": """append extend insert add update remove clear fill sort resize itemset put partition setfield setflags
        byteswap setdefault reverse""".split(),
    "reduce": """sum prod all any max min mean cumsum round""".split(),
}
METHOD_KIND = {name: kind for kind, names in METHODS.items() for name in names}
# pop is both element access and mutation
MUTATING_ALSO = {"pop", "setdefault"}

# --- builtins --------------------------------------------------------------------------------
BUILTINS = {
    "fresh": """len int float bool complex isinstance issubclass hasattr type range slice id callable ord chr open eval
        print KeyError ValueError TypeError AssertionError IndexError RuntimeError NotImplementedError Exception wraps
        round""".split(),
    "divmod": ["divmod"],                                   # may call ndpoly.__divmod__
    "str": """str repr format""".split(),                 # may call ndpoly.__str__ / __repr__
    "box": """list tuple set frozenset dict sorted reversed enumerate zip iter map filter chain""".split(),   # chain: itertools.chain
    "elems": """max min sum next any all""".split(),         # result is one of the elements (or fresh)
    "view": """getattr""".split(),
    "abs": ["abs"],
}
BUILTIN_KIND = {name: kind for kind, names in BUILTINS.items() for name in names}

# --- attribute reads ----------------------------------------------------------------------------
# immutable: the attribute value cannot be used to change the object (tuples, ints, dtypes, str)
# every other attribute read is a *view* of the object (conservative: .T .real .imag .flat .data .base .keys ...)
ATTR_IMMUTABLE = set("""shape size ndim dtype _dtype names allocation itemsize nbytes KEY_OFFSET name __name__ __code__
    __version__ strides inf newaxis is_integer gens""".split())
# view: numpy attributes that are views of the array's own buffer
ATTR_VIEW = set("""T real imag flat data base mT""".split())
# every other attribute (.keys, unknown ones) is an object *stored in* the receiver: it may be the receiver's
# buffer or something the receiver references (ndpoly.keys is shared between a polynomial and its copies)

# --- compiled helpers (numpoly/cfunctions/*.pyx, read by hand): which positional argument they write ----
EXTERN_WRITES = {"cfrom_attributes": 1, "cmultiply": 5}

# --- operators -> numpy ufunc / ndpoly dunder that may take over ------------------------------------
# (every candidate is looked up in the live registries / the ndpoly class: what is not there is not called)
BINOPS = {"Add": ["numpy.add"], "Sub": ["numpy.subtract"], "Mult": ["numpy.multiply"], "Pow": ["numpy.power"],
          "FloorDiv": ["numpy.floor_divide"], "Div": ["ndpoly.__truediv__", "numpy.true_divide"],
          "Mod": ["ndpoly.__mod__", "numpy.remainder"], "MatMult": ["numpy.matmul"], "BitAnd": ["numpy.bitwise_and"],
          "BitOr": ["numpy.bitwise_or"], "BitXor": ["numpy.bitwise_xor"], "LShift": ["numpy.left_shift"],
          "RShift": ["numpy.right_shift"]}
CMPOPS = {"Eq": ["ndpoly.__eq__", "numpy.equal"], "NotEq": ["ndpoly.__ne__", "numpy.not_equal"], "Lt": ["numpy.less"],
          "LtE": ["numpy.less_equal"], "Gt": ["numpy.greater"], "GtE": ["numpy.greater_equal"],
          "In": ["ndpoly.__eq__", "numpy.equal", "numpy.any"], "NotIn": ["ndpoly.__eq__", "numpy.equal", "numpy.any"],
          "Is": [], "IsNot": []}
UNOPS = {"USub": ["numpy.negative"], "UAdd": ["numpy.positive"], "Not": [], "Invert": ["numpy.invert"]}
SEQUENCE_OPS = {"Add", "Mult"}

# --- declared output targets ----------------------------------------------------------------------
#  * a parameter named `out`;  * copyto's `dst`;  * `self` of ndpoly.__array_finalize__ (numpy's hook that
#    initialises the object under construction);  * the two dispatch hooks forward (*inputs, **kwargs) of the
#    numpy call verbatim, the caller's `out=` travels inside them: all their parameters may carry a target;
#  * a function without an explicit `out` parameter can only receive `out=` through its **kwargs: the
#    *elements* of **kwargs are then possible targets.
DECLARED_EXTRA = {"numpoly.array_function.copyto.copyto": ["dst"],
                  "numpoly.baseclass.ndpoly.__array_finalize__": ["self"],
                  "numpoly.baseclass.ndpoly.__array_ufunc__": ["inputs", "kwargs"],
                  "numpoly.baseclass.ndpoly.__array_function__": ["args", "kwargs"]}

# --- parameters whose annotation says they are immutable scalars: they carry no buffer ------------------
IMMUTABLE_ANN_NAMES = {"int", "bool", "str", "float", "complex", "None", "Order", "Mode", "Callable", "PathLike"}
IMMUTABLE_ANN_ATTRS = {"numpy.typing.DTypeLike", "numpy.dtype"}
IMMUTABLE_PARAM_NAMES = {"cls"}

# keywords of ndarray.__new__ through which the new array can share memory with an argument
NEW_SHARED_KW = {"buffer"}

MODULE_PURE = {"re", "os", "logging", "sys", "importlib_metadata", "importlib", "functools"}


def tables():
    return {"numpy": NUMPY, "methods": METHODS, "builtins": BUILTINS, "attr_immutable": sorted(ATTR_IMMUTABLE), "attr_view": sorted(ATTR_VIEW),
            "extern_writes": EXTERN_WRITES, "binops": BINOPS, "cmpops": CMPOPS, "unops": UNOPS,
            "declared_extra": DECLARED_EXTRA, "new_shared_kw": sorted(NEW_SHARED_KW), "immutable_annotations": sorted(IMMUTABLE_ANN_NAMES | IMMUTABLE_ANN_ATTRS),
            "module_pure": sorted(MODULE_PURE)}


# ==============================================================================================
# IR helpers
# ==============================================================================================
NEW = ("new",)


def own(y):
    return ("own", y)


def el(y):
    return ("el", y)


def I_assign(x, os_, es_):
    return ("assign", x, list(os_), list(es_))


def I_alloc(x):
    return ("assign", x, [NEW], [NEW])


def I_alias(x, y):
    return ("assign", x, [own(y)], [el(y)])


def I_elem(x, y):
    return ("assign", x, [el(y)], [el(y)])


def I_mayalias(x, ys):
    return ("assign", x, [NEW] + [own(y) for y in ys], [NEW] + [el(y) for y in ys])


def I_box(x, ys):
    return ("assign", x, [NEW], [NEW] + [own(y) for y in ys] + [el(y) for y in ys])


def I_put(c, v):
    return ("assign", c, [own(c)], [el(c), own(v), el(v)])


def I_write(x):
    return ("write", x)


def optional_deep(code):
    """Every instruction (recursively) may be skipped: a prefix of the block followed by a jump."""
    out = []
    for ins in code:
        if ins[0] == "if":
            ins = ("if", optional_deep(ins[1]), optional_deep(ins[2]))
        elif ins[0] == "loop":
            ins = ("loop", optional_deep(ins[1]))
        out.append(("if", [ins], []))
    return out


# ==============================================================================================
# Source model
# ==============================================================================================
class FuncInfo:
    def __init__(self, qual, module, node, cls=None):
        self.qual, self.module, self.node, self.cls = qual, module, node, cls
        a = node.args
        self.sig = []           # (name, kind)  kind: posonly | pos | var | kwonly | kw
        for p in a.posonlyargs:
            self.sig.append((p.arg, "posonly", p.annotation))
        for p in a.args:
            self.sig.append((p.arg, "pos", p.annotation))
        if a.vararg:
            self.sig.append((a.vararg.arg, "var", None))
        for p in a.kwonlyargs:
            self.sig.append((p.arg, "kwonly", p.annotation))
        if a.kwarg:
            self.sig.append((a.kwarg.arg, "kw", None))
        decos = [ast.unparse(d) for d in node.decorator_list]
        self.is_static = "staticmethod" in decos
        self.is_property = "property" in decos
        self.fid = None

    @property
    def names(self):
        return [s[0] for s in self.sig]


class Source:
    """All modules under <repo>/numpoly, parsed; plus the live package for name resolution."""

    def __init__(self, repo):
        self.repo = os.path.abspath(repo)
        self.modules = {}
        self.funcs = {}
        root = os.path.join(self.repo, "numpoly")
        for dirpath, dirnames, files in os.walk(root):
            dirnames.sort()
            for fn in sorted(files):
                if not fn.endswith(".py"):
                    continue
                path = os.path.join(dirpath, fn)
                rel = os.path.relpath(path, self.repo)[:-3].replace(os.sep, ".")
                if rel.endswith(".__init__"):
                    rel = rel[:-9]
                tree = ast.parse(open(path).read(), filename=path)
                self.modules[rel] = tree
                for node in tree.body:
                    self._collect(rel, node)
        order = sorted(self.funcs)
        for i, q in enumerate(order):
            self.funcs[q].fid = i
        self.order = order
        self.live = self._import_live()
        self.numpy = importlib.import_module("numpy")
        self.registry = self._registry()
        cls = [f for f in self.funcs.values() if f.cls == "ndpoly"]
        self.ndpoly_methods = {f.node.name: f for f in cls}

    def _collect(self, module, node):
        if isinstance(node, ast.FunctionDef):
            q = f"{module}.{node.name}"
            self.funcs[q] = FuncInfo(q, module, node)
        elif isinstance(node, ast.ClassDef):
            for sub in node.body:
                if isinstance(sub, ast.FunctionDef):
                    q = f"{module}.{node.name}.{sub.name}"
                    self.funcs[q] = FuncInfo(q, module, sub, cls=node.name)
                elif isinstance(sub, (ast.AsyncFunctionDef, ast.ClassDef)):
                    raise TranslatorError(f"{module}: unsupported member {type(sub).__name__} in class {node.name}")
        elif isinstance(node, (ast.If, ast.Try)):
            for sub in ast.walk(node):
                if isinstance(sub, (ast.FunctionDef, ast.ClassDef)) and sub is not node:
                    raise TranslatorError(f"{module}: function or class defined under a module-level conditional")
        elif isinstance(node, ast.AsyncFunctionDef):
            raise TranslatorError(f"{module}: async function")

    def _import_live(self):
        live = importlib.import_module("numpoly")
        path = os.path.abspath(os.path.dirname(live.__file__))
        if path != os.path.join(self.repo, "numpoly"):
            raise TranslatorError(f"imported numpoly is {path}, not {self.repo}/numpoly (set PYTHONPATH/VERIF_REPO)")
        return live

    def func_of_object(self, obj):
        """FuncInfo of a live function object defined in the parsed tree, else None."""
        mod = getattr(obj, "__module__", None)
        qn = getattr(obj, "__qualname__", None)
        if mod and qn and f"{mod}.{qn}" in self.funcs:
            return self.funcs[f"{mod}.{qn}"]
        return None

    def _registry(self):
        reg = {}
        for coll in (self.live.FUNCTION_COLLECTION, self.live.UFUNC_COLLECTION):
            for k, v in coll.items():
                fi = self.func_of_object(v)
                if fi is None:
                    raise TranslatorError(f"registered implementation {v} of {k} is not a function of the tree")
                reg.setdefault(id(k), (k, []))[1].append(fi)
        return reg

    def impls_of(self, obj):
        ent = self.registry.get(id(obj))
        out = []
        for fi in (ent[1] if ent else []):
            if fi not in out:
                out.append(fi)
        return out

    def all_impls(self):
        out = []
        for _, fis in self.registry.values():
            for fi in fis:
                if fi not in out:
                    out.append(fi)
        return sorted(out, key=lambda f: f.fid)


def chain_of(e):
    parts = []
    while isinstance(e, ast.Attribute):
        parts.append(e.attr)
        e = e.value
    if isinstance(e, ast.Name):
        parts.append(e.id)
        return list(reversed(parts))
    return None


def assigned_names(body):
    """Names bound in this function scope (not in nested functions / comprehensions)."""
    names = set()

    def visit(n):
        if isinstance(n, (ast.FunctionDef, ast.AsyncFunctionDef, ast.ClassDef)):
            names.add(n.name)
            return
        if isinstance(n, ast.Lambda):
            return
        if isinstance(n, (ast.ListComp, ast.SetComp, ast.DictComp, ast.GeneratorExp)):
            # the first iterable is evaluated in the enclosing scope but binds nothing there
            return
        if isinstance(n, ast.Name) and isinstance(n.ctx, (ast.Store, ast.Del)):
            names.add(n.id)
        if isinstance(n, (ast.Import, ast.ImportFrom)):
            for a in n.names:
                names.add((a.asname or a.name).split(".")[0])
        if isinstance(n, (ast.Global, ast.Nonlocal)):
            raise TranslatorError("global/nonlocal statement")
        if isinstance(n, ast.ExceptHandler) and n.name:
            names.add(n.name)
        for c in ast.iter_child_nodes(n):
            visit(c)
    for s in body:
        visit(s)
    return names


def local_dict_keys(fnode):
    """Local names that are only ever bound to dict displays with constant string keys and only updated by
    `name['const'] = ...`: name -> set of possible keys.  Used to know that `**name` carries no `out=`."""
    info, bad = {}, set()
    parents = {}
    for n in ast.walk(fnode):
        for c in ast.iter_child_nodes(n):
            parents[c] = n
    params = {a.arg for a in ast.walk(fnode.args) if isinstance(a, ast.arg)}
    for n in ast.walk(fnode):
        if not isinstance(n, ast.Name):
            continue
        name, par = n.id, parents.get(n)
        if name in params:
            bad.add(name)
            continue
        if isinstance(n.ctx, ast.Store):
            if isinstance(par, ast.Assign) and len(par.targets) == 1 and par.targets[0] is n and isinstance(par.value, ast.Dict) \
                    and all(isinstance(k, ast.Constant) and isinstance(k.value, str) for k in par.value.keys):
                info.setdefault(name, set()).update(k.value for k in par.value.keys)
            else:
                bad.add(name)
        elif isinstance(n.ctx, ast.Load):
            if isinstance(par, ast.keyword) and par.arg is None and par.value is n:
                continue
            if isinstance(par, ast.Subscript) and par.value is n and isinstance(par.slice, ast.Constant) \
                    and isinstance(par.slice.value, str):
                if isinstance(par.ctx, ast.Store):
                    info.setdefault(name, set()).add(par.slice.value)
                continue
            bad.add(name)
        else:
            bad.add(name)
    return {k: v for k, v in info.items() if k not in bad}


def has_jump(stmt):
    """Contains a break/continue that belongs to an enclosing loop of stmt."""
    def visit(n, top):
        if isinstance(n, (ast.Break, ast.Continue)):
            return True
        if not top and isinstance(n, (ast.For, ast.While, ast.FunctionDef, ast.Lambda)):
            # jumps inside an inner loop stay inside it (its orelse could jump, ignored: not used)
            return False
        return any(visit(c, False) for c in ast.iter_child_nodes(n))
    if isinstance(stmt, (ast.For, ast.While)):
        return False
    return visit(stmt, True)


# ==============================================================================================
# Function translator
# ==============================================================================================
class FT:
    def __init__(self, src: Source, fi: FuncInfo, stats):
        self.src, self.fi, self.stats = src, fi, stats
        self.nvars = 0
        self.scopes = []
        self.code_stack = [[]]
        self.ret_stack = []
        self.new_objects = set()        # variables holding the object under construction in __new__
        self.all_placeholders = []
        self.cur_line = fi.node.lineno
        node = fi.node
        self.weak = any(isinstance(n, (ast.Lambda,)) or (isinstance(n, ast.FunctionDef) and n is not node)
                        for n in ast.walk(node))
        # a generator expression is evaluated lazily: it must be consumed where it is created (argument of a call)
        for n in ast.walk(node):
            for c in ast.iter_child_nodes(n):
                if isinstance(c, ast.GeneratorExp) and not (isinstance(n, ast.Call) and c in n.args):
                    raise TranslatorError(f"{fi.qual}:{c.lineno}: generator expression that is not a call argument")
        self.live_module = sys.modules.get(fi.module) or importlib.import_module(fi.module)
        body_names = assigned_names(node.body)
        self.assigned_in_body = body_names
        scope = {}
        for name in fi.names:
            scope[name] = self.newvar()
        for name in sorted(body_names):
            if name not in scope:
                scope[name] = self.newvar()
        self.scopes.append(scope)
        self.dict_keys = {scope[n]: keys for n, keys in local_dict_keys(node).items() if n in scope}
        self.kwarg_name = next((n for n, k, _ in fi.sig if k == "kw"), None)
        self.explicit_names = {n for n, k, _ in fi.sig if k in ("pos", "kwonly")}

    # ---- plumbing -----------------------------------------------------------------------------
    def newvar(self):
        self.nvars += 1
        return self.nvars - 1

    def emit(self, ins):
        if ins[0] in ("write", "call"):
            ins = ins + (self.cur_line,)        # source line, for diagnostics only
        self.code_stack[-1].append(ins)

    def block(self):
        class _B:
            def __enter__(s):
                self.code_stack.append([])
                return self.code_stack[-1]

            def __exit__(s, *a):
                self.code_stack.pop()
        return _B()

    def fresh(self):
        t = self.newvar()
        self.emit(I_alloc(t))
        return t

    def lookup(self, name):
        for sc in reversed(self.scopes):
            if name in sc:
                return sc[name]
        return None

    def bind_name(self, x, os_, es_):
        """Assignment to a named variable: strong, or weak in flow-insensitive mode."""
        if self.weak:
            self.emit(I_assign(x, [own(x)] + list(os_), [el(x)] + list(es_)))
        else:
            self.emit(I_assign(x, os_, es_))

    def err(self, node, msg):
        raise TranslatorError(f"{self.fi.qual}:{getattr(node, 'lineno', '?')}: {msg}")

    # ---- calls of translated functions -------------------------------------------------------------
    def call_fi(self, target: FuncInfo, pos, kws, node=None, drop_self=False):
        """Emit `Call t target args`; pos: [(var, starred)], kws: [(name|None, var)].
        Returns the result variable, or None if the arguments cannot be bound (the call would raise
        TypeError before the callee runs)."""
        sig = target.sig
        cands = {i: [] for i in range(len(sig))}
        ppos = [i for i, (_, k, _) in enumerate(sig) if k in ("posonly", "pos")]
        vararg = next((i for i, (_, k, _) in enumerate(sig) if k == "var"), None)
        kwarg = next((i for i, (_, k, _) in enumerate(sig) if k == "kw"), None)
        star_seen = False
        for j, (v, starred) in enumerate(pos):
            if not starred and not star_seen:
                if j < len(ppos):
                    cands[ppos[j]].append(("v", v))
                elif vararg is not None:
                    cands[vararg].append(("v", v))
                else:
                    return None
            else:
                star_seen = True
                for i in ppos[min(j, len(ppos)):]:
                    cands[i].append(("e" if starred else "v", v))
                if vararg is not None:
                    cands[vararg].append(("e" if starred else "v", v))
        named = set()
        for name, v in kws:
            if name is None:
                continue
            idx = next((i for i, (n, k, _) in enumerate(sig) if n == name and k in ("pos", "kwonly")), None)
            if idx is not None:
                cands[idx].append(("v", v))
                named.add(idx)
            elif kwarg is not None:
                cands[kwarg].append(("v", v))
            else:
                return None
        for name, v in kws:
            if name is not None:
                continue
            excluded = set()
            if self.kwarg_name is not None and v == self.scopes[0].get(self.kwarg_name) \
                    and self.kwarg_name not in self.assigned_in_body:
                excluded = self.explicit_names      # a name of an explicit parameter cannot be a key of **kwargs
            for i, (n, k, _) in enumerate(sig):
                if k in ("pos", "kwonly") and i not in named and n not in excluded:
                    cands[i].append(("e", v))
            if kwarg is not None:
                cands[kwarg].append(("e", v))
        args = []
        for i, (n, k, _) in enumerate(sig):
            cs = cands[i]
            if k in ("var", "kw"):
                t = self.newvar()
                es_ = [NEW]
                for kind, v in cs:
                    es_ += [el(v)] if kind == "e" else [own(v), el(v)]
                self.emit(I_assign(t, [NEW], es_))
                args.append(t)
            elif not cs:
                args.append(self.fresh())            # default value
            elif len(cs) == 1 and cs[0][0] == "v":
                args.append(cs[0][1])
            else:
                t = self.newvar()
                os_ = [NEW] + [own(v) if kind == "v" else el(v) for kind, v in cs]
                es_ = [NEW] + [el(v) for kind, v in cs]
                self.emit(I_assign(t, os_, es_))
                args.append(t)
        r = self.newvar()
        self.emit(("call", r, target.fid, args))
        self.stats["calls"] += 1
        return r

    def alt_call(self, target: FuncInfo, pos, kws, result):
        """One alternative `If [Call ...; result := its result] []`."""
        with self.block() as b:
            r = self.call_fi(target, pos, kws)
            if r is not None:
                self.emit(I_assign(result, [own(result), own(r)], [el(result), el(r)]))
        if r is not None:
            self.emit(("if", b, []))

    def dispatch(self, key, pos, kws, result):
        """key: 'numpy.<f>' (registry) or 'ndpoly.<dunder>', or a list of such."""
        if key is None:
            return
        if isinstance(key, (list, tuple)):
            for k in key:
                self.dispatch(k, pos, kws, result)
            return
        if key.startswith("ndpoly."):
            fi = self.src.ndpoly_methods.get(key[7:])
            if fi is not None:
                self.alt_call(fi, pos, kws, result)
            return
        obj = self.src.numpy
        for part in key.split(".")[1:]:
            obj = getattr(obj, part)
        for fi in self.src.impls_of(obj):
            self.alt_call(fi, pos, kws, result)

    # ---- expressions ----------------------------------------------------------------------------
    def ev(self, e):
        self.cur_line = getattr(e, "lineno", self.cur_line)
        m = getattr(self, "ev_" + type(e).__name__, None)
        if m is None:
            self.err(e, f"unsupported expression {type(e).__name__}")
        return m(e)

    def ev_Constant(self, e):
        return self.fresh()

    def ev_Name(self, e):
        v = self.lookup(e.id)
        if v is not None:
            return v
        return self.fresh()          # module-level name / builtin: no caller buffer (see module docstring)

    def ev_Attribute(self, e):
        ch = chain_of(e)
        if ch and self.lookup(ch[0]) is None and self.is_module_root(ch[0]):
            return self.fresh()      # numpy.newaxis, numpoly.ndpoly.KEY_OFFSET, ...
        base = self.ev(e.value)
        return self.attr_read(base, e.attr)

    def attr_read(self, base, attr):
        t = self.newvar()
        fi = self.src.ndpoly_methods.get(attr)
        if fi is not None and fi.is_property and not hasattr(self.src.numpy.ndarray, attr):
            # a property that only ndpoly has (coefficients, exponents, indeterminants, values): on any other
            # receiver of numpoly's code (ndarray, list, tuple, dict, str) the read raises AttributeError
            self.emit(I_alloc(t))
            self.alt_call(fi, [(base, False)], [], t)
            return t
        if attr in ATTR_IMMUTABLE:
            self.emit(I_alloc(t))
        elif attr in ATTR_VIEW:
            self.emit(I_alias(t, base))
        else:
            self.emit(I_assign(t, [own(base), el(base)], [el(base)]))
        fi = self.src.ndpoly_methods.get(attr)
        if fi is not None and fi.is_property:
            self.alt_call(fi, [(base, False)], [], t)
        return t

    def is_module_root(self, name):
        obj = getattr(self.live_module, name, None)
        import types
        return isinstance(obj, types.ModuleType)

    def ev_Subscript(self, e):
        base = self.ev(e.value)
        idx = self.ev(e.slice)
        t = self.newvar()
        self.emit(I_elem(t, base))
        self.dispatch("ndpoly.__getitem__", [(base, False), (idx, False)], [], t)
        return t

    def ev_Slice(self, e):
        for part in (e.lower, e.upper, e.step):
            if part is not None:
                self.ev(part)
        return self.fresh()

    def _display(self, elts):
        t = self.newvar()
        es_ = [NEW]
        for x in elts:
            if isinstance(x, ast.Starred):
                v = self.iter_elem(self.ev(x.value))
                es_ += [own(v), el(v)]
            else:
                v = self.ev(x)
                es_ += [own(v), el(v)]
        self.emit(I_assign(t, [NEW], es_))
        return t

    def ev_Tuple(self, e):
        return self._display(e.elts)

    ev_List = ev_Tuple
    ev_Set = ev_Tuple

    def ev_Dict(self, e):
        t = self.newvar()
        es_ = [NEW]
        for k, v in zip(e.keys, e.values):
            if k is None:
                d = self.ev(v)
                es_ += [el(d)]
            else:
                kk, vv = self.ev(k), self.ev(v)
                es_ += [own(kk), el(kk), own(vv), el(vv)]
        self.emit(I_assign(t, [NEW], es_))
        return t

    def ev_BinOp(self, e):
        a, b = self.ev(e.left), self.ev(e.right)
        t = self.newvar()
        opn = type(e.op).__name__
        if opn not in BINOPS:
            self.err(e, f"operator {opn}")
        # plain Python / numpy result: a new object.  Only + and * build sequences (list/tuple concatenation and
        # repetition) whose elements are those of the operands; every other operator yields numbers/arrays/str
        if opn in SEQUENCE_OPS:
            self.emit(I_assign(t, [NEW], [NEW, el(a), el(b)]))
        else:
            self.emit(I_alloc(t))
        self.dispatch(BINOPS[opn], [(a, False), (b, False)], [], t)
        return t

    def ev_UnaryOp(self, e):
        a = self.ev(e.operand)
        t = self.fresh()
        opn = type(e.op).__name__
        if opn not in UNOPS:
            self.err(e, f"operator {opn}")
        self.dispatch(UNOPS[opn], [(a, False)], [], t)
        return t

    def ev_Compare(self, e):
        left = self.ev(e.left)
        t = self.fresh()
        for op, c in zip(e.ops, e.comparators):
            right = self.ev(c)
            opn = type(op).__name__
            if opn not in CMPOPS:
                self.err(e, f"comparison {opn}")
            self.dispatch(CMPOPS[opn], [(left, False), (right, False)], [], t)
            left = right
        return t

    def ev_BoolOp(self, e):
        vs = [self.ev(v) for v in e.values]
        t = self.newvar()
        self.emit(I_mayalias(t, vs))
        return t

    def ev_IfExp(self, e):
        self.ev(e.test)
        t = self.newvar()
        with self.block() as b1:
            a = self.ev(e.body)
            self.emit(I_alias(t, a))
        with self.block() as b2:
            b = self.ev(e.orelse)
            self.emit(I_alias(t, b))
        self.emit(("if", b1, b2))
        return t

    def ev_JoinedStr(self, e):
        for v in e.values:
            if isinstance(v, ast.FormattedValue):
                x = self.ev(v.value)
                self.str_dispatch(x)
                if v.format_spec is not None:
                    self.ev(v.format_spec)
        return self.fresh()

    def ev_FormattedValue(self, e):
        x = self.ev(e.value)
        self.str_dispatch(x)
        return self.fresh()

    def str_dispatch(self, x):
        t = self.newvar()
        self.emit(I_alloc(t))
        self.dispatch("ndpoly.__str__", [(x, False)], [], t)
        self.dispatch("ndpoly.__repr__", [(x, False)], [], t)

    def ev_Starred(self, e):
        return self.iter_elem(self.ev(e.value))

    def ev_Yield(self, e):
        if e.value is not None:
            self.ev(e.value)
        return self.fresh()

    def ev_Lambda(self, e):
        f = self.fresh()
        self.inline_function(e.args, [ast.Return(value=e.body)], f)
        return f

    def iter_elem(self, it):
        """A variable standing for any element obtained by iterating `it`."""
        x = self.newvar()
        self.emit(I_elem(x, it))
        fi = self.src.ndpoly_methods.get("__iter__")
        if fi is not None:
            with self.block() as b:
                r = self.call_fi(fi, [(it, False)], [])
                self.emit(I_assign(x, [own(x), el(r)], [el(x), el(r)]))
            self.emit(("if", b, []))
        return x

    def _comprehension(self, e, elts):
        r = self.newvar()
        self.emit(I_alloc(r))
        self.scopes.append({})

        def gen(k):
            if k == len(e.generators):
                for x in elts:
                    v = self.ev(x)
                    self.emit(I_put(r, v))
                return
            g = e.generators[k]
            if g.is_async:
                self.err(e, "async comprehension")
            it = self.ev(g.iter)
            with self.block() as body:
                x = self.iter_elem(it)
                self.store(g.target, x, comp=True)
                for cond in g.ifs:
                    self.ev(cond)
                gen(k + 1)
            self.emit(("loop", body))
        gen(0)
        self.scopes.pop()
        return r

    def ev_ListComp(self, e):
        return self._comprehension(e, [e.elt])

    ev_SetComp = ev_ListComp
    ev_GeneratorExp = ev_ListComp

    def ev_DictComp(self, e):
        return self._comprehension(e, [e.key, e.value])

    # ---- calls --------------------------------------------------------------------------------------
    def eval_args(self, call):
        pos, kws = [], []
        for a in call.args:
            if isinstance(a, ast.Starred):
                pos.append((self.ev(a.value), True))
            else:
                pos.append((self.ev(a), False))
        for k in call.keywords:
            kws.append((k.arg, self.ev(k.value)))
        return pos, kws

    def arg_values(self, pos, kws):
        """(values, element-sources): variables passed whole / variables whose elements are passed."""
        whole = [v for v, st in pos if not st] + [v for n, v in kws if n is not None]
        parts = [v for v, st in pos if st] + [v for n, v in kws if n is None]
        return whole, parts

    def generic_result(self, t, pos, kws, extra=()):
        """t may be fresh, any argument, or an element of any argument (callbacks, unknown pure callees)."""
        whole, parts = self.arg_values(pos, kws)
        os_ = [NEW] + [own(v) for v in whole] + [el(v) for v in whole + parts] + [own(v) for v in extra] + [el(v) for v in extra]
        self.emit(I_assign(t, os_, os_))

    def out_kw(self, kws):
        """Explicit out= keyword, and **dicts that may carry one."""
        outs = [v for n, v in kws if n == "out"]
        maybe = []
        for n, v in kws:
            if n is None:
                if self.kwarg_name is not None and v == self.scopes[0].get(self.kwarg_name) \
                        and self.kwarg_name not in self.assigned_in_body and "out" in self.explicit_names:
                    continue
                if v in self.dict_keys and "out" not in self.dict_keys[v]:
                    continue                     # a local dict literal whose keys are all known
                maybe.append(v)
        return outs, maybe

    def ev_Call(self, e):
        f = e.func
        # --- super(...).__new__(...) ---------------------------------------------------------------
        if isinstance(f, ast.Attribute) and f.attr == "__new__" and isinstance(f.value, ast.Call) \
                and isinstance(f.value.func, ast.Name) and f.value.func.id == "super":
            pos, kws = self.eval_args(e)
            t = self.newvar()
            # numpy.ndarray.__new__(cls, shape, dtype, buffer, offset, strides, order): only `buffer` is shared
            # with the new array; it can arrive positionally (after cls, shape, dtype), by name or inside **kwargs
            shared_pos = [(v, st) for j, (v, st) in enumerate(pos) if j >= 3 or st or any(s for _, s in pos[:j])]
            shared_kw = [(n, v) for n, v in kws if n is None or n in NEW_SHARED_KW]
            self.generic_result(t, shared_pos, shared_kw)
            self.new_objects.add(t)
            return t
        ch = chain_of(f)
        if ch is not None and self.lookup(ch[0]) is None and (len(ch) == 1 or self.is_module_root(ch[0])):
            return self.call_global(e, ch)
        if isinstance(f, ast.Name):                 # a local callable (parameter, nested function)
            fv = self.lookup(f.id)
            pos, kws = self.eval_args(e)
            return self.call_value(fv, pos, kws)
        if isinstance(f, ast.Attribute):
            recv = self.ev(f.value)
            pos, kws = self.eval_args(e)
            return self.call_method(e, recv, f.attr, pos, kws)
        if isinstance(f, ast.Subscript):
            chs = chain_of(f.value)
            if chs and chs[-1] in ("UFUNC_COLLECTION", "FUNCTION_COLLECTION") and self.lookup(chs[0]) is None:
                self.ev(f.slice)
                pos, kws = self.eval_args(e)
                return self.call_any_registered(pos, kws)
        if isinstance(f, ast.Call):
            # decorator-style double call, e.g. wraps(f)(g): result is g or fresh
            self.ev(f)
            pos, kws = self.eval_args(e)
            t = self.newvar()
            self.generic_result(t, pos, kws)
            return t
        self.err(e, f"unsupported callee {ast.unparse(f)[:60]}")

    def call_value(self, fv, pos, kws):
        """Call of an object held in a variable: a user callback, a numpy function passed as a value, a nested
        function (inlined at its definition), or a polynomial (ndpoly.__call__).  Assumption: such callees
        do not write their arguments except through an explicit out= keyword."""
        t = self.newvar()
        self.generic_result(t, pos, kws, extra=[fv])
        outs, maybe = self.out_kw(kws)
        for o in outs:
            self.write_out(o, t)
        for d in maybe:
            x = self.newvar()
            self.emit(I_elem(x, d))
            self.write_out(x, t)
        fi = self.src.ndpoly_methods.get("__call__")
        if fi is not None:
            self.alt_call(fi, [(fv, False)] + pos, kws, t)
        self.stats["callbacks"] += 1
        return t

    def write_out(self, o, result):
        """out=o : o (an array, or a tuple of arrays) is written; the result may be o."""
        self.emit(I_write(o))
        x = self.newvar()
        self.emit(I_elem(x, o))
        self.emit(I_write(x))
        self.emit(I_assign(result, [own(result), own(o), el(o)], [el(result), el(o)]))

    def call_any_registered(self, pos, kws):
        t = self.fresh()
        whole, parts = self.arg_values(pos, kws)
        m = self.newvar()
        refs = [NEW] + [own(v) for v in whole] + [el(v) for v in whole + parts]
        self.emit(I_assign(m, refs, refs))
        for fi in self.src.all_impls():
            # every parameter may receive any of the forwarded values
            with self.block() as b:
                args = []
                for n, k, _ in fi.sig:
                    if k in ("var", "kw"):
                        a = self.newvar()
                        self.emit(I_assign(a, [NEW], [NEW, own(m), el(m)]))
                        args.append(a)
                    else:
                        args.append(m)
                r = self.newvar()
                self.emit(("call", r, fi.fid, args))
                self.emit(I_assign(t, [own(t), own(r)], [el(t), el(r)]))
            self.emit(("if", b, []))
        self.stats["dispatch_all"] += 1
        return t

    def resolve_global(self, ch):
        obj = getattr(self.live_module, ch[0], None)
        if obj is None:
            import builtins
            if len(ch) == 1 and hasattr(builtins, ch[0]):
                return ("builtin", ch[0])
            return None
        for part in ch[1:]:
            try:
                obj = getattr(obj, part)
            except AttributeError:
                return None
        return ("obj", obj)

    def call_global(self, e, ch):
        res = self.resolve_global(ch)
        dotted = ".".join(ch)
        if res is None:
            self.err(e, f"cannot resolve callee {dotted}")
        if res[0] == "builtin":
            return self.call_builtin(e, res[1])
        obj = res[1]
        import builtins
        import types
        if len(ch) == 1 and getattr(builtins, ch[0], None) is obj:
            return self.call_builtin(e, ch[0])
        fi = self.src.func_of_object(obj)
        pos, kws = self.eval_args(e)
        if fi is not None:                                   # a numpoly function
            t = self.fresh()
            r = self.call_fi(fi, pos, kws)
            if r is not None:
                self.emit(I_alias(t, r))
            else:
                self.err(e, f"cannot bind the arguments of the call of {dotted} to its signature")
            return t
        mod = getattr(obj, "__module__", "") or ""
        if isinstance(obj, type):
            if obj is self.src.live.ndpoly:
                fi = self.src.ndpoly_methods["__new__"]
                cls = self.fresh()
                t = self.fresh()
                r = self.call_fi(fi, [(cls, False)] + pos, kws)
                if r is not None:
                    self.emit(I_alias(t, r))
                return t
            if issubclass(obj, BaseException) or mod.startswith("numpoly"):
                for n in ast.walk(self.src.modules.get(mod, ast.Module(body=[], type_ignores=[]))):
                    if isinstance(n, ast.ClassDef) and n.name == obj.__name__ and \
                            any(isinstance(s, ast.FunctionDef) for s in n.body):
                        self.err(e, f"class {dotted} with methods is instantiated")
                return self.fresh()                       # exception objects
        name = getattr(obj, "__name__", None)
        if mod.startswith("numpoly.cfunctions") or name in EXTERN_WRITES:
            if name not in EXTERN_WRITES:
                self.err(e, f"compiled helper {dotted} is not classified")
            k = EXTERN_WRITES[name]
            if any(st for _, st in pos) or len(pos) <= k:
                self.err(e, f"compiled helper {dotted}: cannot locate written argument")
            self.emit(I_write(pos[k][0]))
            return self.fresh()
        if mod == "itertools" and name == "chain":
            return self.call_builtin(e, "chain")          # an iterator over the elements of its arguments
        if ch[0] in MODULE_PURE or mod.split(".")[0] in MODULE_PURE | {"contextlib", "typing", "logging", "re", "os"}:
            return self.fresh()                           # str/None in, immutable objects out
        # numpy: by its public dotted name
        np_name = self.numpy_name(obj, ch)
        if np_name is not None:
            return self.call_numpy(e, np_name, obj, pos, kws)
        self.err(e, f"unclassified callee {dotted} ({mod}.{name})")

    def numpy_name(self, obj, ch):
        if ch[0] == "numpy" or self.resolve_global([ch[0]])[1] is self.src.numpy:
            return ".".join(ch[1:])
        mod = getattr(obj, "__module__", "") or ""
        if mod.startswith("numpy"):
            name = obj.__name__
            for cand in (name, mod.split("numpy.", 1)[-1] + "." + name if "." in mod else name):
                if cand in NUMPY_KIND:
                    return cand
            return mod.replace("numpy.", "", 1) + "." + name
        return None

    def call_numpy(self, e, name, obj, pos, kws):
        kind = NUMPY_KIND.get(name)
        if kind is None:
            self.err(e, f"numpy.{name} is not classified (add it to the NUMPY table)")
        whole, parts = self.arg_values(pos, kws)
        t = self.newvar()
        if kind == "fresh":
            self.emit(I_alloc(t))
        elif kind == "box":
            copy_false = any(k.arg == "copy" and not (isinstance(k.value, ast.Constant) and k.value.value is True)
                             for k in e.keywords)
            if name == "array" and self.numeric_dtype_kw(e) and not copy_false:
                self.emit(I_alloc(t))          # numpy.array(x, dtype=<numeric>): a new array of numbers
            else:
                os_ = [NEW] + ([own(v) for v in whole] if copy_false else [])
                self.emit(I_assign(t, os_, [NEW] + [own(v) for v in whole] + [el(v) for v in whole + parts]))
        elif kind == "view":
            # the result is the argument itself / shares its buffer, or is new; its elements are the argument's
            self.emit(I_assign(t, [NEW] + [own(v) for v in whole] + [el(v) for v in parts],
                               [NEW] + [el(v) for v in whole + parts]))
        elif kind == "write0":
            if not pos or pos[0][1]:
                self.err(e, f"numpy.{name}: destination is not the first positional argument")
            self.emit(I_write(pos[0][0]))
            self.emit(I_alloc(t))
        outs, maybe = self.out_kw(kws)
        for o in outs:
            self.write_out(o, t)
        for d in maybe:
            x = self.newvar()
            self.emit(I_elem(x, d))
            self.write_out(x, t)
        # the same call may be taken over by numpoly when an argument is a polynomial
        for fi in self.src.impls_of(obj):
            self.alt_call(fi, pos, kws, t)
        self.stats["numpy_calls"][name] = self.stats["numpy_calls"].get(name, 0) + 1
        return t

    def numeric_dtype_kw(self, e):
        """dtype=<something that is syntactically not `object`> is passed."""
        for k in e.keywords:
            if k.arg == "dtype":
                txt = ast.unparse(k.value)
                return txt not in ("object", "numpy.object_", "'O'", "'object'", "None") and "object" not in txt
        return False

    def call_builtin(self, e, name):
        kind = BUILTIN_KIND.get(name)
        if kind is None:
            self.err(e, f"builtin {name} is not classified")
        pos, kws = self.eval_args(e)
        whole, parts = self.arg_values(pos, kws)
        t = self.newvar()
        if kind == "fresh":
            self.emit(I_alloc(t))
        elif kind == "str":
            self.emit(I_alloc(t))
            for v in whole:
                self.str_dispatch(v)
        elif kind == "abs":
            self.emit(I_alloc(t))
            for v in whole:
                self.dispatch("numpy.absolute", [(v, False)], [], t)
        elif kind == "divmod":
            self.emit(I_alloc(t))
            self.dispatch(["ndpoly.__divmod__", "numpy.divmod"], pos, [], t)
        elif kind == "view":
            self.emit(I_mayalias(t, whole))
        elif kind in ("box", "elems"):
            srcs = []
            for v in whole:
                if name in ("max", "min") and len(whole) > 1:
                    srcs.append(v)
                else:
                    srcs.append(self.iter_elem(v))
            for v in parts:
                x = self.newvar()
                self.emit(I_elem(x, v))
                srcs.append(self.iter_elem(x))
            refs = [own(v) for v in srcs] + [el(v) for v in srcs]
            if kind == "box":
                # dict(zip(..)), list(zip(..)): elements of elements are flattened by the (own, elem) abstraction
                self.emit(I_assign(t, [NEW], [NEW] + refs))
            else:
                self.emit(I_assign(t, [NEW] + refs, [NEW] + refs))
            if name in ("sorted", "max", "min"):
                for v in srcs:
                    self.dispatch("numpy.less", [(v, False), (v, False)], [], self.fresh())
                    self.dispatch("numpy.greater", [(v, False), (v, False)], [], self.fresh())
            if name == "sum":
                for v in srcs:
                    self.dispatch("numpy.add", [(v, False), (v, False)], [], t)
            for n, v in kws:
                if n == "key":           # key function: inlined at its definition (lambda) or a callback
                    pass
        return t

    def call_method(self, e, recv, name, pos, kws):
        fi = self.src.ndpoly_methods.get(name)
        kind = METHOD_KIND.get(name)
        if fi is None and kind is None:
            self.err(e, f"method .{name}() is not classified (add it to the METHODS table)")
        whole, parts = self.arg_values(pos, kws)
        t = self.newvar()
        if kind is None or kind == "fresh" or kind == "reduce":
            self.emit(I_alloc(t))
        elif kind == "copy":
            copy_false = any(k.arg == "copy" and not (isinstance(k.value, ast.Constant) and k.value.value is True)
                             for k in e.keywords)
            # a new object holding the receiver's elements (numbers, or references for object arrays / dict views)
            self.emit(I_assign(t, [NEW] + ([own(recv)] if copy_false else []), [NEW, el(recv)]))
        elif kind == "view":
            self.emit(I_alias(t, recv))
        elif kind == "elem":
            refs = [NEW, el(recv)] + [own(v) for v in whole] + [el(v) for v in whole]     # dict.get(k, default)
            self.emit(I_assign(t, refs, refs))
        elif kind == "mutate":
            self.emit(I_alloc(t))
        if kind == "mutate" or name in MUTATING_ALSO:
            self.emit(I_write(recv))
            for v in whole:
                self.emit(I_put(recv, v))
            for v in parts:
                x = self.newvar()
                self.emit(I_elem(x, v))
                self.emit(I_put(recv, x))
        if kind == "reduce":                       # only numpy's reduction methods accept out=
            outs, maybe = self.out_kw(kws)
            for o in outs:
                self.write_out(o, t)
            for d in maybe:
                x = self.newvar()
                self.emit(I_elem(x, d))
                self.write_out(x, t)
        if fi is not None and not fi.is_property:
            self.alt_call(fi, ([] if fi.is_static else [(recv, False)]) + pos, kws, t)
        if kind == "reduce":
            obj = getattr(self.src.numpy, {"max": "amax", "min": "amin", "round": "around"}.get(name, name))
            for g in self.src.impls_of(obj):
                self.alt_call(g, [(recv, False)] + pos, kws, t)
        return t

    # ---- nested functions and lambdas ------------------------------------------------------------
    def inline_function(self, args, body, fvar):
        scope = {}
        names = [a.arg for a in args.posonlyargs + args.args + args.kwonlyargs]
        if args.vararg:
            names.append(args.vararg.arg)
        if args.kwarg:
            names.append(args.kwarg.arg)
        for n in names:
            scope[n] = self.newvar()
        for n in sorted(assigned_names(body)):
            if n not in scope:
                scope[n] = self.newvar()
        ret = self.newvar()
        self.emit(I_alloc(ret))
        with self.block() as b:
            self.scopes.append(scope)
            self.ret_stack.append(ret)
            for n in names:
                ph = ("ALL",)
                self.emit(("assign", scope[n], [NEW, ph], [NEW, ph]))
            self.stmts(body)
            self.ret_stack.pop()
            self.scopes.pop()
        self.emit(("loop", [("if", b, [])]))
        self.emit(I_put(fvar, ret))
        self.stats["inlined"] += 1

    # ---- stores ---------------------------------------------------------------------------------------
    def store(self, target, v, comp=False):
        if isinstance(target, ast.Name):
            x = self.lookup(target.id)
            if x is None or comp and target.id not in self.scopes[-1]:
                x = self.newvar()
                self.scopes[-1][target.id] = x
            self.bind_name(x, [own(v)], [el(v)])
            if v in self.new_objects:
                self.new_objects.add(x)
        elif isinstance(target, (ast.Tuple, ast.List)):
            for elt in target.elts:
                x = self.newvar()
                if isinstance(elt, ast.Starred):
                    self.emit(I_assign(x, [NEW], [NEW, el(v)]))
                    self.store(elt.value, x, comp)
                else:
                    self.emit(I_elem(x, v))
                    self.store(elt, x, comp)
        elif isinstance(target, ast.Subscript):
            base = self.ev(target.value)
            self.ev(target.slice)
            self.emit(I_write(base))
            self.emit(I_put(base, v))
        elif isinstance(target, ast.Attribute):
            base = self.ev(target.value)
            if base not in self.new_objects:      # attribute of the object __new__ is constructing: not a store
                self.emit(I_write(base))          # into any pre-existing object
            self.emit(I_put(base, v))
        else:
            self.err(target, f"unsupported assignment target {type(target).__name__}")

    # ---- statements -----------------------------------------------------------------------------------
    def stmts(self, body, in_loop=False):
        for k, s in enumerate(body):
            self.st(s)
            if has_jump(s) and k + 1 < len(body):
                with self.block() as rest:
                    self.stmts(body[k + 1:])
                self.emit(("if", rest, []))
                return

    def st(self, s):
        self.cur_line = getattr(s, "lineno", self.cur_line)
        m = getattr(self, "st_" + type(s).__name__, None)
        if m is None:
            self.err(s, f"unsupported statement {type(s).__name__}")
        m(s)

    def st_Expr(self, s):
        self.ev(s.value)

    def st_Pass(self, s):
        pass

    st_Break = st_Pass
    st_Continue = st_Pass

    def st_Assign(self, s):
        v = self.ev(s.value)
        for tgt in s.targets:
            self.store(tgt, v)

    def st_AnnAssign(self, s):
        if s.value is not None:
            v = self.ev(s.value)
            self.store(s.target, v)

    def st_AugAssign(self, s):
        opn = type(s.op).__name__
        if opn not in BINOPS:
            self.err(s, f"operator {opn}")
        if isinstance(s.target, ast.Name):
            x = self.lookup(s.target.id)
            if x is None:
                self.err(s, "augmented assignment to a global")
            r = self.ev(s.value)
            self.emit(I_write(x))                      # in place for arrays and lists
            if opn == "Add":                           # list += iterable keeps the iterable's elements
                self.emit(I_assign(x, [own(x)], [el(x), el(r)]))
            t = self.fresh()
            ob = self.newvar()
            self.emit(I_assign(ob, [NEW], [own(x)]))   # out=(x,)
            self.dispatch(BINOPS[opn], [(x, False), (r, False)], [("out", ob)], t)
        elif isinstance(s.target, (ast.Subscript, ast.Attribute)):
            base = self.ev(s.target.value)
            if isinstance(s.target, ast.Subscript):
                self.ev(s.target.slice)
            cur = self.newvar()
            self.emit(I_elem(cur, base) if isinstance(s.target, ast.Subscript) else I_alias(cur, base))
            self.dispatch("ndpoly.__getitem__", [(base, False), (self.fresh(), False)], [], cur)
            r = self.ev(s.value)
            self.emit(I_write(cur))
            if opn == "Add":
                self.emit(I_assign(cur, [own(cur)], [el(cur), el(r)]))
            t = self.fresh()
            ob = self.newvar()
            self.emit(I_assign(ob, [NEW], [own(cur)]))
            self.dispatch(BINOPS[opn], [(cur, False), (r, False)], [("out", ob)], t)
            self.emit(I_write(base))
            self.emit(I_put(base, cur))
        else:
            self.err(s, "augmented assignment target")

    def st_Return(self, s):
        v = self.ev(s.value) if s.value is not None else self.fresh()
        if self.ret_stack:
            r = self.ret_stack[-1]
            self.emit(I_assign(r, [own(r), own(v)], [el(r), el(v)]))
        else:
            self.emit(("ret", v))

    def st_Raise(self, s):
        if s.exc is not None:
            self.ev(s.exc)
        if s.cause is not None:
            self.ev(s.cause)
        if not self.ret_stack:
            self.emit(("raise",))

    def st_Assert(self, s):
        self.ev(s.test)
        with self.block() as b:
            if s.msg is not None:
                self.ev(s.msg)
            if not self.ret_stack:
                self.emit(("raise",))
        self.emit(("if", b, []))

    def st_Delete(self, s):
        for t in s.targets:
            if isinstance(t, ast.Name):
                continue
            if isinstance(t, (ast.Subscript, ast.Attribute)):
                base = self.ev(t.value)
                self.emit(I_write(base))
            else:
                self.err(s, "del target")

    def st_If(self, s):
        self.ev(s.test)
        with self.block() as b1:
            self.stmts(s.body)
        with self.block() as b2:
            self.stmts(s.orelse)
        self.emit(("if", b1, b2))

    def st_For(self, s):
        it = s.iter
        pair = None
        if isinstance(it, ast.Call) and isinstance(it.func, ast.Name) and self.lookup(it.func.id) is None \
                and not it.keywords and not any(isinstance(a, ast.Starred) for a in it.args) \
                and isinstance(s.target, ast.Tuple) and not any(isinstance(x, ast.Starred) for x in s.target.elts):
            res = self.resolve_global([it.func.id])
            if res == ("builtin", "zip") and len(it.args) == len(s.target.elts):
                pair = [("iter", self.ev(a)) for a in it.args]
            elif res == ("builtin", "enumerate") and len(it.args) == 1 and len(s.target.elts) == 2:
                pair = [("fresh", None), ("iter", self.ev(it.args[0]))]
        if pair is None:
            src = self.ev(it)
        with self.block() as body:
            if pair is not None:
                for (kind, v), tgt in zip(pair, s.target.elts):
                    x = self.fresh() if kind == "fresh" else self.iter_elem(v)
                    self.store(tgt, x)
            else:
                x = self.iter_elem(src)
                self.store(s.target, x)
            self.stmts(s.body)
        self.emit(("loop", body))
        if s.orelse:
            with self.block() as b:
                self.stmts(s.orelse)
            self.emit(("if", b, []))

    def st_While(self, s):
        with self.block() as body:
            self.ev(s.test)
            self.stmts(s.body)
        self.emit(("loop", body))
        self.ev(s.test)
        if s.orelse:
            with self.block() as b:
                self.stmts(s.orelse)
            self.emit(("if", b, []))

    def st_With(self, s):
        for item in s.items:
            v = self.ev(item.context_expr)
            if item.optional_vars is not None:
                t = self.newvar()
                self.emit(I_mayalias(t, [v]))
                self.store(item.optional_vars, t)
        self.stmts(s.body)

    def st_Try(self, s):
        with self.block() as body:
            self.stmts(s.body)
        for ins in optional_deep(body):
            self.emit(ins)
        for h in s.handlers:
            with self.block() as hb:
                if h.type is not None:
                    self.ev(h.type)
                if h.name:
                    x = self.lookup(h.name)
                    self.bind_name(x, [NEW], [NEW])
                self.stmts(h.body)
            self.emit(("if", hb, []))
        if s.orelse:
            with self.block() as ob:
                self.stmts(s.orelse)
            self.emit(("if", ob, []))
        self.stmts(s.finalbody)

    def st_Import(self, s):
        for a in s.names:
            x = self.lookup((a.asname or a.name).split(".")[0])
            self.bind_name(x, [NEW], [NEW])

    st_ImportFrom = st_Import

    def st_FunctionDef(self, s):
        for d in s.decorator_list:
            self.ev(d)
        f = self.lookup(s.name)
        self.bind_name(f, [NEW], [NEW])
        self.inline_function(s.args, s.body, f)

    # ---- whole function -----------------------------------------------------------------------------
    def immutable_annotation(self, ann):
        if ann is None:
            return False
        if isinstance(ann, ast.Constant):
            if ann.value is None:
                return True
            if isinstance(ann.value, str):          # string annotation
                try:
                    return self.immutable_annotation(ast.parse(ann.value, mode="eval").body)
                except SyntaxError:
                    return False
            return False
        if isinstance(ann, ast.Name):
            return ann.id in IMMUTABLE_ANN_NAMES
        if isinstance(ann, ast.Attribute):
            return ast.unparse(ann) in IMMUTABLE_ANN_ATTRS
        if isinstance(ann, ast.Subscript):
            head = ast.unparse(ann.value)
            if head in ("Optional", "Union", "typing.Optional", "typing.Union"):
                parts = ann.slice.elts if isinstance(ann.slice, ast.Tuple) else [ann.slice]
                return all(self.immutable_annotation(p) for p in parts)
            if head in ("Callable", "typing.Callable", "Literal"):
                return True
        return False

    def translate(self):
        node = self.fi.node
        pruned = []
        for name, kind, ann in self.fi.sig:
            if kind in ("var", "kw"):
                continue
            if name in IMMUTABLE_PARAM_NAMES or self.immutable_annotation(ann):
                self.emit(I_alloc(self.scopes[0][name]))
                pruned.append(name)
        self.stmts(node.body)
        body = self.code_stack[0]
        if self.weak:
            body = [("loop", body)]
        allrefs = [r for v in range(self.nvars) for r in (own(v), el(v))]

        def patch(code):
            out = []
            for ins in code:
                if ins[0] == "assign":
                    os_ = [r for x in ins[2] for r in (allrefs if x == ("ALL",) else [x])]
                    es_ = [r for x in ins[3] for r in (allrefs if x == ("ALL",) else [x])]
                    out.append(("assign", ins[1], os_, es_))
                elif ins[0] == "if":
                    out.append(("if", patch(ins[1]), patch(ins[2])))
                elif ins[0] == "loop":
                    out.append(("loop", patch(ins[1])))
                else:
                    out.append(ins)
            return out
        body = patch(body)
        outs = []
        names = self.fi.names
        declared = [n for n in names if n == "out"] + DECLARED_EXTRA.get(self.fi.qual, [])
        kinds = {n: k for n, k, _ in self.fi.sig}
        if "out" not in names and self.kwarg_name is not None:
            outs.append(2 * names.index(self.kwarg_name) + 1)          # elements of **kwargs may carry out=
        for n in declared:
            if n not in names:
                raise TranslatorError(f"{self.fi.qual}: declared output {n} is not a parameter")
            i = names.index(n)
            outs += [2 * i, 2 * i + 1]
        return {"arity": len(names), "outs": sorted(set(outs)), "body": body, "weak": self.weak, "pruned": pruned,
                "nvars": self.nvars, "declared": declared}


# ==============================================================================================
# Emission
# ==============================================================================================
def N(k):
    """Numerals are named constants n<k> (defined once in the generated file): a literal 300 costs 300
    constructors at every occurrence, the constant does not."""
    _USED.add(int(k))
    return f"n{int(k)}"


_USED = set()


def ref_coq(r):
    return "New" if r == NEW else (f"Own {N(r[1])}" if r[0] == "own" else f"El {N(r[1])}")


def refs_coq(rs):
    seen, out = set(), []
    for r in rs:
        if r not in seen:
            seen.add(r)
            out.append(r)
    return "[" + "; ".join(ref_coq(r) for r in out) + "]"


def nats(xs):
    return "[" + "; ".join(N(x) for x in xs) + "]"


def ins_coq(ins):
    k = ins[0]
    if k == "assign":
        _, x, os_, es_ = ins
        if os_ == [NEW] and es_ == [NEW]:
            return f"Alloc {N(x)}"
        if len(os_) == 1 and len(es_) == 1 and os_[0][0] == "own" and es_[0] == ("el", os_[0][1]):
            return f"Alias {N(x)} {N(os_[0][1])}"
        if len(os_) == 1 and len(es_) == 1 and os_[0][0] == "el" and es_[0] == os_[0]:
            return f"Elem {N(x)} {N(os_[0][1])}"
        return f"Assign {N(x)} {refs_coq(os_)} {refs_coq(es_)}"
    if k == "write":
        return f"Write {N(ins[1])}"
    if k == "call":
        return f"Call {N(ins[1])} {N(ins[2])} {nats(ins[3])}"
    if k == "ret":
        return f"Return {N(ins[1])}"
    if k == "raise":
        return "Raise"
    if k == "if":
        return f"If {prog_coq(ins[1])} {prog_coq(ins[2])}"
    if k == "loop":
        return f"Loop {prog_coq(ins[1])}"
    raise TranslatorError(f"unknown instruction {k}")


def prog_coq(code):
    if not code:
        return "Done"
    return "(pl [" + "; ".join(ins_coq(i) for i in code) + "])"


def count_ins(code):
    n = 0
    for ins in code:
        n += 1
        if ins[0] == "if":
            n += count_ins(ins[1]) + count_ins(ins[2])
        elif ins[0] == "loop":
            n += count_ins(ins[1])
    return n


def translate(repo, expected_unsafe=()):
    src = Source(repo)
    stats = {"calls": 0, "callbacks": 0, "dispatch_all": 0, "inlined": 0, "numpy_calls": {}, "unbindable": []}
    funcs = []
    for q in src.order:
        fi = src.funcs[q]
        ft = FT(src, fi, stats)
        res = ft.translate()
        res["qual"] = q
        res["fid"] = fi.fid
        res["params"] = fi.names
        res["instructions"] = count_ins(res["body"])
        res["writes"] = sum(1 for _ in _walk(res["body"]) if _[0] == "write")
        funcs.append(res)
    unknown = [q for q in expected_unsafe if q not in src.funcs]
    if unknown:
        raise TranslatorError(f"expected-unsafe functions not in the tree: {unknown}")
    return {"functions": funcs, "stats": stats, "expected_unsafe": sorted(src.funcs[q].fid for q in expected_unsafe),
            "names": src.order, "registered": [f.qual for f in src.all_impls()]}


def _walk(code):
    for ins in code:
        yield ins
        if ins[0] == "if":
            yield from _walk(ins[1])
            yield from _walk(ins[2])
        elif ins[0] == "loop":
            yield from _walk(ins[1])


def emit(info):
    _USED.clear()
    body = []
    for f in info["functions"]:
        body.append(f"(* {f['fid']}: {f['qual']}({', '.join(f['params'])})"
                    + (" [flow-insensitive]" if f["weak"] else "") + " *)")
        body.append(f"Definition fn_{f['fid']} : fdef := FDef {N(f['arity'])} {nats(f['outs'])} {prog_coq(f['body'])}.")
    body.append("")
    body.append("Definition gen_table : table := [" + "; ".join(f"fn_{f['fid']}" for f in info["functions"]) + "].")
    body.append(f"Definition gen_expected_unsafe : list fname := {nats(info['expected_unsafe'])}.")
    lines = ["(* GENERATED by harness/translators/effects_tr.py from every module under /repo/numpoly — do not edit *)",
             "From Coq Require Import List.", "From NP Require Import Effects.", "Import ListNotations.", "",
             "(* numerals as named constants: n<k> = k *)", "Definition n0 : nat := O."]
    for k in range(1, max(_USED | {0}) + 1):
        lines.append(f"Definition n{k} : nat := S n{k - 1}.")
    lines.append("")
    return "\n".join(lines + body) + "\n"


def generate(repo, coq_dir, expected_unsafe=None):
    if expected_unsafe is None:
        expected_unsafe = known_unsafe_functions()
    info = translate(repo, expected_unsafe)
    path = os.path.join(coq_dir, "Gen", GEN_NAME)
    text = emit(info)
    os.makedirs(os.path.dirname(path), exist_ok=True)
    if not os.path.exists(path) or open(path).read() != text:
        with open(path, "w") as fh:
            fh.write(text)
    return info


# ==============================================================================================
# Diagnostics only (NOT part of the proof): the same analysis in Python, with blame
# ==============================================================================================
def py_analyse(info, rounds=40, trace=None):
    """Mirror of Effects.v's analysis that remembers, for every parameter atom a function may write, the
    source lines responsible.  Used to explain a rejection; the verdict itself comes from Coq."""
    funcs = info["functions"]
    sums = [{"w": {}, "ro": set(), "re": set()} for _ in funcs]

    def get(env, x):
        return env.get(x, (frozenset(), frozenset()))

    def join(a, b):
        env = dict(a["env"])
        for x, (o, e) in b["env"].items():
            o0, e0 = get(env, x)
            env[x] = (o0 | o, e0 | e)
        w = {k: set(v) for k, v in a["w"].items()}
        for k, v in b["w"].items():
            w.setdefault(k, set()).update(v)
        return {"env": env, "w": w, "ro": a["ro"] | b["ro"], "re": a["re"] | b["re"]}

    def leq(a, b):
        for x, (o, e) in a["env"].items():
            o0, e0 = get(b["env"], x)
            if not (o <= o0 and e <= e0):
                return False
        return all(k in b["w"] for k in a["w"]) and a["ro"] <= b["ro"] and a["re"] <= b["re"]

    def copy(st):
        return {"env": dict(st["env"]), "w": {k: set(v) for k, v in st["w"].items()}, "ro": set(st["ro"]), "re": set(st["re"])}

    def refs(st, rs, which):
        out = set()
        for r in rs:
            if r[0] == "own":
                out |= get(st["env"], r[1])[0]
            elif r[0] == "el":
                out |= get(st["env"], r[1])[1]
        return frozenset(out)

    def run(code, st, qual):
        for ins in code:
            k = ins[0]
            if k == "assign":
                st["env"][ins[1]] = (refs(st, ins[2], 0), refs(st, ins[3], 1))
            elif k == "write":
                if trace == qual:
                    print(f"  TRACE write var {ins[1]} line {ins[2]}: own={sorted(get(st['env'], ins[1])[0])}")
                for a in get(st["env"], ins[1])[0]:
                    st["w"].setdefault(a, set()).add(f"line {ins[2]}: in-place store")
            elif k == "call":
                _, x, fid, args, line = ins
                sm = sums[fid]

                def sub(atoms):
                    out = set()
                    for a in atoms:
                        if a // 2 < len(args):
                            out |= get(st["env"], args[a // 2])[a % 2]
                    return frozenset(out)
                for a in sm["w"]:
                    for c in sub([a]):
                        pn = funcs[fid]["params"]
                        st["w"].setdefault(c, set()).add(
                            f"line {line}: call of {funcs[fid]['qual']} which may write its parameter "
                            f"{pn[a // 2] if a // 2 < len(pn) else a}{'' if a % 2 == 0 else '[...]'}")
                st["env"][x] = (sub(sm["ro"]), sub(sm["re"]))
                if trace == qual:
                    print(f"  TRACE call {funcs[fid]['qual']} line {line}: args={[(a, sorted(get(st['env'], a)[0]), sorted(get(st['env'], a)[1])) for a in args]} "
                          f"-> var {x} own={sorted(st['env'][x][0])} elem={sorted(st['env'][x][1])}")
            elif k == "ret":
                o, e = get(st["env"], ins[1])
                st["ro"] |= o
                st["re"] |= e
            elif k == "if":
                a = run(ins[1], copy(st), qual)
                b = run(ins[2], copy(st), qual)
                st = join(a, b)
            elif k == "loop":
                for _ in range(60):
                    b = run(ins[1], copy(st), qual)
                    if leq(b, st):
                        break
                    st = join(st, b)
                else:
                    raise TranslatorError(f"{qual}: loop analysis does not settle")
        return st

    for _ in range(rounds):
        changed = False
        for f in funcs:
            env = {i: (frozenset([2 * i]), frozenset([2 * i + 1])) for i in range(f["arity"])}
            st = run(f["body"], {"env": env, "w": {}, "ro": set(), "re": set()}, f["qual"])
            sm = sums[f["fid"]]
            if set(st["w"]) - set(sm["w"]) or st["ro"] - sm["ro"] or st["re"] - sm["re"]:
                changed = True
            for k, v in st["w"].items():
                sm["w"].setdefault(k, set()).update(v)
            sm["ro"] |= st["ro"]
            sm["re"] |= st["re"]
        if not changed:
            break
    out = {}
    for f, sm in zip(funcs, sums):
        pn = f["params"]

        def nm(a):
            return (pn[a // 2] if a // 2 < len(pn) else str(a)) + ("" if a % 2 == 0 else "[...]")
        out[f["qual"]] = {"writes": {nm(a): sorted(v) for a, v in sm["w"].items()},
                          "undeclared": {nm(a): sorted(v) for a, v in sm["w"].items() if a not in f["outs"]},
                          "result_may_be": sorted(nm(a) for a in sm["ro"]), "result_elements_may_be": sorted(nm(a) for a in sm["re"])}
    return out


def known_unsafe_functions():
    """Functions that /verif/known_findings.json lists (status known, property C17) as writing an argument:
    they are *expected* to be rejected by the analysis; every other function must be accepted."""
    import json
    path = os.path.join(os.path.dirname(os.path.dirname(os.path.dirname(os.path.abspath(__file__)))), "known_findings.json")
    out = []
    if os.path.exists(path):
        for k in json.load(open(path)).get("findings", []):
            if k.get("property") == "C17" and k.get("status") == "known":
                out += k.get("unsafe_functions", [])
    return sorted(set(out))


if __name__ == "__main__":
    info = translate(sys.argv[1] if len(sys.argv) > 1 else "/repo")
    sys.stdout.write(emit(info))
