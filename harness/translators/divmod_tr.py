"""Translator: numpoly/poly_function/divide/divmod.py (+ the operator methods of baseclass.py,
divide.py, remainder.py) -> coq/Gen/GenDivmod.v

Facts extracted by `ast` (statement shapes compared after ast.unparse normalisation; anything
else fails closed):
  order_desc     divisor and dividend terms are visited from the largest down in numpy.lexsort order
  leading_rule   a divisor element is included for term idx2 iff its coefficient there is non-zero and
                 every term further out in that order has coefficient zero (idx2 is its leading term)
  divisible      a dividend term is skipped when some exponent is smaller than the divisor term's
  nonzero_only   only dividend elements with a non-zero coefficient take part
  quotient_coef  candidate = dividend coefficient / divisor coefficient (true division)
  update_masked  quotient += where(include, candidate * monomial, 0);  dividend -= where(include, divisor * candidate, 0)
  loop_until_none  the loop ends exactly when no candidate is left
  operators      __truediv__/__rtruediv__/__mod__/__rmod__/__divmod__/__rdivmod__ call poly_divide /
                 poly_remainder / poly_divmod with the operands in the right order, and poly_divide /
                 poly_remainder return the first / second component of poly_divmod
"""
from __future__ import annotations

import ast
import os

GEN_NAME = "GenDivmod.v"


class TranslatorError(Exception):
    pass


def _fn(tree, name):
    for n in ast.walk(tree):
        if isinstance(n, ast.FunctionDef) and n.name == name:
            return n
    raise TranslatorError(f"def {name} not found")


def facts(repo):
    src = open(os.path.join(repo, "numpoly", "poly_function", "divide", "divmod.py")).read()
    tree = ast.parse(src)
    gdc = _fn(tree, "get_division_candidate")
    body = ast.unparse(gdc)
    f = {}
    # ---- outer loop: order2 = numpy.lexsort(x2.exponents.T); for position2 in reversed(range(len(order2)))
    outer = [n for n in gdc.body if isinstance(n, ast.For)]
    if len(outer) != 1:
        raise TranslatorError("get_division_candidate: expected one outer loop")
    outer = outer[0]
    pre = [ast.unparse(s) for s in gdc.body if isinstance(s, ast.Assign)]
    if ast.unparse(outer.iter) == "reversed(numpy.lexsort(x2.exponents.T))":
        order_desc2, leading_shape = True, "legacy"
    elif "order2 = numpy.lexsort(x2.exponents.T)" in pre and ast.unparse(outer.iter) == "reversed(range(len(order2)))":
        order_desc2, leading_shape = True, "positional"
    else:
        raise TranslatorError(f"unrecognised divisor enumeration: {ast.unparse(outer.iter)}")
    stmts = [ast.unparse(s) for s in outer.body]
    # ---- include2 rule
    leading = False
    if leading_shape == "positional":
        need = ["idx2 = order2[position2]", "exponent2 = x2.exponents[idx2]", "include2 = x2.coefficients[idx2] != 0"]
        if stmts[:3] != need:
            raise TranslatorError(f"unrecognised include2 initialisation: {stmts[:3]}")
        loop = outer.body[3]
        if not (isinstance(loop, ast.For) and ast.unparse(loop.iter) == "order2[position2 + 1:]" and len(loop.body) == 1
                and ast.unparse(loop.body[0]) in (f"include2 = include2 & (x2.coefficients[{loop.target.id}] == 0)",
                                                  f"include2 &= x2.coefficients[{loop.target.id}] == 0")):
            raise TranslatorError("unrecognised include2 loop")
        leading = True
        rest = outer.body[4:]
    else:
        # legacy rule: terms that are maximal for divisibility (does not guarantee termination)
        leading = False
        if not (stmts[0] == "exponent2 = x2.exponents[idx2]" and stmts[1].startswith("include2 =") and isinstance(outer.body[2], ast.For)):
            raise TranslatorError("unrecognised legacy include2 block")
        rest = outer.body[3:]
    f["order_desc"] = order_desc2
    f["leading_rule"] = leading
    if ast.unparse(rest[0]) != "if not numpy.any(include2):\n    continue":
        raise TranslatorError("missing 'if not numpy.any(include2): continue'")
    inner = rest[1]
    if not (isinstance(inner, ast.For) and ast.unparse(inner.iter) == "reversed(numpy.lexsort(x1.exponents.T))"):
        raise TranslatorError("unrecognised dividend enumeration")
    istm = [ast.unparse(s) for s in inner.body]
    f["divisible"] = "if numpy.any(exponent1 < exponent2):\n    continue" in istm
    f["nonzero_only"] = "include1 = x1.coefficients[idx1] != 0" in istm and "include = include1 & include2" in istm \
        and "if not numpy.any(include):\n    continue" in istm
    f["quotient_coef"] = "candidate = x1.coefficients[idx1] / numpy.where(include, x2.coefficients[idx2], 1)" in istm
    # the cut-off below which a candidate is skipped: the documented default 1e-30 (anything larger silently leaves
    # small but legitimate quotient terms in the remainder)
    args = gdc.args
    defaults = dict(zip([a.arg for a in args.args][len(args.args) - len(args.defaults):], args.defaults))
    f["cutoff_default"] = ("cutoff" in defaults and isinstance(defaults["cutoff"], ast.Constant) and defaults["cutoff"].value == 1e-30
                           and "if numpy.all(numpy.abs(candidate) < cutoff):\n    continue" in istm)
    f["returns_first"] = istm[-1] == "return (idx1, idx2, include, candidate)" and ast.unparse(gdc.body[-1]) == "return None"
    # ---- poly_divmod loop
    pd = _fn(tree, "poly_divmod")
    wl = [n for n in ast.walk(pd) if isinstance(n, ast.While)]
    if len(wl) != 1 or ast.unparse(wl[0].test) != "True":
        raise TranslatorError("poly_divmod: expected one 'while True' loop")
    w = [ast.unparse(s) for s in wl[0].body]
    f["loop_until_none"] = w[0] == "candidates = get_division_candidate(dividend_, divisor)" and \
        w[1] == "if candidates is None:\n    break"
    f["update_masked"] = ("exponent_diff = dividend_.exponents[idx1] - divisor.exponents[idx2]" in w
                          and "candidate = candidate * numpoly.prod(divisor.indeterminants ** exponent_diff, 0)" in w
                          and "quotient = numpoly.add(quotient, numpoly.where(include, candidate, 0), **kwargs)" in w
                          and "dividend_ = numpoly.subtract(dividend_, numpoly.where(include, divisor * candidate, 0), **kwargs)" in w)
    f["returns_pair"] = ast.unparse(pd.body[-1]) == "return (quotient, dividend_)"
    # ---- operators
    base = ast.parse(open(os.path.join(repo, "numpoly", "baseclass.py")).read())
    want = {"__truediv__": "return numpoly.poly_divide(self, value)", "__rtruediv__": "return numpoly.poly_divide(value, self)",
            "__mod__": "return numpoly.poly_remainder(self, value)", "__rmod__": "return numpoly.poly_remainder(value, self)",
            "__divmod__": "return numpoly.poly_divmod(self, value)", "__rdivmod__": "return numpoly.poly_divmod(value, self)"}
    ops_ok = True
    for nm, ret in want.items():
        fn = _fn(base, nm)
        sts = [s for s in fn.body if not (isinstance(s, ast.Expr) and isinstance(s.value, ast.Constant))]
        ops_ok = ops_ok and len(sts) == 1 and ast.unparse(sts[0]) == ret
    for fname, func, comp in (("divide.py", "poly_divide", 0), ("remainder.py", "poly_remainder", 1)):
        t = ast.parse(open(os.path.join(repo, "numpoly", "poly_function", "divide", fname)).read())
        fn = _fn(t, func)
        sts = [s for s in fn.body if not (isinstance(s, ast.Expr) and isinstance(s.value, ast.Constant))]
        if len(sts) != 2 or not isinstance(sts[0], ast.Assign) or not isinstance(sts[0].targets[0], ast.Tuple):
            raise TranslatorError(f"{func}: unrecognised body")
        names = [e.id for e in sts[0].targets[0].elts]
        ops_ok = ops_ok and ast.unparse(sts[0].value) == "poly_divmod(x1, x2, out=out, where=where, **kwargs)" \
            and ast.unparse(sts[1]) == f"return {names[comp]}"
    f["operators"] = ops_ok
    return f


KEYS = ["order_desc", "leading_rule", "divisible", "nonzero_only", "quotient_coef", "cutoff_default", "returns_first", "loop_until_none",
        "update_masked", "returns_pair", "operators"]


def generate(repo, coq_dir):
    f = facts(repo)
    b = lambda x: "true" if x else "false"  # noqa: E731
    text = ("(* GENERATED by harness/translators/divmod_tr.py from divmod.py, divide.py, remainder.py, baseclass.py — do not edit. *)\n"
            "From mathcomp Require Import all_ssreflect.\n"
            "(* " + ", ".join(KEYS) + " *)\n"
            f"Definition gen_divmod_facts : seq bool := [:: {'; '.join(b(f[k]) for k in KEYS)}].\n")
    path = os.path.join(coq_dir, "Gen", GEN_NAME)
    os.makedirs(os.path.dirname(path), exist_ok=True)
    if not os.path.exists(path) or open(path).read() != text:
        with open(path, "w") as fh:
            fh.write(text)
    return f
